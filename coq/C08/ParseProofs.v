(* C08 -- the model of the _GD_Parse* functions (ParseImpl.v) computes what
   the specification of field specification lines (LineSpec.v) says (proofs). *)
From Coq Require Import List NArith ZArith Bool Arith String Ascii Lia.
From GD Require Import C08.Standards C08.LitSpec C08.Literal C08.LineSpec C08.ParseImpl.
Import ListNotations.
Open Scope string_scope.
Open Scope N_scope.

Section Agree.
  Variable F : Type.
  Variable fval : list N -> F.
  Variable ferange : list N -> bool.
  Variable f_of_Z : Z -> F.
  Variable f_zero : F.
  Variable f_is_zero : F -> bool.
  Variable f_neg : F -> bool.
  Variable f_trunc_u : F -> Z.
  Variable f_trunc_i : F -> Z.
  Variable f_small : F -> bool.
  Variable cf : cfg.
  Variable tbl : gname -> nat.
  Variables (ped : bool) (st : nat).

  Notation SC := (sc F fval ferange f_of_Z f_zero f_is_zero f_neg f_trunc_u f_trunc_i f_small cf ped st).
  Notation ISCAL := (iscal F fval ferange f_of_Z f_zero f_is_zero f_neg f_trunc_u f_trunc_i f_small cf ped st).
  Notation SPEC := (spec_line F fval ferange f_of_Z f_zero f_is_zero f_neg f_trunc_u f_trunc_i f_small cf tbl ped st).
  Notation IMPL := (impl_line F fval ferange f_of_Z f_zero f_is_zero f_neg f_trunc_u f_trunc_i f_small cf tbl ped st).

  (* _GD_SetScalar with the error register against the classification of Literal.v *)
  Lemma iscal_none : forall w t,
    match SC w t with
    | SLiteral _ v => ISCAL None w t = (IP_lit F (Some v), None)
    | SField _ c ix => ISCAL None w t = (IP_field F c ix, None)
    | SError _ => ISCAL None w t = (IP_lit F None, Some 19%nat)
    end.
  Proof.
    intros w t. unfold sc, iscal, set_scalar.
    destruct (toktonum F fval ferange f_of_Z f_zero f_is_zero f_neg
                (match w with WSigned => f_trunc_i | _ => f_trunc_u end) f_small cf ped st w t);
      try reflexivity.
    destruct (carray_check [] t). reflexivity.
  Qed.

  Lemma iscal_some : forall e w t,
    match SC w t with
    | SLiteral _ v => ISCAL (Some e) w t = (IP_lit F (Some v), Some e)
    | SField _ c ix => ISCAL (Some e) w t = (IP_lit F None, Some e)
    | SError _ => ISCAL (Some e) w t = (IP_lit F None, Some 19%nat)
    end.
  Proof.
    intros e w t. unfold sc, iscal, set_scalar.
    destruct (toktonum F fval ferange f_of_Z f_zero f_is_zero f_neg
                (match w with WSigned => f_trunc_i | _ => f_trunc_u end) f_small cf ped st w t);
      try reflexivity.
    destruct (carray_check [] t). reflexivity.
  Qed.

  Ltac sc_none w t :=
    let H := fresh "IS" in
    pose proof (iscal_none w t) as H; destruct (SC w t) eqn:?; rewrite H; clear H.
  Ltac sc_some e w t :=
    let H := fresh "IS" in
    pose proof (iscal_some e w t) as H; destruct (SC w t) eqn:?; rewrite H; clear H.

  Lemma phase_ok : forall toks, p_phase F fval ferange f_of_Z f_zero f_is_zero f_neg f_trunc_u f_trunc_i f_small cf ped st toks =
    (if (List.length toks <? 4)%nat then LErr F N_TOK
     else let s := SC WSigned (tok toks 3) in
          if is_err F s then LErr F LITERAL else LOk F (E_PHASE F (tok toks 2) s)).
  Proof.
    intro toks. unfold p_phase. destruct (List.length toks <? 4)%nat; [reflexivity|].
    sc_none WSigned (tok toks 3); reflexivity.
  Qed.

  Lemma recip_ok : forall toks, p_recip F fval ferange f_of_Z f_zero f_is_zero f_neg f_trunc_u f_trunc_i f_small cf ped st toks =
    (if (List.length toks <? 4)%nat then LErr F N_TOK
     else let s := SC WComplex (tok toks 3) in
          if is_err F s then LErr F LITERAL else LOk F (E_RECIP F (tok toks 2) s)).
  Proof.
    intro toks. unfold p_recip. destruct (List.length toks <? 4)%nat; [reflexivity|].
    sc_none WComplex (tok toks 3); reflexivity.
  Qed.

  (* the kind of literal a request can produce *)
  Lemma sc_signed_lit : forall t v, SC WSigned t = SLiteral F v -> exists i, v = NumI F i.
  Proof.
    intros t v H. unfold sc, set_scalar, toktonum in H.
    cbv beta iota zeta in H.
    match type of H with context [scan_part ?x1 ?x2 ?x3 ?x4 ?x5 ?x6 ?x7 ?x8 ?x9 ?x10] => destruct (scan_part x1 x2 x3 x4 x5 x6 x7 x8 x9 x10) as [[rt e]|] end; [|try discriminate; destruct (carray_check [] t); discriminate].
    destruct (nth_error t e).
    - match type of H with context [scan_part ?x1 ?x2 ?x3 ?x4 ?x5 ?x6 ?x7 ?x8 ?x9 ?x10] => destruct (scan_part x1 x2 x3 x4 x5 x6 x7 x8 x9 x10) as [[it e2]|] end; [|try discriminate; destruct (carray_check [] t); discriminate].
      destruct (nt_is_zero F f_is_zero it); [|try discriminate; destruct (carray_check [] t); discriminate].
      destruct rt; inversion H; eauto.
    - destruct rt; inversion H; eauto.
  Qed.

  Lemma sc_unsigned_lit : forall t v, SC WUnsigned t = SLiteral F v -> exists u, v = NumU F u.
  Proof.
    intros t v H. unfold sc, set_scalar, toktonum in H.
    cbv beta iota zeta in H.
    match type of H with context [scan_part ?x1 ?x2 ?x3 ?x4 ?x5 ?x6 ?x7 ?x8 ?x9 ?x10] => destruct (scan_part x1 x2 x3 x4 x5 x6 x7 x8 x9 x10) as [[rt e]|] end; [|try discriminate; destruct (carray_check [] t); discriminate].
    destruct (nth_error t e).
    - match type of H with context [scan_part ?x1 ?x2 ?x3 ?x4 ?x5 ?x6 ?x7 ?x8 ?x9 ?x10] => destruct (scan_part x1 x2 x3 x4 x5 x6 x7 x8 x9 x10) as [[it e2]|] end; [|try discriminate; destruct (carray_check [] t); discriminate].
      destruct (nt_is_zero F f_is_zero it); [|try discriminate; destruct (carray_check [] t); discriminate].
      destruct rt; try (inversion H; eauto; fail).
      + destruct (v0 <? 0)%Z; inversion H; eauto.
      + destruct (f_neg d); inversion H; eauto.
    - destruct rt; try (inversion H; eauto; fail).
      + destruct (v0 <? 0)%Z; inversion H; eauto.
      + destruct (f_neg d); inversion H; eauto.
  Qed.

  Notation PARGS := (F) (only parsing).

  (* a literal produced for an int request, made explicit *)
  Ltac lit_signed H := let i := fresh "i" in destruct (sc_signed_lit _ _ H) as [i ->].
  Ltac lit_unsigned H := let u := fresh "u" in destruct (sc_unsigned_lit _ _ H) as [u ->].

  Ltac dcase := repeat match goal with |- context [if ?c then _ else _] => destruct c end; try reflexivity.

  Lemma bit_ok : forall sg toks,
    p_bit F fval ferange f_of_Z f_zero f_is_zero f_neg f_trunc_u f_trunc_i f_small cf ped st sg toks =
    (let n := List.length toks in
     if (n <? 4)%nat then LErr F N_TOK
     else
       let bn := SC WSigned (tok toks 3) in
       let nb := if (4 <? n)%nat then SC WSigned (tok toks 4) else SLiteral F (NumI F 1%Z) in
       let val s := if is_err F s then Some 0%Z else option_map wrap32 (lit_int F s) in
       let lit_err := is_err F bn || is_err F nb in
       let ok := if lit_err then LErr F LITERAL else LOk F (E_BIT F sg (tok toks 2) bn nb) in
       let nbv := if is_err F bn then match nb with SField _ _ _ => Some 0%Z | _ => val nb end else val nb in
       match nbv, val bn with
       | Some w, Some b => if (w <? 1)%Z then LErr F 4
                           else if (b <? 0)%Z then LErr F 5
                           else if (63 <? b + w - 1)%Z then LErr F 6 else ok
       | Some w, None => if (w <? 1)%Z then LErr F 4 else ok
       | None, Some b => if (b <? 0)%Z then LErr F 5 else ok
       | None, None => ok
       end).
  Proof.
    intros sg toks. unfold p_bit. cbv zeta.
    destruct (List.length toks <? 4)%nat; [reflexivity|].
    assert (R: forall b w : Z, (64 - w <? b)%Z = (63 <? b + w - 1)%Z).
    { intros. destruct (Z.ltb_spec (64 - w) b), (Z.ltb_spec 63 (b + w - 1)); try reflexivity; lia. }
    pose proof (iscal_none WSigned (tok toks 3)) as I1.
    destruct (SC WSigned (tok toks 3)) as [v1|c1 x1|] eqn:S1; rewrite I1; clear I1.
    - (* bitnum literal *)
      lit_signed S1.
      destruct (4 <? List.length toks)%nat.
      + pose proof (iscal_none WSigned (tok toks 4)) as I2.
        destruct (SC WSigned (tok toks 4)) as [v2|c2 x2|] eqn:S2; rewrite I2; clear I2.
        * lit_signed S2. cbv beta iota zeta. rewrite R. simpl. dcase.
        * simpl. dcase.
        * simpl. reflexivity.
      + cbv beta iota zeta. rewrite R. simpl. dcase.
    - (* bitnum is a field code *)
      destruct (4 <? List.length toks)%nat.
      + pose proof (iscal_none WSigned (tok toks 4)) as I2.
        destruct (SC WSigned (tok toks 4)) as [v2|c2 x2|] eqn:S2; rewrite I2; clear I2.
        * lit_signed S2. simpl. dcase.
        * simpl. reflexivity.
        * simpl. reflexivity.
      + simpl. reflexivity.
    - (* bitnum malformed: LITERAL pending, value 0 *)
      destruct (4 <? List.length toks)%nat.
      + pose proof (iscal_some 19%nat WSigned (tok toks 4)) as I2.
        destruct (SC WSigned (tok toks 4)) as [v2|c2 x2|] eqn:S2; rewrite I2; clear I2.
        * lit_signed S2. cbv beta iota zeta. rewrite R. simpl. dcase.
        * simpl. reflexivity.
        * simpl. reflexivity.
      + simpl. reflexivity.
  Qed.

  Lemma mplex_ok : forall toks,
    p_mplex F fval ferange f_of_Z f_zero f_is_zero f_neg f_trunc_u f_trunc_i f_small cf ped st toks =
    (let n := List.length toks in
     if (n <? 5)%nat then LErr F N_TOK
     else
       let c := SC WSigned (tok toks 4) in
       let p := if (5 <? n)%nat then SC WSigned (tok toks 5) else SLiteral F (NumI F 0%Z) in
       let ok := if is_err F c || is_err F p then LErr F LITERAL else LOk F (E_MPLEX F (tok toks 2) (tok toks 3) c p) in
       match option_map wrap32 (lit_int F p) with
       | Some v => if (v <? 0)%Z then LErr F 23 else ok
       | None => ok
       end).
  Proof.
    intro toks. unfold p_mplex. cbv zeta.
    destruct (List.length toks <? 5)%nat; [reflexivity|].
    pose proof (iscal_none WSigned (tok toks 4)) as I1.
    destruct (SC WSigned (tok toks 4)) as [v1|c1 x1|] eqn:S1; rewrite I1; clear I1;
      (destruct (5 <? List.length toks)%nat; [|simpl; reflexivity]).
    - pose proof (iscal_none WSigned (tok toks 5)) as I2.
      destruct (SC WSigned (tok toks 5)) as [v2|c2 x2|] eqn:S2; rewrite I2; clear I2;
        [lit_signed S2|..]; simpl; dcase.
    - pose proof (iscal_none WSigned (tok toks 5)) as I2.
      destruct (SC WSigned (tok toks 5)) as [v2|c2 x2|] eqn:S2; rewrite I2; clear I2;
        [lit_signed S2|..]; simpl; dcase.
    - pose proof (iscal_some 19%nat WSigned (tok toks 5)) as I2.
      destruct (SC WSigned (tok toks 5)) as [v2|c2 x2|] eqn:S2; rewrite I2; clear I2;
        [lit_signed S2|..]; simpl; dcase.
  Qed.

  Lemma raw_ok : forall toks,
    p_raw F fval ferange f_of_Z f_zero f_is_zero f_neg f_trunc_u f_trunc_i f_small cf tbl ped st toks =
    (if (List.length toks <? 4)%nat then LErr F N_TOK
     else match type_code tbl ped st (tok toks 2) with
          | None | Some 0 => LErr F BAD_TYPE
          | Some t =>
              let s := SC WUnsigned (tok toks 3) in
              if is_err F s then LErr F LITERAL
              else match lit_int F s with
                   | Some v => if (v mod 2 ^ 32 =? 0)%Z then LErr F 1 else LOk F (E_RAW F t s)
                   | None => LOk F (E_RAW F t s)
                   end
          end).
  Proof.
    intro toks. unfold p_raw. destruct (List.length toks <? 4)%nat; [reflexivity|].
    destruct (type_code tbl ped st (tok toks 2)) as [[|ty]|]; try reflexivity.
    cbn [gd_size0].
    pose proof (iscal_none WUnsigned (tok toks 3)) as I1.
    destruct (SC WUnsigned (tok toks 3)) as [v1|c1 x1|] eqn:S1; rewrite I1; clear I1.
    - lit_unsigned S1. cbn [uval32 is_field negb lit_int is_err to_sc finish_].
      assert (M: (u mod 2 ^ 32 <=? 0)%Z = (u mod 2 ^ 32 =? 0)%Z).
      { assert (0 <= u mod 2 ^ 32)%Z by (apply Z.mod_pos_bound; lia).
        destruct (Z.leb_spec (u mod 2 ^ 32) 0), (Z.eqb_spec (u mod 2 ^ 32) 0); try reflexivity; lia. }
      rewrite M. destruct (u mod 2 ^ 32 =? 0)%Z; reflexivity.
    - reflexivity.
    - reflexivity.
  Qed.

  Ltac eqcases :=
    repeat match goal with
    | |- context [N.eqb ?a ?b] => destruct (N.eqb_spec a b); subst; simpl; try reflexivity; try congruence
    end.

  Lemma wind_op_ok : forall t, window_op t = match wind_op t with O => None | n => Some n end.
  Proof.
    intro t. unfold window_op, wind_op, one, two, is, bytes. simpl.
    destruct t as [|a [|b [|c [|d r]]]]; simpl; try reflexivity; eqcases.
  Qed.

  Lemma window_ok : forall toks,
    p_window F fval ferange f_of_Z f_zero f_is_zero f_neg f_trunc_u f_trunc_i f_small cf ped st toks =
    (if (List.length toks <? 6)%nat then LErr F N_TOK
     else match window_op (tok toks 4) with
          | None => LErr F 20
          | Some op =>
              let w := if (op =? 1)%nat || (op =? 6)%nat then WSigned
                       else if (op =? 7)%nat || (op =? 8)%nat then WUnsigned else WFloat in
              let s := SC w (tok toks 5) in
              if is_err F s then LErr F LITERAL else LOk F (E_WINDOW F (tok toks 2) (tok toks 3) op s)
          end).
  Proof.
    intro toks. unfold p_window. destruct (List.length toks <? 6)%nat; [reflexivity|].
    rewrite wind_op_ok. destruct (wind_op (tok toks 4)) as [|k]; [reflexivity|].
    do 9 (destruct k as [|k];
          [ cbv beta iota zeta; simpl Nat.eqb; simpl orb; cbv iota;
            match goal with |- context [ISCAL None ?w ?t] =>
              let H := fresh in pose proof (iscal_none w t) as H; destruct (SC w t); rewrite H; reflexivity end | ]).
    cbv beta iota zeta. simpl Nat.eqb. simpl orb. cbv iota.
    match goal with |- context [ISCAL None ?w ?t] =>
      let H := fresh in pose proof (iscal_none w t) as H; destruct (SC w t); rewrite H; reflexivity end.
  Qed.

  Lemma type_code_want : forall t ty,
    type_code tbl ped st t = Some ty -> ty <> 0 -> const_want ty = want_of_type ty.
  Proof.
    intros t ty H NZ. unfold type_code in H.
    destruct t as [|c [|c2 r]];
      repeat match type of H with context [if ?c then _ else _] => destruct c end;
      try discriminate; inversion H; subst; try reflexivity; contradiction NZ; reflexivity.
  Qed.

  Lemma const_ok : forall toks,
    p_const F fval ferange f_of_Z f_zero f_is_zero f_neg f_trunc_u f_trunc_i f_small cf tbl ped st toks =
    (if (List.length toks <? 4)%nat then LErr F N_TOK
     else match type_code tbl ped st (tok toks 2) with
          | None | Some 0 => LErr F BAD_TYPE
          | Some t => match SC (want_of_type t) (tok toks 3) with
                      | SLiteral _ _ => LOk F (E_CONST F t)
                      | _ => LErr F LITERAL
                      end
          end).
  Proof.
    intro toks. unfold p_const. destruct (List.length toks <? 4)%nat; [reflexivity|].
    destruct (type_code tbl ped st (tok toks 2)) as [[|ty]|] eqn:TC; try reflexivity.
    cbn [gd_size0]. rewrite (type_code_want _ _ TC) by discriminate.
    pose proof (iscal_none (want_of_type (N.pos ty)) (tok toks 3)) as I1.
    destruct (SC (want_of_type (N.pos ty)) (tok toks 3)); rewrite I1; reflexivity.
  Qed.

  (* CARRAY: the spool loop stops with LITERAL at the first field code; a
     malformed number leaves LITERAL pending *)
  Lemma spool_ok : forall w ts e,
    e = None \/ e = Some 19%nat ->
    spool F fval ferange f_of_Z f_zero f_is_zero f_neg f_trunc_u f_trunc_i f_small cf ped st e w ts =
    if forallb (fun x => match SC w x with SLiteral _ _ => true | _ => false end) ts
    then e else Some 19%nat.
  Proof.
    induction ts as [|t r IH]; intros e He; simpl; [reflexivity|].
    destruct He as [-> | ->].
    - pose proof (iscal_none w t) as I. destruct (SC w t); rewrite I; simpl.
      + apply IH. left; reflexivity.
      + reflexivity.
      + rewrite IH by (right; reflexivity). destruct (forallb _ r); reflexivity.
    - pose proof (iscal_some 19%nat w t) as I. destruct (SC w t); rewrite I; simpl.
      + apply IH. right; reflexivity.
      + rewrite IH by (right; reflexivity). destruct (forallb _ r); reflexivity.
      + rewrite IH by (right; reflexivity). destruct (forallb _ r); reflexivity.
  Qed.

  Lemma carray_ok : forall toks,
    p_carray F fval ferange f_of_Z f_zero f_is_zero f_neg f_trunc_u f_trunc_i f_small cf tbl ped st toks =
    (let n := List.length toks in
     if (n <? 4)%nat then LErr F N_TOK
     else match type_code tbl ped st (tok toks 2) with
          | None | Some 0 => LErr F BAD_TYPE
          | Some t =>
              if forallb (fun x => match SC (want_of_type t) x with SLiteral _ _ => true | _ => false end) (skipn 3 toks)
              then LOk F (E_CARRAY F t (n - 3)) else LErr F LITERAL
          end).
  Proof.
    intro toks. unfold p_carray. cbv zeta. destruct (List.length toks <? 4)%nat; [reflexivity|].
    destruct (type_code tbl ped st (tok toks 2)) as [[|ty]|] eqn:TC; try reflexivity.
    cbn [gd_size0]. rewrite (type_code_want _ _ TC) by discriminate.
    rewrite spool_ok by (left; reflexivity).
    destruct (forallb _ (skipn 3 toks)); reflexivity.
  Qed.

  Lemma iscals_ok : forall w ts e0 ps e,
    e0 = None \/ e0 = Some 19%nat ->
    iscals F fval ferange f_of_Z f_zero f_is_zero f_neg f_trunc_u f_trunc_i f_small cf ped st e0 w ts = (ps, e) ->
    e = (if any_err F (map (SC w) ts) then Some 19%nat else e0) /\
    (e = None -> map (to_sc F) ps = map (SC w) ts).
  Proof.
    induction ts as [|t r IH]; intros e0 ps e He H; simpl in H.
    - inversion H; subst. split; reflexivity.
    - destruct (ISCAL e0 w t) as [p e1] eqn:I.
      destruct (iscals F fval ferange f_of_Z f_zero f_is_zero f_neg f_trunc_u f_trunc_i f_small cf ped st e1 w r) as [ps' e2] eqn:R.
      inversion H; subst ps e; clear H.
      destruct He as [-> | ->].
      + pose proof (iscal_none w t) as J. rewrite I in J.
        destruct (SC w t) eqn:S; inversion J; subst p e1; clear J.
        * destruct (IH None ps' e2 (or_introl eq_refl) R) as [A B]. simpl. unfold any_err in *. simpl. rewrite S. simpl.
          split; [assumption|]. intro Z. rewrite (B Z). reflexivity.
        * destruct (IH None ps' e2 (or_introl eq_refl) R) as [A B]. simpl. unfold any_err in *. simpl. rewrite S. simpl.
          split; [assumption|]. intro Z. rewrite (B Z). reflexivity.
        * destruct (IH (Some 19%nat) ps' e2 (or_intror eq_refl) R) as [A B]. unfold any_err in *. simpl. rewrite S. simpl.
          split; [rewrite A; destruct (existsb _ _); reflexivity|].
          intro Z. rewrite A in Z. destruct (existsb _ _); discriminate.
      + pose proof (iscal_some 19%nat w t) as J. rewrite I in J.
        destruct (IH e1 ps' e2) as [A B]; [destruct (SC w t); inversion J; subst; right; reflexivity | exact R |].
        assert (E1: e1 = Some 19%nat) by (destruct (SC w t); inversion J; reflexivity). subst e1.
        split.
        * rewrite A. unfold any_err. simpl. destruct (is_err F (SC w t)); simpl; destruct (existsb _ _); reflexivity.
        * intro Z. rewrite A in Z. destruct (any_err F (map (SC w) r)); discriminate.
  Qed.

  Lemma polynom_ok : forall toks,
    p_polynom F fval ferange f_of_Z f_zero f_is_zero f_neg f_trunc_u f_trunc_i f_small cf ped st toks =
    (let n := List.length toks in
     if (n <? 5)%nat then LErr F N_TOK
     else let ord := Nat.min (n - 4) 5 in
          let a := map (SC WComplex) (firstn (S ord) (skipn 3 toks)) in
          if any_err F a then LErr F LITERAL else LOk F (E_POLYNOM F ord (tok toks 2) a)).
  Proof.
    intro toks. unfold p_polynom. cbv zeta. destruct (List.length toks <? 5)%nat; [reflexivity|].
    assert (O: (if (5 <? List.length toks - 4)%nat then 5%nat else (List.length toks - 4)%nat) = Nat.min (List.length toks - 4) 5).
    { destruct (Nat.ltb_spec 5 (List.length toks - 4)); lia. }
    rewrite O.
    destruct (iscals F fval ferange f_of_Z f_zero f_is_zero f_neg f_trunc_u f_trunc_i f_small cf ped st None WComplex
                (firstn (S (Nat.min (List.length toks - 4) 5)) (skipn 3 toks))) as [ps e] eqn:I.
    destruct (iscals_ok _ _ _ _ _ (or_introl eq_refl) I) as [A B]. subst e.
    destruct (any_err F _) eqn:AE; [reflexivity|]. simpl. rewrite (B eq_refl). reflexivity.
  Qed.

  Lemma iscal_gen : forall e0 w t p e1,
    e0 = None \/ e0 = Some 19%nat ->
    ISCAL e0 w t = (p, e1) ->
    e1 = (if is_err F (SC w t) then Some 19%nat else e0) /\
    (e1 = None -> to_sc F p = SC w t) /\ (e1 = None \/ e1 = Some 19%nat).
  Proof.
    intros e0 w t p e1 [-> | ->] H.
    - pose proof (iscal_none w t) as J. rewrite H in J.
      destruct (SC w t); inversion J; subst; simpl; repeat split; try reflexivity; try (intro; discriminate); auto.
    - pose proof (iscal_some 19%nat w t) as J. rewrite H in J.
      destruct (SC w t); inversion J; subst; simpl; repeat split; try reflexivity; try (intro; discriminate); auto.
  Qed.

  Lemma itriples_ok : forall n l e0 fs pms pbs e,
    e0 = None \/ e0 = Some 19%nat ->
    itriples F fval ferange f_of_Z f_zero f_is_zero f_neg f_trunc_u f_trunc_i f_small cf ped st e0 n l = (fs, pms, pbs, e) ->
    match triples F fval ferange f_of_Z f_zero f_is_zero f_neg f_trunc_u f_trunc_i f_small cf ped st n l with
    | (fs', ms, bs) =>
        fs = fs' /\ e = (if any_err F ms || any_err F bs then Some 19%nat else e0) /\
        (e = None -> map (to_sc F) pms = ms /\ map (to_sc F) pbs = bs)
    end.
  Proof.
    induction n as [|n IH]; intros l e0 fs pms pbs e He H.
    - simpl in *. inversion H; subst. repeat split; reflexivity.
    - destruct l as [|f [|m [|b r]]]; try (simpl in *; inversion H; subst; repeat split; reflexivity).
      cbn [itriples] in H. cbn [triples].
      destruct (ISCAL e0 WComplex m) as [pm e1] eqn:I1.
      destruct (ISCAL e1 WComplex b) as [pb e2] eqn:I2.
      destruct (itriples F fval ferange f_of_Z f_zero f_is_zero f_neg f_trunc_u f_trunc_i f_small cf ped st e2 n r)
        as [[[fs1 ms1] bs1] e3] eqn:I3.
      inversion H; subst fs pms pbs e; clear H.
      destruct (iscal_gen _ _ _ _ _ He I1) as (A1 & B1 & C1).
      destruct (iscal_gen _ _ _ _ _ C1 I2) as (A2 & B2 & C2).
      specialize (IH r e2 fs1 ms1 bs1 e3 C2 I3).
      destruct (triples F fval ferange f_of_Z f_zero f_is_zero f_neg f_trunc_u f_trunc_i f_small cf ped st n r)
        as [[fs' ms'] bs'].
      destruct IH as (F1 & F2 & F3). subst fs1.
      split; [reflexivity|]. unfold any_err in *. cbn [existsb].
      split.
      + rewrite F2, A2, A1.
        destruct (is_err F (SC WComplex m)), (is_err F (SC WComplex b)),
                 (existsb (is_err F) ms'), (existsb (is_err F) bs'); simpl; try reflexivity;
          destruct He as [-> | ->]; reflexivity.
      + intro Z0. pose proof Z0 as Z. rewrite F2 in Z.
        assert (E2: e2 = None).
        { destruct (existsb (is_err F) ms' || existsb (is_err F) bs'); [discriminate|assumption]. }
        assert (E1: e1 = None).
        { rewrite A2 in E2. destruct (is_err F (SC WComplex b)); [discriminate|assumption]. }
        destruct (F3 Z0) as [G1 G2]. cbn [map]. rewrite (B1 E1), (B2 E2), G1, G2. split; reflexivity.
  Qed.

  Lemma lincom_ok : forall toks,
    p_lincom F fval ferange f_of_Z f_zero f_is_zero f_neg f_trunc_u f_trunc_i f_small cf tbl ped st toks =
    (let n := List.length toks in
     if (n <? 3)%nat then LErr F N_TOK
     else
       let '(cv, ce, _) := c_strtoll 10 (tok toks 2) in
       let counted := (ce =? List.length (tok toks 2))%nat in
       if negb counted && (negb ped || (tbl S_LINCOM_COUNT_OPTIONAL <=? st)%nat) then
         let k := ((n - 2) / 3)%nat in
         if negb ((n mod 3 =? 2)%nat) || (k <? 1)%nat || (3 <? k)%nat then LErr F N_TOK
         else let '(fs, ms, bs) := triples F fval ferange f_of_Z f_zero f_is_zero f_neg f_trunc_u f_trunc_i f_small cf ped st k (skipn 2 toks) in
              if any_err F ms || any_err F bs then LErr F LITERAL else LOk F (E_LINCOM F k fs ms bs)
       else
         let k := wrap32 cv in
         if (k <? 1)%Z || (3 <? k)%Z then LErr F 2
         else if (n <? Z.to_nat k * 3 + 3)%nat then LErr F N_TOK
         else let '(fs, ms, bs) := triples F fval ferange f_of_Z f_zero f_is_zero f_neg f_trunc_u f_trunc_i f_small cf ped st (Z.to_nat k) (skipn 3 toks) in
              if any_err F ms || any_err F bs then LErr F LITERAL else LOk F (E_LINCOM F (Z.to_nat k) fs ms bs)).
  Proof.
    intro toks. unfold p_lincom. cbv zeta. destruct (List.length toks <? 3)%nat; [reflexivity|].
    destruct (c_strtoll 10 (tok toks 2)) as [[cv ce] cer].
    assert (T: forall k l,
      (let '(fs, ms, bs, e) := itriples F fval ferange f_of_Z f_zero f_is_zero f_neg f_trunc_u f_trunc_i f_small cf ped st None k l in
       finish_ F e (E_LINCOM F k fs (map (to_sc F) ms) (map (to_sc F) bs))) =
      (let '(fs, ms, bs) := triples F fval ferange f_of_Z f_zero f_is_zero f_neg f_trunc_u f_trunc_i f_small cf ped st k l in
       if any_err F ms || any_err F bs then LErr F LITERAL else LOk F (E_LINCOM F k fs ms bs))).
    { intros k l.
      destruct (itriples F fval ferange f_of_Z f_zero f_is_zero f_neg f_trunc_u f_trunc_i f_small cf ped st None k l)
        as [[[fs pms] pbs] e] eqn:I.
      pose proof (itriples_ok k l None fs pms pbs e (or_introl eq_refl) I) as K.
      destruct (triples F fval ferange f_of_Z f_zero f_is_zero f_neg f_trunc_u f_trunc_i f_small cf ped st k l) as [[fs' ms] bs].
      destruct K as (K1 & K2 & K3). subst fs' e.
      destruct (any_err F ms || any_err F bs); [reflexivity|].
      destruct (K3 eq_refl) as [G1 G2]. simpl. rewrite G1, G2. reflexivity. }
    destruct (negb (ce =? List.length (tok toks 2))%nat && (negb ped || (tbl S_LINCOM_COUNT_OPTIONAL <=? st)%nat)).
    - destruct (negb (List.length toks mod 3 =? 2)%nat || ((List.length toks - 2) / 3 <? 1)%nat || (3 <? (List.length toks - 2) / 3)%nat); [reflexivity|].
      apply T.
    - destruct ((wrap32 cv <? 1)%Z || (3 <? wrap32 cv)%Z); [reflexivity|].
      destruct (List.length toks <? Z.to_nat (wrap32 cv) * 3 + 3)%nat; [reflexivity|].
      apply T.
  Qed.

  Lemma list_eqb_eq : forall a b, list_eqb a b = true -> a = b.
  Proof.
    induction a as [|x a IH]; destruct b as [|y b]; simpl; intro H; try discriminate; [reflexivity|].
    apply andb_prop in H. destruct H as [H1 H2]. apply N.eqb_eq in H1. rewrite H1, (IH b H2). reflexivity.
  Qed.

  Ltac eval_names :=
    repeat match goal with
    | |- context [bytes ?s] => let v := eval vm_compute in (bytes s) in change (bytes s) with v
    end;
    repeat match goal with
    | |- context [list_eqb ?a ?b] => let v := eval vm_compute in (list_eqb a b) in change (list_eqb a b) with v
    end.

  (* one field type: if the type token is this name, both sides take its branch *)
  Ltac branch E lem :=
    unfold is in E; apply list_eqb_eq in E; rewrite E; unfold is; eval_names; cbv beta iota; cbn [andb orb];
    first [ rewrite lem; reflexivity
          | reflexivity
          | match goal with |- context [if (negb ped || ?g) then _ else _] =>
              destruct (negb ped || g); [rewrite lem|]; reflexivity end ].

  Theorem impl_line_spec : forall toks, (st <= 10)%nat -> IMPL toks = SPEC toks.
  Proof.
    intros toks V. unfold impl_line, spec_line, pv_ge, allows. cbv zeta.
    assert (Lt: (st <? tbl S_NO_FILEFRAM)%nat = negb (tbl S_NO_FILEFRAM <=? st)%nat).
    { destruct (Nat.ltb_spec st (tbl S_NO_FILEFRAM)), (Nat.leb_spec (tbl S_NO_FILEFRAM) st); try reflexivity; lia. }
    rewrite Lt.
    destruct (is (tok toks 0) "INDEX"); [reflexivity|]. cbn [orb].
    destruct (ped && negb (tbl S_NO_FILEFRAM <=? st)%nat && is (tok toks 0) "FILEFRAM"); [reflexivity|].
    replace ((st <=? 10)%nat || ped) with true by (symmetry; apply orb_true_iff; left; apply Nat.leb_le; assumption).
    destruct (is (tok toks 1) "RAW") eqn:E1; [branch E1 raw_ok | cbv iota; cbn [andb orb]].
    destruct (is (tok toks 1) "LINCOM") eqn:E2; [branch E2 lincom_ok | cbv iota; cbn [andb orb]].
    destruct (is (tok toks 1) "LINTERP") eqn:E3; [branch E3 raw_ok | cbv iota; cbn [andb orb]].
    destruct (is (tok toks 1) "BIT") eqn:E4; [branch E4 bit_ok | cbv iota; cbn [andb orb]].
    destruct (is (tok toks 1) "SBIT") eqn:E5; [branch E5 bit_ok | cbv iota; cbn [andb orb]].
    destruct (is (tok toks 1) "MULTIPLY") eqn:E6; [branch E6 raw_ok | cbv iota; cbn [andb orb]].
    destruct (is (tok toks 1) "DIVIDE") eqn:E7; [branch E7 raw_ok | cbv iota; cbn [andb orb]].
    destruct (is (tok toks 1) "INDIR") eqn:E8; [branch E8 raw_ok | cbv iota; cbn [andb orb]].
    destruct (is (tok toks 1) "SINDIR") eqn:E9; [branch E9 raw_ok | cbv iota; cbn [andb orb]].
    destruct (is (tok toks 1) "PHASE") eqn:E10; [branch E10 phase_ok | cbv iota; cbn [andb orb]].
    destruct (is (tok toks 1) "POLYNOM") eqn:E11; [branch E11 polynom_ok | cbv iota; cbn [andb orb]].
    destruct (is (tok toks 1) "RECIP") eqn:E12; [branch E12 recip_ok | cbv iota; cbn [andb orb]].
    destruct (is (tok toks 1) "MPLEX") eqn:E13; [branch E13 mplex_ok | cbv iota; cbn [andb orb]].
    destruct (is (tok toks 1) "WINDOW") eqn:E14; [branch E14 window_ok | cbv iota; cbn [andb orb]].
    destruct (is (tok toks 1) "CONST") eqn:E15; [branch E15 const_ok | cbv iota; cbn [andb orb]].
    destruct (is (tok toks 1) "CARRAY") eqn:E16; [branch E16 carray_ok | cbv iota; cbn [andb orb]].
    destruct (is (tok toks 1) "STRING") eqn:E17; [branch E17 raw_ok | cbv iota; cbn [andb orb]].
    destruct (is (tok toks 1) "SARRAY") eqn:E18; [branch E18 raw_ok | cbv iota; cbn [andb orb]].
    (* no field type of that name *)
    destruct (tok toks 1) as [|c r]; [reflexivity|].
    destruct c as [|p]; [reflexivity|].
    do 7 (destruct p as [p|p|]; try reflexivity).
  Qed.
End Agree.
