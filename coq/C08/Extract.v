From GD Require Import C08.Token C08.TokSpec.
Require Import ExtrOcamlBasic.
Extraction Language OCaml.
Extraction "model.ml" tokenise strtok_all tok_impl tok_line tok_spec MAX_IN_COLS.
