From GD Require Import C08.Token C08.TokSpec C08.Standards Gen.Gates C08.GatesDefs C08.Names C08.LitSpec C08.Literal C08.Callback C08.LineSpec C08.ParseImpl.
Require Import ExtrOcamlBasic.
Extraction Language OCaml.
Extraction "model.ml" tokenise strtok_all tok_impl tok_line tok_spec MAX_IN_COLS
  all_gnames code_gate spec_gate code_applies spec_applies
  validate_field spec_name_ok
  toktonum set_scalar spec_is_number g_float g_int spec_int_value lit_base split_first
  fragment_run spec_line impl_line.
