(* C08 -- the Standards Version in which each field type, directive and
   syntax feature appears, transcribed BY HAND from the HISTORY section of
   dirfile-format(5) (man/dirfile-format.5, "Version N of the Standards
   (...) added ...").  The table regenerated from src/parse.c and src/name.c
   is Gen/Gates.v; GatesProofs.v compares the two.

   Every entry is the least Version v such that, in pedantic mode at Version
   v, the feature applies.  For removals (the last four of the S_ group and
   R_UNTIL) it is the first Version in which the thing is gone. *)
From Coq Require Import List Arith Bool.
Import ListNotations.

Inductive gname :=
(* field types *)
| T_BIT | T_CARRAY | T_CONST | T_DIVIDE | T_INDIR | T_LINCOM | T_LINTERP | T_MPLEX
| T_MULTIPLY | T_PHASE | T_POLYNOM | T_RAW | T_RECIP | T_SBIT | T_SINDIR | T_SARRAY
| T_STRING | T_WINDOW
(* directives *)
| D_ALIAS | D_ENCODING | D_ENDIAN | D_FRAMEOFFSET | D_HIDDEN | D_INCLUDE | D_META
| D_NAMESPACE | D_PROTECT | D_REFERENCE | D_VERSION
(* syntax features *)
| S_ESCAPES          (* character escape sequences *)
| S_QUOTES           (* quoting of tokens *)
| S_META_SLASH       (* parent/child field names define metafields without /META *)
| S_SLASH_OPTIONAL   (* reserved words may start with a slash *)
| S_SLASH_REQUIRED   (* reserved words must start with a slash *)
| S_ENDIAN_ARM       (* second token of /ENDIAN *)
| S_INT_PREFIX       (* octal and hexadecimal integer literals *)
| S_FRAMEOFFSET_PREFIX (* the same for the /FRAMEOFFSET argument *)
| S_NEW_TYPES        (* INT8 ... FLOAT64 type names *)
| S_COMPLEX_TYPES    (* COMPLEX64, COMPLEX128 *)
| S_NO_TYPE_CHARS    (* single-character type aliases no longer allowed *)
| S_NO_FILEFRAM      (* FILEFRAM no longer an alias of INDEX *)
| S_LINCOM_COUNT_OPTIONAL (* the number-of-fields token of LINCOM may be omitted *)
(* reserved words that may not be used as field names, and the Version that
   ended the restriction by making the slash mandatory *)
| R_FRAMEOFFSET | R_ENCODING | R_ENDIAN | R_INCLUDE | R_META | R_VERSION | R_PROTECT
| R_REFERENCE | R_UNTIL.

Definition all_gnames : list gname :=
  [T_BIT; T_CARRAY; T_CONST; T_DIVIDE; T_INDIR; T_LINCOM; T_LINTERP; T_MPLEX;
   T_MULTIPLY; T_PHASE; T_POLYNOM; T_RAW; T_RECIP; T_SBIT; T_SINDIR; T_SARRAY;
   T_STRING; T_WINDOW;
   D_ALIAS; D_ENCODING; D_ENDIAN; D_FRAMEOFFSET; D_HIDDEN; D_INCLUDE; D_META;
   D_NAMESPACE; D_PROTECT; D_REFERENCE; D_VERSION;
   S_ESCAPES; S_QUOTES; S_META_SLASH; S_SLASH_OPTIONAL; S_SLASH_REQUIRED; S_ENDIAN_ARM;
   S_INT_PREFIX; S_FRAMEOFFSET_PREFIX; S_NEW_TYPES; S_COMPLEX_TYPES; S_NO_TYPE_CHARS;
   S_NO_FILEFRAM; S_LINCOM_COUNT_OPTIONAL;
   R_FRAMEOFFSET; R_ENCODING; R_ENDIAN; R_INCLUDE; R_META; R_VERSION; R_PROTECT;
   R_REFERENCE; R_UNTIL].

Definition gname_eqb (a b : gname) : bool :=
  match a, b with
  | T_BIT, T_BIT | T_CARRAY, T_CARRAY | T_CONST, T_CONST | T_DIVIDE, T_DIVIDE
  | T_INDIR, T_INDIR | T_LINCOM, T_LINCOM | T_LINTERP, T_LINTERP | T_MPLEX, T_MPLEX
  | T_MULTIPLY, T_MULTIPLY | T_PHASE, T_PHASE | T_POLYNOM, T_POLYNOM | T_RAW, T_RAW
  | T_RECIP, T_RECIP | T_SBIT, T_SBIT | T_SINDIR, T_SINDIR | T_SARRAY, T_SARRAY
  | T_STRING, T_STRING | T_WINDOW, T_WINDOW
  | D_ALIAS, D_ALIAS | D_ENCODING, D_ENCODING | D_ENDIAN, D_ENDIAN
  | D_FRAMEOFFSET, D_FRAMEOFFSET | D_HIDDEN, D_HIDDEN | D_INCLUDE, D_INCLUDE
  | D_META, D_META | D_NAMESPACE, D_NAMESPACE | D_PROTECT, D_PROTECT
  | D_REFERENCE, D_REFERENCE | D_VERSION, D_VERSION
  | S_ESCAPES, S_ESCAPES | S_QUOTES, S_QUOTES | S_META_SLASH, S_META_SLASH
  | S_SLASH_OPTIONAL, S_SLASH_OPTIONAL | S_SLASH_REQUIRED, S_SLASH_REQUIRED
  | S_ENDIAN_ARM, S_ENDIAN_ARM | S_INT_PREFIX, S_INT_PREFIX
  | S_FRAMEOFFSET_PREFIX, S_FRAMEOFFSET_PREFIX | S_NEW_TYPES, S_NEW_TYPES
  | S_COMPLEX_TYPES, S_COMPLEX_TYPES | S_NO_TYPE_CHARS, S_NO_TYPE_CHARS
  | S_NO_FILEFRAM, S_NO_FILEFRAM | S_LINCOM_COUNT_OPTIONAL, S_LINCOM_COUNT_OPTIONAL
  | R_FRAMEOFFSET, R_FRAMEOFFSET | R_ENCODING, R_ENCODING | R_ENDIAN, R_ENDIAN
  | R_INCLUDE, R_INCLUDE | R_META, R_META | R_VERSION, R_VERSION | R_PROTECT, R_PROTECT
  | R_REFERENCE, R_REFERENCE | R_UNTIL, R_UNTIL => true
  | _, _ => false
  end.

(* HISTORY, dirfile-format(5) *)
Definition spec_gate (g : gname) : nat :=
  match g with
  (* "Version 0 ... contained support for all other features covered by this document" *)
  | T_BIT | T_LINCOM | T_LINTERP | T_RAW => 0
  (* "Version 1 ... added FRAMEOFFSET" *)
  | D_FRAMEOFFSET | R_FRAMEOFFSET => 1
  (* "Version 2 ... added the MULTIPLY field type" *)
  | T_MULTIPLY => 2
  (* "Version 3 ... added INCLUDE" *)
  | D_INCLUDE | R_INCLUDE => 3
  (* "Version 4 ... added the PHASE field type" *)
  | T_PHASE => 4
  (* "Version 5 ... added VERSION and ENDIAN, slash demarcation of reserved words ...
     introduced the data types INT8, INT64, and UINT64, the new-style type specifiers" *)
  | D_VERSION | D_ENDIAN | R_VERSION | R_ENDIAN | S_SLASH_OPTIONAL | S_NEW_TYPES => 5
  (* "Version 6 ... added the /ENCODING, /META, /PROTECT, and /REFERENCE directives, and
     the CONST and STRING field types.  It permitted whitespace in tokens and introduced
     the character escape sequences ... removed FILEFRAM as an alias for INDEX" *)
  | D_ENCODING | D_META | D_PROTECT | D_REFERENCE | R_ENCODING | R_META | R_PROTECT
  | R_REFERENCE | T_CONST | T_STRING | S_ESCAPES | S_QUOTES | S_NO_FILEFRAM => 6
  (* "Version 7 ... added the SBIT and POLYNOM field types, and the directive-less method
     of specifying metafields ... COMPLEX128 and COMPLEX64 ... Finally, it made the number
     of fields parameter for LINCOM optional" *)
  | T_SBIT | T_POLYNOM | S_META_SLASH | S_COMPLEX_TYPES | S_LINCOM_COUNT_OPTIONAL => 7
  (* "Version 8 ... added the DIVIDE, RECIP, and CARRAY field types, made the forward
     slash on reserved words mandatory, and prohibited using the single-character type
     aliases ... introduced the optional second (arm) token to the /ENDIAN directive" *)
  | T_DIVIDE | T_RECIP | T_CARRAY | S_SLASH_REQUIRED | S_NO_TYPE_CHARS | S_ENDIAN_ARM
  | R_UNTIL => 8
  (* "Version 9 ... added the MPLEX and WINDOW field types, the /ALIAS and /HIDDEN
     directives ... permitted specification of integer literals in octal and hexadecimal" *)
  | T_MPLEX | T_WINDOW | D_ALIAS | D_HIDDEN | S_INT_PREFIX | S_FRAMEOFFSET_PREFIX => 9
  (* "Version 10 ... added the INDIR, SARRAY, and SINDIR field types, namespaces, the
     /NAMESPACE directive" *)
  | T_INDIR | T_SARRAY | T_SINDIR | D_NAMESPACE => 10
  end.

Fixpoint glookup (g : gname) (l : list (gname * nat)) : option nat :=
  match l with
  | [] => None
  | (k, v) :: r => if gname_eqb g k then Some v else glookup g r
  end.

(* GD_PVERS_GE(p, v): !p.pedantic || p.standards >= v *)
Definition pvers_ge (pedantic : bool) (standards v : nat) : bool :=
  negb pedantic || (v <=? standards).

(* does a parser in the given mode recognise the feature, according to a table *)
Definition applies (tbl : gname -> option nat) (pedantic : bool) (standards : nat) (g : gname) : bool :=
  match tbl g with Some v => pvers_ge pedantic standards v | None => false end.

Definition spec_applies := applies (fun g => Some (spec_gate g)).
