(* C08 -- lemmas about the two tokeniser definitions (proofs only). *)
From Coq Require Import List NArith Bool Arith Lia.
From GD Require Import C08.Token C08.TokSpec.
Import ListNotations.
Open Scope N_scope.

(* ------------------------------------------------------------------ *)
(* character classes *)

Lemma sp_sep_is_ws : forall c, sp_sep c = is_ws c.
Proof.
  intro c. unfold sp_sep, sp_ws, is_ws. simpl.
  destruct (c =? 32), (c =? 10), (c =? 9), (c =? 13), (c =? 12), (c =? 11); reflexivity.
Qed.

Lemma oct_digit_is_oct : forall c,
  oct_digit c = if is_oct c then Some (c - 48) else None.
Proof. intro c. unfold oct_digit, is_oct. reflexivity. Qed.

Lemma hex_digit_is_hex : forall c,
  hex_digit c = if is_hex c then Some (hexval c) else None.
Proof.
  intro c. unfold hex_digit, is_hex, hexval, is_dig, is_hexU, is_hexL.
  destruct ((48 <=? c) && (c <=? 57)) eqn:A; simpl; [reflexivity|].
  destruct ((65 <=? c) && (c <=? 70)) eqn:B; simpl.
  - f_equal. apply andb_prop in B. destruct B as [B1 B2].
    apply N.leb_le in B1. lia.
  - destruct ((97 <=? c) && (c <=? 102)) eqn:C; [|reflexivity].
    f_equal. apply andb_prop in C. destruct C as [C1 C2]. apply N.leb_le in C1. lia.
Qed.

Lemma is_oct_range : forall c, is_oct c = true -> 48 <= c <= 55.
Proof. unfold is_oct. intros c H. apply andb_prop in H. destruct H as [A B].
  apply N.leb_le in A. apply N.leb_le in B. lia. Qed.

Lemma hexval_lt : forall c, is_hex c = true -> hexval c < 16.
Proof.
  intros c H. unfold is_hex, hexval, is_dig, is_hexU, is_hexL in *.
  destruct ((48 <=? c) && (c <=? 57)) eqn:A.
  - apply andb_prop in A. destruct A as [A1 A2]. apply N.leb_le in A1, A2. lia.
  - destruct ((65 <=? c) && (c <=? 70)) eqn:B.
    + apply andb_prop in B. destruct B as [A1 A2]. apply N.leb_le in A1, A2. lia.
    + simpl in H. apply andb_prop in H. destruct H as [A1 A2]. apply N.leb_le in A1, A2. lia.
Qed.

(* ------------------------------------------------------------------ *)
(* UTF-8: the shifts of _GD_UTF8Encode are the arithmetic of the spec *)

Lemma land63 : forall v, N.land v 63 = v mod 64.
Proof. intro v. change 63 with (N.ones 6). rewrite N.land_ones. reflexivity. Qed.

Lemma utf8_spec : forall v,
  utf8 v = if (v =? 0) || (1114111 <? v) then None else Some (spec_utf8 v).
Proof.
  intro v. unfold utf8, spec_utf8.
  rewrite !land63, !N.shiftr_div_pow2. change (2^6) with 64. change (2^12) with 4096. change (2^18) with 262144.
  destruct (v =? 0) eqn:Z; simpl.
  - rewrite orb_true_r. reflexivity.
  - rewrite orb_false_r. destruct (1114111 <? v) eqn:B; [reflexivity|].
    destruct (v <=? 127) eqn:C1.
    + apply N.leb_le in C1. assert (H: v <? 128 = true) by (apply N.ltb_lt; lia). rewrite H. reflexivity.
    + apply N.leb_gt in C1. assert (H: v <? 128 = false) by (apply N.ltb_ge; lia). rewrite H.
      destruct (v <=? 2047) eqn:C2.
      * apply N.leb_le in C2. assert (H2: v <? 2048 = true) by (apply N.ltb_lt; lia). rewrite H2. reflexivity.
      * apply N.leb_gt in C2. assert (H2: v <? 2048 = false) by (apply N.ltb_ge; lia). rewrite H2.
        destruct (v <=? 65535) eqn:C3.
        -- apply N.leb_le in C3. assert (H3: v <? 65536 = true) by (apply N.ltb_lt; lia). rewrite H3. reflexivity.
        -- apply N.leb_gt in C3. assert (H3: v <? 65536 = false) by (apply N.ltb_ge; lia). rewrite H3. reflexivity.
Qed.

Lemma spec_utf8_len : forall v, (1 <= length (spec_utf8 v) <= 4)%nat.
Proof. intro v. unfold spec_utf8.
  destruct (v <? 128); [simpl; lia|]. destruct (v <? 2048); [simpl; lia|].
  destruct (v <? 65536); simpl; lia. Qed.

Lemma spec_utf8_len1 : forall v, v < 16 -> length (spec_utf8 v) = 1%nat.
Proof. intros v H. unfold spec_utf8.
  assert (A: v <? 128 = true) by (apply N.ltb_lt; lia). rewrite A. reflexivity. Qed.
