(* C08 -- field name validation.
   Model 1: _GD_ValidateField (src/name.c), all four check types.
   Model 2: the rules of dirfile-format(5) "Field Names" (+ HISTORY) for a new
   field name checked in pedantic mode (type GD_VF_NAME, no namespace part).

   fx = true: the code as it is (since /repo commit be0b187: '#' and the space
   are refused up to Standards Version 5, as the text says: "Standards Version
   5 and earlier also prohibit whitespace and the comment delimiter (#) in
   field names").  fx = false: the code before that commit ('#' tested at
   Version 5 only, the space never); kept for the regression lemmas. *)
From Coq Require Import List NArith Bool Arith Lia.
From GD Require Import C08.Standards Gen.Gates C08.GatesDefs.
Import ListNotations.
Open Scope N_scope.

Inductive vftype := VF_NAME | VF_AFFIX | VF_NS | VF_CODE.

Definition is_ns (t : vftype) := match t with VF_NS => true | _ => false end.
Definition is_affix (t : vftype) := match t with VF_AFFIX => true | _ => false end.
Definition is_code (t : vftype) := match t with VF_CODE => true | _ => false end.
Definition is_name (t : vftype) := match t with VF_NAME => true | _ => false end.

(* & ; < > | *)
Definition is_shellish (c : N) : bool :=
  (c =? 60) || (c =? 62) || (c =? 59) || (c =? 124) || (c =? 38).

(* one iteration of the character loop: None = return 1, Some ld = new last_dot.
   Bytes >= 0x80 are negative chars in C and pass the `< 0x20` test's guard. *)
Definition vf_char (fx : bool) (ty : vftype) (nsl : nat) (standards : nat) (strict : bool)
    (i : nat) (last_dot : bool) (c : N) : option bool :=
  if (c =? 47) || (c <? 32) then None
  else if strict && (((5 <=? standards)%nat && is_shellish c)
                     || ((standards =? 5)%nat && ((c =? 92) || (c =? 35)))
                     || (fx && (standards <=? 5)%nat && ((c =? 35) || (c =? 32))))
  then None
  else if c =? 46 then
    if is_ns ty || (is_code ty && (negb strict || (10 <=? standards)%nat)) then
      if last_dot then None else Some true
    else if is_affix ty || ((10 <=? standards)%nat && strict && (nsl <=? i)%nat)
            || ((6 <=? standards)%nat && (standards <? 10)%nat && strict)
    then None
    else Some true
  else Some false.

Fixpoint vf_loop (fx : bool) (ty : vftype) (nsl standards : nat) (strict : bool)
    (i : nat) (last_dot : bool) (s : list N) : option bool :=
  match s with
  | [] => Some last_dot
  | c :: r =>
      match vf_char fx ty nsl standards strict i last_dot c with
      | None => None
      | Some ld => vf_loop fx ty nsl standards strict (S i) ld r
      end
  end.

Fixpoint bytes_eqb (a b : list N) : bool :=
  match a, b with
  | [], [] => true
  | x :: a', y :: b' => (x =? y) && bytes_eqb a' b'
  | _, _ => false
  end.

(* the reserved words of _GD_ValidateField with their gates (Gen/Gates.v) *)
Definition reserved_words : list (list N * gname) :=
  [ ([70;82;65;77;69;79;70;70;83;69;84], R_FRAMEOFFSET);
    ([69;78;67;79;68;73;78;71], R_ENCODING);
    ([69;78;68;73;65;78], R_ENDIAN);
    ([73;78;67;76;85;68;69], R_INCLUDE);
    ([77;69;84;65], R_META);
    ([86;69;82;83;73;79;78], R_VERSION);
    ([80;82;79;84;69;67;84], R_PROTECT);
    ([82;69;70;69;82;69;78;67;69], R_REFERENCE) ].

Definition reserved_by (tbl : gname -> option nat) (standards : nat) (name : list N) : bool :=
  match tbl R_UNTIL with
  | Some u =>
      (standards <? u)%nat &&
      existsb (fun wg => bytes_eqb name (fst wg) &&
                         match tbl (snd wg) with Some g => (g <=? standards)%nat | None => false end)
              reserved_words
  | None => false
  end.

(* _GD_ValidateField: true = returns 1 (invalid) *)
Definition validate_field (fx : bool) (ty : vftype) (nsl standards : nat) (strict : bool)
    (s : list N) : bool :=
  let last_dot0 := is_ns ty || is_affix ty || (strict && (6 <=? standards)%nat) in
  if is_name ty && (match s with [] => true | _ => false end
                    || (strict && (((50 <? length s)%nat && (standards <? 5)%nat)
                                   || ((16 <? length s)%nat && (standards <? 3)%nat))))
  then true
  else
    match vf_loop fx ty nsl standards strict 0 last_dot0 s with
    | None => true
    | Some ld =>
        if is_code ty && ld then true
        else is_name ty && strict && reserved_by code_gate standards s
    end.

(* ---- dirfile-format(5), "Field Names", pedantic mode at Version v ---- *)
Definition name_char_ok (v : nat) (c : N) : bool :=
  negb (c <? 32)                                   (* "excluding ASCII control characters" (NUL cannot occur) *)
  && negb (c =? 47)                                (* / is reserved (metafields are split off earlier) *)
  && (negb (c =? 46) || (v <=? 5)%nat)              (* "The dot is allowed in Standards Version 5 and earlier" *)
  && (negb (existsb (N.eqb c) [38; 59; 60; 62; 124]) || (v <=? 4)%nat)
                                                   (* "& ; < > | are allowed in Standards Version 4 and earlier" *)
  && negb ((v <=? 5)%nat && ((c =? 32) || (c =? 35)))
                                                   (* "Version 5 and earlier also prohibit whitespace and #" *)
  && negb ((v =? 5)%nat && (c =? 92)).             (* HISTORY: Version 5 prohibited \, Version 6 allowed it *)

Definition name_len_ok (v : nat) (n : nat) : bool :=
  if (v <=? 2)%nat then (n <=? 16)%nat            (* "Version 2 and earlier restrict field names to 16 characters" *)
  else if (v <=? 4)%nat then (n <=? 50)%nat       (* "Version 3 and 4 restrict field names to 50 characters" *)
  else true.

(* reserved words cannot be used as field names until the slash became
   mandatory (Version 8); each word is reserved from the Version that
   introduced its directive *)
Definition spec_reserved (v : nat) (name : list N) : bool :=
  reserved_by (fun g => Some (spec_gate g)) v name.

Definition spec_name_ok (v : nat) (name : list N) : bool :=
  match name with [] => false | _ => true end
  && name_len_ok v (length name)
  && forallb (name_char_ok v) name
  && negb (spec_reserved v name).
