(* C08 -- lookups in the gate table regenerated from the parser (definitions
   only, so that the extracted driver builds even when a gate has changed and
   GatesProofs.v no longer checks). *)
From Coq Require Import List Arith Bool.
From GD Require Import C08.Standards Gen.Gates.
Import ListNotations.

Definition code_gate (g : gname) : option nat := glookup g code_gates.
Definition code_applies := applies code_gate.

Definition gate_ok (g : gname) : bool :=
  match code_gate g with Some v => v =? spec_gate g | None => false end.
