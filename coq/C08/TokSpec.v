(* C08 -- model 2: the tokenisation rules of dirfile-format(5), section
   "Tokens", written as a recursive-descent lexer with look-ahead.  It shares
   no code with Token.v except the result types (tres, terr).

   Text -> definition:
   * "Lines are separated by the line-feed character": LF ends a token like
     whitespace does (sp_sep).
   * "Whitespace ... space (0x20), horizontal tab (0x09), vertical tab (0x0B),
     form-feed (0x0C), and carriage return (0x0D)": sp_ws.
   * "Unless escaped [or quoted] the hash mark is the comment delimiter; the
     comment delimiter, and any text following it ... is ignored".
   * "the token must be enclosed in quotation marks.  The quotation marks
     themselves are stripped from the token.  The null-token ... may be
     specified by a pair of quotation marks with nothing between them".
   * "It is a syntax error to have a line which contains unmatched quotation
     marks, or in which the last character is the backslash character":
     ErrUnterm (GD_E_FORMAT_UNTERM, "unterminated token").
   * the character escape table; \ooo = 1 to 3 octal digits giving a single
     byte (so the longest run of at most three octal digits whose value fits
     a byte); \xhh = 1 or 2 hex digits; \uhhhhhhh = 1 to 7 hex digits, UTF-8
     encoded; "Any other character which is escaped is interpreted as the
     character itself".
   * "No token may contain the NULL character": a numeric escape with value 0
     is a syntax error (GD_E_FORMAT_CHARACTER); so is a code point above
     U+10FFFF, which has no UTF-8 encoding.
   * "Standards Version 5 and earlier do not recognise the character escape
     sequences, nor allow quoting of tokens": v6 = false.

   Where the text is silent the definition follows the code, and says so:
   (s1) \x or \u followed by no hex digit at all: syntax error
        (GD_E_FORMAT_CHARACTER), as in the code.
   (s2) a backslash followed by LF in the middle of a string (impossible in a
        format file, where LF ends the line; possible in strings handed to
        gd_strtok/gd_add_spec): the LF is skipped and the escape applies to
        what follows; if nothing follows it is the "last character is a
        backslash" error.
   (s3) surrogate code points \uD800..\uDFFF are encoded like any other
        three-byte code point. *)
From Coq Require Import List NArith Bool Arith Lia.
From GD Require Import C08.Token.
Import ListNotations.
Open Scope N_scope.

Definition sp_ws (c : N) : bool := existsb (N.eqb c) [32; 9; 11; 12; 13].
Definition sp_sep (c : N) : bool := sp_ws c || (c =? 10).

(* \a \b \e \f \n \r \t \v \\ *)
Definition escape_table : list (N * N) :=
  [(97, 7); (98, 8); (101, 27); (102, 12); (110, 10); (114, 13); (116, 9); (118, 11); (92, 92)].

Fixpoint assoc (c : N) (l : list (N * N)) : option N :=
  match l with
  | [] => None
  | (k, v) :: r => if c =? k then Some v else assoc c r
  end.

Definition oct_digit (c : N) : option N :=
  if (48 <=? c) && (c <=? 55) then Some (c - 48) else None.
Definition hex_digit (c : N) : option N :=
  if (48 <=? c) && (c <=? 57) then Some (c - 48)
  else if (65 <=? c) && (c <=? 70) then Some (c - 65 + 10)
  else if (97 <=? c) && (c <=? 102) then Some (c - 97 + 10)
  else None.

(* the longest run of at most n digits at the head of s: digit values, rest *)
Fixpoint take_digits (dig : N -> option N) (n : nat) (s : list N) : list N * list N :=
  match n, s with
  | S n', c :: r =>
      match dig c with
      | Some d => let '(ds, rest) := take_digits dig n' r in (d :: ds, rest)
      | None => ([], s)
      end
  | _, _ => ([], s)
  end.

Definition value (base : N) (ds : list N) : N := fold_left (fun a d => a * base + d) ds 0.

(* 1 to 3 octal digits naming a single byte *)
Definition oct_run (s : list N) : list N * list N :=
  let '(ds, rest) := take_digits oct_digit 3 s in
  if 255 <? value 8 ds then take_digits oct_digit 2 s else (ds, rest).

(* UTF-8 (RFC 3629 bit layout) by arithmetic *)
Definition spec_utf8 (v : N) : list N :=
  if v <? 128 then [v]
  else if v <? 2048 then [192 + v / 64; 128 + v mod 64]
  else if v <? 65536 then [224 + v / 4096; 128 + (v / 64) mod 64; 128 + v mod 64]
  else [240 + v / 262144; 128 + (v / 4096) mod 64; 128 + (v / 64) mod 64; 128 + v mod 64].

Inductive eres := EOk (bytes : list N) (rest : list N) | EErr (e : terr).

(* r = the text after a backslash *)
Fixpoint spec_escape (r : list N) : eres :=
  match r with
  | [] => EErr ErrUnterm                      (* the last character is a backslash *)
  | c :: r' =>
      if c =? 10 then spec_escape r'          (* (s2) *)
      else
        match assoc c escape_table with
        | Some b => EOk [b] r'
        | None =>
            match oct_digit c with
            | Some _ =>
                let '(ds, rest) := oct_run r in
                if value 8 ds =? 0 then EErr ErrChar else EOk [value 8 ds] rest
            | None =>
                if c =? 120 then                (* \x *)
                  let '(ds, rest) := take_digits hex_digit 2 r' in
                  if value 16 ds =? 0 then EErr ErrChar   (* no digit (s1) or NUL *)
                  else EOk [value 16 ds] rest
                else if c =? 117 then           (* \u *)
                  let '(ds, rest) := take_digits hex_digit 7 r' in
                  if (value 16 ds =? 0) || (1114111 <? value 16 ds) then EErr ErrChar
                  else EOk (spec_utf8 (value 16 ds)) rest
                else EOk [c] r'
            end
        end
  end.

(* the inside of a quoted section, up to and including the closing quote;
   acc = bytes of the token so far, most recent first *)
Fixpoint lex_quoted (fuel : nat) (s : list N) (acc : list N) : terr + (list N * list N) :=
  match fuel with
  | O => inl ErrUnterm
  | S f =>
      match s with
      | [] => inl ErrUnterm                   (* unmatched quotation mark *)
      | c :: r =>
          if c =? 34 then inr (acc, r)
          else if c =? 92 then
            match spec_escape r with
            | EErr e => inl e
            | EOk b r' => lex_quoted f r' (rev b ++ acc)
            end
          else lex_quoted f r (c :: acc)
      end
  end.

(* one token: plain characters, escapes and quoted sections up to unquoted
   whitespace, LF, '#' or the end; returns the token and the remaining text *)
Fixpoint lex_token (v6 : bool) (fuel : nat) (s : list N) (acc : list N)
  : terr + (list N * list N) :=
  match fuel with
  | O => inl ErrUnterm
  | S f =>
      match s with
      | [] => inr (rev acc, [])
      | c :: r =>
          if sp_sep c || (c =? 35) then inr (rev acc, s)
          else if v6 && (c =? 34) then
            match lex_quoted f r acc with
            | inl e => inl e
            | inr (acc', r') => lex_token v6 f r' acc'
            end
          else if v6 && (c =? 92) then
            match spec_escape r with
            | EErr e => inl e
            | EOk b r' => lex_token v6 f r' (rev b ++ acc)
            end
          else lex_token v6 f r (c :: acc)
      end
  end.

Definition tcons (t : list N) (r : tres) : tres :=
  match r with TOk l => TOk (t :: l) | TErr e => TErr e end.

Fixpoint lex_line (v6 : bool) (fuel : nat) (s : list N) : tres :=
  match fuel with
  | O => TOk []
  | S f =>
      match s with
      | [] => TOk []
      | c :: r =>
          if sp_sep c then lex_line v6 f r
          else if c =? 35 then TOk []          (* comment *)
          else
            match lex_token v6 f s [] with
            | inl e => TErr e
            | inr (t, rest) => tcons t (lex_line v6 f rest)
            end
      end
  end.

Definition tok_spec (v6 : bool) (s : list N) : tres := lex_line v6 (length s + 2) s.
