(* C08 -- literal numbers: the subject-sequence grammars of strtol(3) and
   strtod(3) (C11 7.22.1.3/4, which dirfile-format(5) "Field Parameters" refers
   to: "a parameter is assumed to be the field code of a scalar field only if
   the entire token cannot be parsed as a literal number using the rules
   outlined in strtod(3)"), as whole-string validators built by SPLITTING the
   text at its separators (exponent letter, radix point), not by scanning.

   g_int base t  : t is [ws][sign] integer in the given base (0 = C prefix rules)
   g_float t     : t is [ws][sign] (decimal | hexadecimal | INF | NAN) per strtod
   spec_is_number: the rule of the man page, with the complex form a;b *)
From Coq Require Import List NArith ZArith Bool Arith Lia.
Import ListNotations.
Open Scope N_scope.

Definition c_isspace (c : N) : bool := (c =? 32) || ((9 <=? c) && (c <=? 13)).
Definition l_dig (c : N) : bool := (48 <=? c) && (c <=? 57).
Definition l_oct (c : N) : bool := (48 <=? c) && (c <=? 55).
Definition l_hex (c : N) : bool :=
  l_dig c || ((65 <=? c) && (c <=? 70)) || ((97 <=? c) && (c <=? 102)).
Definition l_alpha (c : N) : bool := ((65 <=? c) && (c <=? 90)) || ((97 <=? c) && (c <=? 122)).
Definition l_nchar (c : N) : bool := l_dig c || l_alpha c || (c =? 95).
Definition lower (c : N) : N := if (65 <=? c) && (c <=? 90) then c + 32 else c.

Fixpoint skip_ws (s : list N) : list N :=
  match s with c :: r => if c_isspace c then skip_ws r else s | [] => [] end.

(* (negative?, rest) *)
Definition opt_sign (s : list N) : bool * list N :=
  match s with
  | c :: r => if c =? 45 then (true, r) else if c =? 43 then (false, r) else (false, s)
  | [] => (false, [])
  end.

(* split at the first character satisfying p *)
Fixpoint split_first (p : N -> bool) (s : list N) : list N * option (list N) :=
  match s with
  | [] => ([], None)
  | c :: r => if p c then ([], Some r)
              else let '(a, b) := split_first p r in (c :: a, b)
  end.

Definition nonempty (s : list N) : bool := match s with [] => false | _ => true end.

Definition digit_val (c : N) : N :=
  if l_dig c then c - 48 else if (65 <=? c) && (c <=? 70) then c - 55 else c - 87.
Definition nat_value (base : N) (ds : list N) : N :=
  fold_left (fun a c => a * base + digit_val c) ds 0.

(* ---- integers (strtol subject sequence) ---- *)
Definition is_0x (s : list N) : option (list N) :=
  match s with
  | 48 :: x :: r => if (x =? 120) || (x =? 88) then Some r else None
  | _ => None
  end.

(* body after whitespace and sign: Some magnitude if it is an integer literal *)
Definition int_body (base : nat) (t : list N) : option N :=
  match base with
  | 10%nat => if nonempty t && forallb l_dig t then Some (nat_value 10 t) else None
  | _ => (* base 0: 0x.. hexadecimal, 0.. octal, else decimal *)
      match is_0x t with
      | Some h => if nonempty h && forallb l_hex h then Some (nat_value 16 h)
                  else None
      | None =>
          match t with
          | 48 :: o => if forallb l_oct o then Some (nat_value 8 o) else None
          | _ => if nonempty t && forallb l_dig t then Some (nat_value 10 t) else None
          end
      end
  end.

(* no alternative of either grammar contains a semicolon; saying so up front
   (a redundant conjunct) keeps the complex form a;b unambiguous by definition *)
Definition no_semi (s : list N) : bool := forallb (fun c => negb (c =? 59)) s.

Definition int_lit (base : nat) (s : list N) : option Z :=
  let '(neg, t) := opt_sign (skip_ws s) in
  match (if no_semi s then int_body base t else None) with
  | Some m => Some (if neg then (- Z.of_N m)%Z else Z.of_N m)
  | None => None
  end.

Definition g_int (base : nat) (s : list N) : bool :=
  match int_lit base s with Some _ => true | None => false end.

(* ---- floating point (strtod subject sequence) ---- *)
Definition mant_ok (dig : N -> bool) (m : list N) : bool :=
  match split_first (N.eqb 46) m with
  | (a, None) => nonempty a && forallb dig a
  | (a, Some b) => forallb dig a && forallb dig b && (nonempty a || nonempty b)
  end.

Definition exp_ok (x : list N) : bool :=
  let t := snd (opt_sign x) in nonempty t && forallb l_dig t.

Definition dec_float (t : list N) : bool :=
  match split_first (fun c => (c =? 101) || (c =? 69)) t with
  | (m, None) => mant_ok l_dig m
  | (m, Some x) => mant_ok l_dig m && exp_ok x
  end.

Definition hex_float (t : list N) : bool :=
  match is_0x t with
  | None => false
  | Some r =>
      match split_first (fun c => (c =? 112) || (c =? 80)) r with
      | (m, None) => mant_ok l_hex m
      | (m, Some x) => mant_ok l_hex m && exp_ok x
      end
  end.

Fixpoint list_eqb (a b : list N) : bool :=
  match a, b with
  | [], [] => true
  | x :: a', y :: b' => (x =? y) && list_eqb a' b'
  | _, _ => false
  end.

Definition inf_nan (t : list N) : bool :=
  let l := map lower t in
  list_eqb l [105;110;102] || list_eqb l [105;110;102;105;110;105;116;121] ||
  list_eqb l [110;97;110] ||
  (list_eqb (firstn 4 l) [110;97;110;40] &&
   match rev (skipn 4 t) with
   | 41 :: mid => forallb l_nchar mid
   | _ => false
   end).

Definition g_float (s : list N) : bool :=
  let t := snd (opt_sign (skip_ws s)) in
  no_semi s && (dec_float t || hex_float t || inf_nan t).

(* ---- the rule of the man page ---- *)
(* "literal complex number is specified as two real (floating point) numbers
   separated by a semicolon (;) with no intervening whitespace" *)
(* (s4) the text does not say what an EMPTY part is (the null token "", ";",
   "1;", ";2"): the definition follows the code, which reads it as zero. *)
Definition spec_part (a : list N) : bool := negb (nonempty a) || g_float a.

Definition spec_is_number (s : list N) : bool :=
  match split_first (N.eqb 59) s with
  | (a, None) => spec_part a
  | (a, Some b) => spec_part a && spec_part b
  end.

(* the mathematical integer an integer literal denotes, if the part is one *)
Definition spec_int_value (base : nat) (a : list N) : option Z :=
  match a with [] => Some 0%Z | _ => int_lit base a end.

(* the largest k such that the first k characters satisfy g (0 if none) *)
Fixpoint lp_from (g : list N -> bool) (s : list N) (k : nat) : nat :=
  if g (firstn k s) then k else match k with O => O | S k' => lp_from g s k' end.
Definition longest_prefix (g : list N -> bool) (s : list N) : nat := lp_from g s (length s).
