(* C08 -- tok_want: a bounded call of _GD_Tokenise that has room for every
   token of the line behaves exactly like the unbounded one (proofs). *)
From Coq Require Import List NArith Bool Arith Lia.
From GD Require Import C08.Token C08.TokSpec C08.TokLemmas C08.TokBounds C08.TokAgree.
Import ListNotations.
Open Scope N_scope.

Definition rstate (r : stepres) : tstate := match r with Cont s => s | Stop s _ => s end.

Lemma begin_tok_cases : forall want st,
  (ws st = false /\ begin_tok want st = Some st) \/
  (ws st = true /\ (want <= ncols st)%nat /\ begin_tok want st = None) \/
  (ws st = true /\ (ncols st < want)%nat /\
   begin_tok want st = Some (mkT (done_ st) [] (S (ncols st)) (esc st) (quo st) false (acc st) (nacc st) (mode st))).
Proof.
  intros want st. unfold begin_tok. destruct (ws st).
  - destruct (Nat.leb_spec want (ncols st)); [right; left | right; right]; repeat split; assumption.
  - left. split; reflexivity.
Qed.

(* begin_tok does not look at tok_want once a token has begun, and two bounds
   that both leave room give the same result *)
Lemma begin_tok_eq : forall w1 w2 st,
  (ws st = true -> (ncols st < w1)%nat /\ (ncols st < w2)%nat) ->
  begin_tok w1 st = begin_tok w2 st.
Proof.
  intros w1 w2 st H. unfold begin_tok. destruct (ws st); [|reflexivity].
  destruct (H eq_refl) as [A B].
  replace (w1 <=? ncols st)%nat with false by (symmetry; apply Nat.leb_gt; assumption).
  replace (w2 <=? ncols st)%nat with false by (symmetry; apply Nat.leb_gt; assumption). reflexivity.
Qed.

Lemma plain_step_eq : forall v6 w1 w2 st c,
  (ws st = true -> (ncols st < w1)%nat /\ (ncols st < w2)%nat) ->
  plain_step v6 w1 st c = plain_step v6 w2 st c.
Proof.
  intros v6 w1 w2 st c H. unfold plain_step.
  rewrite (begin_tok_eq w1 w2 st H).
  rewrite (begin_tok_eq w1 w2 (set_quo true st)) by (destruct st; simpl in *; assumption).
  reflexivity.
Qed.

Lemma complete_eq : forall v6 w1 w2 st bytes digit c,
  ws st = false -> complete v6 w1 st bytes digit c = complete v6 w2 st bytes digit c.
Proof.
  intros v6 w1 w2 st bytes digit c W. unfold complete. destruct bytes as [l|]; [|reflexivity].
  destruct digit; [reflexivity|]. apply plain_step_eq.
  rewrite emit_done_fields. simpl. rewrite W. discriminate.
Qed.

Lemma esc_step_eq : forall v6 w1 w2 st c,
  (ws st = true -> (ncols st < w1)%nat /\ (ncols st < w2)%nat) ->
  esc_step v6 w1 st c = esc_step v6 w2 st c.
Proof.
  intros v6 w1 w2 st c H. unfold esc_step. rewrite (begin_tok_eq w1 w2 st H).
  destruct (begin_tok w2 st) as [sb|] eqn:B; [|reflexivity].
  assert (W: ws sb = false).
  { destruct (begin_tok_cases w2 st) as [[A B']|[[A [_ B']]|[A [_ B']]]]; rewrite B' in B; inversion B; subst; try assumption; reflexivity. }
  assert (WA: forall m a n, ws (set_acc m a n sb) = false) by (intros; destruct sb; simpl in *; assumption).
  destruct (mode sb);
    repeat match goal with |- context [complete v6 w1 ?s ?b ?d c] => rewrite (complete_eq v6 w1 w2 s b d c (WA _ _ _)) end;
    reflexivity.
Qed.

Lemma step_eq : forall v6 w1 w2 st c,
  (ws st = true -> (ncols st < w1)%nat /\ (ncols st < w2)%nat) ->
  step v6 w1 st c = step v6 w2 st c.
Proof.
  intros. unfold step. destruct (esc st); [apply esc_step_eq | apply plain_step_eq]; assumption.
Qed.

(* ---- how n_cols moves ---- *)
Lemma plain_cols_f : forall v6 w st c,
  ws st = false -> ncols (rstate (plain_step v6 w st c)) = ncols st.
Proof.
  intros v6 w st c W. unfold plain_step, begin_tok, end_tok. destruct st as [d cu nc es q ws0 a n m]. simpl in *. subst ws0.
  repeat match goal with |- context [if ?b then _ else _] => destruct b end; reflexivity.
Qed.

Lemma complete_cols : forall v6 w st bytes digit c,
  ws st = false -> ncols (rstate (complete v6 w st bytes digit c)) = ncols st.
Proof.
  intros v6 w st bytes digit c W. unfold complete. destruct bytes as [l|]; [|reflexivity].
  destruct digit.
  - rewrite emit_done_fields. reflexivity.
  - rewrite plain_cols_f; rewrite emit_done_fields; simpl; [reflexivity | assumption].
Qed.

Lemma esc_cols_f : forall v6 w st c,
  ws st = false -> ncols (rstate (esc_step v6 w st c)) = ncols st.
Proof.
  intros v6 w st c W. unfold esc_step.
  destruct (begin_tok_cases w st) as [[_ B]|[[A _]|[A _]]]; try congruence. rewrite B.
  assert (WA: forall m a n, ws (set_acc m a n st) = false /\ ncols (set_acc m a n st) = ncols st)
    by (intros; destruct st; simpl in *; split; [assumption | reflexivity]).
  destruct (mode st);
    repeat match goal with |- context [if ?b then _ else _] => destruct b end;
    try reflexivity;
    try (rewrite complete_cols; [apply WA | apply WA]);
    try (rewrite emit_done_fields; reflexivity);
    try (simpl; apply WA).
Qed.

Lemma esc_step_begun : forall v6 w st sb c,
  begin_tok w st = Some sb -> esc_step v6 w st c = esc_step v6 w sb c /\ ws sb = false.
Proof.
  intros v6 w st sb c B.
  assert (W: ws sb = false).
  { destruct (begin_tok_cases w st) as [[A B']|[[A [_ B']]|[A [_ B']]]]; rewrite B' in B; inversion B; subst; try assumption; reflexivity. }
  split; [|assumption]. unfold esc_step at 1 2. rewrite B.
  destruct (begin_tok_cases w sb) as [[_ B2]|[[A _]|[A _]]]; try congruence. rewrite B2. reflexivity.
Qed.

Lemma step_cols_mono : forall v6 w st c, (ncols st <= ncols (rstate (step v6 w st c)))%nat.
Proof.
  intros v6 w st c. unfold step. destruct (esc st).
  - destruct (begin_tok w st) as [sb|] eqn:B.
    + destruct (esc_step_begun v6 w st sb c B) as [E W]. rewrite E, (esc_cols_f v6 w sb c W).
      destruct (begin_tok_cases w st) as [[_ B']|[[_ [_ B']]|[_ [_ B']]]]; rewrite B' in B; inversion B; subst; simpl; lia.
    + unfold esc_step. rewrite B. simpl. lia.
  - unfold plain_step, begin_tok, end_tok. destruct st as [d cu nc es q ws0 a n m]. simpl.
    repeat match goal with |- context [if ?b then _ else _] => destruct b end; simpl; lia.
Qed.

(* a step that leaves n_cols alone did not start a token, so tok_want was not consulted *)
Lemma step_same_cols : forall v6 w1 w2 st c,
  ws st = true -> (ncols st < w2)%nat ->
  ncols (rstate (step v6 w2 st c)) = ncols st ->
  step v6 w1 st c = step v6 w2 st c.
Proof.
  intros v6 w1 w2 st c W L H. unfold step in *. destruct (esc st).
  - exfalso. destruct (begin_tok_cases w2 st) as [[A _]|[[_ [A _]]|[_ [_ B]]]]; try congruence; try lia.
    destruct (esc_step_begun v6 w2 st _ c B) as [E W2]. rewrite E, (esc_cols_f _ _ _ _ W2) in H. simpl in H. lia.
  - unfold plain_step, begin_tok, end_tok in *. destruct st as [d cu nc es q ws0 a n m]. simpl in *. subst ws0.
    replace (w2 <=? nc)%nat with false in * by (symmetry; apply Nat.leb_gt; assumption).
    repeat match goal with |- context [if ?b then _ else _] => destruct b end; simpl in *; try reflexivity; try lia;
      try discriminate.
Qed.

Lemma step_cols_le : forall v6 w st c, (ncols (rstate (step v6 w st c)) <= S (ncols st))%nat.
Proof.
  intros v6 w st c. unfold step. destruct (esc st).
  - destruct (begin_tok w st) as [sb|] eqn:B.
    + destruct (esc_step_begun v6 w st sb c B) as [E W]. rewrite E, (esc_cols_f v6 w sb c W).
      destruct (begin_tok_cases w st) as [[_ B']|[[_ [_ B']]|[_ [_ B']]]]; rewrite B' in B; inversion B; subst; simpl; lia.
    + unfold esc_step. rewrite B. simpl. lia.
  - unfold plain_step, begin_tok, end_tok. destruct st as [d cu nc es q ws0 a n m]. simpl.
    repeat match goal with |- context [if ?b then _ else _] => destruct b end; simpl; lia.
Qed.

Definition final_cols (r : tstate * option terr * list N) : nat := ncols (fst (fst r)).

Lemma run_cols_mono : forall v6 w s st, (ncols st <= final_cols (run v6 w st s))%nat.
Proof.
  induction s as [|c r IH]; intro st; simpl; [unfold final_cols; simpl; lia|].
  pose proof (step_cols_mono v6 w st c) as M.
  destruct (step v6 w st c) as [st'|st' e]; simpl in M.
  - specialize (IH st'). lia.
  - unfold final_cols. simpl. lia.
Qed.

Lemma run_want : forall v6 w1 w2 s st,
  (ncols st + length s < w2)%nat ->
  (final_cols (run v6 w2 st s) <= w1)%nat ->
  run v6 w1 st s = run v6 w2 st s.
Proof.
  induction s as [|c r IH]; intros st L Fc; [reflexivity|].
  cbn [run] in *. cbn [length] in L.
  assert (E: step v6 w1 st c = step v6 w2 st c).
  { destruct (ws st) eqn:W.
    - destruct (Nat.lt_ge_cases (ncols st) w1) as [Lt|Ge].
      + apply step_eq. intros _. split; lia.
      + apply step_same_cols; [assumption | lia |].
        pose proof (step_cols_mono v6 w2 st c) as M.
        destruct (step v6 w2 st c) as [st'|st' e]; simpl in *.
        * pose proof (run_cols_mono v6 w2 r st'). lia.
        * unfold final_cols in Fc. simpl in Fc. lia.
    - apply step_eq. intro; congruence. }
  rewrite E.
  pose proof (step_cols_le v6 w2 st c) as Le.
  destruct (step v6 w2 st c) as [st'|st' e]; [|reflexivity].
  simpl in Le. apply IH; [lia | assumption].
Qed.

(* the whole call: when the unbounded tokenisation yields at most `want` tokens
   the bounded call returns the same tokens, the same error and the same *pos *)
Theorem tokenise_want_enough : forall fx v6 want s,
  (length (toks (tokenise fx v6 (S (length s)) s)) <= want)%nat ->
  tokenise fx v6 want s = tokenise fx v6 (S (length s)) s.
Proof.
  intros fx v6 want s H. unfold tokenise in *.
  assert (B0: binv (S (length s)) init_state 0).
  { unfold binv, init_state, written, resv, accok, cols_ok. simpl. repeat split; try lia; reflexivity. }
  pose proof (run_binv v6 (S (length s)) s init_state 0%nat B0) as R.
  assert (Fc: (final_cols (run v6 (S (length s)) init_state s) <= want)%nat).
  { destruct (run v6 (S (length s)) init_state s) as [[st e] rest] eqn:Rn. unfold final_cols. simpl.
    destruct R as (_ & _ & _ & [C1 _]). rewrite <- C1.
    (* the tokens returned are those of the final state, possibly after the flush, which adds none *)
    unfold finish in H.
    assert (T: forall st1 e1, length (tokens_of st1) = length (tokens_of st) ->
               forall o, (o = mkO (tokens_of st1) e1 (length s - length rest) \/
                          o = mkO (tokens_of st1) (match e1 with Some x => Some x | None => Some ErrUnterm end) (length s - length rest) \/
                          o = mkO (tokens_of st1) e1 (length s - length rest - 1)) ->
               length (toks o) = length (tokens_of st)).
    { intros st1 e1 E o [-> | [-> | ->]]; simpl; assumption. }
    assert (FL: length (tokens_of (fst (flush st))) = length (tokens_of st)).
    { unfold flush. destruct (esc st); [|reflexivity].
      destruct (mode st); try reflexivity;
        [ destruct (byte_or_err (acc st)) | destruct (byte_or_err (acc st)) | destruct (utf8 (acc st)) ];
        simpl; try reflexivity; rewrite emit_done_fields; rewrite !tokens_of_len; reflexivity. }
    revert H.
    destruct rest as [|c0 rest'].
    - destruct e as [e|].
      + cbv iota beta. intro H.
        erewrite <- (T st (Some e) eq_refl); [exact H|].
        destruct (quo st || esc st); [right; left | left]; reflexivity.
      + destruct fx.
        * destruct (flush st) as [st1 e1] eqn:Fl. simpl in FL. cbv iota beta. intro H.
          erewrite <- (T st1 e1 FL); [exact H|].
          destruct (quo st1 || esc st1); [right; left | left]; reflexivity.
        * cbv iota beta. intro H.
          erewrite <- (T st None eq_refl); [exact H|].
          destruct (quo st || esc st); [right; left | left]; reflexivity.
    - cbv iota beta. intro H.
      erewrite <- (T st e eq_refl); [exact H|].
      destruct (quo st || esc st); [|left; reflexivity].
      destruct (is_lf_or_end (c0 :: rest')); [right; left | right; right]; reflexivity. }
  rewrite (run_want v6 want (S (length s)) s init_state); [reflexivity | simpl; lia | exact Fc].
Qed.

(* every line the Standards accept with at most MAX_IN_COLS tokens is
   tokenised, by the bounded call the parser makes, exactly as they say *)
Theorem tok_line_conforming_lemma : forall v6 s l,
  tok_spec v6 s = TOk l -> (length l <= MAX_IN_COLS)%nat -> tok_line true v6 s = TOk l.
Proof.
  intros v6 s l H L. rewrite <- tok_impl_fixed_spec in H. unfold tok_impl, tok_line, result_of in *.
  destruct (terror (tokenise true v6 (S (length s)) s)) eqn:E; [discriminate|]. inversion H as [T].
  rewrite tokenise_want_enough by (rewrite T; assumption). rewrite E, T. reflexivity.
Qed.
