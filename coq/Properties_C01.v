(* Property theorems for C01 -- statements only; proofs are `exact` of lemmas. *)
From Coq Require Import ZArith List.
From GD Require Import C06.Convert C01.Field C01.Read C01.Inst C01.Exec.
Import ListNotations.
Local Open Scope Z_scope.
