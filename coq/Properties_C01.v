(* Property theorems for C01 -- statements only; proofs are `exact` of lemmas.
   `variant` (C01/Field.v) says which source is modelled: v0 = /repo before the
   repairs proposed here, v1 = with all of them; translate/tr_readpath.py decides
   the flags from the source at every run.  The general theorems hold for every
   variant. *)
From Coq Require Import ZArith List.
From GD Require Import C06.Convert C01.Field C01.Read C01.Inst C01.ReadProofs C01.Witness C01.WitnessProofs.
Import ListNotations.
Local Open Scope Z_scope.

(* Source variants: v0 = before any repair proposed here (history), vc = the
   frozen tree (C01-1/2/4, C16-1/3/4 applied; C01-3 and C16-2 not), v1 = all.

   The full statement (kept visible):
   read_matches_spec_statement v :=
     forall A db f rt s n, wf db f -> 0 <= s -> 0 <= n ->
       impl_read A db v lb rt f s n = Some (spec_window A db lb rt f s n). *)

(* it is still false of the frozen tree: padding before the frame offset follows
   the native type (open finding getdata/raw-bof-pad-native-type) *)
Theorem read_matches_spec_refuted : ~ read_matches_spec_statement vc.
Proof. exact statement_refuted_current. Qed.

(* history: the pre-repair source (unaligned starts) *)
Theorem read_matches_spec_refuted_before_repairs : ~ read_matches_spec_statement v0.
Proof. exact statement_refuted. Qed.

(* THE theorem for the frozen tree (flags v_align, v_alloc0): for every field
   without MPLEX and EVERY window -- unaligned starts, mixed rates, before sample
   zero, n = 0 -- the read is the specified window unless it reaches native-type
   padding of a RAW leaf. *)
Theorem read_matches_spec_current :
  forall (A : Alg) (db : database) (v : variant) (lb : Z) (f : field) (rt : ctype) (s n : Z),
    v_align v = true -> v_alloc0 v = true -> wf db f -> mplex_free f -> 0 <= n ->
    ~ In TRawPad (uncovered A db v lb rt f s n) ->
    impl_read A db v lb rt f s n = Some (spec_window A db lb rt f s n).
Proof. exact read_ok_current. Qed.

(* sample k does not depend on how a window is split into two reads *)
Theorem window_split_independent :
  forall (A : Alg) (db : database) (v : variant) (lb : Z) (f : field) (rt : ctype) (s a b : Z) (X Y : list (V A)),
    wf db f -> 0 <= a -> 0 <= b -> lb < 0 \/ mplexfreeb f = true ->
    covered A db v lb rt f s (a + b) -> covered A db v lb rt f s a -> covered A db v lb rt f (s + a) b ->
    impl_read A db v lb rt f s a = Some X -> zlen X = a ->
    impl_read A db v lb rt f (s + a) b = Some Y ->
    impl_read A db v lb rt f s (a + b) = Some (X ++ Y).
Proof. exact window_split. Qed.

(* On the covered region -- every source variant, field type, nesting depth,
   sample rates, window and value algebra -- gd_getdata returns exactly the
   window the Standards define (count and every value). *)
Theorem read_matches_spec_partial :
  forall (A : Alg) (db : database) (v : variant) (lb : Z) (f : field) (rt : ctype) (s n : Z),
    wf db f -> 0 <= n -> covered A db v lb rt f s n ->
    impl_read A db v lb rt f s n = Some (spec_window A db lb rt f s n).
Proof. exact read_ok. Qed.

(* With the repairs C01-2/3/4 nothing is excluded for fields without MPLEX:
   every window, aligned or not, also before sample zero. *)
Theorem read_matches_spec_repaired :
  forall (A : Alg) (db : database) (v : variant) (lb : Z) (f : field) (rt : ctype) (s n : Z),
    read_repaired v -> wf db f -> mplex_free f -> 0 <= n ->
    impl_read A db v lb rt f s n = Some (spec_window A db lb rt f s n).
Proof. exact read_ok_repaired. Qed.

(* the returned count ends exactly at the end-of-field *)
Theorem read_count_partial :
  forall (A : Alg) (db : database) (v : variant) (lb : Z) (f : field) (rt : ctype) (s n : Z),
    wf db f -> 0 <= n -> covered A db v lb rt f s n ->
    read_count A db v lb rt f s n = Some (spec_count db f s n).
Proof. exact read_count_ok. Qed.

(* sample i of the result is the documented value of absolute sample s+i *)
Theorem read_sample_partial :
  forall (A : Alg) (db : database) (v : variant) (lb : Z) (f : field) (rt : ctype) (s n i : Z),
    wf db f -> 0 <= n -> covered A db v lb rt f s n -> 0 <= i < spec_count db f s n ->
    option_map (fun l => nthZ l i (garbage A)) (impl_read A db v lb rt f s n)
    = Some (spec_val A db lb rt f s (s + i)).
Proof. exact read_sample_ok. Qed.

(* below the end-of-field the documented formula only uses input samples below
   the inputs' ends *)
Theorem spec_inputs_below_eof :
  forall e1 e2 s1 s2 k, 0 < s1 -> 0 < s2 ->
    elt k (emin e1 (escale e2 s1 s2)) -> elt k e1 /\ elt (k * s2 / s1) e2.
Proof. exact spec_inputs_exist. Qed.

(* the excluded regions are inhabited by failures of the unrepaired code ... *)
Theorem unaligned_start_witness :
  impl_read XAlg db_ab v0 (-1) F64 m_ab 1 4 =
    Some [XV 4626322717216342016; XV 4629137466983448576; XV 4635329916471083008; XV 4636737291354636288] /\
  spec_window XAlg db_ab (-1) F64 m_ab 1 4 =
    [XV 4626322717216342016; XV 4633641066610819072; XV 4635329916471083008; XV 4639481672377565184] /\
  uncovered XAlg db_ab v0 (-1) F64 m_ab 1 4 = [TUnaligned].
Proof. exact witness_unaligned. Qed.

(* ... which the repair removes *)
Theorem unaligned_start_repaired_witness :
  impl_read XAlg db_ab v1 (-1) F64 m_ab 1 4 = Some (spec_window XAlg db_ab (-1) F64 m_ab 1 4) /\
  uncovered XAlg db_ab v1 (-1) F64 m_ab 1 4 = [].
Proof. exact witness_unaligned_repaired. Qed.

Theorem raw_pad_witness :
  impl_read XAlg db_fo v0 (-1) F64 a 2 4 =
    Some [XV 0; XV 0; XV 4607182418800017408; XV 4611686018427387904] /\
  spec_window XAlg db_fo (-1) F64 a 2 4 =
    [XV 9221120237041090560; XV 9221120237041090560; XV 4607182418800017408; XV 4611686018427387904] /\
  uncovered XAlg db_fo v0 (-1) F64 a 2 4 = [TRawPad] /\
  impl_read XAlg db_fo v1 (-1) F64 a 2 4 = Some (spec_window XAlg db_fo (-1) F64 a 2 4).
Proof. exact witness_raw_pad. Qed.

(* the hypotheses of the partial theorems are satisfiable (two rates, aligned start) *)
Example covered_is_inhabited :
  wf db_ab m_ab /\ covered XAlg db_ab v0 (-1) F64 m_ab 2 4 /\
  impl_read XAlg db_ab v0 (-1) F64 m_ab 2 4 =
    Some [XV 4633641066610819072; XV 4635329916471083008; XV 4639481672377565184; XV 4640537203540230144].
Proof. exact covered_example. Qed.
