(* C18: appending to a sample-index-encoded (sie) field, at record level.
   A file is a list of records (last sample of the run, value).  To append
   sample n the library first writes and flushes a record (n, 0)
   (_GD_SampIndSeek, src/sie.c "add a new record") and the following write
   replaces that record in place by (n, v).  A reader decodes the records. *)
From Coq Require Import NArith Arith List Bool Lia.
Import ListNotations.

Definition srec := (nat * N)%type.

Fixpoint decode_from (pos : nat) (rs : list srec) : list N :=
  match rs with
  | [] => []
  | (e, v) :: r => repeat v (S e - pos) ++ decode_from (S e) r
  end.
Definition decode (rs : list srec) : list N := decode_from 0 rs.

Inductive sstep := SPlace (n : nat) | SFill (n : nat) (v : N).

Definition sexec (s : sstep) (rs : list srec) : list srec :=
  match s with
  | SPlace n => rs ++ [(n, 0%N)]
  | SFill n v => removelast rs ++ [(n, v)]
  end.

Fixpoint sie_writer (n : nat) (vs : list N) : list sstep :=
  match vs with
  | [] => []
  | v :: r => SPlace n :: SFill n v :: sie_writer (S n) r
  end.

Definition srun (steps : list sstep) (rs : list srec) : list srec :=
  fold_left (fun r s => sexec s r) steps rs.

(* one record per sample: the file the writer itself produces for distinct values *)
Definition recs_of (start : nat) (ws : list N) : list srec := combine (seq start (length ws)) ws.

(* what a reader decodes after j system-call-level steps of the writer *)
Definition sie_observed (ws vs : list N) (j : nat) : list N :=
  decode (srun (firstn j (sie_writer (length ws) vs)) (recs_of 0 ws)).

Lemma recs_of_app : forall ws us start, recs_of start (ws ++ us) = recs_of start ws ++ recs_of (start + length ws) us.
Proof.
  induction ws as [|w ws IH]; intros us start.
  - unfold recs_of. simpl. rewrite Nat.add_0_r. reflexivity.
  - unfold recs_of. simpl. f_equal. specialize (IH us (S start)). unfold recs_of in IH.
    rewrite IH. replace (start + S (length ws)) with (S start + length ws) by lia. reflexivity.
Qed.

Lemma decode_dense : forall ws start, decode_from start (recs_of start ws) = ws.
Proof.
  induction ws as [|w ws IH]; intros start; [reflexivity|].
  unfold recs_of in *. cbn [length seq combine decode_from].
  replace (S start - start) with 1 by lia. cbn [repeat app]. now rewrite IH.
Qed.

Definition pending (vs : list N) (j : nat) : list N :=
  if Nat.odd j && (Nat.div2 j <? length vs) then [0%N] else [].

Lemma sie_state : forall vs ws j,
  srun (firstn j (sie_writer (length ws) vs)) (recs_of 0 ws) =
  recs_of 0 (ws ++ firstn (Nat.div2 j) vs ++ pending vs j).
Proof.
  induction vs as [|v vs IH]; intros ws j.
  - simpl. rewrite firstn_nil. simpl. unfold pending. simpl. rewrite andb_false_r.
    rewrite firstn_nil. now rewrite !app_nil_r.
  - destruct j as [|[|j]].
    + simpl. unfold pending. simpl. now rewrite app_nil_r.
    + simpl. unfold pending. simpl. rewrite recs_of_app. simpl. reflexivity.
    + change (firstn (S (S j)) (sie_writer (length ws) (v :: vs)))
        with (SPlace (length ws) :: SFill (length ws) v :: firstn j (sie_writer (S (length ws)) vs)).
      simpl srun.
      rewrite removelast_last.
      assert (E : recs_of 0 ws ++ [(length ws, v)] = recs_of 0 (ws ++ [v])) by (rewrite recs_of_app; reflexivity).
      rewrite E. replace (S (length ws)) with (length (ws ++ [v])) by (rewrite app_length; simpl; lia).
      rewrite IH. f_equal. rewrite <- app_assoc. simpl. unfold pending. simpl.
      reflexivity.
Qed.

(* the exact observation at every step *)
Lemma sie_observed_eq : forall ws vs j,
  sie_observed ws vs j = ws ++ firstn (Nat.div2 j) vs ++ pending vs j.
Proof. intros. unfold sie_observed, decode. rewrite sie_state. apply decode_dense. Qed.

Definition list_prefix (a b : list N) : Prop := exists t, b = a ++ t.

(* between two appends (even j) the reader sees exactly a prefix of what the writer wrote *)
Lemma sie_even_consistent_lemma : forall ws vs j, Nat.odd j = false ->
  list_prefix (sie_observed ws vs j) (ws ++ vs).
Proof.
  intros ws vs j H. rewrite sie_observed_eq. unfold pending. rewrite H. simpl. rewrite app_nil_r.
  exists (skipn (Nat.div2 j) vs). rewrite <- app_assoc. now rewrite firstn_skipn.
Qed.

(* the exact window: after the placeholder of sample k and before its data
   the reader sees one more sample than the writer has written, and it is 0 *)
Lemma sie_window_lemma : forall ws vs j, Nat.odd j = true -> Nat.div2 j < length vs ->
  sie_observed ws vs j = ws ++ firstn (Nat.div2 j) vs ++ [0%N] /\
  (nth (Nat.div2 j) vs 0%N <> 0%N -> ~ list_prefix (sie_observed ws vs j) (ws ++ vs)).
Proof.
  intros ws vs j H L. rewrite sie_observed_eq. unfold pending. rewrite H.
  apply Nat.ltb_lt in L. rewrite L. simpl. split; auto.
  intros NZ (t & E). apply Nat.ltb_lt in L.
  rewrite <- (firstn_skipn (Nat.div2 j) vs) in E at 1.
  rewrite <- !app_assoc in E. apply app_inv_head in E. apply app_inv_head in E.
  destruct (skipn (Nat.div2 j) vs) as [|x r] eqn:SK.
  - assert (length (skipn (Nat.div2 j) vs) = 0) by now rewrite SK. rewrite skipn_length in H0. lia.
  - simpl in E. inversion E; subst. apply NZ.
    rewrite <- (firstn_skipn (Nat.div2 j) vs). rewrite app_nth2; rewrite firstn_length; [|lia].
    replace (Nat.div2 j - Nat.min (Nat.div2 j) (length vs)) with 0 by lia. rewrite SK. reflexivity.
Qed.

Definition sie_consistent_statement : Prop :=
  forall ws vs j, list_prefix (sie_observed ws vs j) (ws ++ vs).

Lemma sie_refuted_lemma : ~ sie_consistent_statement.
Proof.
  intros H. destruct (sie_window_lemma [] [5%N] 1 eq_refl ltac:(simpl; lia)) as (_ & N).
  apply N; [simpl; discriminate|apply H].
Qed.
