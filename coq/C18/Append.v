(* C18: a RAW field file that is appended to, seen by a concurrent reader.

   writer (in place: unencoded data)  = open(O_CREAT) ; write chunk ; write chunk ; ...
       the chunks cut the byte stream anywhere (inside samples and frames)
   reader with a fresh handle          = a function of the file content at that instant:
       nframes = size / (sample size * spf), rounded down (raw.c:149-165, nframes.c)
       frame f = bytes [f*fsz, (f+1)*fsz)
   writer (out of place: gzip, bzip2, lzma) publishes complete versions by
       creat_excl tmp ; write* ; close ; rename tmp -> data    (C12's protocol) *)
From Coq Require Import NArith Arith List Bool Lia.
From GD Require Import C12.Fs C12.FsLemmas.
Import ListNotations.

Definition nframes (fsz : nat) (c : content) : nat := length c / fsz.
Definition frame (fsz : nat) (c : content) (f : nat) : content := firstn fsz (skipn (f * fsz) c).

Definition writer_trace (d : fd) (p : path) (chunks : list content) : list tstep :=
  ok (OpenC d p 438%N) :: map ok (wr d chunks).

Definition content_at (st : state) (p : path) : content :=
  match lookup st p with Some c => c | None => [] end.

(* ---- a reader that keeps its descriptor and position (raw.c:60-104):
   pos counts whole samples, the descriptor offset counts bytes; a seek to
   the sample the handle believes it is at is skipped ---- *)
Record rd := mkrd { rpos : nat; roff : nat }.

(* read up to n samples of size sz starting at sample s0 from content c.
   fx = does _GD_RawRead step back over a trailing partial sample?
   (regenerated from src/raw.c by translate/tr_rawread.py -> Gen.RawShape) *)
Definition rd_read (fx : bool) (sz : nat) (c : content) (r : rd) (s0 n : nat) : content * rd :=
  let off := if rpos r =? s0 then roff r else s0 * sz in
  let got := firstn (n * sz) (skipn off c) in
  let whole := length got / sz in
  (firstn (whole * sz) got, mkrd (s0 + whole) (if fx then off + whole * sz else off + length got)).

Definition aligned (sz : nat) (r : rd) : Prop := roff r = rpos r * sz.
