From GD Require Import C12.Fs C12.FsLemmas C12.FlushProto C18.Append C18.Sie.
Require Import ExtrOcamlBasic.
Extraction Language OCaml.
Extraction "model.ml" nframes frame writer_trace content_at crash rd_read empty_state sie_observed.
