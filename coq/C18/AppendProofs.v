From Coq Require Import NArith Arith List Bool Lia.
From GD Require Import C12.Fs C12.FsLemmas C12.FlushProto C12.FlushProofs C12.FlushTheorems C18.Append.
Import ListNotations.

Definition is_prefix (a b : content) : Prop := exists t, b = a ++ t.

Lemma nframes_prefix_mono : forall fsz a b, fsz <> 0 -> is_prefix a b -> nframes fsz a <= nframes fsz b.
Proof.
  intros fsz a b Hz (t & ->). unfold nframes. rewrite app_length.
  apply Nat.div_le_mono; auto. lia.
Qed.

Lemma nframes_bound : forall fsz c f, fsz <> 0 -> f < nframes fsz c -> (f + 1) * fsz <= length c.
Proof.
  intros fsz c f Hz H. unfold nframes in H.
  assert (f + 1 <= length c / fsz) by lia.
  assert (fsz * (length c / fsz) <= length c) by (apply Nat.mul_div_le; auto).
  nia.
Qed.

Lemma frame_prefix : forall fsz a b f, fsz <> 0 -> is_prefix a b -> f < nframes fsz a ->
  frame fsz a f = frame fsz b f.
Proof.
  intros fsz a b f Hz (t & ->) H. unfold frame.
  assert (B := nframes_bound fsz a f Hz H).
  rewrite skipn_app. replace (f * fsz - length a) with 0 by lia. simpl.
  rewrite firstn_app. rewrite skipn_length. replace (fsz - (length a - f * fsz)) with 0 by lia.
  simpl. now rewrite app_nil_r.
Qed.

Lemma frame_complete : forall fsz c f, fsz <> 0 -> f < nframes fsz c -> length (frame fsz c f) = fsz.
Proof.
  intros fsz c f Hz H. unfold frame. assert (B := nframes_bound fsz c f Hz H).
  rewrite firstn_length, skipn_length. lia.
Qed.

(* ---- the file content at every instant of an appending writer ---- *)
Lemma firstn_map_ok : forall (l : list step) j, firstn j (map ok l) = map ok (firstn j l).
Proof. intros. now rewrite firstn_map. Qed.

Lemma wr_firstn : forall d cs j, firstn j (wr d cs) = wr d (firstn j cs).
Proof. intros. unfold wr. now rewrite firstn_map. Qed.

Lemma writer_content : forall d p chunks st j, fs_wf st ->
  content_at (crash (writer_trace d p chunks) (S j) st) p = content_at st p ++ concat (firstn j chunks) /\
  lookup (crash (writer_trace d p chunks) (S j) st) p <> None.
Proof.
  intros d p chunks st j W. unfold crash, writer_trace. simpl firstn. rewrite run_cons.
  rewrite firstn_map_ok, wr_firstn.
  set (st1 := exec (ok (OpenC d p 438%N)) st).
  assert (H1 : exists i, fdt st1 d = Some i /\ names st1 p = Some i /\ fdata (inodes st1 i) = content_at st p).
  { unfold st1, exec, content_at, lookup; simpl. destruct (names st p) eqn:E.
    - exists i. simpl. rewrite upd_same. auto.
    - exists (nexti st). unfold new_inode; simpl. rewrite !upd_same. auto. }
  destruct H1 as (i & Hd & Hn & Hc).
  destruct (run_writes d (firstn j chunks) st1 i Hd) as (A & _ & _ & D & _).
  unfold content_at at 1. unfold lookup. rewrite A, Hn. split; [|discriminate].
  rewrite D, Hc. reflexivity.
Qed.

Lemma writer_content_0 : forall d p chunks st, crash (writer_trace d p chunks) 0 st = st.
Proof. reflexivity. Qed.

Lemma firstn_split : forall A (l : list A) j k, firstn (j + k) l = firstn j l ++ firstn k (skipn j l).
Proof.
  intros A l j. revert l. induction j; intros l k; simpl; auto.
  destruct l; simpl.
  - now rewrite firstn_nil.
  - now rewrite IHj.
Qed.

Lemma firstn_prefix : forall A (l : list A) j j', j <= j' -> exists t, firstn j' l = firstn j l ++ t.
Proof.
  intros A l j j' H. exists (firstn (j' - j) (skipn j l)).
  replace j' with (j + (j' - j)) at 1 by lia. apply firstn_split.
Qed.

Lemma writer_prefix : forall d p chunks st j j', fs_wf st -> j <= j' ->
  is_prefix (content_at (crash (writer_trace d p chunks) j st) p)
            (content_at (crash (writer_trace d p chunks) j' st) p).
Proof.
  intros d p chunks st j j' W H.
  destruct j' as [|j']; [replace j with 0 by lia; exists []; now rewrite app_nil_r|].
  destruct (writer_content d p chunks st j' W) as (E' & _). rewrite E'.
  destruct j as [|j].
  - rewrite writer_content_0. eexists; reflexivity.
  - destruct (writer_content d p chunks st j W) as (E & _). rewrite E.
    destruct (firstn_prefix _ chunks j j' ltac:(lia)) as (t & ->).
    rewrite concat_app, app_assoc. eexists; reflexivity.
Qed.

Lemma writer_prefix_final : forall d p chunks st j, fs_wf st ->
  is_prefix (content_at (crash (writer_trace d p chunks) j st) p) (content_at st p ++ concat chunks).
Proof.
  intros d p chunks st j W.
  destruct j as [|j].
  - rewrite writer_content_0. eexists; reflexivity.
  - destruct (writer_content d p chunks st j W) as (E & _). rewrite E.
    exists (concat (skipn j chunks)). rewrite <- app_assoc, <- concat_app, firstn_skipn. reflexivity.
Qed.

(* ---- the long-lived handle can desynchronise: sample size 2, the file
   holds 2 1/2 samples when the reader asks for everything, then grows ---- *)
Definition dz_c1 : content := [1; 0; 2; 0; 3]%N.
Definition dz_c2 : content := [1; 0; 2; 0; 3; 0; 4; 0]%N.
Definition dz_r1 := rd_read false 2 dz_c1 (mkrd 0 0) 0 10.
Definition dz_r2 := rd_read false 2 dz_c2 (snd dz_r1) 2 10.

Lemma desync_witness :
  fst dz_r1 = [1; 0; 2; 0]%N /\ fst dz_r2 <> firstn 4 (skipn 4 dz_c2) /\ fst dz_r2 = [0; 4]%N.
Proof. vm_compute. repeat split; discriminate || reflexivity. Qed.

(* ---- with the step back over a partial sample the handle stays aligned and
   every read returns exactly the bytes of whole samples from s0 on ---- *)
Lemma rd_read_fixed : forall sz c r s0 n, sz <> 0 -> aligned sz r ->
  let res := rd_read true sz c r s0 n in
  fst res = firstn (length (fst res)) (skipn (s0 * sz) c) /\
  aligned sz (snd res) /\
  rpos (snd res) * sz = s0 * sz + length (fst res) /\
  (exists k, length (fst res) = k * sz).
Proof.
  intros sz c r s0 n Hz A. unfold rd_read. simpl.
  assert (O : (if rpos r =? s0 then roff r else s0 * sz) = s0 * sz).
  { destruct (Nat.eqb_spec (rpos r) s0); auto. unfold aligned in A. congruence. }
  rewrite O. set (g := firstn (n * sz) (skipn (s0 * sz) c)). set (w := length g / sz).
  assert (Lw : w * sz <= length g). { unfold w. rewrite Nat.mul_comm. apply Nat.mul_div_le; auto. }
  assert (L : length (firstn (w * sz) g) = w * sz) by (rewrite firstn_length; lia).
  rewrite L. repeat split.
  - unfold g at 1. rewrite firstn_firstn. f_equal. unfold g in Lw. rewrite firstn_length in Lw. lia.
  - unfold aligned; simpl. lia.
  - lia.
  - exists w; auto.
Qed.
