From Coq Require Import NArith Arith List Bool Lia.
From GD Require Import C12.Fs C12.FsLemmas C12.FlushProto C12.FlushProofs C12.FlushTheorems C18.Append.
Import ListNotations.

Definition is_prefix (a b : content) : Prop := exists t, b = a ++ t.

Lemma nframes_prefix_mono : forall fsz a b, fsz <> 0 -> is_prefix a b -> nframes fsz a <= nframes fsz b.
Proof.
  intros fsz a b Hz (t & ->). unfold nframes. rewrite app_length.
  apply Nat.div_le_mono; auto. lia.
Qed.

Lemma nframes_bound : forall fsz c f, fsz <> 0 -> f < nframes fsz c -> (f + 1) * fsz <= length c.
Proof.
  intros fsz c f Hz H. unfold nframes in H.
  assert (f + 1 <= length c / fsz) by lia.
  assert (fsz * (length c / fsz) <= length c) by (apply Nat.mul_div_le; auto).
  nia.
Qed.

Lemma frame_prefix : forall fsz a b f, fsz <> 0 -> is_prefix a b -> f < nframes fsz a ->
  frame fsz a f = frame fsz b f.
Proof.
  intros fsz a b f Hz (t & ->) H. unfold frame.
  assert (B := nframes_bound fsz a f Hz H).
  rewrite skipn_app. replace (f * fsz - length a) with 0 by lia. simpl.
  rewrite firstn_app. rewrite skipn_length. replace (fsz - (length a - f * fsz)) with 0 by lia.
  simpl. now rewrite app_nil_r.
Qed.

Lemma frame_complete : forall fsz c f, fsz <> 0 -> f < nframes fsz c -> length (frame fsz c f) = fsz.
Proof.
  intros fsz c f Hz H. unfold frame. assert (B := nframes_bound fsz c f Hz H).
  rewrite firstn_length, skipn_length. lia.
Qed.

(* ---- the file content at every instant of an appending writer ---- *)
Lemma firstn_map_ok : forall (l : list step) j, firstn j (map ok l) = map ok (firstn j l).
Proof. intros. now rewrite firstn_map. Qed.

Lemma wr_firstn : forall d cs j, firstn j (wr d cs) = wr d (firstn j cs).
Proof. intros. unfold wr. now rewrite firstn_map. Qed.

Lemma writer_content : forall d p chunks st j, fs_wf st ->
  content_at (crash (writer_trace d p chunks) (S j) st) p = content_at st p ++ concat (firstn j chunks) /\
  lookup (crash (writer_trace d p chunks) (S j) st) p <> None.
Proof.
  intros d p chunks st j W. unfold crash, writer_trace. simpl firstn. rewrite run_cons.
  rewrite firstn_map_ok, wr_firstn.
  set (st1 := exec (ok (OpenC d p 438%N)) st).
  assert (H1 : exists i, fdt st1 d = Some i /\ names st1 p = Some i /\ fdata (inodes st1 i) = content_at st p).
  { unfold st1, exec, content_at, lookup; simpl. destruct (names st p) eqn:E.
    - exists i. simpl. rewrite upd_same. auto.
    - exists (nexti st). unfold new_inode; simpl. rewrite !upd_same. auto. }
  destruct H1 as (i & Hd & Hn & Hc).
  destruct (run_writes d (firstn j chunks) st1 i Hd) as (A & _ & _ & D & _).
  unfold content_at at 1. unfold lookup. rewrite A, Hn. split; [|discriminate].
  rewrite D, Hc. reflexivity.
Qed.

Lemma writer_content_0 : forall d p chunks st, crash (writer_trace d p chunks) 0 st = st.
Proof. reflexivity. Qed.

Lemma firstn_split : forall A (l : list A) j k, firstn (j + k) l = firstn j l ++ firstn k (skipn j l).
Proof.
  intros A l j. revert l. induction j; intros l k; simpl; auto.
  destruct l; simpl.
  - now rewrite firstn_nil.
  - now rewrite IHj.
Qed.

Lemma firstn_prefix : forall A (l : list A) j j', j <= j' -> exists t, firstn j' l = firstn j l ++ t.
Proof.
  intros A l j j' H. exists (firstn (j' - j) (skipn j l)).
  replace j' with (j + (j' - j)) at 1 by lia. apply firstn_split.
Qed.

Lemma writer_prefix : forall d p chunks st j j', fs_wf st -> j <= j' ->
  is_prefix (content_at (crash (writer_trace d p chunks) j st) p)
            (content_at (crash (writer_trace d p chunks) j' st) p).
Proof.
  intros d p chunks st j j' W H.
  destruct j' as [|j']; [replace j with 0 by lia; exists []; now rewrite app_nil_r|].
  destruct (writer_content d p chunks st j' W) as (E' & _). rewrite E'.
  destruct j as [|j].
  - rewrite writer_content_0. eexists; reflexivity.
  - destruct (writer_content d p chunks st j W) as (E & _). rewrite E.
    destruct (firstn_prefix _ chunks j j' ltac:(lia)) as (t & ->).
    rewrite concat_app, app_assoc. eexists; reflexivity.
Qed.

Lemma writer_prefix_final : forall d p chunks st j, fs_wf st ->
  is_prefix (content_at (crash (writer_trace d p chunks) j st) p) (content_at st p ++ concat chunks).
Proof.
  intros d p chunks st j W.
  destruct j as [|j].
  - rewrite writer_content_0. eexists; reflexivity.
  - destruct (writer_content d p chunks st j W) as (E & _). rewrite E.
    exists (concat (skipn j chunks)). rewrite <- app_assoc, <- concat_app, firstn_skipn. reflexivity.
Qed.

(* ---- the long-lived handle can desynchronise: sample size 2, the file
   holds 2 1/2 samples when the reader asks for everything, then grows ---- *)
Definition dz_c1 : content := [1; 0; 2; 0; 3]%N.
Definition dz_c2 : content := [1; 0; 2; 0; 3; 0; 4; 0]%N.
Definition dz_r1 := rd_read false 2 dz_c1 (mkrd 0 0) 0 10.
Definition dz_r2 := rd_read false 2 dz_c2 (snd dz_r1) 2 10.

Lemma desync_witness :
  fst dz_r1 = [1; 0; 2; 0]%N /\ fst dz_r2 <> firstn 4 (skipn 4 dz_c2) /\ fst dz_r2 = [0; 4]%N.
Proof. vm_compute. repeat split; discriminate || reflexivity. Qed.

(* ---- with the step back over a partial sample the handle stays aligned and
   every read returns exactly the bytes of whole samples from s0 on ---- *)
Lemma rd_read_fixed : forall sz c r s0 n, sz <> 0 -> aligned sz r ->
  let res := rd_read true sz c r s0 n in
  fst res = firstn (length (fst res)) (skipn (s0 * sz) c) /\
  aligned sz (snd res) /\
  rpos (snd res) * sz = s0 * sz + length (fst res) /\
  (exists k, length (fst res) = k * sz).
Proof.
  intros sz c r s0 n Hz A. unfold rd_read. simpl.
  assert (O : (if rpos r =? s0 then roff r else s0 * sz) = s0 * sz).
  { destruct (Nat.eqb_spec (rpos r) s0); auto. unfold aligned in A. congruence. }
  rewrite O. set (g := firstn (n * sz) (skipn (s0 * sz) c)). set (w := length g / sz).
  assert (Lw : w * sz <= length g). { unfold w. rewrite Nat.mul_comm. apply Nat.mul_div_le; auto. }
  assert (L : length (firstn (w * sz) g) = w * sz) by (rewrite firstn_length; lia).
  rewrite L. repeat split.
  - unfold g at 1. rewrite firstn_firstn. f_equal. unfold g in Lw. rewrite firstn_length in Lw. lia.
  - unfold aligned; simpl. lia.
  - lia.
  - exists w; auto.
Qed.

(* ---------------------------------------------------------------- a sequence of out-of-place publications *)
Section Publications.
  Variables (cl : bool) (tfd : fd) (p : path).

  Definition pub_trace (f : frag) : list tstep := frag_trace cl tfd f false None.
  Definition seq_trace (pubs : list frag) : list tstep := flat_map pub_trace pubs.

  (* version i of the data file: 0 = what was there, i = what publication i wrote *)
  Definition ver (pubs : list frag) (st : state) (i : nat) : option content :=
    match i with
    | 0 => lookup st p
    | S i' => match nth_error pubs i' with Some f => Some (new_text f) | None => None end
    end.

  (* number of publications completed after j calls *)
  Fixpoint done_count (pubs : list frag) (j : nat) : nat :=
    match pubs with
    | [] => 0
    | f :: r => if length (pub_trace f) <=? j then S (done_count r (j - length (pub_trace f))) else 0
    end.

  Lemma nofault_shape : forall f,
    pub_trace f = ok (Creat tfd (ftmp f) 438%N) :: spath tfd f ++ [ok (Rename (ftmp f) (fpath f))].
  Proof.
    intros f. unfold pub_trace, frag_trace. rewrite plan_eq.
    change (inject ((Creat tfd (ftmp f) 438%N, []) :: apart cl tfd f ++ [last_entry f false]) None)
      with (ok (Creat tfd (ftmp f) 438%N) :: inject (apart cl tfd f ++ [last_entry f false]) None).
    destruct (tail_cases cl tfd f false None) as [(_ & M) | (_ & _ & ET)]; [discriminate|].
    now rewrite ET.
  Qed.

  (* before its last call a publication has not changed anything but its temporary file *)
  Lemma pub_incomplete : forall f j st q, fs_wf st -> names st (ftmp f) = None -> q <> ftmp f ->
    j < length (pub_trace f) -> lookup (run (firstn j (pub_trace f)) st) q = lookup st q.
  Proof.
    intros f j st q W Hn Hq Hj. rewrite nofault_shape in *.
    assert (HL : length (ok (Creat tfd (ftmp f) 438%N) :: spath tfd f ++ [ok (Rename (ftmp f) (fpath f))]) = S (length (spath tfd f) + 1))
      by (cbn [length]; rewrite app_length; reflexivity).
    rewrite HL in Hj.
    destruct j as [|j]; [reflexivity|].
    rewrite firstn_cons, run_cons. rewrite firstn_app_le by lia.
    destruct (creat_fresh st tfd (ftmp f) 438%N W Hn) as (O1 & _ & _ & _ & K1).
    destruct (local_run tfd (ftmp f) (firstn j (spath tfd f)) _ O1
                (Forall_firstn _ _ _ j (spath_local cl tfd f))) as (_ & K2).
    destruct (K2 q Hq) as (A & _). destruct (K1 q Hq) as (B & _). congruence.
  Qed.

  Opaque pub_trace.

  Lemma done_count_mono : forall pubs j j', j <= j' -> done_count pubs j <= done_count pubs j'.
  Proof.
    induction pubs as [|f r IH]; intros j j' H; simpl; auto.
    destruct (Nat.leb_spec (length (pub_trace f)) j), (Nat.leb_spec (length (pub_trace f)) j'); try lia.
    apply le_n_S. apply IH. lia.
  Qed.

  Lemma done_count_le : forall pubs j, done_count pubs j <= length pubs.
  Proof.
    induction pubs as [|f r IH]; intros j; simpl; auto.
    destruct (length (pub_trace f) <=? j); [apply le_n_S; auto|lia].
  Qed.

  Definition pubs_ok (pubs : list frag) (st : state) : Prop :=
    fs_wf st /\ NoDup (map ftmp pubs) /\
    forall f, In f pubs -> fpath f = p /\ ftmp f <> p /\ lookup st (ftmp f) = None.

  Transparent pub_trace.

  (* at every instant the data file holds exactly version done_count(j) *)
  Lemma seq_version : forall pubs st j, pubs_ok pubs st ->
    lookup (crash (seq_trace pubs) j st) p = ver pubs st (done_count pubs j).
  Proof.
    induction pubs as [|f r IH]; intros st j (W & ND & H).
    - unfold crash, seq_trace. simpl. now rewrite firstn_nil.
    - destruct (H f (or_introl eq_refl)) as (Ep & Tp & Tn).
      assert (Hn : names st (ftmp f) = None) by now apply lookup_none.
      inversion ND; subst.
      unfold crash, seq_trace. cbn [flat_map done_count]. fold (seq_trace r).
      destruct (Nat.leb_spec (length (pub_trace f)) j) as [L | L].
      + rewrite firstn_app_ge by auto. rewrite run_app.
        assert (Hd : ftmp f <> fpath f) by (rewrite Ep; auto).
        destruct (frag_prefix cl tfd f false None (length (pub_trace f)) st W Hn Hd) as (W1 & U1 & _ & _ & D5).
        fold (pub_trace f) in W1, U1, D5. rewrite firstn_all in W1, U1, D5.
        set (s1 := run (pub_trace f) st) in *.
        assert (OK1 : pubs_ok r s1).
        { split; [exact W1|]. split; [assumption|]. intros g Hg. destruct (H g (or_intror Hg)) as (A & B & C).
          repeat split; auto. rewrite U1; auto.
          - intros E. apply H2. rewrite <- E. now apply in_map.
          - rewrite Ep. auto. }
        specialize (IH s1 (j - length (pub_trace f)) OK1). unfold crash in IH. rewrite IH.
        destruct (done_count r (j - length (pub_trace f))) as [|i] eqn:DC; cbn [ver nth_error].
        * rewrite <- Ep. apply D5; auto.
        * reflexivity.
      + rewrite firstn_app_le by lia. cbn [ver]. apply pub_incomplete; auto.
  Qed.
End Publications.

Lemma done_count_bounds : forall cl tfd pubs j j', j <= j' ->
  done_count cl tfd pubs j <= done_count cl tfd pubs j' /\ done_count cl tfd pubs j' <= length pubs.
Proof. intros; split; [apply done_count_mono; auto|apply done_count_le]. Qed.

Definition at_ (d : fd) (p : path) (chunks : list content) (st : state) (j : nat) : content :=
  content_at (crash (writer_trace d p chunks) j st) p.

Lemma nframes_monotone_lemma : forall d p chunks st fsz, fs_wf st -> fsz <> 0 ->
  forall j j', j <= j' -> nframes fsz (at_ d p chunks st j) <= nframes fsz (at_ d p chunks st j').
Proof. intros. apply nframes_prefix_mono; auto. apply writer_prefix; auto. Qed.

Lemma prefix_consistent_lemma : forall d p chunks st fsz, fs_wf st -> fsz <> 0 ->
  forall j f, f < nframes fsz (at_ d p chunks st j) ->
  frame fsz (at_ d p chunks st j) f = frame fsz (content_at st p ++ concat chunks) f.
Proof. intros. apply frame_prefix; auto. apply writer_prefix_final; auto. Qed.

Lemma no_partial_lemma : forall d p chunks st fsz, fsz <> 0 ->
  forall j f, f < nframes fsz (at_ d p chunks st j) -> length (frame fsz (at_ d p chunks st j) f) = fsz.
Proof. intros. apply frame_complete; auto. Qed.

Lemma never_absent_in_place_lemma : forall d p chunks st, fs_wf st ->
  forall j, lookup (crash (writer_trace d p chunks) (S j) st) p <> None.
Proof. intros. apply writer_content; auto. Qed.

Lemma never_absent_oop_lemma : forall cl tfd f k j st, scen_ok [f] st -> lookup st (fpath f) <> None ->
  (lookup (crash (mf_trace cl tfd [f] false k) j st) (fpath f) = lookup st (fpath f) \/
   lookup (crash (mf_trace cl tfd [f] false k) j st) (fpath f) = Some (new_text f)) /\
  lookup (crash (mf_trace cl tfd [f] false k) j st) (fpath f) <> None.
Proof.
  intros cl tfd f k j st S H.
  destruct (crash_atomic_lemma cl tfd [f] k j st S f (or_introl eq_refl)) as [E | E]; rewrite E; split; auto; discriminate.
Qed.

Lemma long_lived_refuted_lemma : forall P : Prop,
  (P -> forall sz c r s0 n, sz <> 0 -> aligned sz r -> aligned sz (snd (rd_read false sz c r s0 n))) -> ~ P.
Proof.
  intros P H HP. specialize (H HP 2 dz_c1 (mkrd 0 0) 0 10 ltac:(discriminate) eq_refl).
  vm_compute in H. discriminate.
Qed.
