(* Property theorems for C20 (C++ binding and command-line tools).
   Vocabulary: C20/Wrapper.v (row language, semantics over an uninterpreted C
   library), C20/WrapperDoc.v (documented mapping + audit data, hand-kept),
   Gen/CxxTable.v (regenerated from bindings/cxx and src/getdata.h.in on every
   run by translate/tr_cxx.py), C20/Ascii2.v (dirfile2ascii / checkdirfile). *)
From Coq Require Import String List Bool ZArith.
From GD Require Import C20.Wrapper C20.WrapperDoc C20.Readme C20.WrapperProofs C20.Ascii2 Gen.CxxTable.
Import ListNotations.

(* full statement: every method defined in bindings/cxx/*.cpp has the
   documented body, and every documented method is defined *)
Definition forwarding_statement : Prop :=
  uncovered cxx_table doc_table = [] /\ uncovered doc_table cxx_table = [].

(* holds since the fixes C20-1..3 of bindings/cxx *)
Theorem forwarding : forwarding_statement.
Proof. vm_compute. split; reflexivity. Qed.

(* ... and nothing else deviates, in either direction, including the inline
   methods of the headers *)
Theorem forwarding_partial :
  uncovered cxx_table doc_table = known_deviations /\
  uncovered doc_table cxx_table = known_deviations /\
  uncovered hdr_table doc_hdr = [] /\ uncovered doc_hdr hdr_table = [].
Proof. vm_compute. repeat split; reflexivity. Qed.

(* semantic reading: whatever the C library does (c_fun) and however the C++
   operators are interpreted, a method outside the listed deviations returns
   what its documented call returns, on all arguments *)
Theorem forwarding_correct :
  forall (value : Type) c_fun cast member const raw addr deref fld idx tern calle (dflt : value) r,
    In r cxx_table -> ~ In (rcls r, rmeth r) known_deviations ->
    exists d, In d doc_table /\ rcls r = rcls d /\ rmeth r = rmeth d /\
      forall pick ps,
        method_sem value c_fun cast member const raw addr deref fld idx tern calle dflt pick ps (rbody r) =
        method_sem value c_fun cast member const raw addr deref fld idx tern calle dflt pick ps (rbody d).
Proof.
  intros. apply (forwarding_sem value c_fun cast member const raw addr deref fld idx tern calle dflt cxx_table doc_table r); [assumption|].
  replace (uncovered cxx_table doc_table) with known_deviations by (vm_compute; reflexivity). assumption.
Qed.

(* every C function called by a wrapper is declared in src/getdata.h.in and
   takes as many arguments as it is given *)
Theorem api_wrapped : api_ok c_protos cxx_table = true.
Proof. vm_compute. reflexivity. Qed.

Theorem api_wrapped_spec : forall r c, In r cxx_table -> In c (calls_of (rbody r)) ->
  exists p, find_proto c_protos (cfun c) = Some p /\ length (pparams p) = length (cargs c).
Proof. intros r c. apply api_ok_spec. vm_compute. reflexivity. Qed.

(* a parameter handed to the C function carries the name of the C parameter it
   is handed to (up to the audited synonyms): no swap between same-typed arguments *)
Theorem argument_names_agree : names_ok name_synonyms c_protos cxx_table = true.
Proof. vm_compute. reflexivity. Qed.

(* entry parameters are copied both ways without loss: each setter stores its
   argument in the member its getter returns *)
Theorem entry_copy_lossless : forallb (pair_ok cxx_table hdr_table) entry_pairs = true.
Proof. vm_compute. reflexivity. Qed.

(* each constructor stores the entry type of its class *)
Definition ctor_types_statement : Prop := forallb (ctor_ok cxx_table) ctor_types = true.
Theorem ctor_types : ctor_types_statement.
Proof. vm_compute. reflexivity. Qed.

(* the two affix setters of Fragment touch the cached strings only under `if (!ret)` (a failed call changes nothing:
   fix bf9d920), and SetPrefix refreshes the cached namespace there (a prefix may carry a namespace) *)
Definition affix_tail_ok (meth : string) (need_ns : bool) : bool :=
  match find (fun r => String.eqb (rcls r) "Fragment" && String.eqb (rmeth r) meth) cxx_table with
  | Some r => match rbody r with
              | ForwardThen c tail =>
                  String.eqb (cfun c) "gd_alter_affixes" && prefix "if (!ret) { free(prefix); free(suffix);" tail &&
                  (negb need_ns || match index 0 "ns = gd_fragment_namespace(D->D, ind, NULL);" tail with Some _ => true | None => false end) &&
                  match index 0 "ret = gd_fragment_affixes(D->D, ind,&prefix,&suffix);" tail with Some _ => true | None => false end
              | _ => false
              end
  | None => false
  end.
Theorem fragment_affix_setters_shape : affix_tail_ok "SetPrefix" true = true /\ affix_tail_ok "SetSuffix" false = true.
Proof. vm_compute. split; reflexivity. Qed.

(* ---- the mapping doc/README.cxx documents, derived without the C++ sources:
   documented signature + documented C function + C prototype => expected call ---- *)
(* no forwarding method of Dirfile/Fragment that README.cxx documents deviates from it *)
Theorem readme_respected : rows_with readme_sigs c_aliases c_protos cxx_table Deviates = [].
Proof. vm_compute. reflexivity. Qed.

(* the forwarding methods README.cxx does not document with their present arity, and the stale README entries, are exactly the reviewed lists *)
Theorem readme_coverage :
  rows_with readme_sigs c_aliases c_protos cxx_table NotInReadme = readme_gaps /\
  readme_without_code readme_sigs (cxx_table ++ hdr_table) = readme_stale /\
  length (rows_with readme_sigs c_aliases c_protos cxx_table Documented) = 76%nat.
Proof. vm_compute. repeat split; reflexivity. Qed.

(* reading: every other forwarding method calls the documented C function (up to the large-file alias) on, for
   each parameter of the C prototype in order, the documented C++ parameter of that name *)
Theorem readme_documented_calls : forall r,
  In r cxx_table -> (rcls r = "Dirfile" \/ rcls r = "Fragment")%string ->
  ~ In (rcls r, rmeth r) readme_gaps -> fwd_calls (rbody r) <> [] ->
  exists rps cfs, find_sig readme_sigs (rcls r) (rmeth r) (length (rparams r)) = Some rps /\
    find_cfun (rcls r) (rmeth r) = Some cfs /\
    forall c, In c (fwd_calls (rbody r)) ->
      (exists f, In f cfs /\ cfun c = resolve_alias c_aliases f) /\
      exists p, find_proto c_protos (cfun c) = Some p /\ expected_args (rcls r) rps (pparams p) = Some (cargs c).
Proof.
  intros r Hin Hc Hg Hf.
  assert (D1 : ~ In (rcls r, rmeth r) (rows_with readme_sigs c_aliases c_protos cxx_table Deviates)).
  { replace (rows_with readme_sigs c_aliases c_protos cxx_table Deviates) with (@nil (string * string)) by (vm_compute; reflexivity).
    intros []. }
  assert (D2 : ~ In (rcls r, rmeth r) (rows_with readme_sigs c_aliases c_protos cxx_table NotInReadme)).
  { replace (rows_with readme_sigs c_aliases c_protos cxx_table NotInReadme) with readme_gaps by (vm_compute; reflexivity). exact Hg. }
  destruct (documented_rows_spec readme_sigs c_aliases c_protos cxx_table r Hin Hc D1 D2 Hf) as (rps & cfs & A & B & C).
  exists rps, cfs. split; [exact A|]. split; [exact B|].
  intros c Hc'. apply (call_documented_sound c_aliases c_protos (rcls r) rps cfs c). apply C. exact Hc'.
Qed.

(* every getter of Entry and of its child classes returns the gd_entry_t member README.cxx / gd_entry(3) name for it
   (38 inline getters); Entry::Threshold has a two-statement body (returns E.u.window.threshold or a zero triplet):
   its text is pinned in WrapperDoc.v and it is exercised by the harness *)
Theorem getters_return_documented_member :
  getters_bad hdr_table = [("Entry", "Threshold")]%string /\ getters_checked hdr_table = 38%nat.
Proof. vm_compute. split; reflexivity. Qed.

(* ---- dirfile2ascii ---- *)
Local Open Scope Z_scope.
Theorem frames_visited : forall nf skip_opt fuel k, (Z.to_nat (nf - 0) <= fuel)%nat ->
  (In k (ks nf skip_opt fuel 0) <-> 0 <= k < nf /\ (skip skip_opt | k - 0)).
Proof. intros. apply ks_spec. assumption. Qed.

Theorem rows_printed : forall nf skip_opt zero cols fuel k j cs,
  In (k, j, cs) (rows nf skip_opt zero cols fuel) ->
  In k (ks nf skip_opt fuel 0) /\ 0 <= j < jn skip_opt cols /\ cs = map (cell_of nf skip_opt zero cols k j) cols.
Proof. exact rows_spec. Qed.

Theorem cell_value : forall nf skip_opt zero cols k j c first, 0 <= j < jn skip_opt cols ->
  (spf c = max_spf cols \/ skipping skip_opt = true) ->
  (zero = false \/ k * spf c + j < n_read c) ->
  cell_of nf skip_opt zero cols k j c = Data (k * spf c + j) /\
  first * spf c + (k * spf c + j) = (first + k) * spf c + j /\
  (0 <= k -> 0 <= spf c -> j < spf c -> k * spf c <= k * spf c + j < (k + 1) * spf c).
Proof. exact Ascii2.cell_value. Qed.

Theorem fill_where_short : forall nf skip_opt zero cols k j c,
  (spf c = max_spf cols \/ skipping skip_opt = true) ->
  (cell_of nf skip_opt zero cols k j c = Fill <-> zero = true /\ n_read c <= k * spf c + j).
Proof. exact fill_iff. Qed.

Example ascii_example :
  rows 3 2 false [mkCol 2 6; mkCol 1 3] 5 =
    [(0, 0, [Data 0; Data 0]); (2, 0, [Data 4; Data 2])].
Proof. vm_compute. reflexivity. Qed.

(* ---- checkdirfile ---- *)
Theorem checkdirfile_reports_exactly : forall i, opened i <> OpenOther ->
  let o := checkdirfile i in
  syntax_reported o = n_syntax i /\
  (problems_reported o = 0%nat <-> (forall b, In b (validate_fail i) -> b = false) /\ dangling i = 0%nat) /\
  (exit_code o = 1 <-> nframes_err i = true).
Proof. exact checkdirfile_reports. Qed.

Theorem checkdirfile_open_failure_exit : forall i, opened i = OpenOther -> exit_code (checkdirfile i) = 1.
Proof. exact checkdirfile_open_failure. Qed.
