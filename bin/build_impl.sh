#!/bin/bash
# build_impl.sh <outdir> [asan] [extra cflags...]
# Builds libgetdata (static, codecs linked in, no ltdl modules) from /repo's
# current working tree into <outdir>, with the GETDATA_VERIF hooks enabled.
set -e
OUT="$1"; shift
MODE="$1"; [ -n "$MODE" ] && shift || true
REPO="${VERIF_REPO:-/repo}"
mkdir -p "$OUT/src"
cp "$REPO"/src/*.c "$REPO"/src/*.h "$OUT/src/"
cd "$OUT/src"
rm -f flac.c slim.c zzip.c zzslim.c debug.c legacy.c
sed -i 's|^#define USE_MODULES.*|/* USE_MODULES removed by verif */|' gd_config.h
CF="-O1 -g -ffp-contract=off -DHAVE_CONFIG_H -DGETDATA_VERIF -I. -w"
if [ "$MODE" = "asan" ]; then CF="$CF -fsanitize=address,undefined -fno-sanitize-recover=undefined -fno-omit-frame-pointer"; fi
# asanmem: ASan + the UBSan checks that are memory-safety/crash relevant (C05): arithmetic UB
# (signed overflow, shifts, float casts), memcpy(NULL,0) and misalignment are not in the property
if [ "$MODE" = "asanmem" ]; then CF="$CF -fsanitize=address,undefined -fno-sanitize=signed-integer-overflow,shift,float-cast-overflow,nonnull-attribute,alignment,float-divide-by-zero -fno-sanitize-recover=undefined -fno-omit-frame-pointer"; fi
CF="$CF $*"
echo "$CF" > "$OUT/cflags"
ls *.c | xargs -P 16 -I{} sh -c "gcc $CF -c {} -o {}.o" 
ar rcs "$OUT/libgetdata.a" *.c.o
echo "-lz -lbz2 -llzma -lm -lpcre" > "$OUT/ldflags"
