#!/usr/bin/env python3
"""Shared machinery for /verif checks.

One check run = Check(pid, tier, seed); the per-property script
(/verif/checks/<ID>.py) uses the helpers below and finishes with
chk.finish(), which writes evidence/<ID>.json, prints KNOWN-FINDING /
VIOLATION lines and returns the exit status.
"""
import os, sys, json, time, hashlib, subprocess, shutil, tempfile, fcntl, re, random, atexit

VERIF = os.path.dirname(os.path.dirname(os.path.abspath(__file__)))
REPO = os.environ.get("VERIF_REPO", "/repo")
COQ = os.path.join(VERIF, "coq")
CACHE = os.environ.get("VERIF_CACHE", "/var/tmp/verif-cache")
NPROC = int(os.environ.get("VERIF_JOBS", "16"))


def sh(cmd, cwd=None, timeout=None, env=None, check=False, inp=None):
    """Run a shell command; returns (rc, stdout+stderr)."""
    e = dict(os.environ)
    if env:
        e.update(env)
    try:
        p = subprocess.run(cmd, shell=isinstance(cmd, str), cwd=cwd, timeout=timeout,
                           stdout=subprocess.PIPE, stderr=subprocess.STDOUT, env=e,
                           input=inp)
        out = p.stdout.decode("utf-8", "replace")
        rc = p.returncode
    except subprocess.TimeoutExpired as ex:
        out = (ex.stdout or b"").decode("utf-8", "replace") + "\n[TIMEOUT]"
        rc = 124
    if check and rc != 0:
        raise RuntimeError("command failed (%d): %s\n%s" % (rc, cmd, out[-4000:]))
    return rc, out


def tree_hash(paths, extra=""):
    """Content hash of a list of files/directories of the working tree."""
    h = hashlib.sha256()
    h.update(extra.encode())
    for p in paths:
        if os.path.isdir(p):
            for root, dirs, files in sorted(os.walk(p)):
                dirs.sort()
                for f in sorted(files):
                    if f.endswith((".c", ".h", ".cpp", ".in", ".hpp")):
                        fp = os.path.join(root, f)
                        h.update(fp.encode())
                        with open(fp, "rb") as fh:
                            h.update(fh.read())
        elif os.path.exists(p):
            h.update(p.encode())
            with open(p, "rb") as fh:
                h.update(fh.read())
    return h.hexdigest()[:20]


class Lock:
    def __init__(self, path):
        self.path = path
    def __enter__(self):
        os.makedirs(os.path.dirname(self.path), exist_ok=True)
        self.f = open(self.path, "w")
        fcntl.flock(self.f, fcntl.LOCK_EX)
        return self
    def __exit__(self, *a):
        fcntl.flock(self.f, fcntl.LOCK_UN)
        self.f.close()


def _prune_cache(keep=24, min_age_s=3 * 3600):
    """drop old implementation builds: only beyond `keep` AND unused for min_age_s
    (a concurrently running check may still be using its build)"""
    try:
        ds = [os.path.join(CACHE, d) for d in os.listdir(CACHE) if d.startswith("impl-")]
        ds.sort(key=lambda d: os.path.getmtime(d))
        now = time.time()
        for d in ds[:-keep]:
            if now - os.path.getmtime(d) > min_age_s:
                shutil.rmtree(d, ignore_errors=True)
                try:
                    os.unlink(os.path.join(CACHE, "lock-" + os.path.basename(d)[5:]))
                except OSError:
                    pass
    except OSError:
        pass


def build_impl(mode="", extra=""):
    """Build libgetdata.a from /repo's *current working tree* (hooks on).

    The result is cached under CACHE keyed by the content hash of /repo/src and
    the flags, so the cache can never be stale with respect to the tree: an
    edited tree hashes differently and is rebuilt.  Returns the build dir
    (contains src/, libgetdata.a, cflags, ldflags)."""
    key = tree_hash([os.path.join(REPO, "src")], extra=mode + "|" + extra +
                    open(os.path.join(VERIF, "bin/build_impl.sh")).read())
    d = os.path.join(CACHE, "impl-" + key)
    with Lock(os.path.join(CACHE, "lock-" + key)):
        if not os.path.exists(os.path.join(d, "ok")):
            shutil.rmtree(d, ignore_errors=True)
            rc, out = sh("%s/bin/build_impl.sh %s '%s' %s" % (VERIF, d, mode, extra), timeout=900)
            if rc != 0:
                shutil.rmtree(d, ignore_errors=True)
                raise BuildError("implementation does not build:\n" + out[-3000:])
            open(os.path.join(d, "ok"), "w").write("ok")
            _prune_cache()
        else:
            os.utime(d, None)
    return d


class BuildError(Exception):
    pass


def build_harness(impl, src, out=None, extra="", cxx=False):
    """Compile a harness C file against the built implementation."""
    cf = open(os.path.join(impl, "cflags")).read().strip()
    ld = open(os.path.join(impl, "ldflags")).read().strip()
    if out is None:
        out = os.path.join(impl, "h-" + hashlib.sha256((src + extra + open(src).read()).encode()).hexdigest()[:12])
    if os.path.exists(out):
        return out
    cc = "g++" if cxx else "gcc"
    tmp = out + ".tmp%d" % os.getpid()
    rc, o = sh("%s %s %s -I%s/src %s -o %s %s/libgetdata.a %s" % (cc, cf, extra, impl, src, tmp, impl, ld), timeout=600)
    if rc != 0:
        raise BuildError("harness does not build: %s\n%s" % (src, o[-3000:]))
    os.rename(tmp, out)
    return out


def scratch(prefix="verif-"):
    d = tempfile.mkdtemp(prefix=prefix, dir="/var/tmp")
    atexit.register(lambda: shutil.rmtree(d, ignore_errors=True))
    return d


# ---------------------------------------------------------------- Coq side

def coq_make(targets, timeout=1500):
    """(Re)build the given .vo targets of /verif/coq with the full-.vo build.
    Returns (ok, log)."""
    with Lock(os.path.join(COQ, ".lock")):
        rc0, _ = sh("python3 %s/bin/gen_coqproject.py --signal" % VERIF)
        if rc0 == 10 or not os.path.exists(os.path.join(COQ, "Makefile")):
            sh("coq_makefile -f _CoqProject -o Makefile", cwd=COQ, check=True)
        rc, out = sh("timeout %d make -k -j%d %s" % (timeout, NPROC, " ".join(targets)), cwd=COQ, timeout=timeout + 30)
    return rc == 0, out


def coq_theorems(vfile):
    """Names of Theorem statements in a Properties_*.v file."""
    txt = open(os.path.join(COQ, vfile)).read()
    return re.findall(r"^\s*Theorem\s+([A-Za-z0-9_']+)", txt, re.M)


def coq_assumptions(module, theorems):
    """Run Print Assumptions on each theorem (after the .vo exist)."""
    d = scratch("verif-pa-")
    src = "From GD Require Import %s.\n" % module
    for t in theorems:
        src += 'Goal True. idtac "@@@ %s". exact I. Qed.\nPrint Assumptions %s.\n' % (t, t)
    open(os.path.join(d, "PA.v"), "w").write(src)
    rc, out = sh("coqc -Q %s GD PA.v" % COQ, cwd=d, timeout=600)
    res = {}
    if rc != 0:
        return None, out
    cur = None
    for line in out.splitlines():
        m = re.match(r"@@@ (\S+)", line)
        if m:
            cur = m.group(1); res[cur] = []
        elif cur and line.strip():
            res[cur].append(line.strip())
    def names(lines):
        txt = " ".join(lines)
        if txt.startswith("Closed under the global context"):
            return "Closed under the global context"
        ax = re.findall(r"([A-Za-z_][A-Za-z0-9_.']*) :", txt)
        return "Axioms: " + ", ".join(dict.fromkeys(ax)) if ax else txt[:400]
    return {k: names(v) for k, v in res.items()}, out


FORBIDDEN = re.compile(r"\b(Admitted|admit|Axiom|Parameter|Conjecture|Abort All|bypass_check|Unset Guard Checking|Unset Positivity Checking|Unset Universe Checking|type-in-type|Admit Obligations)\b")


def coq_hygiene(files=None):
    """grep the development for forbidden declarations; returns list of hits."""
    hits = []
    for root, dirs, fs in os.walk(COQ):
        for f in fs:
            if f.endswith(".v"):
                p = os.path.join(root, f)
                if files and os.path.relpath(p, COQ) not in files:
                    continue
                for i, line in enumerate(open(p, errors="replace")):
                    s = re.sub(r"\(\*.*?\*\)", "", line)
                    if FORBIDDEN.search(s):
                        hits.append("%s:%d: %s" % (os.path.relpath(p, COQ), i + 1, line.strip()))
    return hits


def build_ocaml_driver(name, coq_extract_v, driver_ml, timeout=600):
    """Extract the model (coq/<coq_extract_v> does `Extraction "model.ml" ...`)
    and build ocaml/<name>/driver against it.  Returns the executable."""
    od = os.path.join(VERIF, "ocaml", name)
    os.makedirs(od, exist_ok=True)
    exe = os.path.join(od, "driver")
    vsrc = os.path.join(COQ, coq_extract_v)
    dsrc = os.path.join(VERIF, driver_ml)
    with Lock(os.path.join(od, ".lock")):
        deps = [vsrc, dsrc] + [os.path.join(r, f) for r, _, fs in os.walk(COQ) for f in fs if f.endswith(".vo")]
        newest = max(os.path.getmtime(p) for p in deps)
        if os.path.exists(exe) and os.path.getmtime(exe) >= newest:
            return exe
        rc, out = sh("coqc -Q %s GD %s" % (COQ, vsrc), cwd=od, timeout=timeout)
        if rc != 0:
            raise BuildError("extraction failed:\n" + out[-3000:])
        if os.path.abspath(dsrc) != os.path.join(od, "driver.ml"):
            shutil.copy(dsrc, os.path.join(od, "driver.ml"))
        rc, out = sh("ocamlfind ocamlopt -O2 -w -a -package str -linkpkg model.mli model.ml driver.ml -o driver 2>&1 || "
                     "ocamlfind ocamlopt -w -a -package str -linkpkg model.mli model.ml driver.ml -o driver", cwd=od, timeout=timeout)
        if rc != 0:
            raise BuildError("ocaml driver build failed:\n" + out[-3000:])
    return exe


# ---------------------------------------------------------------- findings

def load_known():
    """known_findings.json plus the staging files known_findings.d/*.json"""
    out = []
    p = os.path.join(VERIF, "known_findings.json")
    if os.path.exists(p):
        out += json.load(open(p)).get("findings", [])
    dd = os.path.join(VERIF, "known_findings.d")
    if os.path.isdir(dd):
        for fn in sorted(os.listdir(dd)):
            if fn.endswith(".json"):
                try:
                    for f in json.load(open(os.path.join(dd, fn))).get("findings", []):
                        if not any(g.get("key") == f.get("key") and g.get("property") == f.get("property") for g in out):
                            out.append(f)
                except (ValueError, OSError):
                    pass
    return out


def coq_closure(vfile):
    """relative paths of the .v files a Coq file depends on inside /verif/coq (via `From GD Require ...`)"""
    seen = []
    todo = [vfile]
    while todo:
        f = todo.pop()
        if f in seen or not os.path.exists(os.path.join(COQ, f)):
            continue
        seen.append(f)
        txt = re.sub(r"\(\*.*?\*\)", "", open(os.path.join(COQ, f), errors="replace").read(), flags=re.S)
        for m in re.finditer(r"From\s+GD\s+Require\s+(?:Import\s+|Export\s+)?(.*?)\.(?=\s|$)", txt, re.S):
            for mod in m.group(1).split():
                todo.append(mod.replace(".", "/") + ".v")
        for m in re.finditer(r"Require\s+(?:Import\s+|Export\s+)?(.*?)\.(?=\s|$)", txt, re.S):
            for mod in m.group(1).split():
                if mod.startswith("GD."):
                    todo.append(mod[3:].replace(".", "/") + ".v")
    return seen


class Check:
    def __init__(self, pid, level="proof"):
        self.pid = pid
        # one run of a given check at a time on this machine: the translators write coq/Gen/*.v for the tree
        # the run is pointed at, and a concurrent run of the same check on another tree would read them
        try:
            import fcntl
            self._lockfh = open("/var/tmp/verif-check-%s.ilock" % pid, "w")
            fcntl.flock(self._lockfh, fcntl.LOCK_EX)
        except OSError:
            self._lockfh = None
        self.tier = os.environ.get("VERIF_TIER", "quick")
        for i, a in enumerate(sys.argv):
            if a == "--tier" and i + 1 < len(sys.argv):
                self.tier = sys.argv[i + 1]
        if self.tier not in ("quick", "thorough"):
            self.tier = "quick"
        self.seed = int(os.environ.get("VERIF_SEED", "1") or 1)
        self.rng = random.Random(self.seed)
        self.level = level
        self.t0 = time.time()
        self.violations = []      # (key, description, replay-dict, found_input)
        self.known_hit = []       # (finding, description)
        self.cov = {"evaluations": 0, "distinct_nontrivial": 0, "rule": "", "samples": [],
                    "obligations": 0, "discharged": 0, "checker_cmd": "", "trusted_base": []}
        self.assumptions = []
        self.known = [f for f in load_known() if f.get("property") == pid and f.get("status", "open") == "open"]
        self.notes = []
        os.makedirs(os.path.join(VERIF, "evidence"), exist_ok=True)
        os.makedirs(os.path.join(VERIF, "replay", pid), exist_ok=True)

    thorough = property(lambda self: self.tier == "thorough")

    # -- proofs --------------------------------------------------------
    def prove(self, prop_module, extra_targets=(), timeout=1500):
        """Build Properties_<ID>.vo (and whatever it depends on); record
        obligations/discharged and Print Assumptions.  A failing build is a
        violation (decide() is given the chance to find an input)."""
        vfile = prop_module.replace(".", "/") + ".v"
        ths = coq_theorems(vfile)
        self.cov["obligations"] += len(ths)
        targets = [vfile + "o"] + list(extra_targets)
        ok, log = coq_make(targets, timeout)
        self.cov["checker_cmd"] = "cd /verif/coq && coq_makefile -f _CoqProject -o Makefile && make -k -j16 " + " ".join(targets) + "  (coqc 8.16.1, full .vo build, kernel-checked Qed; vm_compute only)"
        hy = coq_hygiene(set(coq_closure(vfile)))
        if hy:
            self.violation("hygiene", "forbidden declaration in the Coq development: " + "; ".join(hy[:5]),
                           {"kind": "proof-hygiene", "hits": hy}, found=False)
            return False
        if not ok:
            m = re.findall(r'File "([^"]+)", line (\d+)[^\n]*\n(?:[^\n]*\n){0,6}?Error:[^\n]*(?:\n[^\n]*){0,6}', log)
            self.proof_log = log
            return False
        pa, out = coq_assumptions(prop_module, ths)
        if pa is None:
            self.proof_log = out
            return False
        self.cov["discharged"] += len(ths)
        self.cov.setdefault("theorems", []).extend(ths)
        for t, a in pa.items():
            self.cov["trusted_base"].append("Print Assumptions %s: %s" % (t, a))
        return True

    # -- verdicts ------------------------------------------------------
    def violation(self, key, desc, replay, found=True):
        """Record a violation unless it matches a known finding (by key)."""
        for f in self.known:
            if f["key"] == key:
                if f not in [k for k, _ in self.known_hit]:
                    self.known_hit.append((f, desc))
                return False
        self.violations.append((key, desc, replay, found))
        return True

    def known_confirm(self, key, desc):
        for f in self.known:
            if f["key"] == key and f not in [k for k, _ in self.known_hit]:
                self.known_hit.append((f, desc))

    def sample(self, s, limit=8):
        if len(self.cov["samples"]) < limit:
            self.cov["samples"].append(s)

    def finish(self):
        self.cov["trusted_base"] = list(dict.fromkeys(self.cov["trusted_base"]))
        ev = {"property_id": self.pid, "tier": self.tier, "seed": self.seed, "level": self.level,
              "coverage": self.cov, "assumptions": self.assumptions,
              "wall_s": round(time.time() - self.t0, 2), "violations": len(self.violations),
              "known_findings_reproduced": [f["key"] for f, _ in self.known_hit], "notes": self.notes}
        # evidence/<ID>.json always describes a run on /repo itself; a run on a changed copy of the sources
        # (VERIF_REPO: seeded or hand-made changes) leaves its record elsewhere
        evdir = os.path.join(VERIF, "evidence")
        if os.path.abspath(REPO) != "/repo":
            evdir = "/var/tmp/verif-evidence-alt"
            os.makedirs(evdir, exist_ok=True)
            ev["repo"] = REPO
        with open(os.path.join(evdir, self.pid + ".json"), "w") as fh:
            json.dump(ev, fh, indent=1, default=str)
        for f, desc in self.known_hit:
            print("KNOWN-FINDING: property=%s %s (%s)" % (self.pid, f["what"], f["key"]))
        for f in self.known:
            if f not in [k for k, _ in self.known_hit]:
                print("note: listed finding %s was not reproduced by this run" % f["key"])
        n = 0
        for key, desc, replay, found in self.violations:
            n += 1
            rp = os.path.join(VERIF, "replay", self.pid, "%s-%d.json" % (re.sub(r"[^A-Za-z0-9_.-]", "_", key)[:80], n))
            replay = dict(replay)
            replay.update({"property": self.pid, "key": key, "description": desc, "seed": self.seed, "tier": self.tier})
            with open(rp, "w") as fh:
                json.dump(replay, fh, indent=1, default=str)
            print("%s" % desc)
            print("VIOLATION property=%s replay=%s%s" % (self.pid, rp, "" if found else " no-failing-input-found"))
            if n >= 20:
                break
        sys.stdout.flush()
        return 1 if self.violations else 0
