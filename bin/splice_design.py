#!/usr/bin/env python3
"""Replace the per-property paragraphs of DESIGN.md (sections 3-5) by the builders' as-built summaries
notes/<ID>.design.md where they exist.  A paragraph starts with '**<ID> — ' at the beginning of a line and
ends before the next '**C' paragraph or '## ' heading."""
import re, os, json
V = os.path.dirname(os.path.dirname(os.path.abspath(__file__)))
s = open(os.path.join(V, "DESIGN.md")).read()
for l in open(os.path.join(V, "properties.jsonl")):
    pid = json.loads(l)["id"]
    f = os.path.join(V, "notes", pid + ".design.md")
    if not os.path.exists(f):
        continue
    t = open(f).read().strip()
    lines = t.split("\n")
    m = re.match(r"#+\s*(%s\s*[—-]\s*.*?)(\s*\(as built\))?\s*$" % pid, lines[0])
    if m:
        lines[0] = "**%s** (notes/%s.md; as built)." % (m.group(1).strip(), pid)
    body = "\n\n".join(x.strip() for x in lines if x.strip()) + "\n\n"
    pat = re.compile(r"^\*\*%s — .*?(?=^\*\*C\d\d — |^## )" % pid, re.S | re.M)
    if not pat.search(s):
        print("no paragraph for", pid)
        continue
    s = pat.sub(lambda _: body, s, count=1)
    print("spliced", pid)
open(os.path.join(V, "DESIGN.md"), "w").write(s)
