#!/usr/bin/env python3
"""Regenerate coq/_CoqProject from the .v files present (sorted)."""
import os, sys
here = os.path.dirname(os.path.dirname(os.path.abspath(__file__)))
coq = os.path.join(here, "coq")
fs = []
for root, dirs, files in os.walk(coq):
    dirs[:] = [d for d in dirs if not d.startswith(".") and d != "scratch"]
    for f in files:
        if f.endswith(".v") and not f.startswith(".") and not f.startswith("Extract"):
            fs.append(os.path.relpath(os.path.join(root, f), coq))
fs.sort()
txt = "-Q . GD\n-arg -w -arg -notation-overridden,-deprecated-hint-without-locality,-deprecated-instance-without-locality,-deprecated-hint-rewrite-without-locality\n" + "\n".join(fs) + "\n"
p = os.path.join(coq, "_CoqProject")
old = open(p).read() if os.path.exists(p) else ""
if old != txt:
    open(p, "w").write(txt)
    print("regenerated _CoqProject (%d files)" % len(fs))
    sys.exit(10 if "--signal" in sys.argv else 0)
