#!/usr/bin/env python3
"""Merge known_findings.d/*.json into known_findings.json (the single committed known-findings file).
Every open finding gets a 'disposition' (why recorded rather than repaired)."""
import json, os, glob
V = os.path.dirname(os.path.dirname(os.path.abspath(__file__)))
p = os.path.join(V, "known_findings.json")
k = json.load(open(p))
DEFAULT = ("not repaired: no small, safe, maintainer-acceptable patch was available before /repo was frozen "
           "(see notes/%s.md for the analysis); recorded with a witness that the check replays on every run")
out = []
seen = set()
for fn in sorted(glob.glob(os.path.join(V, "known_findings.d", "*.json"))):
    for f in json.load(open(fn)).get("findings", []):
        if f.get("status", "open") != "open":
            continue
        key = (f.get("property"), f.get("key"))
        if key in seen:
            continue
        seen.add(key)
        f = dict(f)
        if not f.get("disposition"):
            f["disposition"] = f.get("why_not_fixed") or DEFAULT % f.get("property")
        out.append(f)
for f in k.get("findings", []):
    key = (f.get("property"), f.get("key"))
    if key not in seen and f.get("status", "open") == "open" and not os.path.exists(os.path.join(V, "known_findings.d", "%s.json" % f.get("property"))):
        out.append(f)
out.sort(key=lambda f: (f.get("property", ""), f.get("key", "")))
k["findings"] = out
json.dump(k, open(p, "w"), indent=1)
print(len(out), "open findings merged")
