#!/usr/bin/env python3
"""replay_files.py <replay.json> <outdir>: materialise replay['files_hex'] into outdir"""
import json, sys, os
r = json.load(open(sys.argv[1]))
os.makedirs(sys.argv[2], exist_ok=True)
for fn, hx in r["files_hex"].items():
    open(os.path.join(sys.argv[2], fn), "wb").write(bytes.fromhex(hx))
print(r.get("mode"), r.get("description"))
