#!/usr/bin/env python3
"""Rewrite the "fixed" list of known_findings.json from /repo's `fix:` commits
(one line per repaired defect: "fixed: property=<id> <commit> <what failed>")."""
import json, os, subprocess
V = os.path.dirname(os.path.dirname(os.path.abspath(__file__)))
PROP = [  # (subject fragment, property)
 ("INT16 -> UINT32", "C06"), ("FLOAT64 -> UINT32", "C06"),
 ("SIE read must not count", "C05"), ("gd_bof of a PHASE field must not loop", "C05"), ("gd_nframes must resolve", "C05"),
 ("_GD_LzmaSize leaked", "C05"), ("_GD_GzipClose must forget", "C05"), ("gd_open leaked the /REFERENCE", "C05"),
 ("gd_bof must resolve a RAW", "C05"), ("MPLEX lookback read", "C05"), ("bound alias resolution depth", "C09"),
 ("LINCOM must not return more samples", "C05"),
 ("gd_delete of the last RAW", "C15"), ("gd_hide/gd_unhide must invalidate", "C15"), ("gd_alter_affixes must invalidate", "C15"),
 ("metafields created by gd_madd", "C15"), ("GD_DEL_META skipped", "C15"), ("renaming a metafield or a parent", "C15"),
 ("gd_rename of the reference field", "C15"), ("gd_add_spec/gd_madd_spec must invalidate", "C15"), ("gd_madd_alias must link", "C15"),
 ("_GD_pstrlencmp compared", "C15"),
 ("inherits the parent's /PROTECT", "C09"), ("/NAMESPACE directive in an included fragment", "C09"),
 ("17 significant digits", "C07"), ("hidden entry must still restrict", "C07"),
 ("bzip2 seek to a position before", "C02"), ("bzip2 read reaching end of stream", "C02"), ("resolve GD_HERE only", "C02"),
 ("text encoding seek must rewind", "C02"), ("decrement the recursion counter on the GD_E_RANGE", "C10"),
 ("wholly before sample zero", "C02"), ("_GD_Bzip2Close must forget", "C14"),
 ("out-of-place write is pending", "C03"), ("flush the SIE stream before", "C03"), ("MPLEX write must test the index", "C03"),
 ("pad complex fields with '0;0'", "C04"), ("temporary file the field's encoding", "C13"), ("update its cached sample size", "C13"),
 ("fdopen fails", "C12"), ("SINDIR is a Standards Version 10", "C08"), ("numeric escape sequence may be ended", "C08"),
 ("cannot contain '#' or a space", "C08"), ("_GD_NativeType must decrement", "C10"), ("only open for reading must not fail", "C05"), ("leaked the line buffer", "C05"),
 ("second input has no data", "C01"), ("GD_DEL_DEREF must still clear", "C15"), ("dangling alias of the new name", "C15"),
 ("gd_framenum must not re-read", "C19"), ("gd_framenum must report a constant range", "C19"),
 ("SBitEntry constructor", "C20"), ("SetNumBits", "C20"), ("Entry::Rename", "C20"),
 ("GD_ARM_ENDIAN/GD_NOT_ARM_ENDIAN", "C13"), ("between a text and a binary encoding", "C13"), ("text-encoded fragment must not try to commit", "C13"),
 ("must convert native-order samples", "C13"), ("smaller offset must pad", "C13"), ("_GD_LzmaClose must reset", "C13"),
 ("test the write bit of the mode", "C13"), ("/FRAMEOFFSET 0 for an included", "C07"), ("after an SIE write the I/O pointer", "C03"),
 ("position is that of the write side", "C03"), ("empty root namespace", "C09"), ("_GD_UpdateAliases must re-resolve", "C09"),
 ("step back over a partly written", "C18"),
 ("imaginary-part shortcut", "C10"),
 ("_GD_GzipSize leaked", "C05"), ("also for unaligned starts", "C01"), ("zero-sample request", "C01"), ("only in the public calls", "C16"),
 ("purely real field ends where", "C16"), ("gd_eof must flush pending", "C16"), ("must read CARRAY elements back", "C20"),
 ("_GD_MakeTempFile must stop retrying", "C12"), ("sign of a floating-point literal -0", "C07"), ("below INT64_MIN", "C08"),
 ("strtod reports ERANGE", "C08"), ("keep the tokeniser's error", "C08"), ("LINCOM field count is optional", "C08"),
 ("range check must not overflow int", "C08"), ("CARRAY slice bounds", "C10"), ("SARRAY slice bounds", "C10"),
 ("_GD_FindOpenFields indexed", "C10"), ("_GD_CheckParent must not step", "C10"), ("must re-resolve the aliases whose chain", "C15"),
 ("parent code with a leading dot", "C15"),
 ("gd_uninclude must count removed metafields", "C15"), ("gd_include/gd_include_affix must invalidate", "C15"), ("_GD_Add must check input and scalar codes", "C15"),
 ("_GD_UpdateAffixes must build the full namespace", "C15"), ("alias's resolution changes the cached lists", "C15"), ("gd_add_alias of", "C15"),
 ("BIT/SBIT range test must not overflow", "C10"), ("alias the internal GD_REN_META", "C10"), ("gd_open_limit must refuse", "C10"),
 ("pointer to the freed look-up table", "C10"), ("length whose byte size overflows", "C10"), ("forget the input and scalar codes it drops", "C10"),
 ("zero count must not read the count", "C10"), ("refuse an INDEX entry", "C10"), ("invalid data type given to gd_add_const", "C10"),
 ("SARRAY whose storage was never allocated", "C10"), ("gd_alter_affixes and gd_fragment_namespace must test the access mode", "C11"),
 ("gd_madd_alias must test the /PROTECT", "C11"), ("gd_uninclude must not delete the file of a format-protected", "C11"),
 ("must drop the MPLEX start-value caches", "C02"), ("resolve the entry's scalar parameters before comparing", "C02"),
 ("prefix of an /INCLUDE line directly after", "C07"), ("fragment namespace restricts the Standards Version", "C07"), (".z is a representation suffix", "C07"),
 ("gd_move of a reference field", "C07"), ("GD_DEL_DEREF must mark the client's fragment", "C07"), ("whose /REFERENCE it changes modified", "C07"),
 ("NULL that _GD_StripCode returns", "C07"), ("differ from its rewritten parent's", "C07"), ("strip field names with GD_CO_NAME", "C07"),
 ("window that began before sample zero", "C01"), ("must not index beyond the end of the CARRAY", "C05"), ("scalar field equal to zero", "C05"),
 ("gd_hide, gd_unhide and gd_alter_protection must forget", "C07"), ("mark the including fragment modified", "C07"),
 ("must not write a Standards Version the metadata", "C07"), ("must not finish a suffix buffer", "C09"), ("inherits the ARM flag", "C09"),
 ("write-mode gd_seek must not create", "C11"), ("_GD_CopyScalars must check scalar codes", "C15"),
 ("must not move the I/O pointer of a field open for writing", "C17"), ("must resolve scalar parameters before using them", "C16"),
 ("must leave the I/O pointer of a field open for writing where it was", "C17"), ("SIE write beyond the end must pad the gap", "C03"), ("must not empty the data file when one frame exceeds", "C13"),
 ("parent/alias code must test the /PROTECT level", "C11"), ("format-protected sub-fragment of the removed fragment", "C11"),
 ("must not rewrite a client that lives in a format-protected", "C11"),
 ("listed with falling abscissae must be sorted", "C01"), ("LINTERP with falling y must invert the table", "C03"),
 ("write the padding zeros of a write-mode seek in _GD_GzipSeek", "C02"),
 ("argument (.a) of a real field read in an unsigned type", "C02"),
 ("reserved word without a slash is a field name also before", "C08"), ("/META parent child CARRAY/SARRAY must read all", "C08"),
 ("gd_putdata must resolve GD_HERE once", "C01"),
 ("inserting a parsed subfield must invalidate", "C15"), ("only the first RAW field of a fragment", "C18"),
 ("_GD_Flush must stop at the first error", "C05"), ("SetPrefix and SetSuffix must keep the cached affixes", "C20"),
 ("failing BZ2_bzRead must invalidate", "C02"), ("LINCOM with real scalars read as a complex type", "C01"), ("gd_add must record the sample size", "C03"),
 ("MPLEX look-back must restore", "C02"), ("invalidate the MPLEX start-value cache", "C02"), ("failing out-of-place write must report", "C14"), ("close failures while replacing", "C14"),
]
out = subprocess.run(["git", "-C", os.environ.get("VERIF_REPO", "/repo"), "log", "--reverse", "--format=%h %s"], stdout=subprocess.PIPE).stdout.decode()
fixed = []
for line in out.splitlines():
    h, s = line.split(" ", 1)
    if not s.startswith("fix:"):
        continue
    prop = "C??"
    for frag, p in PROP + [tuple(x) for x in json.load(open(os.path.join(V, "bin", "fixed_extra.json")))] if os.path.exists(os.path.join(V, "bin", "fixed_extra.json")) else PROP:
        if frag in s:
            prop = p
            break
    fixed.append("fixed: property=%s %s %s" % (prop, h, s[4:].strip()))
p = os.path.join(V, "known_findings.json")
k = json.load(open(p))
k["fixed"] = fixed
json.dump(k, open(p, "w"), indent=1)
print(len(fixed), "fixed entries;", sum(1 for f in fixed if "C??" in f), "unmapped")
