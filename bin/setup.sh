#!/bin/bash
# setup_cmd: build the whole framework offline from files on disk.
# 1. run every translator (coq/Gen/*.v are generated, never committed)
# 2. regenerate _CoqProject (all .v under coq/), coq_makefile, full .vo build
# 3. hygiene grep (no Admitted/Axiom/... anywhere)
set -e
cd "$(dirname "$0")/.."
V=$(pwd)
mkdir -p coq/Gen evidence replay
for t in translate/tr_*.py; do
  [ -e "$t" ] || continue
  python3 "$t" || { echo "translator $t failed"; exit 1; }
done
python3 bin/gen_coqproject.py
cd coq
coq_makefile -f _CoqProject -o Makefile >/dev/null
timeout 3000 make -k -j16 2>&1 | tail -40
cd ..
python3 - <<'PY'
import sys; sys.path.insert(0,'bin')
import vlib
h=vlib.coq_hygiene()
if h:
    print("FORBIDDEN declarations:"); print("\n".join(h)); sys.exit(1)
print("hygiene ok")
PY
