#!/usr/bin/env python3
"""Regenerate /verif/MANIFEST.json from the per-property table below.
A property is claimed only when ENTRIES[id]['ready'] is true and checks/<id>.py exists."""
import json, os, subprocess

V = os.path.dirname(os.path.dirname(os.path.abspath(__file__)))
props = [json.loads(l) for l in open(os.path.join(V, "properties.jsonl"))]

COMMON_NOTE = ("Trusted: Coq 8.16.1 kernel + vm_compute (no native_compute), coqc full .vo build; the hand-written "
               "Gallina model is tied to /repo only by the correspondence run (generator, C harness, extracted OCaml driver via "
               "ExtrOcamlBasic, canonicaliser) on every check; gcc -O1 x86-64 little-endian build with codecs linked statically. ")

ENTRIES = {
 "C05": dict(ready=True, category="proof",
   text=("Partial by nature: a Coq theorem carries the index/count/recursion arithmetic of the code that consumes untrusted bytes, not the memory "
         "safety of the compiled C. Proved for all inputs: evaluation over ANY field graph (cycles included) is total and a cycle / over-deep chain "
         "ends in GD_E_RECURSE_LEVEL while shallower graphs never hit the limit (limit and guarded evaluators regenerated from the source); gd_getdata "
         "spends exactly one extra level per frame; the SIE read cursor never writes more than nelem elements for ANY record list (the pinned code is "
         "refuted with a 3-record witness, repaired by a fix: commit); the LINTERP index stays inside the table; the tokeniser output bound is proved "
         "under C08; the LZMA and bzip2 decode windows of lzma.c/bzip.c over an abstract stream with the codec as an oracle bound only by its documented "
         "contract (decoder errors at any call included): reads copy one contiguous run of the stream never exceeding the caller's buffer, completed reads "
         "deliver min(request, rest of stream), seeks land on min(target, end), file->pos follows the cursor after ANY outcome, every loop terminates, "
         "write-mode padding writes exactly the missing zero bytes; every evaluator carrying the depth guard stops at the first error (regenerated facts). Tie: SIE and recursion models vs the ASan/UBSan build on generated mostly-malformed inputs; plus (validation, not proof) a "
         "grammar+mutation fuzz of format files, LINTERP tables and data files of every encoding through every read-side call under ASan+UBSan+LSan; "
         "the bzip2 window model is compared state by state with the CURRENT src/bzip.c compiled into the harness with BZ2_bzRead wrapped (every decoder answer, "
         "also of corrupted files, is replayed as the model's oracle); the LZMA model with xz fields read through one handle with 64-byte buffers."),
   note=COMMON_NOTE + "Memory safety outside the modelled arithmetic is validated by sanitizer runs only; zlib/libbz2/liblzma trusted; allocation failures not exercised; "
        "arithmetic UB (signed overflow, shifts, float casts) is outside the property and not checked.",
   technique="Coq proof (structural recursion / loop invariants) + translator for limits + correspondence and sanitizer fuzz"),
 "C06": dict(ready=True, category="proof",
   text=("Coq theorems: (1) the 144-cell conversion table REGENERATED from src/types.c on every run passes a decision procedure cell_ok (vm_compute), "
         "(2) cell_ok_sound: any accepted cell equals the C conversion from the true source type to the true destination type for every source bit "
         "pattern on which that conversion is defined, (3) that conversion is what the property says: integers wrap mod 2^N / representable unchanged, "
         "integer->float is Flocq round-to-nearest-even without overflow, float->integer is Ztrunc when in range, float->double exact, double->float "
         "keeps representable values, real<->complex, (4) CONST/CARRAY access: a second translator regenerates _GD_ConstType and the hand-written CONST "
         "type change of _GD_Change (its conditional expressions evaluated with the flag values of getdata.h.in for all 104 declared-type pairs) and the same "
         "decision procedure proves it equal to the C conversion between the storage types. The translators and the assumed C semantics are validated every run against the compiled "
         "_GD_ConvertType on ~140k (quick) source values incl. all 8-bit, boundary and double-rounding witnesses, and through the public paths: "
         "putdata/getdata across caller, field and return types, put/get_constant, gd_alter_const/gd_alter_carray, gd_add_const/gd_madd_const/gd_add_carray/gd_madd_carray, "
         "and reads of derived fields in consecutive chunks with different return types."),
   note="Trusted: Coq kernel+vm_compute; stdlib real-number axioms reached through Flocq (sig_not_dec, sig_forall_dec, functional_extensionality_dep, classic); "
        "translators tr_types.py and tr_constchange.py; C conversion semantics of Convert.v (x86-64, gcc -O1); extraction (ExtrOcamlBasic) + OCaml driver; NaN payloads not compared; "
        "the callers of _GD_ConvertType in getdata.c/putdata.c are exercised by the correspondence streams, not modelled.",
   technique="Coq proof over translator-regenerated table + correspondence with compiled function"),
}

# entries contributed by the property builders (notes/<ID>.manifest.json: {category,text,note,technique,ready})
for p in props:
    f = os.path.join(V, "notes", p["id"] + ".manifest.json")
    if os.path.exists(f):
        d = json.load(open(f))
        # accept the alternative key names some builders used
        lc = d.get("level_claimed")
        if "text" not in d and lc:
            d["text"] = lc.get("text") if isinstance(lc, dict) else str(lc)
            if isinstance(lc, dict) and "category" in lc:
                d.setdefault("category", lc["category"])
        d.setdefault("category", "proof")
        if "note" not in d and d.get("level_note"):
            d["note"] = d["level_note"]
        d.setdefault("technique", "Coq proof + correspondence")
        if d.get("text") and d.get("note"):
            ENTRIES[p["id"]] = d

hooks = ["27c1233"]
m = {"version": 1,
     "setup_cmd": "bin/setup.sh",
     "hooks": {"guard": "GETDATA_VERIF",
               "enable": "bin/build_impl.sh compiles /repo/src/*.c with -DGETDATA_VERIF (plus -DGD_VERIF_BUFFER_SIZE=... -DGD_VERIF_BZIP_BUFFER_SIZE=... -DGD_VERIF_LZMA_DATA_OUT/IN/LOOKBACK=... where a check wants small buffers)",
               "baseline_off_cmd": "make -C /repo -j16 check", "source_commits": hooks, "add_only": True},
     "engines": [{"name": "coq-proof+correspondence", "path": "bin/check",
                  "serves_properties": sorted(k for k, v in ENTRIES.items() if v.get("ready")),
                  "kind_free_text": "Coq 8.16.1 theorems over executable Gallina models; translators regenerate table-like models from /repo; extracted OCaml model vs freshly built libgetdata on generated cases"}],
     "checks": [], "notes": "", "not_applicable": []}
for p in props:
    i = p["id"]
    e = ENTRIES.get(i)
    if e and e.get("ready") and os.path.exists(os.path.join(V, "checks", i + ".py")):
        m["checks"].append({"property_id": i, "quick_cmd": "bin/check %s --tier quick" % i,
                            "thorough_cmd": "bin/check %s --tier thorough" % i,
                            "evidence_file": "evidence/%s.json" % i, "replay_cmd_template": "cat {path}",
                            "engine": "coq-proof+correspondence",
                            "level_claimed": {"category": e["category"], "text": e["text"], "design_ref": "DESIGN.md, section for " + i},
                            "level_note": e["note"], "technique": e["technique"]})
    else:
        m["not_applicable"].append({"property_id": i, "reason": "check not registered yet (being built in this session)"})
m["notes"] = "properties under not_applicable with reason 'check not registered yet' are still being built/validated; none is declared out of reach of the technique"
json.dump(m, open(os.path.join(V, "MANIFEST.json"), "w"), indent=1)
print("claimed:", [c["property_id"] for c in m["checks"]])
