#!/usr/bin/env python3
"""Regenerate the generated blocks of DESIGN.md:
   <!-- BEGIN:FIXED -->...<!-- END:FIXED -->      from known_findings.json "fixed"
   <!-- BEGIN:OPEN -->...<!-- END:OPEN -->        from known_findings.json/known_findings.d "findings"
   <!-- BEGIN:SEEDED -->...<!-- END:SEEDED -->    from seeded/*/meta.json (+ seeded/*/detection.json)
   <!-- BEGIN:STATUS -->...<!-- END:STATUS -->    from notes/<ID>.manifest.json + evidence/<ID>.json"""
import json, os, re, glob, sys
V = os.path.dirname(os.path.dirname(os.path.abspath(__file__)))
sys.path.insert(0, os.path.join(V, "bin"))
import vlib
D = os.path.join(V, "DESIGN.md")
txt = open(D).read()


def block(name, body):
    global txt
    a, b = "<!-- BEGIN:%s -->" % name, "<!-- END:%s -->" % name
    if a in txt and b in txt:
        txt = txt[:txt.index(a) + len(a)] + "\n" + body.rstrip() + "\n" + txt[txt.index(b):]


k = json.load(open(os.path.join(V, "known_findings.json")))
rows = ["| property | commit | what failed (repaired by a `fix:` commit in /repo) |", "|---|---|---|"]
for f in k.get("fixed", []):
    m = re.match(r"fixed: property=(\S+) (\S+) (.*)", f)
    if m:
        rows.append("| %s | %s | %s |" % (m.group(1), m.group(2), m.group(3).replace("|", "\\|")))
block("FIXED", "\n".join(rows))

rows = ["| property | key | what fails | why recorded rather than repaired |", "|---|---|---|---|"]
for f in sorted(vlib.load_known(), key=lambda f: (f.get("property", ""), f.get("key", ""))):
    if f.get("status", "open") != "open":
        continue
    rows.append("| %s | `%s` | %s | %s |" % (f.get("property"), f.get("key"), str(f.get("what", "")).replace("|", "\\|").replace("\n", " ")[:400],
                                           str(f.get("disposition", f.get("why_not_fixed", ""))).replace("|", "\\|").replace("\n", " ")[:300]))
block("OPEN", "\n".join(rows))

rows = ["| seeded change | breaks | site | needs | caught by (quick tier) | how reported |", "|---|---|---|---|---|---|"]
for d in sorted(glob.glob(os.path.join(V, "seeded", "*"))):
    mp = os.path.join(d, "meta.json")
    if not os.path.exists(mp):
        continue
    m = json.load(open(mp))
    det = {}
    dp = os.path.join(d, "detection.json")
    if os.path.exists(dp):
        det = json.load(open(dp))
    rows.append("| %s | %s | %s | %s | %s | %s |" % (os.path.basename(d), m.get("property"), str(m.get("site", "")).replace("|", "\\|"),
                                                   str(m.get("needs", "")).replace("|", "\\|").replace("\n", " ")[:260],
                                                   ", ".join(det.get("caught_by", [])) or "—", str(det.get("how", "")).replace("|", "\\|")[:200]))
block("SEEDED", "\n".join(rows))

props = [json.loads(l) for l in open(os.path.join(V, "properties.jsonl"))]
rows = ["| id | theorems checked | correspondence evaluations (last quick run) | open findings | wall s |", "|---|---|---|---|---|"]
known = vlib.load_known()
for p in props:
    i = p["id"]
    ev = {}
    ep = os.path.join(V, "evidence", i + ".json")
    if os.path.exists(ep):
        try:
            ev = json.load(open(ep))
        except ValueError:
            ev = {}
    c = ev.get("coverage", {})
    rows.append("| %s | %s/%s | %s | %d | %s |" % (i, c.get("discharged", "?"), c.get("obligations", "?"), c.get("evaluations", "?"),
                                                sum(1 for f in known if f.get("property") == i and f.get("status", "open") == "open"), ev.get("wall_s", "?")))
block("STATUS", "\n".join(rows))
open(D, "w").write(txt)
print("DESIGN.md tables regenerated")
