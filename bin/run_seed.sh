#!/bin/bash
# run_seed.sh <seeded-dir-name> [check-ID ...]: run checks against the seeded change in a scratch copy
# of the repository sources (VERIF_REPO), leaving /repo untouched.  Prints exit code and VIOLATION lines.
S=$1; shift
ID=${S%%-*}
CHECKS="${@:-$ID}"
M=/var/tmp/mut-$S
rm -rf $M; mkdir -p $M
for d in src bindings util man doc; do cp -a /repo/$d $M/$d; done
( cd $M && patch -p1 -s --no-backup-if-mismatch < /verif/seeded/$S/patch.diff ) || { echo "$S: patch failed"; exit 2; }
for c in $CHECKS; do
  out=$(cd /verif && VERIF_REPO=$M timeout 1500 python3 checks/$c.py 2>&1); rc=$?
  echo "== seeded/$S check $c: exit $rc"
  echo "$out" | grep -v "^KNOWN-FINDING\|^note:" | cut -c1-300 | head -8
done
rm -rf $M
