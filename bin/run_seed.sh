#!/bin/bash
# run_seed.sh <seeded-dir-name> [check-ID ...]: run checks against the seeded change in a scratch copy
# of the repository sources (VERIF_REPO), leaving /repo untouched.  Prints exit code and VIOLATION lines.
S=$1; shift
ID=${S%%-*}
CHECKS="${@:-$ID}"
M=/var/tmp/mut-$S
rm -rf $M; mkdir -p $M
for d in src bindings util man doc; do cp -a /repo/$d $M/$d; done
( cd $M && patch -p1 -s --no-backup-if-mismatch < $( [ -f /verif/seeded/$S/patch.ported.diff ] && echo /verif/seeded/$S/patch.ported.diff || echo /verif/seeded/$S/patch.diff ) ) || { echo "$S: patch failed"; exit 2; }
for c in $CHECKS; do
  # the evidence file must keep describing the last run on /repo itself, not this run on a changed copy
  [ -f /verif/evidence/$c.json ] && cp /verif/evidence/$c.json /var/tmp/evidence-keep-$c.$$
  # one run of a given check at a time (translators write coq/Gen/*.v for the tree they are pointed at)
  out=$(cd /verif && VERIF_REPO=$M flock /var/tmp/verif-check-$c.lock timeout 1500 python3 checks/$c.py 2>&1); rc=$?
  [ -f /var/tmp/evidence-keep-$c.$$ ] && mv /var/tmp/evidence-keep-$c.$$ /verif/evidence/$c.json
  echo "== seeded/$S check $c: exit $rc"
  echo "$out" | grep -v "^KNOWN-FINDING\|^note:" | cut -c1-300 | head -8
  printf '%s' "$out" > /var/tmp/run_seed_out.$$
  python3 - "$S" "$c" "$rc" /var/tmp/run_seed_out.$$ <<'PY'
import json, sys, os, re
S, c, rc, f = sys.argv[1:]
out = open(f, errors="replace").read()
p = "/verif/seeded/%s/detection.json" % S
d = json.load(open(p)) if os.path.exists(p) else {}
d.setdefault("results", {})
vl = [l for l in out.splitlines() if l.startswith("VIOLATION")]
desc = [l for l in out.splitlines() if l and not l.startswith(("VIOLATION", "KNOWN-FINDING", "note:"))]
d["results"][c] = {"exit": int(rc), "violations": len(vl),
                   "with_concrete_input": sum(1 for l in vl if "no-failing-input-found" not in l),
                   "first": (desc[0][:300] if desc else "")}
d["caught_by"] = sorted(k for k, v in d["results"].items() if v["exit"] == 1 and v["violations"] > 0)
best = [v for k, v in sorted(d["results"].items()) if v["exit"] == 1 and v["violations"] > 0]
d["how"] = ("; ".join("%s: %d VIOLATION line(s), %d with a concrete failing input — %s" % (k, v["violations"], v["with_concrete_input"], v["first"][:160])
                      for k, v in sorted(d["results"].items()) if v["exit"] == 1 and v["violations"] > 0)) or "not caught by: " + ", ".join(sorted(d["results"]))
json.dump(d, open(p, "w"), indent=1)
PY
  rm -f /var/tmp/run_seed_out.$$
done
rm -rf $M
