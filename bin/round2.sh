#!/bin/bash
# round2.sh <ID>: confirm both round-2 seeded changes of <ID> and run the property's check against each
ID=$1; R=${2:-2}
for k in 1 2; do
  /verif/bin/confirm_seed.sh $ID $k $R | tail -2
  N=$((k+2)); [ "$R" = "3" ] && N=$((k+4)); [ "$R" = "4" ] && N=$((k+6))
  [ -d /verif/seeded/$ID-m$N ] && /verif/bin/run_seed.sh $ID-m$N
done
