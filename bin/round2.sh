#!/bin/bash
# round2.sh <ID>: confirm both round-2 seeded changes of <ID> and run the property's check against each
ID=$1
for k in 1 2; do
  /verif/bin/confirm_seed.sh $ID $k 2 | tail -2
  N=$((k+2))
  [ -d /verif/seeded/$ID-m$N ] && /verif/bin/run_seed.sh $ID-m$N
done
