#!/bin/bash
# confirm_seed.sh <ID> <k> [round]  (round 2: worktree /tmp/seed2-<ID>, stored as seeded/<ID>-m<k+2>): re-confirm seeded change /tmp/seed2-<ID>-out/m<k> in the scratch worktree /tmp/seed2-<ID>:
# compiles, demo fails with it, repo test suite passes with it, demo passes without it.
# On success copies it to /verif/seeded/<ID>-m<k>/ and writes confirm.json there.
ID=$1; K=$2
R=${3:-}; W=/tmp/seed$R-$ID; O=/tmp/seed$R-$ID-out/m$K; N=$K; [ "$R" = "2" ] && N=$((K+2)); [ "$R" = "3" ] && N=$((K+4)); [ "$R" = "4" ] && N=$((K+6)); S=/verif/seeded/$ID-m$N
LOG=$O/confirm.log; : > $LOG
cd $W || exit 2
git checkout -q -- . ; git apply $O/patch.diff || { echo "patch does not apply" | tee -a $LOG; exit 2; }
make -j8 >> $LOG 2>&1 || { echo "build failed" | tee -a $LOG; git checkout -q -- .; exit 2; }
( cd $O && bash run.sh $W ) > $O/confirm_with.txt 2>&1; RC_WITH=$?
make -j8 check > $O/confirm_check.log 2>&1
NPASS=$(grep -c "^PASS" $O/confirm_check.log); NFAIL=$(grep -c "^FAIL\|^ERROR" $O/confirm_check.log)
git checkout -q -- . ; make -j8 >> $LOG 2>&1
( cd $O && bash run.sh $W ) > $O/confirm_without.txt 2>&1; RC_WITHOUT=$?
echo "ID=$ID k=$K demo_with_rc=$RC_WITH demo_without_rc=$RC_WITHOUT tests_pass=$NPASS tests_fail=$NFAIL" | tee -a $LOG
if [ $RC_WITH -ne 0 ] && [ $RC_WITHOUT -eq 0 ] && [ $NFAIL -eq 0 ] && [ $NPASS -gt 1500 ]; then
  mkdir -p $S; cp $O/patch.diff $O/demo.c $O/run.sh $O/meta.json $S/ 2>/dev/null
  cp $O/confirm_with.txt $S/demo_with.txt; cp $O/confirm_without.txt $S/demo_without.txt
  python3 - "$S" "$ID" "$N" "$RC_WITH" "$RC_WITHOUT" "$NPASS" <<'PY'
import json,sys
S,ID,K,rw,rwo,np=sys.argv[1:]
m=json.load(open(S+"/meta.json"))
m["confirmed_by_coordinator"]={"worktree":"scratch git worktree of /repo HEAD + build products under /tmp (property %s)"%ID,
  "ran":["git apply patch.diff; make -j8","bash run.sh <worktree> -> exit %s (fails with the change)"%rw,
         "make -j8 check -> %s PASS, 0 FAIL/ERROR"%np,"git checkout -- .; make -j8; bash run.sh <worktree> -> exit %s (passes without)"%rwo]}
json.dump(m,open(S+"/meta.json","w"),indent=1)
PY
  echo CONFIRMED
else
  echo NOT-CONFIRMED
fi
