#!/bin/bash
# mk_seed_worktree.sh <dir>: scratch git worktree of /repo HEAD at <dir> (outside /repo and /verif),
# with the untracked build products of /repo copied in so that `make -C <dir> -j16 check` works at once.
set -e
D="$1"
git -C /repo worktree add --detach "$D" HEAD >/dev/null 2>&1
rsync -a --exclude .git --exclude '*.o' --exclude '*.lo' --exclude '.libs' --exclude '*.la' /repo/ "$D"/
# fix absolute paths baked into generated Makefiles / libtool / config.status
grep -rl --include=Makefile --include=libtool --include=config.status --include='*.pc' --include='*.la' '/repo' "$D" 2>/dev/null | xargs -r sed -i "s|/repo|$D|g"
echo "$D ready: edit sources, then: make -C $D -j8 check  (≈3 min)"
