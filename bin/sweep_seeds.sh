#!/bin/bash
# sweep_seeds.sh [jobs]: run every seeded change against its property's check (plus related checks),
# J at a time; results land in seeded/<dir>/detection.json (bin/run_seed.sh).
J=${1:-4}
cd /verif
extra() { case "$1" in
  C06-m2) echo "C06 C02 C01";; C16-m1) echo "C16 C01";; C16-m2) echo "C16";; C18-m2) echo "C18 C14";;
  C02-m1) echo "C02 C05 C04";; C04-m1) echo "C04 C05 C02";; C04-m2) echo "C04 C03";; C03-m2) echo "C03";;
  C10-m2) echo "C10 C02 C05";; C01-m2) echo "C01 C02";; C13-m1) echo "C13";; C14-m1) echo "C14";;
  *) echo "${1%%-*}";; esac; }
ls seeded | while read S; do echo "$S $(extra $S)"; done | xargs -P $J -L 1 bash -c 'bin/run_seed.sh "$@" > /var/tmp/sweep-$0.log 2>&1' 
for S in $(ls seeded); do python3 - "$S" <<'PY'
import json,sys
S=sys.argv[1]
try:
    d=json.load(open("/verif/seeded/%s/detection.json"%S)); print(S, "caught_by", d.get("caught_by"), "|", {k:(v["exit"],v["with_concrete_input"]) for k,v in d.get("results",{}).items()})
except Exception as e: print(S, "no detection", e)
PY
done
