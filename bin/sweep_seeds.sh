#!/bin/bash
# sweep_seeds.sh [jobs]: run every seeded change against its property's check (plus related checks),
# J at a time; results land in seeded/<dir>/detection.json (bin/run_seed.sh).
J=${1:-4}
cd /verif
# extra checks to run besides the property's own: whatever caught the change before (detection.json)
extra() { python3 - "$1" <<'PY'
import json,sys,os
S=sys.argv[1]; own=S.split("-")[0]; cs=[own]
try:
    d=json.load(open("/verif/seeded/%s/detection.json"%S))
    cs+=[c for c in sorted(d.get("results",{})) if c!=own and d["results"][c]["exit"]==1]
except Exception: pass
print(" ".join(cs))
PY
}
ls seeded | while read S; do echo "$S $(extra $S)"; done | xargs -P $J -L 1 bash -c 'bin/run_seed.sh "$0" "$@" > /var/tmp/sweep-$0.log 2>&1' 
for S in $(ls seeded); do python3 - "$S" <<'PY'
import json,sys
S=sys.argv[1]
try:
    d=json.load(open("/verif/seeded/%s/detection.json"%S)); print(S, "caught_by", d.get("caught_by"), "|", {k:(v["exit"],v["with_concrete_input"]) for k,v in d.get("results",{}).items()})
except Exception as e: print(S, "no detection", e)
PY
done
