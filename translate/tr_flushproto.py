#!/usr/bin/env python3
"""Translator for C12: reads the call protocol of _GD_FlushFragment /
_GD_FlushMeta (src/flush.c) and _GD_MakeTempFile (src/encoding.c) from the
current source and writes coq/Gen/FlushShape.v:

  fdopen_cleans : bool   does the `stream == NULL` branch after fdopen close
                         the descriptor and unlink the temporary file?
                         (selects the instance of the protocol model)
  shape_ok      : bool   every anchor of the protocol the model describes was
                         found, in the order the model assumes

A line starting with PROBLEM is printed for everything that could not be
recognised (the check turns that into a violation).  Always exits 0."""
import os, re, sys

REPO = os.environ.get("VERIF_REPO", "/repo")
HERE = os.path.dirname(os.path.dirname(os.path.abspath(__file__)))
OUT = os.path.join(HERE, "coq", "Gen", "FlushShape.v")


def strip_comments(s):
    return re.sub(r"/\*.*?\*/", " ", s, flags=re.S)


def func_body(src, header_re):
    m = re.search(header_re, src)
    if not m:
        return None
    i = src.index("{", m.end() - 1)
    depth = 0
    for j in range(i, len(src)):
        if src[j] == "{":
            depth += 1
        elif src[j] == "}":
            depth -= 1
            if depth == 0:
                return src[i:j + 1]
    return None


def block_after(body, pos):
    """text of the {...} block (or single statement) following position pos"""
    k = pos
    while body[k] in " \t\n":
        k += 1
    if body[k] == "{":
        depth = 0
        for j in range(k, len(body)):
            if body[j] == "{":
                depth += 1
            elif body[j] == "}":
                depth -= 1
                if depth == 0:
                    return body[k:j + 1], j + 1
    j = body.index(";", k)
    return body[k:j + 1], j + 1


def main():
    problems = []
    cleans = False
    try:
        flush = strip_comments(open(os.path.join(REPO, "src", "flush.c")).read())
        enc = strip_comments(open(os.path.join(REPO, "src", "encoding.c")).read())
    except OSError as e:
        flush = enc = ""
        problems.append("cannot read sources: %s" % e)
    body = func_body(flush, r"static\s+void\s+_GD_FlushFragment\s*\([^)]*\)\s*\{") if flush else None
    if body is None:
        problems.append("_GD_FlushFragment not found in src/flush.c")
    else:
        anchors = [
            ("mktemp", r"fd\s*=\s*_GD_MakeTempFile\s*\(\s*D\s*,\s*dirfd\s*,\s*temp_file\s*\)"),
            ("mktemp-fail-return", r"if\s*\(\s*fd\s*==\s*-1\s*\)"),
            ("fdopen", r"stream\s*=\s*fdopen\s*\(\s*fd\s*,"),
            ("fdopen-null", r"if\s*\(\s*stream\s*==\s*NULL\s*\)"),
            ("fchmod", r"if\s*\(\s*fchmod\s*\(\s*fd\s*,\s*mode\s*\)\s*\)\s*goto\s+WRITE_ERR\s*;"),
            ("ferror", r"if\s*\(\s*ferror\s*\(\s*stream\s*\)\s*\)\s*\{\s*WRITE_ERR\s*:"),
            ("fclose", r"if\s*\(\s*fclose\s*\(\s*stream\s*\)\s*==\s*EOF\s*\)"),
            ("unlink-on-error", r"if\s*\(\s*D->error\s*!=\s*GD_E_OK\s*\)\s*gd_UnlinkAt\s*\(\s*D\s*,\s*dirfd\s*,\s*temp_file\s*,\s*0\s*\)\s*;"),
            ("rename", r"else\s+if\s*\(\s*gd_RenameAt\s*\(\s*D\s*,\s*dirfd\s*,\s*temp_file\s*,\s*dirfd\s*,\s*D->fragment\[i\]\.bname\s*\)\s*\)\s*\{"),
            ("unlink-after-rename-failure", r"gd_UnlinkAt\s*\(\s*D\s*,\s*dirfd\s*,\s*temp_file\s*,\s*0\s*\)\s*;\s*\}\s*else\s+D->fragment\[i\]\.modified\s*=\s*0\s*;"),
        ]
        pos = 0
        where = {}
        for name, rx in anchors:
            m = re.compile(rx).search(body, pos)
            if not m:
                problems.append("_GD_FlushFragment: anchor '%s' not found after offset %d (order of calls changed?)" % (name, pos))
                continue
            where[name] = m
            pos = m.end() if name not in ("unlink-on-error",) else m.end()
        if len(re.findall(r"\.modified\s*=\s*0", body)) != 1:
            problems.append("_GD_FlushFragment: `modified = 0` must occur exactly once (after the successful rename)")
        if "fdopen-null" in where:
            blk, _ = block_after(body, where["fdopen-null"].end())
            has_close = re.search(r"\bclose\s*\(\s*fd\s*\)", blk) is not None
            has_unlink = re.search(r"gd_UnlinkAt\s*\(\s*D\s*,\s*dirfd\s*,\s*temp_file", blk) is not None
            if has_close and has_unlink:
                cleans = True
            elif has_close or has_unlink:
                problems.append("_GD_FlushFragment: fdopen failure branch cleans up only partly: %s" % blk.strip()[:120])
            if "return" not in blk:
                problems.append("_GD_FlushFragment: fdopen failure branch does not return")
        if "mktemp-fail-return" in where:
            blk, _ = block_after(body, where["mktemp-fail-return"].end())
            if "return" not in blk:
                problems.append("_GD_FlushFragment: temp-file failure branch does not return")
        # every stdio output call must be checked (inside an if condition)
        lo = where["fdopen-null"].end() if "fdopen-null" in where else 0
        hi = where["fchmod"].start() if "fchmod" in where else len(body)
        for m in re.finditer(r"\b(fprintf|fputs|fputc|fwrite|_GD_FieldSpec|_GD_WriteFieldCode|WriteInclude)\s*\(", body[lo:hi]):
            k = lo + m.start()
            prev = max(body.rfind(";", 0, k), body.rfind("{", 0, k), body.rfind("}", 0, k))
            stmt = body[prev + 1:k]
            if not re.search(r"\bif\s*\(|\|\|", stmt):
                problems.append("_GD_FlushFragment: result of %s not checked near: %s" % (m.group(1), body[k:k + 60].replace("\n", " ")))
    meta = func_body(flush, r"void\s+_GD_FlushMeta\s*\([^)]*\)\s*\{") if flush else None
    if meta is None:
        problems.append("_GD_FlushMeta not found")
    else:
        if not re.search(r"for\s*\(\s*i\s*=\s*0\s*;\s*i\s*<\s*D->n_fragment\s*;\s*\+\+i\s*\)\s*if\s*\(\s*force\s*\|\|\s*D->fragment\[i\]\.modified\s*\)\s*_GD_FlushFragment\s*\(", meta):
            problems.append("_GD_FlushMeta: loop over modified fragments in index order not recognised")
    mk = func_body(enc, r"int\s+_GD_MakeTempFile\s*\([^)]*\)\s*\{") if enc else None
    if mk is None:
        problems.append("_GD_MakeTempFile not found in src/encoding.c")
    else:
        if not re.search(r"gd_OpenAt\s*\(\s*D\s*,\s*dirfd\s*,\s*tmpl\s*,\s*O_RDWR\s*\|\s*O_CREAT\s*\|\s*O_EXCL", mk):
            problems.append("_GD_MakeTempFile: exclusive creation (O_RDWR | O_CREAT | O_EXCL) not recognised")
        if not re.search(r"while\s*\(\s*fd\s*<\s*0\s*&&\s*errno\s*==\s*EEXIST\s*\)", mk):
            problems.append("_GD_MakeTempFile: the retry loop must repeat only a FAILED creation (fd < 0 && errno == EEXIST)")
    os.makedirs(os.path.dirname(OUT), exist_ok=True)
    txt = ("(* generated by translate/tr_flushproto.py from src/flush.c, src/encoding.c -- do not edit *)\n"
           "Definition fdopen_cleans : bool := %s.\n"
           "Definition shape_ok : bool := %s.\n" % ("true" if cleans else "false", "false" if problems else "true"))
    old = open(OUT).read() if os.path.exists(OUT) else None
    if old != txt:
        open(OUT, "w").write(txt)
    for p in problems:
        print("PROBLEM " + p)
    print("tr_flushproto: fdopen_cleans=%s shape_ok=%s" % (cleans, not problems))
    return 0


if __name__ == "__main__":
    sys.exit(main())
