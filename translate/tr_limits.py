#!/usr/bin/env python3
"""Translator for C05: constants the models take from the source.
   GD_MAX_RECURSE_LEVEL (src/internal.h) and the list of functions carrying the
   `++D->recurse_level >= GD_MAX_RECURSE_LEVEL` guard -> coq/Gen/Limits.v"""
import re, os, sys
REPO = os.environ.get("VERIF_REPO", "/repo")
HERE = os.path.dirname(os.path.dirname(os.path.abspath(__file__)))
OUT = os.path.join(HERE, "coq", "Gen", "Limits.v")
problems = []
h = open(os.path.join(REPO, "src", "internal.h")).read()
m = re.search(r"^#define\s+GD_MAX_RECURSE_LEVEL\s+(\d+)\s*$", h, re.M)
if not m:
    problems.append("GD_MAX_RECURSE_LEVEL not found as a decimal #define in internal.h")
    lim = 0
else:
    lim = int(m.group(1))
guards = []
for f in sorted(os.listdir(os.path.join(REPO, "src"))):
    if not f.endswith(".c"):
        continue
    s = open(os.path.join(REPO, "src", f), errors="replace").read()
    for mm in re.finditer(r"\+\+D->recurse_level\s*>=\s*GD_MAX_RECURSE_LEVEL", s):
        # enclosing function name: last "name(...)\n{" style header before the match
        head = s[:mm.start()]
        fn = re.findall(r"^[A-Za-z_][\w \*]*?\b(\w+)\s*\([^;{}]*\)\s*(?:gd_nothrow\s*)?\{", head, re.M | re.S)
        guards.append((f, fn[-1] if fn else "?"))
# the evaluators that recurse over field inputs must all carry the guard
need = {"getdata.c": "_GD_DoField", "putdata.c": "_GD_DoFieldOut", "flimits.c": "_GD_GetEOF", "spf.c": "_GD_GetSPF",
        "native.c": "_GD_NativeType", "iopos.c": "_GD_GetIOPos", "include.c": "_GD_Include"}
have = {(a, b) for a, b in guards}
for a, b in need.items():
    if (a, b) not in have:
        problems.append("recursive evaluator %s:%s has no `++D->recurse_level >= GD_MAX_RECURSE_LEVEL` guard" % (a, b))
# the models assume every guarded evaluator "recurses on every input in order, stopping at the first error"; on a
# circular definition an evaluator that goes on after an error visits (inputs)^depth nodes.  For each guarded
# evaluator: a self-call inside a for/while loop needs an error test in the loop (condition or body), and between two
# consecutive self-calls of one switch case (no `break;`/`return` in between) there must be an error test.
ERR = r"(D->error|if\s*\(\s*!?_GD_\w+\s*\(|!=\s*pos\b|<\s*0\b|==\s*-1\b|\bns1?\s*<|\bbof1?\s*<)"
stops = []
def fn_body(s, name):
    m = re.search(r"^[A-Za-z_][\w \*]*?\b" + re.escape(name) + r"\s*\([^;{}]*\)\s*(?:gd_nothrow\s*)?\{", s, re.M | re.S)
    if not m:
        return None
    e = re.search(r"^}\s*$", s[m.end():], re.M)
    return s[m.end():m.end() + e.start()] if e else s[m.end():]
for f, fn in guards:
    if f == "include.c":
        continue
    src = re.sub(r"/\*.*?\*/", "", open(os.path.join(REPO, "src", f), errors="replace").read(), flags=re.S)
    b = fn_body(src, fn)
    ok = b is not None
    why = ""
    # an evaluator that returns at once when D->error is already set (test before its switch) makes the calls after
    # the first error O(1): equivalent protection
    if b is not None and re.search(r"if\s*\(\s*D->error\s*\)", b.split("switch")[0]):
        stops.append((f, fn, True))
        continue
    if b is not None:
        calls = [m.start() for m in re.finditer(re.escape(fn) + r"\s*\(", b)]
        # loops containing a self-call
        for m in re.finditer(r"\b(for|while)\s*\(", b):
            # loop header up to matching ')', then one statement or block
            i = m.end(); depth = 1
            while i < len(b) and depth:
                depth += {"(": 1, ")": -1}.get(b[i], 0); i += 1
            hdr = b[m.end():i]
            j = i
            while j < len(b) and b[j].isspace():
                j += 1
            if j < len(b) and b[j] == "{":
                k = j + 1; depth = 1
                while k < len(b) and depth:
                    depth += {"{": 1, "}": -1}.get(b[k], 0); k += 1
                body = b[j:k]
            else:
                k = b.find(";", j) + 1
                body = b[j:k]
            if re.search(re.escape(fn) + r"\s*\(", body) and not re.search(ERR, hdr + body):
                ok = False; why = "a loop calls %s for every input without an error test" % fn
        # consecutive self-calls with no break/return/case label in between
        for a, c in zip(calls, calls[1:]):
            mid = b[a:c]
            if re.search(r"\b(break|return)\b|\bcase\s+GD_\w+\s*:\s*(?!\s*case)|\b(for|while)\b", mid.split("fallthrough")[0] if "fallthrough" in mid else mid) and "fallthrough" not in mid:
                continue
            if not re.search(ERR, mid):
                ok = False; why = "two successive calls of %s without an error test between them" % fn
    else:
        why = "function body not found"
    stops.append((f, fn, ok))
    if not ok:
        problems.append("%s:%s does not stop at the first error (%s): on a circular definition it visits inputs^depth nodes" % (f, fn, why))
# LINTERP table reader (common.c:_GD_ReadLinterpFile): chunk size and the growth step after every stored row
cs = re.sub(r"/\*.*?\*/", "", open(os.path.join(REPO, "src", "common.c"), errors="replace").read(), flags=re.S)
mch = re.search(r"^#define\s+GD_LUT_CHUNK\s+(\d+)\s*$", h, re.M)
lut_chunk = int(mch.group(1)) if mch else 0
if not mch:
    problems.append("GD_LUT_CHUNK not found as a decimal #define in internal.h")
rb = fn_body(cs, "_GD_ReadLinterpFile") or ""
rbn = re.sub(r"\s+", "", rb)
lut_init = "intbuf_len=GD_LUT_CHUNK;" in rbn and "_GD_Malloc(D,buf_len*sizeof(*E->e->u.linterp.lut))" in rbn
mg = re.search(r"i\+\+;if\(i(>=|>|==)buf_len\)\{buf_len\+=(\w+);ptr=_GD_Realloc\(D,E->e->u\.linterp\.lut,buf_len\*sizeof\(\*ptr\)\);", rbn)
lut_ge = bool(mg and mg.group(1) in (">=", "=="))
lut_by_chunk = bool(mg and mg.group(2) == "GD_LUT_CHUNK")
if not lut_init:
    problems.append("_GD_ReadLinterpFile: initial table allocation of GD_LUT_CHUNK rows not recognised")
if not mg:
    problems.append("_GD_ReadLinterpFile: growth step after i++ not recognised")
elif not lut_ge or not lut_by_chunk:
    problems.append("_GD_ReadLinterpFile: the table grows when i %s buf_len by %s: a row is stored beyond the allocation" % (mg.group(1), mg.group(2)))
txt = "(* GENERATED by translate/tr_limits.py -- do not edit *)\nRequire Import List String. Import ListNotations. Open Scope string_scope.\n"
txt += "Definition gd_max_recurse_level : nat := %d.\n" % lim
txt += "Definition recurse_guarded : list (string * string) := [\n" + ";\n".join('  ("%s", "%s")' % g for g in guards) + "\n].\n"
txt += "Definition stops_at_first_error : list (string * string * bool) := [\n" + ";\n".join('  ("%s", "%s", %s)' % (a, b, "true" if c else "false") for a, b, c in stops) + "\n].\n"
txt += "Definition lut_chunk : nat := %d.\nDefinition lut_initial_is_chunk : bool := %s.\nDefinition lut_grows_when_full : bool := %s.\nDefinition lut_grows_by_chunk : bool := %s.\n" % (
    lut_chunk, "true" if lut_init else "false", "true" if lut_ge else "false", "true" if lut_by_chunk else "false")
txt += "(* problems: %d *)\n" % len(problems) + "".join("(* PROBLEM: %s *)\n" % p for p in problems)
os.makedirs(os.path.dirname(OUT), exist_ok=True)
if not os.path.exists(OUT) or open(OUT).read() != txt:
    open(OUT, "w").write(txt)
for p in problems:
    print("PROBLEM: " + p)
sys.exit(3 if problems else 0)
