#!/usr/bin/env python3
"""Translator for C14: checks that the data-replacing drivers still have the two-phase shape
the model coq/C14/ReplaceProto.v describes and writes coq/Gen/ReplaceShape.v:

  replace_shape_ok : bool   every anchor below was found
  drivers          : nat    number of convert-all-then-commit-all drivers recognised (3)

anchors, per driver (_GD_RecodeFragment encoding.c, _GD_ByteSwapFragment endian.c, _GD_ShiftFragment flimits.c):
  * convert loop: _GD_MogrifyFile(..., 0, -1, NULL) (finalise = 0) followed by `break` on failure
  * `if (D->error)` loop of _GD_FiniRawIO(.., GD_FINIRAW_DISCARD | GD_FINIRAW_CLOTEMP)
  * else loop committing with GD_FINIRAW_KEEP | GD_FINIRAW_CLOTEMP, WITHOUT break/return (the model's
    commit phase goes on after a failure)
  * the metadata (encoding / byte_sex / frame_offset, modified = 1) are only changed after `if (D->error) return`
_GD_MoveOver: rename temp -> name; on failure unlink the temp, GD_E_UNCLEAN_DB, GD_INVALID.
_GD_FiniRawIO: DISCARD => unlink file[1].name, otherwise _GD_MoveOver.
_GD_MogrifyFile: temp created with GD_FILE_WRITE | GD_FILE_TEMP; finalise branch discards on error.
PROBLEM lines for anything not recognised.  Always exits 0."""
import os, re, sys
REPO = os.environ.get("VERIF_REPO", "/repo")
HERE = os.path.dirname(os.path.dirname(os.path.abspath(__file__)))
OUT = os.path.join(HERE, "coq", "Gen", "ReplaceShape.v")


def read(f):
    try:
        return re.sub(r"/\*.*?\*/", " ", open(os.path.join(REPO, "src", f)).read(), flags=re.S)
    except OSError:
        return ""


def body(src, name):
    m = re.search(r"\b%s\s*\([^;{]*\)\s*\{" % name, src)
    if not m:
        return None
    i = m.end() - 1
    d = 0
    for j in range(i, len(src)):
        d += src[j] == "{"
        d -= src[j] == "}"
        if d == 0:
            return src[i:j + 1]
    return None


def main():
    problems = []
    n = 0
    for fn, fname, meta in (("_GD_RecodeFragment", "encoding.c", r"D->fragment\[fragment\]\.encoding\s*=\s*encoding"),
                            ("_GD_ByteSwapFragment", "endian.c", r"D->fragment\[fragment\]\.byte_sex\s*=\s*byte_sex"),
                            ("_GD_ShiftFragment", "flimits.c", r"D->fragment\[fragment\]\.frame_offset\s*=\s*offset")):
        b = body(read(fname), fn)
        if b is None:
            problems.append("%s not found in src/%s" % (fn, fname)); continue
        ok = True
        m1 = re.search(r"if\s*\(\s*_GD_MogrifyFile\s*\([^;]*?,\s*0\s*,\s*-1\s*,\s*NULL\s*\)\s*\)\s*break\s*;", b, re.S)
        if not m1:
            problems.append("%s: convert loop `if (_GD_MogrifyFile(.., 0, -1, NULL)) break;` not recognised" % fn); ok = False
        m2 = re.search(r"if\s*\(\s*D->error\s*\)\s*\{?\s*for\s*\([^)]*n_raw[^)]*\)\s*_GD_FiniRawIO\s*\(\s*D\s*,\s*raw_entry\[i\]\s*,\s*fragment\s*,\s*GD_FINIRAW_DISCARD\s*\|\s*GD_FINIRAW_CLOTEMP\s*\)\s*;", b, re.S)
        if not m2 or (m1 and m2.start() < m1.end()):
            problems.append("%s: discard loop after a failed conversion not recognised" % fn); ok = False
        m3 = None
        if m2:
            m3 = re.search(r"else\s*\{?\s*for\s*\([^)]*n_raw[^)]*\)", b[m2.end():], re.S)
        if not m3:
            problems.append("%s: commit loop not recognised" % fn); ok = False
        else:
            start = m2.end() + m3.end()
            mfree = re.search(r"free\s*\(\s*raw_entry\s*\)", b[start:])
            loop = b[start:start + mfree.start()] if mfree else ""
            if not mfree or "GD_FINIRAW_KEEP" not in loop or "GD_FINIRAW_CLOTEMP" not in loop:
                problems.append("%s: commit loop does not move the temporary files into place (KEEP | CLOTEMP)" % fn); ok = False
            if re.search(r"\bbreak\s*;|\breturn\b", loop):
                problems.append("%s: commit loop stops at a failure (the model's commit phase goes on)" % fn); ok = False
            after = b[start + (mfree.end() if mfree else 0):]
            m4 = re.search(r"if\s*\(\s*D->error\s*\)\s*\{\s*(dreturnvoid\s*\(\s*\)\s*;)?\s*return\s*;", after)
            m5 = re.search(meta, after)
            if not m4 or not m5 or m5.start() < m4.start():
                problems.append("%s: metadata must only change after the error check" % fn); ok = False
        n += ok
    enc = read("encoding.c")
    mo = body(enc, "_GD_MoveOver")
    if mo is None or not re.search(r"if\s*\(\s*gd_RenameAt\s*\(\s*D\s*,\s*dirfd\s*,\s*file\[1\]\.name\s*,\s*dirfd\s*,\s*file\[0\]\.name\s*\)\s*\)\s*\{.*?gd_UnlinkAt\s*\(\s*D\s*,\s*dirfd\s*,\s*file\[1\]\.name.*?GD_E_UNCLEAN_DB.*?D->flags\s*\|=\s*GD_INVALID", mo or "", re.S):
        problems.append("_GD_MoveOver: rename temp over name / unlink temp + GD_E_UNCLEAN_DB + GD_INVALID on failure not recognised")
    fi = body(enc, "_GD_FiniRawIO")
    if fi is None or not re.search(r"if\s*\(\s*flags\s*&\s*GD_FINIRAW_DISCARD\s*\)\s*\{.*?gd_UnlinkAt\s*\([^;]*file\[1\]\.name.*?\}\s*else\s*\{.*?_GD_MoveOver\s*\(", fi or "", re.S):
        problems.append("_GD_FiniRawIO: DISCARD => unlink temp, else _GD_MoveOver not recognised")
    mg = body(read("move.c"), "_GD_MogrifyFile")
    if mg is None or not re.search(r"GD_FILE_WRITE\s*\|\s*GD_FILE_TEMP", mg) or \
            not re.search(r"if\s*\(\s*finalise\s*\)\s*\{.*?if\s*\(\s*D->error\s*\)\s*\{.*?GD_FINIRAW_CLOTEMP\s*\|\s*GD_FINIRAW_DISCARD", mg, re.S):
        problems.append("_GD_MogrifyFile: temporary output / discard-on-error of the finalise branch not recognised")
    os.makedirs(os.path.dirname(OUT), exist_ok=True)
    txt = ("(* generated by translate/tr_replace.py from src/encoding.c, endian.c, flimits.c, move.c -- do not edit *)\n"
           "Definition replace_shape_ok : bool := %s.\nDefinition drivers : nat := %d.\n" % ("false" if problems else "true", n))
    if not os.path.exists(OUT) or open(OUT).read() != txt:
        open(OUT, "w").write(txt)
    for p in problems:
        print("PROBLEM " + p)
    print("tr_replace: replace_shape_ok=%s drivers=%d" % (not problems, n))
    return 0


if __name__ == "__main__":
    sys.exit(main())
