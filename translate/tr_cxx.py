#!/usr/bin/env python3
"""Translator for C20: bindings/cxx/*.cpp (+ inline methods of bindings/cxx/getdata/*.h,
+ the C prototypes of src/getdata.h.in)  ->  coq/Gen/CxxTable.v

Every method definition is reduced to one of a few shapes (see coq/C20/Wrapper.v):
  Forward c            return [cast] gd_f(args);            |  gd_f(args);
  CondForward e c1 c2  if (e) return gd_f(..); else return gd_g(..);
  ForwardThen c tail   T r = gd_f(args); <tail statements>; return r;
  Setter m e c         E.<m> = e; if (D != NULL) return gd_alter_entry(D->D, E.field, &E, r); return 0;
  Assigns g as tail    guards; E.<m> [= E.<m'>] = e; ... [same tail]      (constructors, strdup-ing setters)
  ScalarSet ...        int r = 0; SetScalar(n, p); if (D != NULL) { r = gd_alter_entry(..); if (!r) r = gd_get_constant(..); } return r;
  Getter e             return e;     (inline in a header)
  SelfCall m args      return Method(args);
  Opaque txt           anything else: the normalised body text (pinned in Wrapper.v and reviewed by hand)
Argument expressions:  Param i | Member s | Const s | Cast ty e | Addr e | Fld e s | Idx e e | Raw s

A very regular code base: a regex + brace matcher is enough; whatever does not
fit a shape is kept as text, never guessed.  Prints PROBLEM lines (and exits 0)
when a file cannot be read at all."""
import os, re, sys

VERIF = os.path.dirname(os.path.dirname(os.path.abspath(__file__)))
REPO = os.environ.get("VERIF_REPO", "/repo")
OUT = os.path.join(VERIF, "coq", "Gen", "CxxTable.v")


def strip_comments(s):
    s = re.sub(r"/\*.*?\*/", " ", s, flags=re.S)
    s = re.sub(r"//[^\n]*", " ", s)
    return s


def match_brace(s, i):
    """s[i] == '{' -> index just past the matching '}'"""
    d = 0
    for j in range(i, len(s)):
        if s[j] == "{":
            d += 1
        elif s[j] == "}":
            d -= 1
            if d == 0:
                return j + 1
    return len(s)


def split_args(s):
    out, d, cur = [], 0, ""
    for ch in s:
        if ch in "([{":
            d += 1
        elif ch in ")]}":
            d -= 1
        if ch == "," and d == 0:
            out.append(cur.strip()); cur = ""
        else:
            cur += ch
    if cur.strip():
        out.append(cur.strip())
    return out


def parse_params(ps):
    """'const char* a, int b = 0' -> [(type, name)]"""
    res = []
    for p in split_args(ps):
        p = re.sub(r"=.*$", "", p).strip()
        p = p.replace("__gd_unused", "").strip()
        if p in ("", "void"):
            continue
        m = re.match(r"^(.*?)([A-Za-z_]\w*)\s*(\[\])?$", p, re.S)
        if not m:
            res.append((norm(p), "?")); continue
        ty = norm(m.group(1)) + ("[]" if m.group(3) else "")
        res.append((ty, m.group(2)))
    return res


def norm(s):
    s = re.sub(r"\s+", " ", s).strip()
    s = re.sub(r"\s*\*\s*", "*", s)
    s = re.sub(r"\s*&\s*", "&", s)
    return s


# ------------------------------------------------------------------ expressions
TYPE_WORDS = {"unsigned", "long", "int", "char", "const", "double", "size_t", "void", "short", "signed"}


class P:
    def __init__(self, s, params):
        self.t = re.findall(r"->|::|[A-Za-z_]\w*|\d+\.?\d*|[()&*.,\[\]<>!=+\-/]|\S", s)
        self.i = 0
        self.params = params

    def peek(self, k=0):
        return self.t[self.i + k] if self.i + k < len(self.t) else None

    def eat(self):
        x = self.t[self.i]; self.i += 1; return x

    def is_cast(self):
        # '(' type-tokens ')' followed by something that starts an expression
        if self.peek() != "(":
            return None
        j = self.i + 1
        toks = []
        while j < len(self.t) and self.t[j] != ")":
            toks.append(self.t[j]); j += 1
        if j >= len(self.t) or not toks:
            return None
        ok = all(re.match(r"^[A-Za-z_]\w*$|^::$|^\*$", x) for x in toks)
        if not ok:
            return None
        names = [x for x in toks if re.match(r"^[A-Za-z_]", x)]
        looks_type = any(x in TYPE_WORDS or x.endswith("_t") or x[0].isupper() or x == "GetData" for x in names)
        if not looks_type:
            return None
        nxt = self.t[j + 1] if j + 1 < len(self.t) else None
        if nxt is None or nxt in (")", ",", ".", "->", "[", "]"):
            return None
        self.i = j + 1
        return "".join(toks).replace("::", "::")

    def expr(self):
        c = self.is_cast()
        if c is not None:
            return ("Cast", c, self.expr())
        if self.peek() == "&":
            self.eat(); return ("Addr", self.expr())
        if self.peek() == "*":
            self.eat(); return ("Deref", self.expr())
        return self.postfix()

    def postfix(self):
        tok = self.eat()
        if tok == "(":
            e = self.expr()
            if self.peek() == ")":
                self.eat()
        elif re.match(r"^\d", tok) or tok in ("NULL",) or re.match(r"^GD_[A-Z_0-9]+$", tok):
            e = ("Const", tok)
        elif re.match(r"^[A-Za-z_]", tok) and self.peek() == "(" and tok in ("strdup", "atoi"):
            self.eat()
            a = self.expr()
            if self.peek() == ")":
                self.eat()
            e = ("CallE", tok, [a])
        elif re.match(r"^[A-Za-z_]", tok):
            if tok == "this" and self.peek() == "->":
                self.eat(); tok = self.eat()
            if tok in self.params:
                e = ("Param", self.params.index(tok))
            else:
                e = ("Member", tok)
        else:
            raise ValueError("token " + tok)
        while self.peek() in (".", "->", "["):
            op = self.eat()
            if op == "[":
                ix = self.expr()
                if self.peek() == "]":
                    self.eat()
                e = ("Idx", e, ix)
            else:
                f = self.eat()
                if op == "->" and e == ("Member", "D") and f == "D":
                    e = ("Member", "D->D")
                else:
                    e = ("Fld", e, f)
        return e


def split_ternary(s):
    d = 0
    q = c = -1
    for i, ch in enumerate(s):
        if ch in "([":
            d += 1
        elif ch in ")]":
            d -= 1
        elif ch == "?" and d == 0 and q < 0:
            q = i
        elif ch == ":" and d == 0 and q >= 0 and c < 0 and s[i - 1:i + 2].count(":") == 1 and s[i + 1:i + 2] != ":" and s[i - 1:i] != ":":
            c = i
    if q >= 0 and c > q:
        return s[:q], s[q + 1:c], s[c + 1:]
    return None


def parse_expr(s, params):
    t = split_ternary(s)
    if t:
        return ("Tern", norm(t[0]), parse_expr(t[1], params), parse_expr(t[2], params))
    try:
        p = P(s, params)
        e = p.expr()
        if p.i != len(p.t):
            return ("Raw", norm(s))
        return e
    except Exception:
        return ("Raw", norm(s))


CALL = r"((?:\([A-Za-z_:\s\*]+\))?)\s*(gd_\w+)\s*\((.*)\)"


def parse_call(s, params):
    m = re.match(r"^" + CALL + r"$", s.strip(), re.S)
    if not m:
        return None
    cast = norm(m.group(1)[1:-1]) if m.group(1) else ""
    args = [parse_expr(a, params) for a in split_args(m.group(3))]
    return (m.group(2), args, cast)


def classify(body, params):
    b = norm(body)
    # Forward
    m = re.match(r"^return (.*);$", b)
    if m and ";" not in m.group(1):
        c = parse_call(m.group(1), params)
        if c:
            return ("Forward", c)
        ms = re.match(r"^(?:this->)?([A-Z]\w*)\s*\((.*)\)$", m.group(1))
        if ms:
            return ("SelfCall", ms.group(1), [parse_expr(a, params) for a in split_args(ms.group(2))])
        return ("Getter", parse_expr(m.group(1), params))
    m = re.match(r"^(gd_\w+\s*\(.*\));$", b)
    if m and ";" not in m.group(1):
        c = parse_call(m.group(1), params)
        if c:
            return ("Forward", c)
    m = re.match(r"^if \((.*?)\) return (.*?); else return (.*?);$", b)
    if m:
        c1, c2 = parse_call(m.group(2), params), parse_call(m.group(3), params)
        if c1 and c2:
            return ("CondForward", parse_expr(m.group(1).replace("==", " == "), params) if False else ("Raw", norm(m.group(1))), c1, c2)
    m = re.match(r"^([\w:\* ]+?)\s*\*?\s*(\w+) = (gd_\w+\s*\(.*?\)); (.*)return \2;$", b)
    if m and ";" not in m.group(3):
        c = parse_call(m.group(3), params)
        if c:
            return ("ForwardThen", c, norm(m.group(4)))
    m = re.match(r"^E\.([\w.\[\]]+) = (.*?); if \(D != NULL\) return (gd_alter_entry\s*\(.*?\)); return 0;$", b)
    if m and ";" not in m.group(2):
        c = parse_call(m.group(3), params)
        if c:
            return ("Setter", m.group(1), parse_expr(m.group(2), params), c)
    a = classify_assigns(b, params)
    if a:
        return a
    return ("Opaque", b)


ALTER_TAIL = re.compile(r"^if \(D != NULL\) return (gd_alter_entry\s*\(.*?\)); return 0;$")


def split_stmts(b):
    """top-level ';'-separated statements; gives up (None) on braces"""
    if "{" in b or "}" in b:
        return None
    out, d, cur = [], 0, ""
    for ch in b:
        if ch in "([":
            d += 1
        elif ch in ")]":
            d -= 1
        if ch == ";" and d == 0:
            out.append(cur.strip()); cur = ""
        else:
            cur += ch
    if cur.strip():
        return None
    return out


def classify_assigns(b, params):
    """[ctor-init] { guards | E.a [= E.b] = e | free(..) | char*ptr = strdup(p); if (ptr == NULL) return K }*
       [ if (D != NULL) return gd_alter_entry(..); return 0 ]
       or the scalar-setter idiom."""
    b0 = re.sub(r"^: Entry\(\) ", "", b)
    # scalar setter
    m = re.match(r"^int r = 0; ((?:if \([^;]*\) return -?\d+; )*)SetScalar\((.*?), (\w+)\); if \(D != NULL\) \{ r = (gd_alter_entry\s*\(.*?\)); "
                 r"if \(!r\) (?:r = (gd_(?:get_constant|cxx_get_scalar)\s*\([^;]*\));|\{ (.*) \}) \} return r;$", b0)
    if m:
        alter = parse_call(m.group(4), params)
        getc = parse_call(m.group(5), params) if m.group(5) else None
        if alter and (getc or m.group(6)):
            return ("ScalarSet", norm(m.group(1)), parse_expr(m.group(2), params), parse_expr(m.group(3), params), alter,
                    getc, norm(m.group(6) or ""))
    tail = None
    body = b0
    mt = re.search(r"if \(D != NULL\) return (gd_alter_entry\s*\([^;]*\)); return 0;$", b0)
    if mt:
        tail = parse_call(mt.group(1), params)
        body = b0[:mt.start()].strip()
        if tail is None:
            return None
    st = split_stmts(body)
    if st is None:
        return None
    guards, asg = [], []
    ptr = None
    i = 0
    while i < len(st):
        x = st[i]
        m = re.match(r"^if \((.*)\) return (-?\w+)$", x)
        if m and "ptr" not in m.group(1):
            guards.append(norm(x)); i += 1; continue
        if re.match(r"^if \(ptr == NULL\) return -?\w+$", x):
            i += 1; continue
        m = re.match(r"^char\*\s*ptr = strdup\((\w+)\)$", x)
        if m:
            ptr = ("CallE", "strdup", [parse_expr(m.group(1), params)]); i += 1; continue
        if re.match(r"^free\(E\.[\w.\[\]]+\)$", x):
            i += 1; continue
        if re.match(r"^(int i|filename = NULL)$", x):
            i += 1; continue
        m = re.match(r"^(E\.[\w.\[\]]+(?: = E\.[\w.\[\]]+)*) = (.*)$", x)
        if m:
            val = ptr if m.group(2).strip() == "ptr" and ptr else parse_expr(m.group(2), params)
            for lhs in m.group(1).split(" = "):
                asg.append((lhs.strip()[2:], val))
            i += 1; continue
        return None
    if not asg:
        return None
    return ("Assigns", guards, asg, tail)


def coq_str(s):
    return '"' + s.replace('"', '""') + '"'


def coq_expr(e):
    k = e[0]
    if k == "Param":
        return "(Param %d)" % e[1]
    if k in ("Member", "Const", "Raw"):
        return "(%s %s)" % (k, coq_str(e[1]))
    if k == "Cast":
        return "(Cast %s %s)" % (coq_str(e[1]), coq_expr(e[2]))
    if k in ("Addr", "Deref"):
        return "(%s %s)" % (k, coq_expr(e[1]))
    if k == "Fld":
        return "(Fld %s %s)" % (coq_expr(e[1]), coq_str(e[2]))
    if k == "Idx":
        return "(Idx %s %s)" % (coq_expr(e[1]), coq_expr(e[2]))
    if k == "Tern":
        return "(Tern %s %s %s)" % (coq_str(e[1]), coq_expr(e[2]), coq_expr(e[3]))
    if k == "CallE":
        return "(CallE %s %s)" % (coq_str(e[1]), coq_expr(e[2][0]))
    raise ValueError(e)


def coq_call(c):
    return "(mkCall %s [%s] %s)" % (coq_str(c[0]), "; ".join(coq_expr(a) for a in c[1]), coq_str(c[2]))


def coq_body(b):
    k = b[0]
    if k == "Forward":
        return "(Forward %s)" % coq_call(b[1])
    if k == "CondForward":
        return "(CondForward %s %s %s)" % (coq_expr(b[1]), coq_call(b[2]), coq_call(b[3]))
    if k == "ForwardThen":
        return "(ForwardThen %s %s)" % (coq_call(b[1]), coq_str(b[2]))
    if k == "Setter":
        return "(Setter %s %s %s)" % (coq_str(b[1]), coq_expr(b[2]), coq_call(b[3]))
    if k == "Getter":
        return "(Getter %s)" % coq_expr(b[1])
    if k == "Assigns":
        return "(Assigns [%s] [%s] %s)" % ("; ".join(coq_str(g) for g in b[1]),
                                           "; ".join("(%s, %s)" % (coq_str(m), coq_expr(e)) for m, e in b[2]),
                                           ("(Some %s)" % coq_call(b[3])) if b[3] else "None")
    if k == "ScalarSet":
        return "(ScalarSet %s %s %s %s %s %s)" % (coq_str(b[1]), coq_expr(b[2]), coq_expr(b[3]), coq_call(b[4]),
                                                  ("(Some %s)" % coq_call(b[5])) if b[5] else "None", coq_str(b[6]))
    if k == "SelfCall":
        return "(SelfCall %s [%s])" % (coq_str(b[1]), "; ".join(coq_expr(a) for a in b[2]))
    return "(Opaque %s)" % coq_str(b[1])


DEF = re.compile(r"(?:^|\n)([A-Za-z_][\w:\*&<> \t]*?[\s\*&])((?:GetData::)?\w+)::(~?\w+)\s*\(([^{};]*?)\)\s*(const)?\s*(:[^{;]*)?\{", re.S)
CTOR = re.compile(r"(?:^|\n)((?:GetData::)?\w+)::(~?\w+)\s*\(([^{};]*?)\)\s*(:[^{;]*)?\{", re.S)


def parse_cpp(path):
    s = strip_comments(open(path, errors="replace").read())
    rows = []
    seen = set()
    for m in DEF.finditer(s):
        cls, meth, ps = m.group(2).replace("GetData::", ""), m.group(3), m.group(4)
        start = m.end() - 1
        end = match_brace(s, start)
        params = parse_params(ps)
        body = s[start + 1:end - 1]
        rows.append((cls, meth, params, classify(body, [n for _, n in params]), norm(m.group(1))))
        seen.add(start)
    for m in CTOR.finditer(s):
        start = m.end() - 1
        if start in seen:
            continue
        cls, meth, ps = m.group(1).replace("GetData::", ""), m.group(2), m.group(3)
        if cls in ("if", "for", "while", "switch") or not (meth == cls or meth == "~" + cls):
            continue
        end = match_brace(s, start)
        params = parse_params(ps)
        rows.append((cls, meth, params, classify(norm((m.group(4) or "") + " " + s[start + 1:end - 1]), [n for _, n in params]), ""))
    return rows


INLINE = re.compile(r"(?:virtual\s+)?([A-Za-z_][\w:\*&<> \t]*?[\s\*&])(\w+)\s*\(([^(){};]*)\)\s*(const)?\s*\{", re.S)


def parse_header(path):
    """inline method bodies inside 'class X ... {' of a header"""
    s = strip_comments(open(path, errors="replace").read())
    rows = []
    for cm in re.finditer(r"\bclass\s+(\w+)\s*(?::[^{;]*)?\{", s):
        cls = cm.group(1)
        cstart = cm.end() - 1
        cend = match_brace(s, cstart)
        body = s[cstart + 1:cend - 1]
        pos = 0
        while True:
            m = INLINE.search(body, pos)
            if not m:
                break
            st = m.end() - 1
            en = match_brace(body, st)
            ret = norm(m.group(1))
            if ret.split(" ")[0] in ("return", "else", "if") or m.group(2) in ("if", "for", "while", "switch"):
                pos = m.end(); continue
            params = parse_params(m.group(3))
            rows.append((cls, m.group(2), params, classify(body[st + 1:en - 1], [n for _, n in params]), ret))
            pos = en
    return rows


def parse_protos(path):
    s = strip_comments(open(path, errors="replace").read())
    s = re.sub(r"gd_nonnull\s*\(\([^)]*\)\)", " ", s)
    s = re.sub(r"\bgd_(nothrow|deprecated|malloc)\b", " ", s)
    s = re.sub(r"__attribute_deprecated__|__THROW", " ", s)
    protos = {}
    for m in re.finditer(r"\bextern\s+([^;()]*?)\b(gd_\w+)\s*\(([^;{}]*?)\)\s*;", s, re.S):
        ps = parse_params(m.group(3))
        protos.setdefault(m.group(2), (norm(m.group(1)), ps))
    # prototypes written without 'extern'
    for m in re.finditer(r"^((?:const\s+)?(?:unsigned\s+)?\w+[\s\*]+)(gd_\w+)\s*\(([^;{}]*?)\)\s*;", s, re.S | re.M):
        ps = parse_params(m.group(3))
        protos.setdefault(m.group(2), (norm(m.group(1)), ps))
    return protos


def parse_readme(path):
    """doc/README.cxx: the '* <ret> [Class::]Method(params)' entries of the DIRFILE CLASS and FRAGMENT CLASS sections"""
    txt = open(path, errors="replace").read()
    out = []
    for cls, head, stop in (("Dirfile", "DIRFILE CLASS", "FRAGMENT CLASS"), ("Fragment", "FRAGMENT CLASS", "ENTRY CLASS")):
        a = txt.find("\n" + head + "\n")
        b = txt.find("\n" + stop + "\n")
        if a < 0 or b < 0:
            continue
        sec = txt[a:b]
        for m in re.finditer(r"^\* ([^\n(]*?)\b(?:\w+::)?(~?\w+)\s*\(((?:[^()]|\([^()]*\))*)\)", sec, re.M | re.S):
            ret, meth, ps = norm(m.group(1)), m.group(2), m.group(3)
            if meth in ("Dirfile", "~Dirfile") or ret.startswith("~"):
                continue
            out.append((cls, meth, parse_params(ps), ret))
    return out


def parse_aliases(path):
    """#define gd_x gd_x64 of getdata.h.in"""
    s = open(path, errors="replace").read()
    return sorted(set(re.findall(r"^#\s*define\s+(gd_\w+)\s+(gd_\w+64)\s*$", s, re.M)))


def main():
    cxx = os.path.join(REPO, "bindings", "cxx")
    problems = []
    rows = []
    try:
        files = sorted(f for f in os.listdir(cxx) if f.endswith(".cpp"))
    except OSError as e:
        files = []
        problems.append("PROBLEM cannot list %s: %s" % (cxx, e))
    for f in files:
        try:
            for r in parse_cpp(os.path.join(cxx, f)):
                rows.append((f,) + r)
        except Exception as e:
            problems.append("PROBLEM %s: %s" % (f, e))
    hdir = os.path.join(cxx, "getdata")
    hrows = []
    try:
        for f in sorted(os.listdir(hdir)):
            if f.endswith(".h"):
                for r in parse_header(os.path.join(hdir, f)):
                    hrows.append((f,) + r)
    except Exception as e:
        problems.append("PROBLEM headers: %s" % e)
    try:
        protos = parse_protos(os.path.join(REPO, "src", "getdata.h.in"))
    except Exception as e:
        protos = {}
        problems.append("PROBLEM getdata.h.in: %s" % e)
    # static inline helpers of bindings/cxx/internal.h (gd_cxx_*): callable like API functions, body pinned as text
    try:
        ih = strip_comments(open(os.path.join(cxx, "internal.h"), errors="replace").read())
        for m in re.finditer(r"static\s+inline\s+([\w\s\*]+?)\b(gd_cxx_\w+)\s*\(([^)]*)\)\s*\{", ih, re.S):
            st = m.end() - 1
            en = match_brace(ih, st)
            ps = parse_params(m.group(3))
            protos.setdefault(m.group(2), (norm(m.group(1)), ps))
            rows.append(("internal.h", "(helper)", m.group(2), ps, ("Opaque", norm(ih[st + 1:en - 1])), norm(m.group(1))))
    except Exception as e:
        problems.append("PROBLEM internal.h: %s" % e)
    os.makedirs(os.path.dirname(OUT), exist_ok=True)
    w = []
    w.append("(* GENERATED by translate/tr_cxx.py from %s/bindings/cxx and src/getdata.h.in -- do not edit *)" % "<repo>")
    w.append("From Coq Require Import String List.")
    w.append("From GD Require Import C20.Wrapper.")
    w.append("Import ListNotations.")
    w.append("Local Open Scope string_scope.")
    w.append("")

    def emit(name, rs):
        w.append("Definition %s : list row := [" % name)
        items = []
        for (f, cls, meth, params, body, ret) in rs:
            items.append("  mkRow %s %s %s [%s] %s" % (
                coq_str(f), coq_str(cls), coq_str(meth),
                "; ".join("(%s, %s)" % (coq_str(t), coq_str(n)) for t, n in params), coq_body(body)))
        w.append(";\n".join(items))
        w.append("].")
        w.append("")
    emit("cxx_table", rows)
    emit("hdr_table", hrows)
    try:
        readme = parse_readme(os.path.join(REPO, "doc", "README.cxx"))
        aliases = parse_aliases(os.path.join(REPO, "src", "getdata.h.in"))
    except Exception as e:
        readme, aliases = [], []
        problems.append("PROBLEM README.cxx: %s" % e)
    w.append("(* doc/README.cxx: documented signatures of the Dirfile and Fragment methods *)")
    w.append("Definition readme_sigs : list (string * string * list (string * string)) := [")
    w.append(";\n".join("  (%s, %s, [%s])" % (coq_str(c), coq_str(mm), "; ".join("(%s, %s)" % (coq_str(t), coq_str(n)) for t, n in ps))
                        for c, mm, ps, _ in readme))
    w.append("].")
    w.append("")
    w.append("(* src/getdata.h.in: large-file aliases  #define gd_x gd_x64 *)")
    w.append("Definition c_aliases : list (string * string) := [%s]." % "; ".join("(%s, %s)" % (coq_str(a), coq_str(b)) for a, b in aliases))
    w.append("")
    w.append("Definition c_protos : list proto := [")
    w.append(";\n".join("  mkProto %s %s [%s]" % (coq_str(n), coq_str(rt), "; ".join("(%s, %s)" % (coq_str(t), coq_str(pn)) for t, pn in ps))
                        for n, (rt, ps) in sorted(protos.items())))
    w.append("].")
    w.append("")
    txt = "\n".join(w) + "\n"
    old = open(OUT).read() if os.path.exists(OUT) else None
    if old != txt:
        open(OUT, "w").write(txt)
    if "--bootstrap-doc" in sys.argv:
        # one-off: write the documented mapping from the present code; the result is then
        # reviewed and corrected by hand (coq/C20/WrapperDoc.v is a committed, static file)
        d = ["(* C20: the documented mapping.  Bootstrapped once from the pinned source with",
             "   `translate/tr_cxx.py --bootstrap-doc`, then audited by hand against doc/README.cxx,",
             "   bindings/cxx/getdata/*.h and the C prototypes; corrected rows are marked (* CORRECTED *).",
             "   This file is NOT regenerated. *)",
             "From Coq Require Import String List.", "From GD Require Import C20.Wrapper.", "Import ListNotations.",
             "Local Open Scope string_scope.", ""]
        w2 = []

        def emit2(name, rs):
            w2.append("Definition %s : list row := [" % name)
            items = []
            for (f, cls, meth, params, body, ret) in rs:
                items.append("  mkRow %s %s %s [%s] %s" % (
                    coq_str(""), coq_str(cls), coq_str(meth),
                    "; ".join("(%s, %s)" % (coq_str(t), coq_str(n)) for t, n in params), coq_body(body)))
            w2.append(";\n".join(items))
            w2.append("].")
            w2.append("")
        emit2("doc_table", rows)
        emit2("doc_hdr", hrows)
        open(os.path.join(VERIF, "coq", "C20", "WrapperDoc.v"), "w").write("\n".join(d + w2) + "\n")
        print("bootstrapped coq/C20/WrapperDoc.v")
    kinds = {}
    for r in rows:
        kinds[r[4][0]] = kinds.get(r[4][0], 0) + 1
    hk = {}
    for r in hrows:
        hk[r[4][0]] = hk.get(r[4][0], 0) + 1
    print("tr_cxx: %d method definitions %s; %d inline header methods %s; %d C prototypes" % (len(rows), kinds, len(hrows), hk, len(protos)))
    for p in problems:
        print(p)
    return 0


if __name__ == "__main__":
    sys.exit(main())
