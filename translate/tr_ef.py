#!/usr/bin/env python3
"""Translator for C04: src/encoding.c (_GD_ef[]) -> coq/Gen/EncTable.v.

Reads the initialiser of `struct encoding_t _GD_ef[GD_N_SUBENCODINGS]`
(explicit `{ scheme, ext, flags, affix, ffname, provides, funcs... }` entries
and the GD_EXT_ENCODING_*(scheme, ext, flags, affix, ffname) macro entries),
evaluating the `#ifdef USE_<LIB>` blocks against src/gd_config.h with
USE_MODULES removed (the way bin/build_impl.sh builds the library), and the
scheme values from src/getdata.h.in.  Emits the table in source order.

Anything it cannot read is reported on a line starting with PROBLEM and the
exit status is 3 (the table is still written, with what could be read)."""
import re, sys, os

REPO = os.environ.get("VERIF_REPO", "/repo")
HERE = os.path.dirname(os.path.dirname(os.path.abspath(__file__)))
OUT = os.path.join(HERE, "coq", "Gen", "EncTable.v")
problems = []


def strip_comments(s):
    return re.sub(r"/\*.*?\*/", " ", s, flags=re.S)


def split_top(s):
    """split at top-level commas"""
    out, cur, depth, instr = [], "", 0, False
    for ch in s:
        if ch == '"':
            instr = not instr
        if not instr:
            if ch in "({":
                depth += 1
            elif ch in ")}":
                depth -= 1
            elif ch == "," and depth == 0:
                out.append(cur.strip()); cur = ""
                continue
        cur += ch
    if cur.strip():
        out.append(cur.strip())
    return out


def main():
    src = open(os.path.join(REPO, "src", "encoding.c")).read()
    cfg = open(os.path.join(REPO, "src", "gd_config.h")).read()
    hdr = open(os.path.join(REPO, "src", "getdata.h.in")).read()
    inth = open(os.path.join(REPO, "src", "internal.h")).read()
    defined = set(re.findall(r"^\s*#\s*define\s+(USE_\w+)", cfg, re.M))
    defined.discard("USE_MODULES")          # build_impl.sh removes it
    schemes = {m.group(1): int(m.group(2), 16) for m in
               re.finditer(r"#define\s+(GD_\w+_ENCODED|GD_UNENCODED)\s+(0x[0-9A-Fa-f]+)", hdr)}
    m = re.search(r"#define\s+GD_ENC_UNSUPPORTED\s+(\w+)", inth) or re.search(r"#define\s+GD_ENC_UNSUPPORTED\s+(\w+)", hdr)
    flagvals = {m.group(1): int(m.group(2), 16) for m in re.finditer(r"#define\s+(GD_EF_(?:ECOR|SWAP|OOP|EDAT))\s+(0x[0-9A-Fa-f]+)", inth)}
    if flagvals != {"GD_EF_ECOR": 1, "GD_EF_SWAP": 2, "GD_EF_OOP": 4, "GD_EF_EDAT": 8}:
        problems.append("PROBLEM flag values changed: %r" % flagvals)
    s = strip_comments(src)
    i0 = s.find("struct encoding_t _GD_ef[GD_N_SUBENCODINGS] = {")
    if i0 < 0:
        problems.append("PROBLEM cannot find _GD_ef[] initialiser")
        return []
    # also pick up the macro definitions just before the table
    pre = s[:i0]
    body = s[i0 + len("struct encoding_t _GD_ef[GD_N_SUBENCODINGS] = {"):]
    # join continuation lines
    body = body.replace("\\\n", " ")
    pre = pre.replace("\\\n", " ")
    macros = {}
    for mm in re.finditer(r"^#define\s+(GD_EF_\w+_SET)\s+(.*)$", pre, re.M):
        macros[mm.group(1)] = mm.group(2).strip()
    entries = []
    stack = []          # active flags of enclosing #if blocks
    cur_funcs = None
    lines = body.split("\n")
    k = 0
    buf = ""
    done = False
    while k < len(lines) and not done:
        ln = lines[k]; k += 1
        st = ln.strip()
        if st.startswith("#"):
            mm = re.match(r"#\s*ifdef\s+(\w+)", st)
            if mm:
                stack.append(mm.group(1) in defined); continue
            mm = re.match(r"#\s*ifndef\s+(\w+)", st)
            if mm:
                stack.append(mm.group(1) not in defined); continue
            if re.match(r"#\s*else", st):
                stack[-1] = not stack[-1]; continue
            if re.match(r"#\s*endif", st):
                stack.pop(); continue
            if not all(stack):
                continue
            mm = re.match(r"#\s*define\s+GD_INT_FUNCS\s+(.*)$", st)
            if mm:
                cur_funcs = mm.group(1).strip(); continue
            if re.match(r"#\s*undef\s+GD_INT_FUNCS", st):
                cur_funcs = None; continue
            if re.match(r"#\s*(define|undef)\s+GD_EF_PROVIDES", st):
                continue
            problems.append("PROBLEM unexpected preprocessor line in table: " + st)
            continue
        if not all(stack):
            continue
        buf += " " + st
        # complete entries in buf?
        while True:
            b = buf.strip()
            if b.startswith("};"):
                done = True; break
            mm = re.match(r"^(GD_EXT_ENCODING\w*)\s*\(", b)
            if b.startswith("{"):
                depth = 0; end = -1
                for j, ch in enumerate(b):
                    if ch == "{": depth += 1
                    elif ch == "}":
                        depth -= 1
                        if depth == 0:
                            end = j; break
                if end < 0:
                    break
                fields = split_top(b[1:end])
                buf = b[end + 1:].lstrip().lstrip(",")
                if len(fields) < 17:
                    problems.append("PROBLEM explicit entry with %d fields: %s" % (len(fields), b[:end + 1])); continue
                entries.append((fields[0], fields[1], fields[2], fields[4], fields[6:17]))
            elif mm:
                depth = 0; end = -1
                for j, ch in enumerate(b):
                    if ch == "(": depth += 1
                    elif ch == ")":
                        depth -= 1
                        if depth == 0:
                            end = j; break
                if end < 0:
                    break
                args = split_top(b[b.index("(") + 1:end])
                buf = b[end + 1:].lstrip().lstrip(",")
                if len(args) != 5:
                    problems.append("PROBLEM macro entry with %d args: %s" % (len(args), b[:end + 1])); continue
                f = cur_funcs
                if f is None:
                    problems.append("PROBLEM macro entry without GD_INT_FUNCS: " + b[:end + 1]); f = ""
                f = macros.get(f, f)
                entries.append((args[0], args[1], args[2], args[4], split_top(f)))
            else:
                if b and not b.startswith("}"):
                    if len(b) > 400:
                        problems.append("PROBLEM cannot read table text: " + b[:120]); buf = ""
                break
    out = []
    for sch, ext, flags, ffname, funcs in entries:
        if sch == "GD_ENC_UNSUPPORTED":
            continue            # the terminator
        if sch not in schemes:
            problems.append("PROBLEM unknown scheme constant " + sch); continue
        fl = set(x.strip() for x in flags.split("|")) - {"0", ""}
        bad = fl - {"GD_EF_ECOR", "GD_EF_SWAP", "GD_EF_OOP", "GD_EF_EDAT"}
        if bad:
            problems.append("PROBLEM unknown flag %s in entry %s" % (bad, sch))
        if ext == "NULL":
            cext = "None"
        elif re.fullmatch(r'"[^"\\]*"', ext):
            cext = "(Some %s)" % ext
        else:
            problems.append("PROBLEM extension not a string literal: " + ext); cext = "None"
        if not re.fullmatch(r'"[^"\\]*"', ffname):
            problems.append("PROBLEM ffname not a string literal: " + ffname); ffname = '""'
        if len(funcs) != 11:
            problems.append("PROBLEM %s: function set has %d members (expected 11)" % (sch, len(funcs)))
            wr = False
        else:
            wr = funcs[6].strip() != "NULL"
        b = lambda x: "true" if x else "false"
        out.append('  mkEnc "%s" %d %s %s %s %s %s %s %s' % (
            sch, schemes[sch], cext, b("GD_EF_ECOR" in fl), b("GD_EF_SWAP" in fl), b("GD_EF_OOP" in fl),
            b("GD_EF_EDAT" in fl), ffname, b(wr)))
    if not out:
        problems.append("PROBLEM no table entries read")
    return out


if __name__ == "__main__":
    try:
        rows = main()
    except Exception as ex:      # unreadable source
        problems.append("PROBLEM translator exception: %r" % (ex,))
        rows = []
    os.makedirs(os.path.dirname(OUT), exist_ok=True)
    txt = ("(* GENERATED by translate/tr_ef.py from src/encoding.c (_GD_ef[]); do not edit. *)\n"
           "From Coq Require Import ZArith List String.\nFrom GD Require Import C04.EncModel.\n"
           "Import ListNotations.\nLocal Open Scope string_scope.\nLocal Open Scope Z_scope.\n\n"
           "Definition enc_table : list enc_entry := [\n" + ";\n".join(rows) + "\n].\n")
    old = open(OUT).read() if os.path.exists(OUT) else ""
    if old != txt:
        open(OUT, "w").write(txt)
    for p in problems:
        print(p)
    print("tr_ef: %d entries" % len(rows))
    sys.exit(3 if problems else 0)
