#!/usr/bin/env python3
"""Translator for C10: /repo/src/*.c -> coq/Gen/Recurse.v, coq/Gen/GuardForms.v
(+ coq/Gen/guards.json for the check).

Pass 1 (recursion counter).  For every function that contains
`++D->recurse_level` the function body is split into a block tree and every
exit (`return`, GD_SET_RETURN_ERROR, GD_RETURN_ERROR, `goto L` followed to the
`return` after the label, falling off the end) is listed with the net change
of the counter along the syntactic path leading to it:

    net = #(`++D->recurse_level` in statements / block headers that precede the
            exit in its own block or in an enclosing block)
        - #(`D->recurse_level--` in plain statements that precede it likewise)

Sibling blocks that the exit is not inside are not on the path (in this code
base every such block that touches the counter ends in an exit of its own).
The error code set just before the exit is recorded too.  Result:
`recurse_table : list fn_exits`.

Pass 2 (guard shapes).  The argument guards that coq/C10/Guards.v transcribes
are located in the source and classified by their whitespace-free text:
 * the four slice guards: `a+b>LEN` (SliceSum) or `b>LEN||a>LEN-b` (SliceSub);
 * the other guards (getdata64/putdata64 range computation, _GD_DoField /
   _GD_DoFieldOut transaction clamp and range guard, gd_seek64, _GD_DoSeek,
   BIT numbits/bitnum in add.c, fragment index tests) are pinned: every
   expected condition must occur, in order, in the function body
   (`guard_pinned_<fn> = true`), otherwise false + a PROBLEM line.

Exit status: 0 when everything was recognised, 3 otherwise (files are still
written, with `Unknown`/`false` in the offending places)."""
import re, sys, os, json

REPO = os.environ.get("VERIF_REPO", "/repo")
HERE = os.path.dirname(os.path.dirname(os.path.abspath(__file__)))
GEN = os.path.join(HERE, "coq", "Gen")

problems = []


def strip_comments(s):
    """Remove comments and string literals' contents, keep line structure."""
    out = []
    i = 0
    n = len(s)
    while i < n:
        c = s[i]
        if s.startswith("/*", i):
            j = s.find("*/", i + 2)
            j = n if j < 0 else j + 2
            out.append(re.sub(r"[^\n]", " ", s[i:j]))
            i = j
        elif s.startswith("//", i):
            j = s.find("\n", i)
            j = n if j < 0 else j
            i = j
        elif c == '"':
            j = i + 1
            while j < n and s[j] != '"':
                j += 2 if s[j] == "\\" else 1
            out.append('""')
            i = j + 1
        elif c == "'":
            j = i + 1
            while j < n and s[j] != "'":
                j += 2 if s[j] == "\\" else 1
            out.append("'x'")
            i = j + 1
        else:
            out.append(c)
            i += 1
    return "".join(out)


def functions(path):
    """Yield (name, body_text, first_line) of every function definition."""
    try:
        src = strip_comments(open(path, errors="replace").read())
    except OSError:
        return
    # drop preprocessor lines (keep newlines)
    src = re.sub(r"(?m)^[ \t]*#(?:.*\\\n)*.*$", lambda m: re.sub(r"[^\n]", " ", m.group(0)), src)
    depth = 0
    i = 0
    n = len(src)
    last_end = 0
    while i < n:
        c = src[i]
        if c == "{":
            if depth == 0:
                head = src[last_end:i]
                m = re.search(r"([A-Za-z_][A-Za-z0-9_]*)\s*\(", head)
                # find the matching close
                d = 1
                j = i + 1
                while j < n and d:
                    if src[j] == "{":
                        d += 1
                    elif src[j] == "}":
                        d -= 1
                    j += 1
                if m and ")" in head and "=" not in head.split("(")[0]:
                    yield m.group(1), src[i + 1:j - 1], src.count("\n", 0, i) + 1
                i = j
                last_end = j
                continue
        elif c == ";" and depth == 0:
            last_end = i + 1
        i += 1


# ---------------------------------------------------------------- block tree

class Node:
    def __init__(self, kind, text, line, kids=None):
        self.kind = kind      # 'stmt' | 'block'
        self.text = text      # statement text / block header text
        self.line = line
        self.kids = kids if kids is not None else []


def parse_block(src, pos, line):
    """Parse statements from src[pos:] up to the matching '}' (or end).
    Returns (list of Node, new pos, new line)."""
    items = []
    cur = ""
    cur_line = line
    par = 0
    n = len(src)
    while pos < n:
        c = src[pos]
        if c == "\n":
            line += 1
        if c == "(":
            par += 1
        elif c == ")":
            par -= 1
        if par == 0 and c == ";":
            t = cur.strip()
            if t:
                items.append(Node("stmt", t, cur_line))
            cur = ""
            pos += 1
            continue
        if par == 0 and c == "{":
            kids, pos, line2 = parse_block(src, pos + 1, line)
            items.append(Node("block", cur.strip(), cur_line, kids))
            line = line2
            cur = ""
            continue
        if par == 0 and c == "}":
            t = cur.strip()
            if t:
                items.append(Node("stmt", t, cur_line))
            return items, pos + 1, line
        if not cur.strip() and not c.isspace():
            cur_line = line
        cur += c
        pos += 1
    t = cur.strip()
    if t:
        items.append(Node("stmt", t, cur_line))
    return items, pos, line


LABEL = re.compile(r"^(?:case\b[^:?]*:|default\s*:|([A-Za-z_]\w*)\s*:(?!:))\s*")


def balanced_paren_end(t, i):
    d = 0
    while i < len(t):
        if t[i] == "(":
            d += 1
        elif t[i] == ")":
            d -= 1
            if d == 0:
                return i + 1
        i += 1
    return -1


def normalise(items):
    """Strip case labels (recording goto labels), turn brace-less
    if/else/for/while bodies into blocks."""
    out = []
    for it in items:
        if it.kind == "stmt":
            t = it.text
            labels = []
            while True:
                m = LABEL.match(t)
                if not m:
                    break
                if m.group(1):
                    labels.append(m.group(1))
                t = t[m.end():]
            for l in labels:
                out.append(Node("label", l, it.line))
            t = t.strip()
            if not t:
                continue
            out.append(split_ctrl(t, it.line))
        else:
            t = it.text
            labels = []
            while True:
                m = LABEL.match(t)
                if not m:
                    break
                if m.group(1):
                    labels.append(m.group(1))
                t = t[m.end():]
            for l in labels:
                out.append(Node("label", l, it.line))
            out.append(Node("block", t.strip(), it.line, normalise(it.kids)))
    return out


def split_ctrl(t, line):
    m = re.match(r"^(else\s+if|if|for|while|switch)\s*\(", t)
    if m:
        e = balanced_paren_end(t, m.end() - 1)
        if e > 0:
            rest = t[e:].strip()
            if rest:
                return Node("block", t[:e], line, [split_ctrl(rest, line)])
            return Node("stmt", t, line)
    m = re.match(r"^(else|do)\b(?!\s*if\b)", t)
    if m:
        rest = t[m.end():].strip()
        if rest:
            return Node("block", m.group(1), line, [split_ctrl(rest, line)])
    return Node("stmt", t, line)


INC = re.compile(r"\+\+\s*D->recurse_level|D->recurse_level\s*\+\+")
DEC = re.compile(r"--\s*D->recurse_level|D->recurse_level\s*--")
EXIT = re.compile(r"^(return\b|GD_SET_RETURN_ERROR\s*\(|GD_RETURN_ERROR\s*\(|goto\s+(\w+))")
SETERR = re.compile(r"(?:_GD_SetError2?|GD_SET_RETURN_ERROR)\s*\(\s*D\s*,\s*(GD_E_\w+)")


def exits_of(fn, body, line0):
    items, _, _ = parse_block(body, 0, line0)
    items = normalise(items)
    # label -> (incs, decs, line) of the straight line from the label to the next return at top level
    labels = {}
    for k, it in enumerate(items):
        if it.kind == "label":
            inc = dec = 0
            ret_line = it.line
            for jt in items[k + 1:]:
                if jt.kind == "stmt":
                    inc += len(INC.findall(jt.text))
                    dec += len(DEC.findall(jt.text))
                    if jt.text.startswith("return") or jt.text.startswith("GD_RETURN_ERROR") or jt.text.startswith("GD_SET_RETURN_ERROR"):
                        ret_line = jt.line
                        break
            labels[it.text] = (inc, dec, ret_line)
    res = []

    def walk(its, inc, dec, err, top, cond=""):
        for k, it in enumerate(its):
            if it.kind == "label":
                # a label reached by fall-through: the code before it always returns in this code base
                continue
            if it.kind == "stmt":
                m = EXIT.match(it.text)
                e = SETERR.search(it.text)
                if m:
                    i2, d2 = inc, dec
                    line = it.line
                    kind = m.group(1).split("(")[0].split()[0]
                    if m.group(2):
                        lab = labels.get(m.group(2))
                        if lab is None:
                            problems.append("PROBLEM %s: goto %s: label not found at top level" % (fn, m.group(2)))
                            continue
                        i2 += lab[0]
                        d2 += lab[1]
                        kind = "goto"
                    res.append({"fn": fn, "line": line, "kind": kind, "cond": re.sub(r"\s+", "", cond)[:60],
                                "err": (e.group(1) if e else (err or "")), "net": i2 - d2, "after_inc": i2 > 0})
                    return True   # rest of this block is unreachable
                inc += len(INC.findall(it.text))
                dec += len(DEC.findall(it.text))
                if e:
                    err = e.group(1)
            else:
                hinc = len(INC.findall(it.text))
                walk(it.kids, inc + hinc, dec, err if not it.text.startswith("else") else None, False, it.text)
                inc += hinc
                # a sibling block's own decrements are not on the path of what follows it
        return False

    ended = walk(items, 0, 0, None, True)
    if not ended:
        # falling off the end of the function
        inc = sum(len(INC.findall(it.text)) for it in items if it.kind in ("stmt", "block"))
        dec = sum(len(DEC.findall(it.text)) for it in items if it.kind == "stmt")
        res.append({"fn": fn, "line": line0 + body.count("\n"), "kind": "end", "cond": "", "err": "", "net": inc - dec, "after_inc": inc > 0})
    return res


# ---------------------------------------------------------------- pass 2

LEN_RE = r"\(\(\w+->field_type==GD_(?:CONST|STRING)_ENTRY\)\?1:\w+->EN\(scalar,array_len\)\)"
SLICE_FUNCS = [("constant.c", "gd_get_carray_slice"), ("constant.c", "_GD_PutCarraySlice"),
               ("string.c", "gd_get_sarray_slice"), ("string.c", "_GD_PutSarraySlice")]

PINNED = {
    ("getdata.c", "gd_getdata64"): [
        "if(first_frame==GD_HERE||first_samp==GD_HERE){first_samp=GD_HERE;first_frame=0;}",
        "if(first_frame||num_frames){",
        "if(first_samp>GD_INT64_MAX-spf*first_frame){",
        "first_samp+=spf*first_frame;",
        "if(num_samp>GD_SIZE_T_MAX-spf*num_frames)num_samp=GD_SIZE_T_MAX;elsenum_samp+=spf*num_frames;",
        "if(first_samp<0&&(first_samp!=GD_HERE||first_frame!=0)){",
    ],
    ("putdata.c", "gd_putdata64"): [
        "if(first_frame==GD_HERE||first_samp==GD_HERE){first_samp=GD_HERE;first_frame=0;}",
        "if(num_frames||first_frame){",
        "if(first_samp>GD_INT64_MAX-spf*first_frame){",
        "first_samp+=spf*first_frame;",
        "if(num_samp>GD_SSIZE_T_MAX-spf*num_frames)num_samp=GD_SSIZE_T_MAX;elsenum_samp+=spf*num_frames;",
        "if(first_samp<0&&(first_samp!=GD_HERE||first_frame!=0)){",
        "if(num_samp==0){",
    ],
    ("getdata.c", "_GD_DoField"): [
        "if(num_samp>GD_TRANSACTION_MAX(return_type))num_samp=GD_TRANSACTION_MAX(return_type);",
        "if(num_samp>GD_TRANSACTION_MAX(ntype))num_samp=GD_TRANSACTION_MAX(ntype);",
        "if(first_samp>(int64_t)(GD_INT64_MAX-num_samp)){",
    ],
    ("putdata.c", "_GD_DoFieldOut"): [
        "if(num_samp>GD_TRANSACTION_MAX(data_type))num_samp=GD_TRANSACTION_MAX(data_type);",
        "if(first_samp>(int64_t)(GD_INT64_MAX-num_samp)){",
    ],
    ("iopos.c", "gd_seek64"): [
        "if(frame_num){",
        "if((frame_num>0&&sample_num>GD_INT64_MAX-spf*frame_num)||(frame_num<0&&sample_num<-GD_INT64_MAX-spf*frame_num)){",
        "sample_num+=frame_num*spf;",
        "if((sample_num>0&&pos>GD_INT64_MAX-sample_num)||(sample_num<0&&pos<-GD_INT64_MAX-sample_num)){",
        "_GD_Seek(D,entry,sample_num+pos,mode);",
    ],
    ("iopos.c", "_GD_Seek"): [
        "if(offset<0)",
    ],
    ("iopos.c", "_GD_DoSeek"): [
        "if(GD_SIZE(E->EN(raw,data_type))>0&&offset>GD_INT64_MAX/GD_SIZE(E->EN(raw,data_type))){",
    ],
    ("add.c", "_GD_Add"): [
        "if(!(mask&2)&&E->EN(bit,numbits)<1)",
        "elseif(!(mask&1)&&E->EN(bit,bitnum)<0)",
    ],
}
MACROS = {
    "GD_INT64_MAX": "((int64_t)((uint64_t)-1>>1))",
    "GD_SSIZE_T_MAX": "((ssize_t)((size_t)-1>>1))",
    "GD_SIZE_T_MAX": "((size_t)-1)",
    "GD_TRANSACTION_MAX(t)": "(GD_SIZE(t)?(GD_SSIZE_T_MAX/GD_SIZE(t)):GD_SSIZE_T_MAX)",
    "GD_MAX_RECURSE_LEVEL": "32",
    "GD_HERE": "(-1)",
}


def coq_str(s):
    return '"' + s.replace('"', '""') + '"'


def main():
    os.makedirs(GEN, exist_ok=True)
    srcdir = os.path.join(REPO, "src")
    files = sorted(f for f in os.listdir(srcdir) if f.endswith(".c"))
    fnbodies = {}
    table = []
    for f in files:
        if f in ("debug.c", "legacy.c"):
            continue
        for name, body, line0 in functions(os.path.join(srcdir, f)):
            fnbodies[(f, name)] = body
            if INC.search(body):
                ex = exits_of(name, body, line0)
                ex = [e for e in ex if e["after_inc"]]
                if not ex:
                    problems.append("PROBLEM %s:%s uses the recursion counter but no exit path was found" % (f, name))
                table.append({"file": f, "fn": name, "exits": ex})
    if len(table) < 5:
        problems.append("PROBLEM fewer than 5 functions using the recursion counter were found (%d)" % len(table))
    # ---- Gen/Recurse.v
    o = []
    o.append("(* GENERATED by translate/tr_guards.py from %s/src -- do not edit *)" % "REPO")
    o.append("From Coq Require Import ZArith List String.")
    o.append("Import ListNotations.")
    o.append("Open Scope Z_scope. Open Scope string_scope.")
    o.append("Record exit_path := mkExit { ep_line : Z; ep_kind : string; ep_err : string; ep_cond : string; ep_net : Z }.")
    o.append("Record fn_exits := mkFn { fe_file : string; fe_name : string; fe_exits : list exit_path }.")
    o.append("Definition recurse_table : list fn_exits := [")
    rows = []
    for t in table:
        ex = ";\n      ".join("mkExit %d %s %s %s (%d)" % (e["line"], coq_str(e["kind"]), coq_str(e["err"]), coq_str(e["cond"]), e["net"]) for e in t["exits"])
        rows.append("  mkFn %s %s [\n      %s ]" % (coq_str(t["file"]), coq_str(t["fn"]), ex))
    o.append(";\n".join(rows))
    o.append("].")
    open(os.path.join(GEN, "Recurse.v"), "w").write("\n".join(o) + "\n")

    # ---- guard forms
    forms = {}
    for f, fn in SLICE_FUNCS:
        body = fnbodies.get((f, fn))
        form = "SliceUnknown"
        if body is None:
            problems.append("PROBLEM %s:%s not found" % (f, fn))
        else:
            b = re.sub(r"\s+", "", body)
            if re.search(r"\b(\w+)\+(\w+)>" + LEN_RE, b):
                form = "SliceSum"
            else:
                m = re.search(r"\b(\w+)>(\w+|" + LEN_RE + r")\|\|(\w+)>(\w+|" + LEN_RE + r")-(\w+)\b", b)
                # n > len || start > len - n : the subtracted variable must be the first compared one
                if m and m.group(1) == m.group(5) and m.group(2) == m.group(4) and m.group(3) != m.group(1):
                    form = "SliceSub"
            if form == "SliceUnknown":
                problems.append("PROBLEM %s:%s: slice bound guard not recognised" % (f, fn))
        forms[fn] = form
    # shape of the BIT range test in _GD_Add
    bit_form = "BitUnknown"
    b_ = re.sub(r"\s+", "", fnbodies.get(("add.c", "_GD_Add"), ""))
    if "elseif(!(mask&3)&&E->EN(bit,bitnum)+E->EN(bit,numbits)-1>63)" in b_:
        bit_form = "BitSum"
    elif "elseif(!(mask&3)&&(E->EN(bit,numbits)>64||E->EN(bit,bitnum)>64-E->EN(bit,numbits)))" in b_:
        bit_form = "BitSub"
    else:
        problems.append("PROBLEM add.c:_GD_Add: BIT range test not recognised")
    pinned = {}
    for (f, fn), pats in PINNED.items():
        body = fnbodies.get((f, fn))
        ok = body is not None
        if ok:
            b = re.sub(r"\s+", "", body)
            pos = 0
            for p in pats:
                k = b.find(p, pos)
                if k < 0:
                    ok = False
                    problems.append("PROBLEM %s:%s: expected guard text not found (in order): %s" % (f, fn, p))
                    break
                pos = k + len(p)
        else:
            problems.append("PROBLEM %s:%s not found" % (f, fn))
        pinned[fn] = ok
    hdr = strip_comments(open(os.path.join(srcdir, "internal.h"), errors="replace").read()) + \
        strip_comments(open(os.path.join(srcdir, "getdata.h.in"), errors="replace").read())
    hdr = re.sub(r"\\\n", "", hdr)
    macro_ok = {}
    for name, val in MACROS.items():
        m = re.search(r"(?m)^[ \t]*#\s*define\s+" + re.escape(name) + r"[ \t]+(.*)$", hdr)
        got = re.sub(r"\s+", "", m.group(1)) if m else None
        macro_ok[name] = (got == val)
        if got != val:
            problems.append("PROBLEM macro %s is %r, the model assumes %r" % (name, got, val))
    o = []
    o.append("(* GENERATED by translate/tr_guards.py -- do not edit *)")
    o.append("From Coq Require Import List String. Import ListNotations. Open Scope string_scope.")
    o.append("Inductive slice_form := SliceSum | SliceSub | SliceUnknown.")
    o.append("Inductive bit_form := BitSum | BitSub | BitUnknown.")
    o.append("Definition addbit_form : bit_form := %s." % bit_form)
    for f, fn in SLICE_FUNCS:
        o.append("Definition slice_form_%s : slice_form := %s." % (fn.strip("_"), forms[fn]))
    o.append("Definition slice_forms : list (string * slice_form) := [%s]." % "; ".join(
        "(%s, %s)" % (coq_str(fn), forms[fn]) for f, fn in SLICE_FUNCS))
    o.append("Definition guards_pinned : list (string * bool) := [%s]." % "; ".join(
        "(%s, %s)" % (coq_str(fn), "true" if v else "false") for fn, v in sorted(pinned.items())))
    o.append("Definition macros_pinned : list (string * bool) := [%s]." % "; ".join(
        "(%s, %s)" % (coq_str(k), "true" if v else "false") for k, v in sorted(macro_ok.items())))
    open(os.path.join(GEN, "GuardForms.v"), "w").write("\n".join(o) + "\n")
    json.dump({"recurse_table": table, "slice_forms": forms, "bit_form": bit_form, "pinned": pinned, "macros": macro_ok, "problems": problems},
              open(os.path.join(GEN, "guards.json"), "w"), indent=1)
    for p in problems:
        print(p)
    leaks = [(t["fn"], e["line"], e["err"] or e["cond"]) for t in table for e in t["exits"] if e["net"] != 0]
    print("tr_guards: %d functions use the recursion counter, %d exit paths, %d unbalanced: %s" % (
        len(table), sum(len(t["exits"]) for t in table), len(leaks), leaks))
    print("tr_guards: slice forms %s" % forms)
    return 3 if problems else 0


if __name__ == "__main__":
    sys.exit(main())
