#!/usr/bin/env python3
"""Translator for C19: src/index.c -> coq/Gen/FramenumShape.v

For each of _GD_Extrapolate, _GD_GetIndex and gd_framenum_subset64 it emits
  * <f>_skeleton : string   the statement tree of the function (comments and
      dtrace/dreturn removed, whitespace normalised) in which every condition
      and every arithmetic right-hand side that could be translated is replaced
      by a label <cK> / <aK>;
  * <f>_cK : env -> bool,  <f>_aK : env -> Z | Q
      the Gallina reading of those C expressions over an environment record
      (integers = Z, doubles = Q, C truth value of an int = "<> 0", integer
      division = Z.quot, int operands of a double operation = inject_Z).
coq/C19/Shape.v states what each label must be (the tests and formulas the
model coq/C19/Framenum.v uses) and what the skeleton must be, so an edit of a
loop-exit condition, of a branch or of an interpolation formula in index.c
breaks a theorem of Properties_C19, not only the correspondence.

Expressions it cannot read stay as text inside the skeleton.  Prints PROBLEM
lines and still exits 0."""
import os, re, sys

VERIF = os.path.dirname(os.path.dirname(os.path.abspath(__file__)))
REPO = os.environ.get("VERIF_REPO", "/repo")
OUT = os.path.join(VERIF, "coq", "Gen", "FramenumShape.v")

INTS = {"low", "high", "c", "n", "field_start", "field_end", "spf", "eof", "limit", "dir", "err", "frame_offset", "nframes", "repr"}
DBLS = {"value", "low_v", "high_v", "c_v", "field_start_v", "sample", "d0", "d1", "NAN", "frame"}
ENVF = {"low": "e_low", "high": "e_high", "c": "e_c", "n": "e_n", "field_start": "e_fs", "field_end": "e_fe", "spf": "e_spf",
        "eof": "e_eof", "limit": "e_limit", "dir": "e_dir", "err": "e_err", "frame_offset": "e_fo", "nframes": "e_nf",
        "value": "e_value", "low_v": "e_lowv", "high_v": "e_highv", "c_v": "e_cv", "field_start_v": "e_fsv", "d0": "e_d0", "d1": "e_d1",
        "sample": "e_sample"}


def strip(s):
    s = re.sub(r"/\*.*?\*/", " ", s, flags=re.S)
    s = re.sub(r"//[^\n]*", " ", s)
    return s


def function_body(src, name):
    m = re.search(r"\b" + re.escape(name) + r"\s*\([^;{]*\)\s*\{", src)
    if not m:
        return None
    i = m.end() - 1
    d = 0
    for j in range(i, len(src)):
        if src[j] == "{":
            d += 1
        elif src[j] == "}":
            d -= 1
            if d == 0:
                return src[i + 1:j]
    return None


class Cant(Exception):
    pass


class E:
    """expression parser/translator"""
    def __init__(self, text):
        t = text
        t = t.replace("D->fragment[entry->fragment_index].frame_offset", "frame_offset")
        t = re.sub(r"gd_nframes64\s*\(\s*D\s*\)", "nframes", t)
        t = t.replace("D->error", "err")
        t = re.sub(r"data\s*\[\s*0\s*\]", "d0", t)
        t = re.sub(r"data\s*\[\s*1\s*\]", "d1", t)
        t = re.sub(r"data\s*\[\s*eof\s*\]", "(eof ? d1 : d0)", t)
        self.t = re.findall(r"&&|\|\||==|!=|<=|>=|->|[A-Za-z_]\w*|\d+\.?\d*|[()!<>+\-*/?:&\[\].,]", t)
        if "".join(self.t) != re.sub(r"\s+", "", t):
            raise Cant("tokens")
        self.i = 0

    def peek(self):
        return self.t[self.i] if self.i < len(self.t) else None

    def eat(self, x=None):
        tok = self.peek()
        if tok is None or (x is not None and tok != x):
            raise Cant("expected %s got %s" % (x, tok))
        self.i += 1
        return tok

    def parse(self):
        r = self.tern()
        if self.peek() is not None:
            raise Cant("trailing " + self.peek())
        return r

    # every level returns (type, coq) with type in {"Z", "Q", "B"}
    def tern(self):
        c = self.lor()
        if self.peek() == "?":
            self.eat()
            a = self.tern()
            self.eat(":")
            b = self.tern()
            ta, tb = a[0], b[0]
            if "Q" in (ta, tb):
                a, b = toq(a), toq(b)
            return (a[0], "(if %s then %s else %s)" % (tob(c), a[1], b[1]))
        return c

    def lor(self):
        l = self.land()
        while self.peek() == "||":
            self.eat()
            r = self.land()
            l = ("B", "(%s || %s)" % (tob(l), tob(r)))
        return l

    def land(self):
        l = self.eq()
        while self.peek() == "&&":
            self.eat()
            r = self.eq()
            l = ("B", "(%s && %s)" % (tob(l), tob(r)))
        return l

    def eq(self):
        l = self.rel()
        while self.peek() in ("==", "!="):
            op = self.eat()
            r = self.rel()
            if "Q" in (l[0], r[0]):
                x = "(Qeq_bool %s %s)" % (toq(l)[1], toq(r)[1])
            else:
                x = "(%s =? %s)" % (toz(l), toz(r))
            l = ("B", x if op == "==" else "(negb %s)" % x)
        return l

    def rel(self):
        l = self.add()
        while self.peek() in ("<", ">", "<=", ">="):
            op = self.eat()
            r = self.add()
            a, b = (l, r) if op in ("<", "<=") else (r, l)
            if "Q" in (l[0], r[0]):
                x = "(Qltb %s %s)" % (toq(a)[1], toq(b)[1]) if op in ("<", ">") else "(negb (Qltb %s %s))" % (toq(b)[1], toq(a)[1])
            else:
                x = "(%s <? %s)" % (toz(a), toz(b)) if op in ("<", ">") else "(%s <=? %s)" % (toz(a), toz(b))
            l = ("B", x)
        return l

    def add(self):
        l = self.mul()
        while self.peek() in ("+", "-"):
            op = self.eat()
            r = self.mul()
            if "Q" in (l[0], r[0]):
                l = ("Q", "(%s %s %s)%%Q" % (toq(l)[1], op, toq(r)[1]))
            else:
                l = ("Z", "(%s %s %s)" % (toz(l), op, toz(r)))
        return l

    def mul(self):
        l = self.unary()
        while self.peek() in ("*", "/"):
            op = self.eat()
            r = self.unary()
            if "Q" in (l[0], r[0]):
                l = ("Q", "(%s %s %s)%%Q" % (toq(l)[1], op, toq(r)[1]))
            elif op == "*":
                l = ("Z", "(%s * %s)" % (toz(l), toz(r)))
            else:
                l = ("Z", "(Z.quot %s %s)" % (toz(l), toz(r)))
        return l

    def unary(self):
        if self.peek() == "!":
            self.eat()
            x = self.unary()
            return ("B", "(negb %s)" % tob(x))
        if self.peek() == "-":
            self.eat()
            x = self.unary()
            return ("Q", "(- %s)%%Q" % x[1]) if x[0] == "Q" else ("Z", "(- %s)" % toz(x))
        if self.peek() == "(" and self.i + 2 < len(self.t) and self.t[self.i + 1] in ("double", "off64_t", "int") and self.t[self.i + 2] == ")":
            self.eat(); ty = self.eat(); self.eat()
            x = self.unary()
            return toq(x) if ty == "double" else x
        return self.primary()

    def primary(self):
        tok = self.eat()
        if tok == "(":
            x = self.tern()
            self.eat(")")
            return x
        if re.match(r"^\d+$", tok):
            return ("Z", tok)
        if tok in ENVF:
            if self.peek() in ("(", "[", "->", "."):
                raise Cant("postfix on " + tok)
            return ("Q" if tok in DBLS else "Z", "(%s e)" % ENVF[tok])
        raise Cant("identifier " + tok)


def toz(x):
    if x[0] == "Z":
        return x[1]
    if x[0] == "B":
        return "(if %s then 1 else 0)" % x[1]
    raise Cant("double where an integer is needed")


def toq(x):
    if x[0] == "Q":
        return x
    return ("Q", "(inject_Z %s)" % toz(x))


def tob(x):
    if x[0] == "B":
        return x[1]
    if x[0] == "Z":
        return "(negb (%s =? 0))" % x[1]
    raise Cant("double used as a truth value")


def translate(text):
    try:
        return E(text).parse()
    except Cant:
        return None
    except Exception:
        return None


class Fn:
    def __init__(self, name, body):
        self.name = name
        self.defs = []      # (label, type, coq, source text)
        self.nc = 0
        self.na = 0
        b = re.sub(r"\b(dtrace|dreturn|dreturnvoid|dwatch)\s*\((?:[^()]|\([^()]*\))*\)\s*;", "", body)
        b = re.sub(r"\bGD_RETURN_IF_INVALID\s*\([^;]*\)\s*;", "RETURN_IF_INVALID;", b)
        self.src = re.sub(r"\s+", " ", b).strip()
        self.pos = 0

    def cond(self, text):
        text = text.strip()
        r = translate(text)
        if r is None:
            return "(" + text + ")"
        lab = "c%d" % self.nc
        self.nc += 1
        self.defs.append((lab, "bool", tob(r), text))
        return "<%s>" % lab

    def rhs(self, text):
        text = text.strip()
        if not re.search(r"[-+*/?]", text) or "(" in text and re.match(r"^_?[A-Za-z_]\w*\s*\(", text):
            # plain copies and calls stay as text; calls with arithmetic arguments too
            if not re.search(r"[-+*/?]", text) or re.match(r"^_?[A-Za-z_]\w*\s*\(", text):
                return text
        r = translate(text)
        if r is None or r[0] == "B":
            return text
        lab = "a%d" % self.na
        self.na += 1
        self.defs.append((lab, r[0], r[1], text))
        return "<%s>" % lab

    # ---- statement parser over self.src
    def ws(self):
        while self.pos < len(self.src) and self.src[self.pos] == " ":
            self.pos += 1

    def paren(self):
        self.ws()
        assert self.src[self.pos] == "(", self.src[self.pos:self.pos + 30]
        d = 0
        st = self.pos
        while True:
            ch = self.src[self.pos]
            if ch == "(":
                d += 1
            elif ch == ")":
                d -= 1
                if d == 0:
                    self.pos += 1
                    return self.src[st + 1:self.pos - 1]
            self.pos += 1

    def stmt(self):
        self.ws()
        s = self.src
        if s[self.pos] == "{":
            self.pos += 1
            out = []
            while True:
                self.ws()
                if s[self.pos] == "}":
                    self.pos += 1
                    break
                out.append(self.stmt())
            return "{ " + " ".join(out) + " }"
        m = re.match(r"(if|for|else)\b", s[self.pos:])
        if m and m.group(1) == "if":
            self.pos += 2
            c = self.cond(self.paren())
            t = self.stmt()
            self.ws()
            if s[self.pos:self.pos + 4] == "else" and not s[self.pos + 4].isalnum():
                self.pos += 4
                return "if %s %s else %s" % (c, t, self.stmt())
            return "if %s %s" % (c, t)
        if m and m.group(1) == "for":
            self.pos += 3
            hdr = self.paren()
            parts = hdr.split(";")
            c = self.cond(parts[1]) if len(parts) == 3 and parts[1].strip() else "<always>"
            return "for (%s; %s; %s) %s" % (parts[0].strip(), c, parts[2].strip() if len(parts) == 3 else "?", self.stmt())
        # simple statement up to ';'
        d = 0
        st = self.pos
        while not (s[self.pos] == ";" and d == 0):
            if s[self.pos] in "([":
                d += 1
            elif s[self.pos] in ")]":
                d -= 1
            self.pos += 1
        text = s[st:self.pos].strip()
        self.pos += 1
        m = re.match(r"^((?:[A-Za-z_][\w\s\*]*\s)?\*?\s*[A-Za-z_]\w*)\s*(\*?=)\s*(.*)$", text)
        if m and "==" not in m.group(1):
            lhs = m.group(1).strip()
            op = m.group(2)
            rhs_text = m.group(3)
            if op == "*=":
                rhs_text = "%s * (%s)" % (lhs.split()[-1], rhs_text)
                op = "="
            return "%s = %s;" % (lhs, self.rhs(rhs_text))
        m = re.match(r"^return\s+(.*)$", text)
        if m:
            return "return %s;" % self.rhs(m.group(1))
        return text + ";"

    def run(self):
        out = []
        while True:
            self.ws()
            if self.pos >= len(self.src):
                break
            out.append(self.stmt())
        return " ".join(out)


def coq_str(s):
    return '"' + s.replace('"', '""') + '"'


def main():
    problems = []
    try:
        src = strip(open(os.path.join(REPO, "src", "index.c"), errors="replace").read())
    except OSError as e:
        src = ""
        problems.append("PROBLEM cannot read src/index.c: %s" % e)
    w = ["(* GENERATED by translate/tr_index.py from <repo>/src/index.c -- do not edit *)",
         "From Coq Require Import ZArith QArith Bool String.",
         "From GD Require Import C19.Framenum C19.ShapeEnv.",
         "Local Open Scope Z_scope.", "Local Open Scope bool_scope.", ""]
    stats = []
    for cname, short in (("_GD_Extrapolate", "ex"), ("_GD_GetIndex", "gi"), ("gd_framenum_subset64", "fs")):
        body = function_body(src, cname)
        if body is None:
            problems.append("PROBLEM function %s not found" % cname)
            w.append("Definition %s_skeleton : string := \"\"%%string." % short)
            continue
        try:
            f = Fn(short, body)
            sk = f.run()
        except Exception as e:
            problems.append("PROBLEM %s: cannot parse: %s" % (cname, e))
            w.append("Definition %s_skeleton : string := \"\"%%string." % short)
            continue
        for lab, ty, coq, text in f.defs:
            w.append("(* %s *)" % text.replace("*)", "* )").replace("(*", "( *"))
            w.append("Definition %s_%s (e : env) : %s := %s." % (short, lab, ty, coq))
        w.append("Definition %s_skeleton : string := %s%%string." % (short, coq_str(sk)))
        w.append("")
        stats.append("%s: %d conditions, %d formulas" % (cname, f.nc, f.na))
    txt = "\n".join(w) + "\n"
    os.makedirs(os.path.dirname(OUT), exist_ok=True)
    old = open(OUT).read() if os.path.exists(OUT) else None
    if old != txt:
        open(OUT, "w").write(txt)
    print("tr_index: " + "; ".join(stats))
    for p in problems:
        print(p)
    return 0


if __name__ == "__main__":
    sys.exit(main())
