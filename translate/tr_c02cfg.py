#!/usr/bin/env python3
"""C02 translator: which of the known defect sites of the read path are repaired in the tree.

Reads /repo/src/{bzip.c,getdata.c,ascii.c,iopos.c} (VERIF_REPO honoured), writes
coq/Gen/C02Cfg.v with `tree_cfg : cfg` for coq/C02/Model.v.  The recognisers look for
the shape of the repair inside the one function concerned; an unrecognised function is a
PROBLEM line (exit status stays 0 so that setup can proceed; the check turns it into a
violation).  A wrong flag cannot go unnoticed: the correspondence run compares the model
under these flags with the compiled library on every history.

  --print   also print `FLAG name value` lines (used by checks/C02.py)"""
import os, re, sys

VERIF = os.path.dirname(os.path.dirname(os.path.abspath(__file__)))
REPO = os.environ.get("VERIF_REPO", "/repo")


def func_body(src, name):
    """text of the function definition `name(...) {...}` (brace matching), or None"""
    for m in re.finditer(r"\b%s\s*\(" % re.escape(name), src):
        # a definition: after the parameter list comes '{'
        i = m.end(); depth = 1
        while i < len(src) and depth:
            depth += {"(": 1, ")": -1}.get(src[i], 0); i += 1
        j = i
        while j < len(src) and src[j] in " \t\r\n": j += 1
        if src.startswith("gd_nothrow", j):
            j += len("gd_nothrow")
            while j < len(src) and src[j] in " \t\r\n": j += 1
        if j < len(src) and src[j] == "{":
            k = j + 1; depth = 1
            while k < len(src) and depth:
                depth += {"{": 1, "}": -1}.get(src[k], 0); k += 1
            return src[j:k]
    return None


def strip_comments(s):
    return re.sub(r"/\*.*?\*/", " ", s, flags=re.S)


def block_after(body, cond_re):
    """the statement/block governed by the first `if (<cond_re>)`"""
    m = re.search(r"if\s*\(" + cond_re, body)
    if not m: return None
    i = m.end(); depth = 1
    while i < len(body) and depth:
        depth += {"(": 1, ")": -1}.get(body[i], 0); i += 1
    j = i
    while j < len(body) and body[j] in " \t\r\n": j += 1
    if j < len(body) and body[j] == "{":
        k = j + 1; depth = 1
        while k < len(body) and depth:
            depth += {"{": 1, "}": -1}.get(body[k], 0); k += 1
        return body[j:k]
    k = body.find(";", j)
    return body[j:k + 1]


def lincom_kernels(src_common):
    """every index expression `(spf[GD_MAX_LINCOM + a] + i * spf[b]) / spf[c]` of the LINCOM kernels in common.c with
    the input it indexes (dataN / iN  ->  input N-1): [(input, a, b, c)]"""
    out = []
    for m in re.finditer(r"(?:data(\d)\s*\[|const\s+int\s+i(\d)\s*=\s*2\s*\*\s*\()\s*\(\s*spf\s*\[\s*GD_MAX_LINCOM\s*\+\s*(\d+)\s*\]\s*\+\s*i\s*\*\s*"
                         r"spf\s*\[\s*(\d+)\s*\]\s*\)\s*/\s*spf\s*\[\s*(\d+)\s*\]", src_common):
        n = int(m.group(1) or m.group(2)) - 1
        out.append((n, int(m.group(3)), int(m.group(4)), int(m.group(5))))
    return out


def unbalanced_exits(repo):
    """every function of src/*.c that counts recursion (`++D->recurse_level`) must undo it on EVERY exit: for each
    `return` after the increment, the statements since the last brace must contain `recurse_level--`.  Path
    insensitive and textual on purpose: it knows nothing about which error is being returned.
    -> ["file:function: return at line N leaves recurse_level incremented"]"""
    out = []
    d = os.path.join(repo, "src")
    for fn in sorted(os.listdir(d)) if os.path.isdir(d) else []:
        if not fn.endswith(".c"): continue
        raw = open(os.path.join(d, fn), errors="replace").read()
        txt = re.sub(r"/\*.*?\*/", lambda m: re.sub(r"[^\n]", " ", m.group(0)), raw, flags=re.S)   # keep line numbers
        for m in re.finditer(r"\+\+\s*D->recurse_level", txt):
            # enclosing function: the last line-initial '{' before the increment, matched to its '}'
            st = txt.rfind("\n{", 0, m.start())
            if st < 0: continue
            k = st + 2; depth = 1
            while k < len(txt) and depth:
                depth += {"{": 1, "}": -1}.get(txt[k], 0); k += 1
            head = txt[max(0, st - 600):st]
            head = head[max(head.rfind("}"), head.rfind(";"), head.rfind("#")) + 1:]
            nm = re.findall(r"\b([A-Za-z_][A-Za-z0-9_]*)\s*\(", head)
            name = nm[0] if nm else "?"
            for r in re.finditer(r"\breturn\b", txt[m.end():k]):
                pos = m.end() + r.start()
                b = max(txt.rfind("{", 0, pos), txt.rfind("}", 0, pos))
                if "recurse_level--" not in txt[b:pos].replace(" ", ""):
                    out.append("%s:%s: return at line %d leaves recurse_level incremented" % (fn, name, txt.count("\n", 0, pos) + 1))
    return out


def main():
    problems = []
    src = {}
    for f in ("bzip.c", "getdata.c", "ascii.c", "iopos.c", "common.c"):
        try:
            src[f] = strip_comments(open(os.path.join(REPO, "src", f), errors="replace").read())
        except OSError as e:
            problems.append("PROBLEM cannot read %s: %s" % (f, e)); src[f] = ""
    flags = {}

    def need(f, name):
        b = func_body(src[f], name)
        if b is None:
            problems.append("PROBLEM function %s not found in %s" % (name, f)); return ""
        return b

    b = need("bzip.c", "_GD_Bzip2Seek")
    flags["fix_bz_rewind"] = bool(re.search(r"(<\s*ptr->base|ptr->base\s*>)", b) and
                                  re.search(r"BZ2_bzReadOpen|_GD_Bzip2DoOpen|rewind", b))
    if b and "ptr->base" not in b: problems.append("PROBLEM _GD_Bzip2Seek no longer uses ptr->base")
    b = need("bzip.c", "_GD_Bzip2Read")
    eofblk = block_after(b, r"ptr->stream_end") or ""
    flags["fix_bz_eof"] = bool(re.search(r"file->pos\s*=", eofblk)) and not re.search(r"nmemb\s*-\s*nbytes\s*/", b)
    if b and not eofblk: problems.append("PROBLEM _GD_Bzip2Read: stream_end branch not found")
    # decoder-error exits of _GD_Bzip2Read / _GD_Bzip2Seek: is the stream restarted there
    def err_blocks(body):
        """the else-blocks that start with `file->error = ptr->bzerror;` and return -1"""
        return re.findall(r"else\s*\{\s*file->error\s*=\s*ptr->bzerror;(.*?)return\s*-1;", body, re.S)
    rb = err_blocks(need("bzip.c", "_GD_Bzip2Read")); sb = err_blocks(need("bzip.c", "_GD_Bzip2Seek"))
    if not rb or not sb: problems.append("PROBLEM bzip.c: decoder-error exits of _GD_Bzip2Read/_GD_Bzip2Seek not found")
    # 3ea47ff: the window is emptied at the decoder's position and file->pos follows it
    def tidied(x):
        return bool(re.search(r"ptr->base\s*\+=\s*ptr->end\s*;", x) and re.search(r"ptr->pos\s*=\s*ptr->end\s*=\s*0\s*;", x)
                    and re.search(r"file->pos\s*=\s*ptr->base\s*/\s*GD_SIZE\(data_type\)\s*;", x))
    restarts = [tidied(x) for x in rb + sb]
    if restarts and any(restarts) != all(restarts):
        problems.append("PROBLEM bzip.c: only some decoder-error exits empty the window (model has one flag)")
    for x in rb + sb:
        if not tidied(x) and re.search(r"ptr->|file->pos", x):
            problems.append("PROBLEM bzip.c: a decoder-error exit changes the state in a way the model does not know")
    flags["fix_bz_err"] = bool(restarts) and all(restarts)

    b = need("getdata.c", "_GD_DoField")
    g = need("getdata.c", "gd_getdata64")
    flags["fix_here"] = ("GD_HERE" not in b) and ("_GD_GetIOPos" in g)
    rng = block_after(b, r"first_samp\s*>\s*\(int64_t\)\s*\(GD_INT64_MAX\s*-\s*num_samp\)") or ""
    if b and not rng: problems.append("PROBLEM _GD_DoField: range check not found")
    s = need("iopos.c", "_GD_Seek")
    neg = block_after(s, r"offset\s*<\s*0") or ""
    if s and not neg: problems.append("PROBLEM _GD_Seek: negative-offset check not found")
    l1 = "recurse_level--" in rng
    l2 = "recurse_level--" in neg
    if l1 != l2: problems.append("PROBLEM recurse_level repaired on only one of the two GD_E_RANGE paths (model has one flag)")
    flags["fix_leak"] = l1 and l2
    b = need("ascii.c", "_GD_AsciiSeek")
    flags["fix_text_pseudo"] = bool(re.search(r"file->pos\s*<\s*0", b))
    b = need("getdata.c", "_GD_DoRaw")
    m = re.search(r"if\s*\(\s*ns\s*>\s*0\s*\|\|([^\n]*)\n[^;]*?_GD_Seek", b)
    if b and not m: problems.append("PROBLEM _GD_DoRaw: seek condition not found")
    flags["fix_negseek"] = bool(m and re.search(r"s0\s*>=\s*0", m.group(1)))

    b = need("iopos.c", "_GD_GetIOPos")
    m1 = re.search(r"case GD_PHASE_ENTRY:(.*?)break;", b, re.S)
    m2 = re.search(r"case GD_PHASE_ENTRY:(.*?)break;", s, re.S)
    if not m1 or not m2: problems.append("PROBLEM PHASE case not found in _GD_GetIOPos/_GD_Seek")
    g_new = bool(m1 and re.search(r"pos\s*-=\s*E->EN\(phase,shift\)", m1.group(1)))
    g_old = bool(m1 and re.search(r"pos\s*\+=\s*E->EN\(phase,shift\)", m1.group(1)))
    s_new = bool(m2 and re.search(r"offset\s*\+\s*E->EN\(phase,shift\)", m2.group(1)))
    s_old = bool(m2 and re.search(r"offset\s*-\s*E->EN\(phase,shift\)", m2.group(1)))
    if not ((g_new and s_new) or (g_old and s_old)):
        problems.append("PROBLEM PHASE shift: _GD_GetIOPos and _GD_Seek not recognised as one of the two consistent conventions")
    flags["fix_phase_sign"] = g_new and s_new

    kernels = lincom_kernels(src["common.c"])
    # every use of an alignment remainder in common.c must have been understood, or the table is incomplete
    nrem = len(re.findall(r"spf\s*\[\s*GD_MAX_LINCOM", src["common.c"]))
    if not kernels or len(kernels) != nrem:
        problems.append("PROBLEM common.c: LINCOM kernels: %d index expressions understood, %d uses of an alignment remainder" % (len(kernels), nrem))
    out = ["(* generated by translate/tr_c02cfg.py from %s/src -- do not edit *)" % REPO,
           "From GD Require Import C02.Model.",
           "Definition tree_cfg : cfg :=",
           "  {| " + ";\n     ".join("%s := %s" % (k, "true" if flags[k] else "false") for k in
                                     ["fix_bz_rewind", "fix_bz_eof", "fix_here", "fix_text_pseudo", "fix_leak", "fix_negseek", "fix_phase_sign", "fix_bz_err"]) + " |}.",
           "(* (input, remainder used, rate multiplied, rate divided by) of every index expression of the LINCOM kernels in common.c *)",
           "Definition tree_kernels : list (nat * nat * nat * nat) :=",
           "  (" + " :: ".join(["(%d, %d, %d, %d)%%nat" % k for k in kernels] + ["nil"]) + ")%list."]
    os.makedirs(os.path.join(VERIF, "coq", "Gen"), exist_ok=True)
    p = os.path.join(VERIF, "coq", "Gen", "C02Cfg.v")
    txt = "\n".join(out) + "\n"
    if not os.path.exists(p) or open(p).read() != txt:
        open(p, "w").write(txt)
    if "--print" in sys.argv:
        for k, v in flags.items():
            print("FLAG %s %s" % (k, "true" if v else "false"))
        print("KERNELS " + " ".join("%d,%d,%d,%d" % k for k in kernels))
    for pr in problems:
        print(pr)
    for u in unbalanced_exits(REPO):
        print("UNBALANCED " + u)
    return 0


if __name__ == "__main__":
    sys.exit(main())
