#!/usr/bin/env python3
"""Translator for C07: src/flush.c, src/ascii.c, src/parse.c -> coq/Gen/Formats.v.

1. every printf-family conversion that formats a floating-point value
   (%g %e %f %a and upper-case variants) with its number of significant
   decimal digits: `flush_double_sites` (src/flush.c, the metadata writer) and
   `ascii_double_sites` (src/ascii.c, the text data codec; listed separately,
   C03/C04 own its tolerance)
2. `writer_min_version`: for every entry type the smallest Standards Version
   _GD_FindVersion leaves available for a database that contains it
3. `parser_gate`: the GD_PVERS_GE gate of the keyword in _GD_ParseFieldSpec

Prints `FLUSH_DIGITS <n>` (the digits of the _GD_WriteConst FLOAT64 site; the
check parameterises the extracted writer model with it) and `PROBLEM ...`
lines (exit 3) when a construct is not recognised."""
import re, sys, os

REPO = os.environ.get("VERIF_REPO", "/repo")
HERE = os.path.dirname(os.path.dirname(os.path.abspath(__file__)))
OUT = os.path.join(HERE, "coq", "Gen", "Formats.v")
problems = []


def strip_comments(s):
    return re.sub(r"/\*.*?\*/", lambda m: re.sub(r"[^\n]", " ", m.group(0)), s, flags=re.S)


def functions(src):
    """[(name, start_line, end_line)] by brace matching at column 0"""
    out = []
    lines = src.split("\n")
    name = None
    for i, l in enumerate(lines):
        m = re.match(r"^(?:static\s+)?[A-Za-z_][\w\s\*]*?\b(\w+)\s*\([^;]*$", l)
        if m and not l.startswith((" ", "\t", "#")) and name is None:
            cand = m.group(1)
            start = i
            name = cand
        if l.startswith("}") and name is not None:
            out.append((name, start + 1, i + 1))
            name = None
    return out


CONV = re.compile(r"%[-+ #0]*(\d+|\*)?(?:\.(\d+|\*))?(?:hh|h|ll|l|L|q|j|z|t)?([diouxXeEfFgGaAcspn%])")


def string_literals(src):
    """(line, literal text) for every C string literal, with adjacent literals and PRI macros joined"""
    out = []
    for m in re.finditer(r'"((?:[^"\\\n]|\\.)*)"', src):
        out.append((src.count("\n", 0, m.start()) + 1, m.group(1)))
    return out


def double_sites(path):
    src = strip_comments(open(path).read())
    fns = functions(src)
    sites = []
    for line, lit in string_literals(src):
        for m in CONV.finditer(lit):
            w, prec, c = m.groups()
            if c not in "eEfFgGaA":
                continue
            if prec == "*":
                problems.append("PROBLEM %s:%d variable precision in %r" % (path, line, lit))
                digits = 0
            elif c in "gG":
                digits = 6 if prec is None else max(1, int(prec))
            elif c in "eE":
                digits = 7 if prec is None else int(prec) + 1
            elif c in "aA":
                digits = 99 if prec is None else 0
            else:
                digits = 0          # %f: no significant-digit guarantee
            fn = "?"
            for n, a, b in fns:
                if a <= line <= b:
                    fn = n
            sites.append((os.path.basename(path), fn, line, m.group(0), digits))
    return sites


def find_version_table(path):
    src = strip_comments(open(path).read())
    m = re.search(r"uint64_t _GD_FindVersion\(DIRFILE \*D\)(.*?)\n}\n", src, re.S)
    if not m:
        problems.append("PROBLEM _GD_FindVersion not found")
        return []
    body = m.group(1)
    m2 = re.search(r"switch \(D->entry\[i\]->field_type\) \{(.*?)\n      \}\n", body, re.S)
    if not m2:
        problems.append("PROBLEM field_type switch of _GD_FindVersion not found")
        return []
    sw = m2.group(1)
    table = {}
    # split into groups: labels ... statements ... break;
    pos = 0
    pat = re.compile(r"((?:\s*case GD_\w+_ENTRY:)+)(.*?)(?=(?:\n\s{8}case GD_\w+_ENTRY:)|\Z)", re.S)
    for g in pat.finditer(sw):
        labels = re.findall(r"case GD_(\w+)_ENTRY:", g.group(1))
        stm = g.group(2)
        ges = [int(x) for x in re.findall(r"GD_VERS_GE_(\d+)", stm)]
        if not ges:
            v = 0
        else:
            nif = len(re.findall(r"\bif \(", stm))
            nelse = len(re.findall(r"\belse\b", stm))
            if "default:" in stm or (nif > 0 and nelse < nif):
                v = 0
            else:
                v = min(ges)
        for l in labels:
            table[l] = v
    hid = re.search(r"GD_EN_HIDDEN\)\s*D->av &= GD_VERS_GE_(\d+)", body)
    if not hid:
        problems.append("PROBLEM hidden-flag rule of _GD_FindVersion not found")
    # is the per-type rule skipped for hidden entries (if (hidden) ...; else switch ...)?
    skips = bool(re.search(r"GD_EN_HIDDEN\)\s*D->av &= GD_VERS_GE_\d+;\s*else\s*switch \(D->entry\[i\]->field_type\)", body))
    return sorted(table.items()), (int(hid.group(1)) if hid else 0), skips


def parser_gates(path):
    src = strip_comments(open(path).read())
    m = re.search(r"gd_entry_t \*_GD_ParseFieldSpec\(.*?\n}\n", src, re.S)
    if not m:
        problems.append("PROBLEM _GD_ParseFieldSpec not found")
        return []
    body = m.group(0)
    gates = {}
    for g in re.finditer(r'strcmp\(in_cols\[1\], "(\w+)"\) == 0(?:\s*&&\s*GD_PVERS_GE\(\*p, (\d+)\))?', body):
        gates[g.group(1)] = int(g.group(2) or 0)
    dirs = {}
    m = re.search(r"static int _GD_ParseDirective\(.*?\n}\n", src, re.S)
    if m:
        for g in re.finditer(r'strcmp\(ptr, "(\w+)"\) == 0(?:\s*&&\s*GD_PVERS_GE\(\*p, (\d+)\))?', m.group(0)):
            dirs[g.group(1)] = int(g.group(2) or 0)
    else:
        problems.append("PROBLEM _GD_ParseDirective not found")
    return sorted(gates.items()), sorted(dirs.items())


def writer_directive_gates(path):
    """(directive, version from which _GD_FieldSpec/_GD_FlushFragment write it)"""
    src = strip_comments(open(path).read())
    out = {}
    m = re.search(r"\(E->flags & GD_EN_HIDDEN\) &&\s*\(permissive \|\| D->standards >= (\d+)\)", src)
    if m:
        out["HIDDEN"] = int(m.group(1))
    else:
        problems.append("PROBLEM /HIDDEN gate of _GD_FieldSpec not found")
    for name, pat in (("PROTECT", r"/\* Protection \*/\s*if \(permissive \|\| D->standards >= (\d+)\)"),
                      ("ENCODING", r"/\* Encoding \*/\s*if \(permissive \|\| D->standards >= (\d+)\)"),
                      ("REFERENCE", r"if \(permissive \|\| D->standards >= (\d+)\)\s*if \(D->fragment\[i\]\.ref_name != NULL\)")):
        mm = re.search(pat, open(path).read())
        if mm:
            out[name] = int(mm.group(1))
        else:
            problems.append("PROBLEM /%s gate of _GD_FlushFragment not found" % name)
    m = re.search(r'else if \(D->standards >= (\d+)\) \{\s*if \(fprintf\(stream, "/VERSION', src)
    if m:
        out["VERSION"] = int(m.group(1))
    else:
        problems.append("PROBLEM /VERSION gate not found")
    return sorted(out.items())


def tok_to_num_facts(path):
    """which literal rules _GD_TokToNum has: (accepts strtod underflow, integer zero left to strtod)"""
    src = strip_comments(open(path).read())
    m = re.search(r"int _GD_TokToNum\(.*?\n}\n", src, re.S)
    if not m:
        problems.append("PROBLEM _GD_TokToNum not found")
        return False, False
    b = re.sub(r"\s+", " ", m.group(0))
    uf_r = "errno == ERANGE && dr > -1 && dr < 1" in b
    uf_i = "errno == ERANGE && di > -1 && di < 1" in b
    if uf_r != uf_i:
        problems.append("PROBLEM _GD_TokToNum: underflow rule present for only one of the two parts")
    if "ERANGE" in b.replace("errno == ERANGE && dr > -1 && dr < 1", "").replace("errno == ERANGE && di > -1 && di < 1", "").replace("rt == GD_UNKNOWN && errno == ERANGE", "").replace("it == GD_UNKNOWN && errno == ERANGE", ""):
        problems.append("PROBLEM _GD_TokToNum: unrecognised use of ERANGE")
    z = ["(ir != 0 || !re)" in b, "(ii != 0 || !im)" in b, "if (it == GD_NULL) *im = di;" in b]
    if any(z) and not all(z):
        problems.append("PROBLEM _GD_TokToNum: zero rule only partly present")
    # the shapes the reader model assumes
    for need in ("ir = gd_strtoll(token, &endptr, base);", "ur = gd_strtoull(token, &endptr, base);", "dr = gd_strtod(token, &endptr);",
                 "ii = gd_strtoll(token, &endptr, base);", "di = gd_strtod(token, &endptr);"):
        if need not in b:
            problems.append("PROBLEM _GD_TokToNum: expected statement missing: " + need)
    return (uf_r and uf_i), all(z)


def coq_str(s):
    return '"' + s.replace('"', '""') + '"'


def main():
    fs = double_sites(os.path.join(REPO, "src", "flush.c"))
    asc = double_sites(os.path.join(REPO, "src", "ascii.c"))
    fv = find_version_table(os.path.join(REPO, "src", "flush.c"))
    wmin, hidden_min, hidden_skips = fv if fv else ([], 0, False)
    pg = parser_gates(os.path.join(REPO, "src", "parse.c"))
    gates, dirs = pg if pg else ([], [])
    wdirs = writer_directive_gates(os.path.join(REPO, "src", "flush.c"))
    if not fs:
        problems.append("PROBLEM no floating-point conversion found in src/flush.c")
    lines = ["(* GENERATED by translate/tr_formats.py from src/flush.c, src/ascii.c, src/parse.c -- do not edit *)",
             "From Coq Require Import ZArith List String.", "Import ListNotations.", "Local Open Scope Z_scope.", "Local Open Scope string_scope.", "",
             "Record dsite := mkSite { s_file : string; s_fn : string; s_line : Z; s_conv : string; s_digits : Z }.", ""]

    def sites(name, l):
        lines.append("Definition %s : list dsite := [" % name)
        lines.append(";\n".join("  mkSite %s %s %d %s %d" % (coq_str(f), coq_str(fn), ln, coq_str(cv), d) for f, fn, ln, cv, d in l))
        lines.append("].")
        lines.append("")
    sites("flush_double_sites", fs)
    sites("ascii_double_sites", asc)

    def table(name, l, comment):
        lines.append("(* %s *)" % comment)
        lines.append("Definition %s : list (string * Z) := [" % name)
        lines.append(";\n".join("  (%s, %d)" % (coq_str(k), v) for k, v in l))
        lines.append("].")
        lines.append("")
    table("writer_min_version", wmin, "entry type -> smallest Standards Version _GD_FindVersion allows for a database containing it")
    table("parser_gate", gates, "keyword -> GD_PVERS_GE gate in _GD_ParseFieldSpec")
    table("writer_directive_from", wdirs + [("HIDDEN_FLAG_MIN", hidden_min)], "directive -> Standards Version from which the writer emits it; HIDDEN_FLAG_MIN = version _GD_FindVersion demands for a hidden entry")
    lines.append("(* true when _GD_FindVersion applies the per-type version rule only to entries that are not hidden *)")
    lines.append("Definition hidden_skips_type_rule : bool := %s." % ("true" if hidden_skips else "false"))
    lines.append("")
    uf, zf = tok_to_num_facts(os.path.join(REPO, "src", "parse.c"))
    lines.append("(* _GD_TokToNum accepts a strtod result flagged ERANGE when it is small (underflow to a subnormal) *)")
    lines.append("Definition tok_accepts_underflow : bool := %s." % ("true" if uf else "false"))
    lines.append("(* _GD_TokToNum leaves an integer zero to strtod when a floating-point value is wanted (keeps the sign of -0) *)")
    lines.append("Definition tok_zero_via_strtod : bool := %s." % ("true" if zf else "false"))
    lines.append("")
    table("parser_directive_gate", dirs, "directive -> GD_PVERS_GE gate in _GD_ParseDirective")
    os.makedirs(os.path.dirname(OUT), exist_ok=True)
    txt = "\n".join(lines) + "\n"
    old = open(OUT).read() if os.path.exists(OUT) else None
    if old != txt:
        open(OUT, "w").write(txt)
    wc = [d for f, fn, ln, cv, d in fs if fn == "_GD_WriteConst"]
    print("HIDDEN_SKIPS %d" % (1 if hidden_skips else 0))
    print("TOK_UNDERFLOW %d TOK_ZERO %d" % (1 if uf else 0, 1 if zf else 0))
    print("FLUSH_DIGITS %d" % (min(wc) if wc else (min(d for *_, d in fs) if fs else 0)))
    print("flush sites: %d  ascii sites: %d  writer_min_version: %d  parser_gate: %d" % (len(fs), len(asc), len(wmin), len(gates)))
    for p in problems:
        print(p)
    return 3 if problems else 0


if __name__ == "__main__":
    sys.exit(main())
