#!/usr/bin/env python3
"""Translator for C07: src/flush.c, src/ascii.c, src/parse.c -> coq/Gen/Formats.v.

1. every printf-family conversion that formats a floating-point value
   (%g %e %f %a and upper-case variants) with its number of significant
   decimal digits: `flush_double_sites` (src/flush.c, the metadata writer) and
   `ascii_double_sites` (src/ascii.c, the text data codec; listed separately,
   C03/C04 own its tolerance)
2. `writer_min_version`: for every entry type the smallest Standards Version
   _GD_FindVersion leaves available for a database that contains it
3. `parser_gate`: the GD_PVERS_GE gate of the keyword in _GD_ParseFieldSpec

Prints `FLUSH_DIGITS <n>` (the digits of the _GD_WriteConst FLOAT64 site; the
check parameterises the extracted writer model with it) and `PROBLEM ...`
lines (exit 3) when a construct is not recognised."""
import re, sys, os

REPO = os.environ.get("VERIF_REPO", "/repo")
HERE = os.path.dirname(os.path.dirname(os.path.abspath(__file__)))
OUT = os.path.join(HERE, "coq", "Gen", "Formats.v")
problems = []


def strip_comments(s):
    return re.sub(r"/\*.*?\*/", lambda m: re.sub(r"[^\n]", " ", m.group(0)), s, flags=re.S)


def functions(src):
    """[(name, start_line, end_line)] by brace matching at column 0"""
    out = []
    lines = src.split("\n")
    name = None
    for i, l in enumerate(lines):
        m = re.match(r"^(?:static\s+)?[A-Za-z_][\w\s\*]*?\b(\w+)\s*\([^;]*$", l)
        if m and not l.startswith((" ", "\t", "#")) and name is None:
            cand = m.group(1)
            start = i
            name = cand
        if l.startswith("}") and name is not None:
            out.append((name, start + 1, i + 1))
            name = None
    return out


CONV = re.compile(r"%[-+ #0]*(\d+|\*)?(?:\.(\d+|\*))?(?:hh|h|ll|l|L|q|j|z|t)?([diouxXeEfFgGaAcspn%])")


def string_literals(src):
    """(line, literal text) for every C string literal, with adjacent literals and PRI macros joined"""
    out = []
    for m in re.finditer(r'"((?:[^"\\\n]|\\.)*)"', src):
        out.append((src.count("\n", 0, m.start()) + 1, m.group(1)))
    return out


def double_sites(path):
    src = strip_comments(open(path).read())
    fns = functions(src)
    sites = []
    for line, lit in string_literals(src):
        for m in CONV.finditer(lit):
            w, prec, c = m.groups()
            if c not in "eEfFgGaA":
                continue
            if prec == "*":
                problems.append("PROBLEM %s:%d variable precision in %r" % (path, line, lit))
                digits = 0
            elif c in "gG":
                digits = 6 if prec is None else max(1, int(prec))
            elif c in "eE":
                digits = 7 if prec is None else int(prec) + 1
            elif c in "aA":
                digits = 99 if prec is None else 0
            else:
                digits = 0          # %f: no significant-digit guarantee
            fn = "?"
            for n, a, b in fns:
                if a <= line <= b:
                    fn = n
            sites.append((os.path.basename(path), fn, line, m.group(0), digits))
    return sites


def find_version_table(path):
    src = strip_comments(open(path).read())
    m = re.search(r"uint64_t _GD_FindVersion\(DIRFILE \*D\)(.*?)\n}\n", src, re.S)
    if not m:
        problems.append("PROBLEM _GD_FindVersion not found")
        return []
    body = m.group(1)
    m2 = re.search(r"switch \(D->entry\[i\]->field_type\) \{(.*?)\n      \}\n", body, re.S)
    if not m2:
        problems.append("PROBLEM field_type switch of _GD_FindVersion not found")
        return []
    sw = m2.group(1)
    table = {}
    # split into groups: labels ... statements ... break;
    pos = 0
    pat = re.compile(r"((?:\s*case GD_\w+_ENTRY:)+)(.*?)(?=(?:\n\s{8}case GD_\w+_ENTRY:)|\Z)", re.S)
    for g in pat.finditer(sw):
        labels = re.findall(r"case GD_(\w+)_ENTRY:", g.group(1))
        stm = g.group(2)
        ges = [int(x) for x in re.findall(r"GD_VERS_GE_(\d+)", stm)]
        if not ges:
            v = 0
        else:
            nif = len(re.findall(r"\bif \(", stm))
            nelse = len(re.findall(r"\belse\b", stm))
            if "default:" in stm or (nif > 0 and nelse < nif):
                v = 0
            else:
                v = min(ges)
        for l in labels:
            table[l] = v
    hid = re.search(r"GD_EN_HIDDEN\)\s*D->av &= GD_VERS_GE_(\d+)", body)
    if not hid:
        problems.append("PROBLEM hidden-flag rule of _GD_FindVersion not found")
    # is the per-type rule skipped for hidden entries (if (hidden) ...; else switch ...)?
    skips = bool(re.search(r"GD_EN_HIDDEN\)\s*D->av &= GD_VERS_GE_\d+;\s*else\s*switch \(D->entry\[i\]->field_type\)", body))
    return sorted(table.items()), (int(hid.group(1)) if hid else 0), skips


def parser_gates(path):
    src = strip_comments(open(path).read())
    m = re.search(r"gd_entry_t \*_GD_ParseFieldSpec\(.*?\n}\n", src, re.S)
    if not m:
        problems.append("PROBLEM _GD_ParseFieldSpec not found")
        return []
    body = m.group(0)
    gates = {}
    for g in re.finditer(r'strcmp\(in_cols\[1\], "(\w+)"\) == 0(?:\s*&&\s*GD_PVERS_GE\(\*p, (\d+)\))?', body):
        gates[g.group(1)] = int(g.group(2) or 0)
    dirs = {}
    m = re.search(r"static int _GD_ParseDirective\(.*?\n}\n", src, re.S)
    if m:
        for g in re.finditer(r'strcmp\(ptr, "(\w+)"\) == 0(?:\s*&&\s*GD_PVERS_GE\(\*p, (\d+)\))?', m.group(0)):
            dirs[g.group(1)] = int(g.group(2) or 0)
    else:
        problems.append("PROBLEM _GD_ParseDirective not found")
    return sorted(gates.items()), sorted(dirs.items())


def writer_directive_gates(path):
    """(directive, version from which _GD_FieldSpec/_GD_FlushFragment write it)"""
    src = strip_comments(open(path).read())
    out = {}
    m = re.search(r"\(E->flags & GD_EN_HIDDEN\) &&\s*\(permissive \|\| D->standards >= (\d+)\)", src)
    if m:
        out["HIDDEN"] = int(m.group(1))
    else:
        problems.append("PROBLEM /HIDDEN gate of _GD_FieldSpec not found")
    for name, pat in (("PROTECT", r"/\* Protection \*/\s*if \(permissive \|\| D->standards >= (\d+)\)"),
                      ("ENCODING", r"/\* Encoding \*/\s*if \(permissive \|\| D->standards >= (\d+)\)"),
                      ("REFERENCE", r"if \(permissive \|\| D->standards >= (\d+)\)\s*if \(D->fragment\[i\]\.ref_name != NULL\)")):
        mm = re.search(pat, open(path).read())
        if mm:
            out[name] = int(mm.group(1))
        else:
            problems.append("PROBLEM /%s gate of _GD_FlushFragment not found" % name)
    m = re.search(r'else if \(D->standards >= (\d+)\) \{\s*if \(fprintf\(stream, "/VERSION', src)
    if m:
        out["VERSION"] = int(m.group(1))
    else:
        problems.append("PROBLEM /VERSION gate not found")
    return sorted(out.items())


def tok_to_num_facts(path):
    """literal rules of _GD_TokToNum:
       erange rule: 0 = a strtod result flagged ERANGE is rejected, 1 = accepted when small (underflow),
                    2 = always accepted;
       zero rule:   an integer zero is left to strtod when a floating value is wanted;
       ull rule:    strtoull is only tried after a positive strtoll overflow"""
    src = strip_comments(open(path).read())
    m = re.search(r"int _GD_TokToNum\(.*?\n}\n", src, re.S)
    if not m:
        problems.append("PROBLEM _GD_TokToNum not found")
        return 0, False, False
    b = re.sub(r"\s+", " ", m.group(0))
    shapes = {
        1: ("(!errno || (errno == ERANGE && dr > -1 && dr < 1)) && (*endptr == '\\0' || *endptr == ';')",
            "(!errno || (errno == ERANGE && di > -1 && di < 1)) && *endptr == '\\0'"),
        2: ("(!errno || errno == ERANGE) && (*endptr == '\\0' || *endptr == ';')",
            "(!errno || errno == ERANGE) && *endptr == '\\0'"),
        0: ("dr = gd_strtod(token, &endptr); if (!errno && (*endptr == '\\0' || *endptr == ';'))",
            "di = gd_strtod(token, &endptr); if (!errno && *endptr == '\\0')"),
    }
    rule = None
    for k, (a, c) in shapes.items():
        if a in b and c in b:
            rule = k
    if rule is None:
        problems.append("PROBLEM _GD_TokToNum: acceptance test after strtod not recognised")
        rule = 0
    pu = ["if (rt == GD_UNKNOWN && errno == ERANGE && ir > 0)" in b, "if (it == GD_UNKNOWN && errno == ERANGE && ii > 0)" in b]
    pu0 = ["if (rt == GD_UNKNOWN && errno == ERANGE) {" in b, "if (it == GD_UNKNOWN && errno == ERANGE) {" in b]
    if not (all(pu) or all(pu0)):
        problems.append("PROBLEM _GD_TokToNum: strtoull retry condition not recognised")
    z = ["(ir != 0 || !re)" in b, "(ii != 0 || !im)" in b, "if (it == GD_NULL) *im = di;" in b]
    if any(z) and not all(z):
        problems.append("PROBLEM _GD_TokToNum: zero rule only partly present")
    for need in ("ir = gd_strtoll(token, &endptr, base);", "ur = gd_strtoull(token, &endptr, base);", "dr = gd_strtod(token, &endptr);",
                 "ii = gd_strtoll(token, &endptr, base);", "di = gd_strtod(token, &endptr);"):
        if need not in b:
            problems.append("PROBLEM _GD_TokToNum: expected statement missing: " + need)
    return rule, all(z), all(pu)


def include_facts(flush_path, parse_path, include_path):
    """(blank between namespace and prefix in WriteInclude, _GD_FindVersion has a namespace rule,
        _GD_InputCode tells _GD_BuildCode that .z is a representation suffix, parser gate of namespaces)"""
    fl = re.sub(r"\s+", " ", strip_comments(open(flush_path).read()))
    pa = re.sub(r"\s+", " ", strip_comments(open(parse_path).read()))
    inc = re.sub(r"\s+", " ", strip_comments(open(include_path).read()))
    m = re.search(r"static int WriteInclude\(.*?return 1; }", fl)
    if not m:
        problems.append("PROBLEM WriteInclude not found")
        return False, False, False, 0
    w = m.group(0)
    blank = "if (px || (sx && !ns)) { if (fputc(' ', stream) == EOF ||" in w
    if not blank and "if (px || (sx && !ns)) { if (_GD_StringEscapeise(stream, px," not in w:
        problems.append("PROBLEM WriteInclude: prefix block not recognised")
    m = re.search(r"uint64_t _GD_FindVersion\(DIRFILE \*D\).*?D->flags \|= GD_HAVE_VERSION;", fl)
    nsrule = bool(m and re.search(r"if \(D->fragment\[i\]\.nsl\) D->av &= GD_VERS_GE_10;", m.group(0)))
    m = re.search(r"static char \*_GD_InputCode\(.*?return code; }", pa)
    if not m:
        problems.append("PROBLEM _GD_InputCode not found")
    reprz = bool(m and "GD_CO_REPRZ" in m.group(0))
    g = re.search(r"now the namespace \*/\s*if \(GD_PVERS_GE\(\*p, (\d+)\)\)", open(include_path).read())
    if not g:
        problems.append("PROBLEM namespace gate of _GD_SetFieldAffixes not found")
    return blank, nsrule, reprz, (int(g.group(1)) if g else 0)


def coq_str(s):
    return '"' + s.replace('"', '""') + '"'


def main():
    fs = double_sites(os.path.join(REPO, "src", "flush.c"))
    asc = double_sites(os.path.join(REPO, "src", "ascii.c"))
    fv = find_version_table(os.path.join(REPO, "src", "flush.c"))
    wmin, hidden_min, hidden_skips = fv if fv else ([], 0, False)
    pg = parser_gates(os.path.join(REPO, "src", "parse.c"))
    gates, dirs = pg if pg else ([], [])
    wdirs = writer_directive_gates(os.path.join(REPO, "src", "flush.c"))
    if not fs:
        problems.append("PROBLEM no floating-point conversion found in src/flush.c")
    lines = ["(* GENERATED by translate/tr_formats.py from src/flush.c, src/ascii.c, src/parse.c -- do not edit *)",
             "From Coq Require Import ZArith List String.", "Import ListNotations.", "Local Open Scope Z_scope.", "Local Open Scope string_scope.", "",
             "Record dsite := mkSite { s_file : string; s_fn : string; s_line : Z; s_conv : string; s_digits : Z }.", ""]

    def sites(name, l):
        lines.append("Definition %s : list dsite := [" % name)
        lines.append(";\n".join("  mkSite %s %s %d %s %d" % (coq_str(f), coq_str(fn), ln, coq_str(cv), d) for f, fn, ln, cv, d in l))
        lines.append("].")
        lines.append("")
    sites("flush_double_sites", fs)
    sites("ascii_double_sites", asc)

    def table(name, l, comment):
        lines.append("(* %s *)" % comment)
        lines.append("Definition %s : list (string * Z) := [" % name)
        lines.append(";\n".join("  (%s, %d)" % (coq_str(k), v) for k, v in l))
        lines.append("].")
        lines.append("")
    table("writer_min_version", wmin, "entry type -> smallest Standards Version _GD_FindVersion allows for a database containing it")
    table("parser_gate", gates, "keyword -> GD_PVERS_GE gate in _GD_ParseFieldSpec")
    table("writer_directive_from", wdirs + [("HIDDEN_FLAG_MIN", hidden_min)], "directive -> Standards Version from which the writer emits it; HIDDEN_FLAG_MIN = version _GD_FindVersion demands for a hidden entry")
    lines.append("(* true when _GD_FindVersion applies the per-type version rule only to entries that are not hidden *)")
    lines.append("Definition hidden_skips_type_rule : bool := %s." % ("true" if hidden_skips else "false"))
    lines.append("")
    blank, nsrule, reprz, nsgate = include_facts(os.path.join(REPO, "src", "flush.c"), os.path.join(REPO, "src", "parse.c"),
                                                 os.path.join(REPO, "src", "include.c"))
    lines.append("(* WriteInclude puts a blank between the namespace and the prefix of an /INCLUDE line *)")
    lines.append("Definition include_ns_px_blank : bool := %s." % ("true" if blank else "false"))
    lines.append("(* _GD_FindVersion restricts a database with a fragment namespace to Standards Version >= 10 *)")
    lines.append("Definition findversion_ns_rule : bool := %s." % ("true" if nsrule else "false"))
    lines.append("(* _GD_InputCode lets _GD_BuildCode treat .z as a representation suffix (DSV >= 10) *)")
    lines.append("Definition inputcode_reprz : bool := %s." % ("true" if reprz else "false"))
    lines.append("(* Standards Version from which the parser reads a namespace in an /INCLUDE line *)")
    lines.append("Definition parser_namespace_gate : Z := %d." % nsgate)
    lines.append("")
    uf, zf, pu = tok_to_num_facts(os.path.join(REPO, "src", "parse.c"))
    lines.append("(* _GD_TokToNum and a strtod result flagged ERANGE: 0 = rejected, 1 = accepted when small (underflow), 2 = accepted *)")
    lines.append("Definition tok_erange_rule : Z := %d." % uf)
    lines.append("(* _GD_TokToNum leaves an integer zero to strtod when a floating-point value is wanted (keeps the sign of -0) *)")
    lines.append("Definition tok_zero_via_strtod : bool := %s." % ("true" if zf else "false"))
    lines.append("(* _GD_TokToNum tries strtoull only after a positive strtoll overflow *)")
    lines.append("Definition tok_ull_positive_only : bool := %s." % ("true" if pu else "false"))
    lines.append("")
    table("parser_directive_gate", dirs, "directive -> GD_PVERS_GE gate in _GD_ParseDirective")
    os.makedirs(os.path.dirname(OUT), exist_ok=True)
    txt = "\n".join(lines) + "\n"
    old = open(OUT).read() if os.path.exists(OUT) else None
    if old != txt:
        open(OUT, "w").write(txt)
    wc = [d for f, fn, ln, cv, d in fs if fn == "_GD_WriteConst"]
    print("HIDDEN_SKIPS %d" % (1 if hidden_skips else 0))
    print("TOK_ERANGE %d TOK_ZERO %d TOK_ULLPOS %d" % (uf, 1 if zf else 0, 1 if pu else 0))
    print("INC_BLANK %d NS_RULE %d REPRZ %d" % (1 if blank else 0, 1 if nsrule else 0, 1 if reprz else 0))
    fl_ = re.sub(r"\s+", " ", strip_comments(open(os.path.join(REPO, "src", "flush.c")).read()))
    print("NAME_FLAG %d" % (1 if "(flags & GD_WFC_NAME) ? GD_CO_NAME : GD_CO_REPR" in fl_ else 0))
    print("INHERIT_RULE %d" % (1 if "D->fragment[i].byte_sex != P->byte_sex" in fl_ else 0))
    print("STRIP_GUARD %d" % (1 if "ptr = _GD_StripCode(D, me, code, strip_flags); if (ptr == NULL)" in fl_ else 0))
    print("FLUSH_DIGITS %d" % (min(wc) if wc else (min(d for *_, d in fs) if fs else 0)))
    print("flush sites: %d  ascii sites: %d  writer_min_version: %d  parser_gate: %d" % (len(fs), len(asc), len(wmin), len(gates)))
    for p in problems:
        print(p)
    return 3 if problems else 0


if __name__ == "__main__":
    sys.exit(main())
