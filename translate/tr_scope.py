#!/usr/bin/env python3
"""Translator for C09: decision points of the directive interpreter ->
coq/Gen/ScopeParams.v (Definition code_params : params).

Re-read from /repo/src on every run (whitespace-insensitive regexes over the
named functions; anything not recognised is reported as PROBLEM and the
translator exits 3 after writing a file that still compiles):

  parse.c   _GD_ParseDirective   strcmp(ptr,"X")==0 && GD_PVERS_GE(*p,N)  -> g_<x>
                                 GD_PVERS_GE(*p,N) before the slash skip   -> g_slash
                                 FRAMEOFFSET: GD_PVERS_GE(*p,N)?0:10      -> g_fo_base0
                                 /INCLUDE: p->flags = fragment[me].encoding | fragment[me].byte_sex
  parse.c   _GD_ParseFieldSpec   P==NULL && GD_PVERS_GE(*p,N)             -> g_barth
  parse.c   _GD_CodeFromFrag     p->pedantic && p->standards < N           -> g_nsname
  parse.c   _GD_ResolveAlias     loop guard                                -> prm_alias_bounded
  include.c _GD_SetFieldAffixes  if (GD_PVERS_GE(*p,N))                    -> g_nsaffix
  include.c _GD_Include          initialisation of fragment[me].{encoding,byte_sex,
                                 frame_offset,protection}; the /VERSION leak test;
                                 namespace push (conditional or not)
  internal.h GD_MAX_RECURSE_LEVEL, getdata.h.in GD_DIRFILE_STANDARDS_VERSION
"""
import re, sys, os

REPO = os.environ.get("VERIF_REPO", "/repo")
HERE = os.path.dirname(os.path.dirname(os.path.abspath(__file__)))
OUT = os.path.join(HERE, "coq", "Gen", "ScopeParams.v")
problems = []


def rd(name):
    return open(os.path.join(REPO, "src", name), errors="replace").read()


def nocomment(s):
    return re.sub(r"/\*.*?\*/", "", s, flags=re.S)


def func_body(src, name):
    """text of function `name` (from its definition line to the closing brace at column 0)"""
    m = re.search(r"^[A-Za-z_][^\n;]*\b%s\s*\([^;{]*\)\s*(?:gd_nothrow\s*)?\{" % re.escape(name), src, re.M | re.S)
    if not m:
        problems.append("function %s not found" % name)
        return ""
    end = src.find("\n}\n", m.end())
    return src[m.start():end + 3]


def squash(s):
    return re.sub(r"\s+", "", s)


def need(pat, text, what, default):
    m = re.search(pat, text)
    if not m:
        problems.append("cannot read %s" % what)
        return default
    return m.group(1) if m.groups() else True


def main():
    parse = nocomment(rd("parse.c"))
    incl = nocomment(rd("include.c"))
    internal = nocomment(rd("internal.h"))
    gdh = open(os.path.join(REPO, "src", "getdata.h.in"), errors="replace").read()

    pd = squash(func_body(parse, "_GD_ParseDirective"))
    gates = {}
    for word, key in [("ALIAS", "g_alias"), ("ENCODING", "g_encoding"), ("ENDIAN", "g_endian"),
                      ("FRAMEOFFSET", "g_frameoffset"), ("HIDDEN", "g_hidden"), ("INCLUDE", "g_include"),
                      ("NAMESPACE", "g_namespace"), ("PROTECT", "g_protect"), ("REFERENCE", "g_reference"),
                      ("VERSION", "g_version")]:
        ms = re.findall(r'strcmp\(ptr,"%s"\)==0&&GD_PVERS_GE\(\*p,(\d+)\)' % word, pd)
        if len(ms) != 1:
            problems.append("directive gate of %s not found exactly once" % word)
            gates[key] = 0
        else:
            gates[key] = int(ms[0])
    gates["g_slash"] = int(need(r"ptr=in_cols\[0\];if\(GD_PVERS_GE\(\*p,(\d+)\)\)if\(in_cols\[0\]\[0\]=='/'\)ptr\+\+;", pd, "slash rule", 0))
    gates["g_fo_base0"] = int(need(r"D->fragment\[me\]\.frame_offset=gd_strtoll\(in_cols\[1\],NULL,GD_PVERS_GE\(\*p,(\d+)\)\?0:10\);", pd, "FRAMEOFFSET base", 0))
    flags_ok = need(r"p->flags=D->fragment\[me\]\.encoding\|D->fragment\[me\]\.byte_sex\|\(p->flags&\(", pd, "p->flags at /INCLUDE", False)
    # each scoped directive stores into fragment[me]
    for f, what in [("encoding=_GD_ef[i].scheme", "ENCODING store"), ("byte_sex=GD_BIG_ENDIAN", "ENDIAN store"),
                    ("protection=GD_PROTECT_ALL", "PROTECT store")]:
        if ("D->fragment[me]." + f) not in pd:
            problems.append("cannot read %s" % what)
    if "p->standards=atoi(in_cols[1]);" not in pd:
        problems.append("cannot read VERSION store")
    if not re.search(r'free\(\*ref_name\);\*ref_name=_GD_InputCode\(D,p,me,in_cols\[1\]\);', pd):
        problems.append("cannot read REFERENCE store")
    if not re.search(r"if\(new_ref\)\{free\(\*ref_name\);\*ref_name=new_ref;\}", pd):
        problems.append("cannot read /INCLUDE reference hand-back")

    pfs = squash(func_body(parse, "_GD_ParseFieldSpec"))
    gates["g_barth"] = int(need(r"if\(P==NULL&&GD_PVERS_GE\(\*p,(\d+)\)\)\{P=_GD_CheckParent", pfs, "barth-style gate", 0))
    if not re.search(r"if\(!D->error&&D->fragment\[E->fragment_index\]\.ref_name==NULL\)if\(D->reference_field==NULL\)D->reference_field=E;", pfs):
        problems.append("cannot read first-RAW rule")
    cff = squash(func_body(parse, "_GD_CodeFromFrag"))
    gates["g_nsname"] = int(need(r"_GD_BuildCode\(D,me,p->ns,p->nsl,code,p->pedantic&&p->standards<(\d+),offset\)", cff, "namespace gate of names", 0))
    ic = squash(func_body(parse, "_GD_InputCode"))
    m = re.search(r"_GD_BuildCode\(D,me,p->ns,p->nsl,token,\(p->pedantic&&p->standards<=5\)\|\(\(!p->pedantic\|\|p->standards>=(\d+)\)\?GD_CO_REPRZ:0\),NULL\)", ic)
    if m:
        reprz = int(m.group(1))
    elif re.search(r"_GD_BuildCode\(D,me,p->ns,p->nsl,token,p->pedantic&&p->standards<=5,NULL\)", ic):
        reprz = 0
    else:
        problems.append("cannot read _GD_InputCode"); reprz = 0
    ra = squash(func_body(parse, "_GD_ResolveAlias"))
    if re.search(r"elseif\(base==T\)T=NULL;else", ra):
        bounded = False
    elif re.search(r"elseif\(base==T\|\|depth>=D->n_entries\)T=NULL;else", ra):
        bounded = True
    else:
        problems.append("cannot read the loop guard of _GD_ResolveAlias")
        bounded = False

    sfa = squash(func_body(incl, "_GD_SetFieldAffixes"))
    gates["g_nsaffix"] = int(need(r"if\(GD_PVERS_GE\(\*p,(\d+)\)\)\{constchar\*nsin=NULL;", sfa, "namespace gate of /INCLUDE", 0))
    if re.search(r"if\(D->fragment\[me\]\.ns==NULL\)\{\*nsl=nsinl;", sfa):
        nullns = False
    elif re.search(r"if\(D->fragment\[me\]\.nsl==0\)\{\*nsl=nsinl;", sfa):
        nullns = True
    else:
        problems.append("cannot read the root-namespace join of _GD_SetFieldAffixes"); nullns = False
    inc = squash(func_body(incl, "_GD_Include"))
    enc_inh = bool(re.search(r"D->fragment\[me\]\.encoding=p->flags&GD_ENCODING;", inc)) and \
        bool(re.search(r"D->fragment\[me\]\.byte_sex=.*?\(p->flags&GD_BIG_ENDIAN\)\?GD_BIG_ENDIAN:GD_LITTLE_ENDIAN", inc)) and bool(flags_ok)
    if not enc_inh:
        problems.append("cannot read encoding/byte_sex initialisation of an included fragment")
    if re.search(r"D->fragment\[me\]\.frame_offset=D->fragment\[parent\]\.frame_offset;", inc):
        off_inh = True
    elif re.search(r"D->fragment\[me\]\.frame_offset=0;", inc):
        off_inh = False
    else:
        problems.append("cannot read frame_offset initialisation"); off_inh = True
    if re.search(r"D->fragment\[me\]\.protection=D->fragment\[parent\]\.protection;", inc):
        prot_inh = True
    elif re.search(r"D->fragment\[me\]\.protection=GD_PROTECT_NONE;", inc):
        prot_inh = False
    else:
        problems.append("cannot read protection initialisation"); prot_inh = False
    m = re.search(r"if\(\(oldp\.standards>=(\d+)&&oldp\.pedantic\)\|\|p->standards>=(\d+)\)\{if\(p->standards!=oldp\.standards\)\{p->standards=oldp\.standards;D->flags\|=GD_MULTISTANDARD;\}if\(!oldp\.pedantic\)p->pedantic=0;\}", inc)
    if m:
        leak_p, leak_c = int(m.group(1)), int(m.group(2))
    else:
        problems.append("cannot read the /VERSION leak test of _GD_Include"); leak_p = leak_c = 0
    if re.search(r"if\(newns\)\{pop_ns=1;p->ns=NULL;p->nsl=0;\}", inc):
        ns_pop = False
    elif re.search(r"[;}]\{?pop_ns=1;p->ns=NULL;p->nsl=0;\}?", inc):
        ns_pop = True
    else:
        problems.append("cannot read the namespace push of _GD_Include"); ns_pop = False
    if not re.search(r"if\(pop_ns\)\{free\(p->ns\);p->ns=oldp\.ns;p->nsl=oldp\.nsl;\}", inc):
        problems.append("cannot read the namespace pop of _GD_Include")
    if not re.search(r"if\(\+\+D->recurse_level>=GD_MAX_RECURSE_LEVEL\)", inc):
        problems.append("cannot read the recursion test of _GD_Include")
    rmax = int(need(r"#define\s+GD_MAX_RECURSE_LEVEL\s+(\d+)", internal, "GD_MAX_RECURSE_LEVEL", 0))
    std = int(need(r"#define\s+GD_DIRFILE_STANDARDS_VERSION\s+(\d+)", gdh, "GD_DIRFILE_STANDARDS_VERSION", 0))

    b = lambda x: "true" if x else "false"
    os.makedirs(os.path.dirname(OUT), exist_ok=True)
    with open(OUT, "w") as fh:
        fh.write("(* GENERATED by translate/tr_scope.py from %s/src -- do not edit *)\n" % REPO)
        fh.write("From Coq Require Import NArith.\nFrom GD Require Import C09.Scope.\nOpen Scope N_scope.\n\n")
        for p in problems:
            fh.write("(* PROBLEM: %s *)\n" % p)
        fh.write("Definition code_params : params := {|\n")
        fh.write("  prm_prot_inherit := %s; prm_off_inherit := %s; prm_enc_inherit := %s;\n" % (b(prot_inh), b(off_inh), b(enc_inh)))
        fh.write("  prm_recurse_max := %d%%nat; prm_std := %d;\n" % (rmax, std))
        for k in ["g_alias", "g_encoding", "g_endian", "g_frameoffset", "g_hidden", "g_include", "g_namespace",
                  "g_protect", "g_reference", "g_version", "g_slash", "g_barth", "g_nsname", "g_nsaffix", "g_fo_base0"]:
            fh.write("  %s := %d;\n" % (k, gates[k]))
        fh.write("  prm_leak_parent := %d; prm_leak_child := %d;\n" % (leak_p, leak_c))
        fh.write("  prm_alias_bounded := %s; prm_ns_pop := %s; prm_nullns := %s; g_reprz := %d |}.\n" % (b(bounded), b(ns_pop), b(nullns), reprz))
        fh.write("\nDefinition translator_problems : nat := %d%%nat.\n" % len(problems))
    for p in problems:
        print("PROBLEM: " + p)
    print("wrote %s (prot_inherit=%s ns_pop=%s alias_bounded=%s)" % (OUT, prot_inh, ns_pop, bounded))
    return 3 if problems else 0


if __name__ == "__main__":
    sys.exit(main())
