#!/usr/bin/env python3
"""Translator for C06: the CONST storage types and the hand-written CONST type change.

  src/parse.c  _GD_ConstType          -> const_storage      (declared type -> storage type)
  src/mod.c    _GD_Change, case GD_CONST_ENTRY, block "type convert"
                                       -> const_change_table (old declared type, new declared type, cell)
  src/mod.c    case GD_CARRAY_ENTRY must convert with _GD_ConvertType(old storage, new storage)
                                       -> carray_change_uses_convert_type : bool

The CONST block is four branches on the NEW storage type; each assigns one conditional expression
  c1 ? e1 : c2 ? e2 : e3      with  c = (<old or new declared type> & FLAGS),  e = [(T)] *(S*)E->e->u.scalar.d
For every ordered pair of declared types whose storage types differ, the conditions are EVALUATED here with the
flag values of getdata.h.in and the selected expression becomes a `cell` of coq/C06/Convert.v executed between the
two storage types.  Anything not recognised becomes CUnknown and a PROBLEM line (exit 3)."""
import re, sys, os

REPO = os.environ.get("VERIF_REPO", "/repo")
HERE = os.path.dirname(os.path.dirname(os.path.abspath(__file__)))
OUT = os.path.join(HERE, "coq", "Gen", "ConstChange.v")
CT = {"int8_t": "I8", "uint8_t": "U8", "int16_t": "I16", "uint16_t": "U16", "int32_t": "I32",
      "uint32_t": "U32", "int64_t": "I64", "uint64_t": "U64", "float": "F32", "double": "F64"}
GT = ["GD_INT8", "GD_UINT8", "GD_INT16", "GD_UINT16", "GD_INT32", "GD_UINT32", "GD_INT64", "GD_UINT64",
      "GD_FLOAT32", "GD_FLOAT64", "GD_COMPLEX64", "GD_COMPLEX128"]
problems = []


def strip_comments(s):
    return re.sub(r"/\*.*?\*/", "", s, flags=re.S)


def type_values():
    h = open(os.path.join(REPO, "src", "getdata.h.in")).read()
    val = {}
    for m in re.finditer(r"#define\s+(GD_(?:SIZE\d+|SIGNED|IEEE754|COMPLEX|CHAR))\s+(0x[0-9a-fA-F]+)", h):
        val[m.group(1)] = int(m.group(2), 16)
    for m in re.finditer(r"^\s*(GD_\w+)\s*=\s*([A-Z0-9_| \t]+?),?\s*(?:/\*.*)?$", h, re.M):
        try:
            val[m.group(1)] = eval(m.group(2), {}, val)
        except Exception:
            pass
    for g in GT:
        if g not in val:
            problems.append("getdata.h.in: no value for %s" % g)
            val[g] = 0
    return val


def const_storage():
    s = strip_comments(open(os.path.join(REPO, "src", "parse.c")).read())
    i = s.find("gd_type_t _GD_ConstType(")
    st = {}
    if i < 0:
        problems.append("no _GD_ConstType in src/parse.c")
        return st
    body = s[i:]
    body = body[:re.search(r"^}\s*$", body, re.M).start()]
    pend = []
    for ln in body.split("\n"):
        t = ln.strip()
        m = re.fullmatch(r"case (GD_\w+):", t)
        if m:
            pend.append(m.group(1)); continue
        m = re.fullmatch(r"return (GD_\w+);", t)
        if m:
            for p in pend:
                st[p] = m.group(1)
            pend = []
    for g in GT:
        if g not in st:
            problems.append("_GD_ConstType: no case for %s" % g)
    return st


def parse_expr(e):
    """[(T)]*(S*)E->e->u.scalar.d  ->  (cast or None, S)"""
    m = re.fullmatch(r"(?:\((\w+)\))?\*\((\w+)\*\)E->e->u\.scalar\.d", e)
    if not m or m.group(2) not in CT or (m.group(1) and m.group(1) not in CT):
        return None
    return (m.group(1), m.group(2))


def split_cond(e):
    """c1?e1:c2?e2:e3 (no nested parentheses containing ? or :) -> [(cond, expr), ..., (None, expr)]"""
    out = []
    while True:
        q = e.find("?")
        if q < 0:
            out.append((None, e)); return out
        c = e.find(":", q)
        if c < 0:
            return None
        out.append((e[:q], e[q + 1:c]))
        e = e[c + 1:]


def eval_cond(c, old, new, val):
    m = re.fullmatch(r"\((E->EN\(scalar,const_type\)|Q\.EN\(scalar,const_type\))&\(?((?:GD_\w+\|?)+)\)?\)", c)
    if not m:
        return None
    who = old if m.group(1).startswith("E->") else new
    mask = 0
    for f in m.group(2).split("|"):
        if f not in val:
            return None
        mask |= val[f]
    return (val[who] & mask) != 0


def const_change(val, st):
    s = strip_comments(open(os.path.join(REPO, "src", "mod.c")).read())
    i = s.find("case GD_CONST_ENTRY:", s.find("static int _GD_Change("))
    j = s.find("case GD_CARRAY_ENTRY:", i)
    if i < 0 or j < 0:
        problems.append("mod.c: CONST/CARRAY cases of _GD_Change not found")
        return {}, False
    blk = re.sub(r"\s+", "", s[i:j])
    carr = re.sub(r"\s+", "", s[j:s.find("case GD_", j + 10)])
    carray_ok = "_GD_ConvertType(D,E->e->u.scalar.d,_GD_ConstType(D,E->EN(scalar,const_type)),Qe.u.scalar.d,type,n);" in carr \
        and "type=_GD_ConstType(D,Q.EN(scalar,const_type));" in carr
    if not carray_ok:
        problems.append("mod.c: CARRAY type change is not the recognised _GD_ConvertType(old storage -> new storage) call")
    if "type=_GD_ConstType(D,Q.EN(scalar,const_type));" not in blk or \
       "if(type==_GD_ConstType(D,E->EN(scalar,const_type)))Qe.u.scalar.d=E->e->u.scalar.d;else{" not in blk:
        problems.append("mod.c: CONST type change: storage-type dispatch not recognised")
    k = blk.find("Qe.u.scalar.d=_GD_Malloc(D,GD_SIZE(type));")
    e = blk.find("free(E->e->u.scalar.d);")
    if k < 0 or e < 0:
        problems.append("mod.c: CONST type change block not recognised")
        return {}, carray_ok
    body = blk[k:e]
    body = body[body.find("if(type=="):]
    # branches: if(type==GD_X){...}elseif(type==GD_Y)stmt;elseif(...)stmt;elsestmt;
    branches = {}
    m = re.match(r"if\(type==(GD_\w+)\)\{(.*?)\}elseif\(type==(GD_\w+)\)(.*?;)elseif\(type==(GD_\w+)\)(.*?;)else(.*?;)$", body)
    if not m:
        problems.append("mod.c: CONST type change: branch structure not recognised: " + body[:200])
        return {}, carray_ok
    branches[m.group(1)] = m.group(2)
    branches[m.group(3)] = m.group(4)
    branches[m.group(5)] = m.group(6)
    rest = [g for g in ("GD_COMPLEX128", "GD_FLOAT64", "GD_INT64", "GD_UINT64") if g not in branches]
    if len(rest) != 1:
        problems.append("mod.c: CONST type change: branches are %s" % sorted(branches))
        return {}, carray_ok
    branches[rest[0]] = m.group(7)
    DP = {"GD_COMPLEX128": "double", "GD_FLOAT64": "double", "GD_INT64": "int64_t", "GD_UINT64": "uint64_t"}
    cells = {}
    for old in GT:
        for new in GT:
            so, sn = st.get(old), st.get(new)
            if so is None or sn is None or so == sn:
                continue
            stm = branches.get(sn)
            cell = "CUnknown"
            why = None
            if stm is None:
                why = "no branch for storage type " + sn
            else:
                if sn == "GD_COMPLEX128":
                    mm = re.fullmatch(r"\*\(double\*\)Qe\.u\.scalar\.d=(.*);\(\(double\*\)Qe\.u\.scalar\.d\)\[1\]=0;", stm)
                else:
                    mm = re.fullmatch(r"\*\(%s\*\)Qe\.u\.scalar\.d=(.*);" % re.escape(DP[sn]), stm)
                if not mm:
                    why = "assignment not recognised: " + stm[:120]
                else:
                    alts = split_cond(mm.group(1))
                    sel = None
                    if alts is None:
                        why = "conditional expression not recognised"
                    else:
                        for c, ex in alts:
                            if c is None:
                                sel = ex; break
                            v = eval_cond(c, old, new, val)
                            if v is None:
                                why = "condition not recognised: " + c; break
                            if v:
                                sel = ex; break
                    if sel is not None:
                        pe = parse_expr(sel)
                        if pe is None:
                            why = "expression not recognised: " + sel
                        else:
                            cast, srcp = pe
                            dst = CT[DP[sn]]
                            cast = CT[cast] if cast else dst
                            src = CT[srcp]
                            if sn == "GD_COMPLEX128":
                                cell = "CToComplex %s %s" % (dst, src) if cast == dst else "CUnknown"
                            elif so == "GD_COMPLEX128":
                                cell = "CFromComplex %s %s" % (dst, src) if cast == dst else "CUnknown"
                            else:
                                cell = "CLoop false %s %s %s" % (dst, cast, src)
                            if cell == "CUnknown":
                                why = "cast %s differs from the destination element type %s" % (cast, dst)
            if why:
                problems.append("CONST %s -> %s: %s" % (old, new, why))
            cells[(old, new)] = cell
    return cells, carray_ok


def main():
    val = type_values()
    st = const_storage()
    cells, carray_ok = const_change(val, st)
    T = lambda g: g.replace("GD_", "T_")
    out = ["(* GENERATED by translate/tr_constchange.py from %s/src/{parse.c,mod.c,getdata.h.in} -- do not edit *)" % REPO,
           "From GD Require Import C06.Convert.", "Require Import ZArith List Bool. Import ListNotations. Local Open Scope Z_scope.", "",
           "(* _GD_ConstType: declared type of a CONST/CARRAY -> type its value is stored in *)",
           "Definition const_storage : list (gdtype * gdtype) := ["]
    out.append(";\n".join("  (%s, %s)" % (T(g), T(st[g])) for g in GT if g in st))
    out += ["].", "",
            "(* _GD_Change, GD_CONST_ENTRY: what is executed between the two storage types when the declared type changes *)",
            "Definition const_change_table : list (gdtype * gdtype * cell) := ["]
    out.append(";\n".join("  (%s, %s, %s)" % (T(a), T(b), c) for (a, b), c in cells.items()))
    out += ["].", "",
            "(* _GD_Change, GD_CARRAY_ENTRY converts with _GD_ConvertType(old storage type -> new storage type) *)",
            "Definition carray_change_uses_convert_type : bool := %s." % ("true" if carray_ok else "false"), ""]
    os.makedirs(os.path.dirname(OUT), exist_ok=True)
    new = "\n".join(out)
    if not os.path.exists(OUT) or open(OUT).read() != new:
        open(OUT, "w").write(new)
    for p in problems:
        print("PROBLEM " + p)
    print("tr_constchange: %d storage rows, %d change cells, %d problems" % (len(st), len(cells), len(problems)))
    return 3 if problems else 0


if __name__ == "__main__":
    sys.exit(main())
