#!/usr/bin/env python3
"""Translator for C08: every Standards Version gate of the format parser
(src/parse.c, src/name.c, src/internal.h) -> coq/Gen/Gates.v.

Extracted (anything that cannot be found is reported as PROBLEM and left out
of the table, so that the comparison theorem in coq/C08/GatesProofs.v fails):

* field types:  strcmp(in_cols[1], "X") == 0 [&& GD_PVERS_GE(*p, N)] inside
                _GD_ParseFieldSpec (no gate = Version 0)
* directives:   strcmp(ptr, "X") == 0 && GD_PVERS_GE(*p, N) inside
                _GD_ParseDirective
* syntax gates: one regular expression each (escapes, quotes, slashed
                metafield names, optional/mandatory slash, /ENDIAN arm, integer
                literal base, type names, FILEFRAM)
* reserved field names in _GD_ValidateField (src/name.c)
* the macro GD_PVERS_GE itself must be (!(p).pedantic || (p).standards >= (v))
"""
import re, sys, os

REPO = os.environ.get("VERIF_REPO", "/repo")
HERE = os.path.dirname(os.path.dirname(os.path.abspath(__file__)))
OUT = os.path.join(HERE, "coq", "Gen", "Gates.v")

FIELDS = ["BIT", "CARRAY", "CONST", "DIVIDE", "INDIR", "LINCOM", "LINTERP", "MPLEX", "MULTIPLY", "PHASE",
          "POLYNOM", "RAW", "RECIP", "SBIT", "SINDIR", "SARRAY", "STRING", "WINDOW"]
DIRECTIVES = ["ALIAS", "ENCODING", "ENDIAN", "FRAMEOFFSET", "HIDDEN", "INCLUDE", "META", "NAMESPACE", "PROTECT",
              "REFERENCE", "VERSION"]
RESERVED = ["FRAMEOFFSET", "ENCODING", "ENDIAN", "INCLUDE", "META", "VERSION", "PROTECT", "REFERENCE"]

SYNTAX = [
    ("S_ESCAPES", r"\*ip == '\\\\' && GD_PVERS_GE\(\*p, (\d+)\)"),
    ("S_QUOTES", r"\*ip == '\"' && GD_PVERS_GE\(\*p, (\d+)\)"),
    ("S_META_SLASH", r"P == NULL && GD_PVERS_GE\(\*p, (\d+)\)\) \{\s*P = _GD_CheckParent"),
    ("S_SLASH_OPTIONAL", r"if \(GD_PVERS_GE\(\*p, (\d+)\)\)\s*if \(in_cols\[0\]\[0\] == '/'\)\s*ptr\+\+;"),
    ("S_SLASH_REQUIRED", r"p->standards >= (\d+) && p->pedantic && in_cols\[0\]\[0\] != '/'\) \{\s*dreturn\(\"%i\", 0\);\s*return 0;"),
    ("S_ENDIAN_ARM", r"n_cols > 2 && GD_PVERS_GE\(\*p, (\d+)\)\) \{\s*if \(strcmp\(in_cols\[2\], \"arm\"\) == 0\)"),
    ("S_INT_PREFIX", r"const int base = \(!pedantic \|\| standards >= (\d+)\) \? 0 : 10;"),
    ("S_FRAMEOFFSET_PREFIX", r"frame_offset = gd_strtoll\(in_cols\[1\], NULL,\s*GD_PVERS_GE\(\*p, (\d+)\) \? 0 : 10\);"),
    ("S_NEW_TYPES", r"else if \(pedantic && standards < (\d+)\)\s*t = GD_UNKNOWN;\s*else if \(type\[0\] == 'I'\)"),
    ("S_COMPLEX_TYPES", r"else if \(pedantic && standards < (\d+)\)\s*t = GD_UNKNOWN;\s*else if \(strcmp\(type, \"COMPLEX128\"\) == 0\)"),
    ("S_NO_TYPE_CHARS", r"type\[0\] != '\\0' && type\[1\] == '\\0' && \(!pedantic \|\| standards < (\d+)\)\)\s*t = _GD_LegacyType"),
    ("S_NO_FILEFRAM", r"p->pedantic &&\s*p->standards < (\d+) && strcmp\(in_cols\[0\], \"FILEFRAM\"\) == 0"),
]


def strip_comments(s):
    return re.sub(r"/\*.*?\*/", " ", s, flags=re.S)


def function_body(src, header_re):
    m = re.search(header_re, src)
    if not m:
        return None
    i = src.index("{", m.end())
    depth = 0
    for j in range(i, len(src)):
        if src[j] == "{":
            depth += 1
        elif src[j] == "}":
            depth -= 1
            if depth == 0:
                return src[i:j + 1]
    return None


def main():
    problems = []
    entries = []
    try:
        parse = strip_comments(open(os.path.join(REPO, "src", "parse.c")).read())
        name = strip_comments(open(os.path.join(REPO, "src", "name.c")).read())
        internal = open(os.path.join(REPO, "src", "internal.h")).read()
    except OSError as e:
        parse = name = internal = ""
        problems.append("cannot read sources: %s" % e)

    if "#define GD_PVERS_GE(p, v) (!(p).pedantic || (p).standards >= (v))" not in internal:
        problems.append("GD_PVERS_GE is not (!(p).pedantic || (p).standards >= (v))")

    # field types
    body = function_body(parse, r"gd_entry_t \*_GD_ParseFieldSpec\(") or ""
    if not body:
        problems.append("_GD_ParseFieldSpec not found")
    found = {}
    for m in re.finditer(r'strcmp\(in_cols\[1\], "(\w+)"\) == 0(\s*&&\s*GD_PVERS_GE\(\*p, (\d+)\))?', body):
        nm = m.group(1)
        if nm in found:
            problems.append("field type %s tested twice in _GD_ParseFieldSpec" % nm)
        found[nm] = int(m.group(3)) if m.group(3) else 0
    for nm in FIELDS:
        if nm in found:
            entries.append(("T_" + nm, found[nm]))
        else:
            problems.append("no test for field type %s in _GD_ParseFieldSpec" % nm)
    for nm in found:
        if nm not in FIELDS:
            problems.append("field type %s in _GD_ParseFieldSpec is not in the Standards table" % nm)
    # any other use of a gate on in_cols[1] that the pattern above missed
    n_gates = len(re.findall(r"GD_PVERS_(?:GE|LT)\(", body))
    n_seen = sum(1 for v in found.values() if v) + len(re.findall(r"P == NULL && GD_PVERS_GE", body))
    if n_gates != n_seen:
        problems.append("_GD_ParseFieldSpec contains %d version gates, %d understood" % (n_gates, n_seen))

    # directives
    body = function_body(parse, r"static int _GD_ParseDirective\(") or ""
    if not body:
        problems.append("_GD_ParseDirective not found")
    found = {}
    for m in re.finditer(r'strcmp\(ptr, "(\w+)"\) == 0(\s*&&\s*GD_PVERS_GE\(\*p, (\d+)\))?', body):
        nm = m.group(1)
        if nm in found:
            problems.append("directive %s tested twice" % nm)
        found[nm] = int(m.group(3)) if m.group(3) else 0
    for nm in DIRECTIVES:
        if nm in found:
            entries.append(("D_" + nm, found[nm]))
        else:
            problems.append("no test for directive %s in _GD_ParseDirective" % nm)
    for nm in found:
        if nm not in DIRECTIVES:
            problems.append("directive %s in _GD_ParseDirective is not in the Standards table" % nm)
    n_gates = len(re.findall(r"GD_PVERS_(?:GE|LT)\(", body))
    # directive gates + optional slash + ENDIAN arm + FRAMEOFFSET base
    if n_gates != sum(1 for v in found.values() if v) + 3:
        problems.append("_GD_ParseDirective contains %d version gates, %d understood" % (
            n_gates, sum(1 for v in found.values() if v) + 3))

    # syntax gates
    for nm, rx in SYNTAX:
        ms = re.findall(rx, parse)
        if len(ms) != 1:
            problems.append("syntax gate %s: pattern matched %d times" % (nm, len(ms)))
        else:
            entries.append((nm, int(ms[0])))

    # LINCOM without its count: "assume <n> has been omitted" -- gated or not
    body = function_body(parse, r"static gd_entry_t \*_GD_ParseLincom\(") or ""
    m = re.search(r"if \(\*ptr != '\\0'( && GD_PVERS_GE\(\*p, (\d+)\))?\) \{\s*E->EN\(lincom,n_fields\) = \(n_cols - 2\) / 3;", body)
    if not m:
        problems.append("optional LINCOM count: pattern not found in _GD_ParseLincom")
    else:
        entries.append(("S_LINCOM_COUNT_OPTIONAL", int(m.group(2)) if m.group(2) else 0))

    # reserved names (name.c)
    body = function_body(name, r"int _GD_ValidateField\(") or ""
    if not body:
        problems.append("_GD_ValidateField not found")
    m = re.search(r"if \(strict && standards < (\d+)\)\s*if \(((?:.|\n)*?)\)\s*\{", body)
    if not m:
        problems.append("reserved-name block of _GD_ValidateField not found")
    else:
        until = int(m.group(1))
        found = {}
        for mm in re.finditer(r'\(strcmp\("(\w+)", field_code\) == 0 && standards >= (\d+)\)', m.group(2)):
            found[mm.group(1)] = int(mm.group(2))
        for nm in RESERVED:
            if nm in found:
                entries.append(("R_" + nm, found[nm]))
            else:
                problems.append("reserved name %s not found in _GD_ValidateField" % nm)
        for nm in found:
            if nm not in RESERVED:
                problems.append("reserved name %s in _GD_ValidateField is not in the Standards table" % nm)
        entries.append(("R_UNTIL", until))

    os.makedirs(os.path.dirname(OUT), exist_ok=True)
    with open(OUT, "w") as fh:
        fh.write("(* GENERATED by translate/tr_gates.py from %s/src/{parse.c,name.c,internal.h} -- do not edit *)\n" % REPO)
        fh.write("From GD Require Import C08.Standards.\nRequire Import List. Import ListNotations.\n\n")
        for p in problems:
            fh.write("(* PROBLEM: %s *)\n" % p.replace("*)", "* )"))
        fh.write("Definition code_gates : list (gname * nat) := [\n")
        fh.write(";\n".join("  (%s, %d)" % e for e in entries))
        fh.write("\n].\n\nDefinition translator_problems : nat := %d.\n" % len(problems))
    for p in problems:
        print("PROBLEM: " + p)
    print("tr_gates: %d gates, %d problems -> %s" % (len(entries), len(problems), OUT))
    return 0


if __name__ == "__main__":
    sys.exit(main())
