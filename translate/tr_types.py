#!/usr/bin/env python3
"""Translator for C06: src/types.c (_GD_ConvertType) -> coq/Gen/ConvTable.v.

Walks the two-level switch (in_type, out_type) and emits one `cell` per
ordered pair of the twelve sample types.  Recognised statement shapes:

  memcpy(data_out, data_in, [k *] n * [k *] sizeof(T));
  for (i = 0; i < [2 *] n; i++) ((D *)data_out)[i] = (C)((S *)data_in)[i];
  TO_COMPLEX(ot,it);    FROM_COMPLEX(ot,it);

(with the C99 definitions of the two macros, which are checked textually).
Anything else is emitted as `CUnknown` with the offending text in a comment
and the translator exits 3 after writing the table, so the check can report
that the theorem is no longer about the code.
"""
import re, sys, os

REPO = os.environ.get("VERIF_REPO", "/repo")
HERE = os.path.dirname(os.path.dirname(os.path.abspath(__file__)))
OUT = os.path.join(HERE, "coq", "Gen", "ConvTable.v")

CT = {"int8_t": "I8", "uint8_t": "U8", "int16_t": "I16", "uint16_t": "U16", "int32_t": "I32",
      "uint32_t": "U32", "int64_t": "I64", "uint64_t": "U64", "float": "F32", "double": "F64"}
GT = ["GD_INT8", "GD_UINT8", "GD_INT16", "GD_UINT16", "GD_INT32", "GD_UINT32", "GD_INT64", "GD_UINT64",
      "GD_FLOAT32", "GD_FLOAT64", "GD_COMPLEX64", "GD_COMPLEX128"]
COQ_GT = {g: g.replace("GD_", "T_") for g in GT}

MACRO_TO = """#define TO_COMPLEX(ot,it) \\
  do { \\
    for (i = 0; i < n; i++) { \\
      ((_Complex ot *)data_out)[i] = (_Complex ot)((it *)data_in)[i]; \\
    } \\
  } while (0)"""
MACRO_FROM = """#define FROM_COMPLEX(ot,it) \\
  do { \\
    for (i = 0; i < n; i++) { \\
      ((ot *)data_out)[i] = (ot)((_Complex it *)data_in)[i]; \\
    } \\
  } while (0)"""


def strip_comments(s):
    return re.sub(r"/\*.*?\*/", "", s, flags=re.S)


def parse_stmt(body):
    # whitespace-insensitive: all blanks are removed before matching
    b = re.sub(r"\s+", "", body)
    b = re.sub(r"return;$", "", b)
    m = re.fullmatch(r"memcpy\(data_out,data_in,(.*)\);", b)
    if m:
        e = m.group(1)
        m2 = re.fullmatch(r"(?:(\d+)\*)?n\*(?:(\d+)\*)?sizeof\((\w+)\)", e)
        if m2 and m2.group(3) in CT:
            k = int(m2.group(1) or 1) * int(m2.group(2) or 1)
            return "CMemcpy %d %s" % (k, CT[m2.group(3)])
        return None
    m = re.fullmatch(r"for\(i=0;i<(2\*)?n;i\+\+\)\{?\(\((\w+)\*\)data_out\)\[i\]=\((\w+)\)\(\((\w+)\*\)data_in\)\[i\];\}?", b)
    if m and all(x in CT for x in m.groups()[1:]):
        return "CLoop %s %s %s %s" % ("true" if m.group(1) else "false", CT[m.group(2)], CT[m.group(3)], CT[m.group(4)])
    m = re.fullmatch(r"TO_COMPLEX\((\w+),(\w+)\);", b)
    if m and m.group(1) in CT and m.group(2) in CT:
        return "CToComplex %s %s" % (CT[m.group(1)], CT[m.group(2)])
    m = re.fullmatch(r"FROM_COMPLEX\((\w+),(\w+)\);", b)
    if m and m.group(1) in CT and m.group(2) in CT:
        return "CFromComplex %s %s" % (CT[m.group(1)], CT[m.group(2)])
    return None


def main():
    src = open(os.path.join(REPO, "src", "types.c")).read()
    problems = []
    if MACRO_TO not in src:
        problems.append("TO_COMPLEX (C99 variant) is not the recognised definition")
    if MACRO_FROM not in src:
        problems.append("FROM_COMPLEX (C99 variant) is not the recognised definition")
    s = strip_comments(src)
    i0 = s.find("void _GD_ConvertType(")
    if i0 < 0:
        problems.append("no _GD_ConvertType")
        i0 = 0
    body = s[i0:]
    # cut at the end of the function: first line that is exactly "}" at column 0
    mend = re.search(r"^}\s*$", body, re.M)
    if mend:
        body = body[:mend.start()]
    if "switch (in_type)" not in body:
        problems.append("outer switch (in_type) not found")
    if not re.search(r"if \(out_type == GD_NULL\)\s*return;", body):
        problems.append("GD_NULL early return not found")
    cells = {}
    lines = body.split("\n")
    cur_in = None
    cur_out = None
    acc = []
    depth_in = None

    def flush():
        nonlocal acc
        if cur_in and cur_out and cur_out != "default":
            txt = "\n".join(acc)
            c = parse_stmt(txt)
            if (cur_in, cur_out) in cells:
                problems.append("duplicate case %s->%s" % (cur_in, cur_out))
            if c is None:
                problems.append("unrecognised statement for %s->%s: %s" % (cur_in, cur_out, " ".join(txt.split())))
                cells[(cur_in, cur_out)] = "CUnknown"
            else:
                cells[(cur_in, cur_out)] = c
        acc = []

    for ln in lines:
        st = ln.strip()
        ind = len(ln) - len(ln.lstrip())
        m = re.fullmatch(r"case (GD_\w+):", st)
        if m and ind == 4:
            flush(); cur_in = m.group(1); cur_out = None
            continue
        if st == "default:" and ind == 4:
            flush(); cur_in = None; cur_out = None
            continue
        if m and ind == 8:
            flush(); cur_out = m.group(1)
            continue
        if st == "default:" and ind == 8:
            flush(); cur_out = "default"
            continue
        if cur_in and cur_out and cur_out != "default":
            if st.startswith("switch (out_type)"):
                continue
            acc.append(st)
    flush()
    out = ["(* GENERATED by translate/tr_types.py from %s/src/types.c -- do not edit *)" % REPO,
           "From GD Require Import C06.Convert.", "Require Import ZArith List. Import ListNotations. Local Open Scope Z_scope.", "",
           "Definition conv_table : list (gdtype * gdtype * cell) := ["]
    rows = []
    for a in GT:
        for b in GT:
            c = cells.get((a, b))
            if c is None:
                problems.append("missing case %s->%s" % (a, b))
                c = "CUnknown"
            rows.append("  (%s, %s, %s)" % (COQ_GT[a], COQ_GT[b], c))
    out.append(";\n".join(rows))
    out.append("].")
    out.append("")
    out.append("(* translator problems: %d *)" % len(problems))
    for p in problems:
        out.append("(* PROBLEM: %s *)" % p.replace("*)", "* )"))
    txt = "\n".join(out) + "\n"
    os.makedirs(os.path.dirname(OUT), exist_ok=True)
    old = open(OUT).read() if os.path.exists(OUT) else None
    if old != txt:
        open(OUT, "w").write(txt)
    for p in problems:
        print("PROBLEM: " + p)
    return 3 if problems else 0


if __name__ == "__main__":
    sys.exit(main())
