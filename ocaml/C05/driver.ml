(* C05 driver.  Lines:
     S <first> <nelem> <e1> <v1> <e2> <v2> ...   -> "<count> v0 v1 ..."   (sie_get true)
     R <query> <n>:<i>,<i>;<n>:;...               -> "Ok" | "Recurse" | "BadCode"  (eval_top limit-from-source) *)
open Model

let rec pos_of_int (n : int) : positive =
  if n = 1 then XH else if n land 1 = 1 then XI (pos_of_int (n lsr 1)) else XO (pos_of_int (n lsr 1))
let z_of_int (n : int) : z = if n = 0 then Z0 else if n > 0 then Zpos (pos_of_int n) else Zneg (pos_of_int (-n))
let rec int_of_pos (p : positive) : int = match p with XH -> 1 | XO q -> 2 * int_of_pos q | XI q -> 2 * int_of_pos q + 1
let int_of_z (v : z) : int = match v with Z0 -> 0 | Zpos p -> int_of_pos p | Zneg p -> - (int_of_pos p)
let rec nat_of_int (n : int) : nat = if n <= 0 then O else S (nat_of_int (n - 1))

let words s = List.filter (fun x -> x <> "") (String.split_on_char ' ' (String.trim s))

let () =
  try
    while true do
      let line = input_line stdin in
      match words line with
      | "S" :: first :: nelem :: rest ->
          let rec recs l = match l with
            | e :: v :: r -> { r_end = z_of_int (int_of_string e); r_dat = z_of_int (int_of_string v) } :: recs r
            | _ -> [] in
          let (c, out) = sie_get true (recs rest) (z_of_int (int_of_string first)) (z_of_int (int_of_string nelem)) in
          print_string (string_of_int (int_of_z c));
          List.iter (fun v -> print_string " "; print_string (string_of_int (int_of_z v))) out;
          print_newline ()
      | "R" :: q :: dbs :: _ ->
          let entries = List.filter (fun x -> x <> "") (String.split_on_char ';' dbs) in
          let db = List.map (fun e ->
            match String.split_on_char ':' e with
            | [n; ins] -> (nat_of_int (int_of_string n),
                           List.map (fun i -> nat_of_int (int_of_string i)) (List.filter (fun x -> x <> "") (String.split_on_char ',' ins)))
            | _ -> failwith "bad db") entries in
          let sh r = match r with Ok -> "Ok" | ErrRecurse -> "Recurse" | ErrBadCode -> "BadCode" in
          let qn = nat_of_int (int_of_string q) in
          (* getdata result, then eof/bof/spf-style plain evaluator result *)
          print_endline (sh (get_top gd_max_recurse_level db qn) ^ " " ^ sh (eval_top gd_max_recurse_level db qn))
      | "Z" :: size :: l :: dout :: lb :: ops ->
          (* lzma window: ops "first,n" = seek to sample `first` then read n samples, one handle *)
          let zi x = z_of_int (int_of_string x) in
          let size = zi size and l = zi l and dout = zi dout and lb = zi lb in
          let orc = full_orc dout l in
          let fuel = nat_of_int (2 * (int_of_z l) + 64) in
          let st = ref fresh in
          let buf = Buffer.create 64 in
          List.iter (fun op ->
            match String.split_on_char ',' op with
            | [f; n] ->
                let bc = z_of_int (int_of_string f * int_of_z size) in
                let s1 = lzma_seek dout lb size orc fuel !st bc in
                let start = int_of_z (cursor s1) in
                let ((s2, cnt), _) = lzma_read lb size orc fuel s1 (zi n) in
                st := s2;
                Buffer.add_string buf (Printf.sprintf "%d@%d " (int_of_z cnt) start)
            | _ -> ()) ops;
          print_endline (String.trim (Buffer.contents buf))
      | _ -> print_endline "?"
    done
  with End_of_file -> ()
