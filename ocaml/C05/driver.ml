(* C05 driver.  Lines:
     S <first> <nelem> <e1> <v1> <e2> <v2> ...   -> "<count> v0 v1 ..."   (sie_get true)
     R <query> <n>:<i>,<i>;<n>:;...               -> "Ok" | "Recurse" | "BadCode"  (eval_top limit-from-source) *)
open Model

let rec pos_of_int (n : int) : positive =
  if n = 1 then XH else if n land 1 = 1 then XI (pos_of_int (n lsr 1)) else XO (pos_of_int (n lsr 1))
let z_of_int (n : int) : z = if n = 0 then Z0 else if n > 0 then Zpos (pos_of_int n) else Zneg (pos_of_int (-n))
let rec int_of_pos (p : positive) : int = match p with XH -> 1 | XO q -> 2 * int_of_pos q | XI q -> 2 * int_of_pos q + 1
let int_of_z (v : z) : int = match v with Z0 -> 0 | Zpos p -> int_of_pos p | Zneg p -> - (int_of_pos p)
let rec nat_of_int (n : int) : nat = if n <= 0 then O else S (nat_of_int (n - 1))

let words s = List.filter (fun x -> x <> "") (String.split_on_char ' ' (String.trim s))

let () =
  try
    while true do
      let line = input_line stdin in
      match words line with
      | "S" :: first :: nelem :: rest ->
          let rec recs l = match l with
            | e :: v :: r -> { r_end = z_of_int (int_of_string e); r_dat = z_of_int (int_of_string v) } :: recs r
            | _ -> [] in
          let (c, out) = sie_get true (recs rest) (z_of_int (int_of_string first)) (z_of_int (int_of_string nelem)) in
          print_string (string_of_int (int_of_z c));
          List.iter (fun v -> print_string " "; print_string (string_of_int (int_of_z v))) out;
          print_newline ()
      | "R" :: q :: dbs :: _ ->
          let entries = List.filter (fun x -> x <> "") (String.split_on_char ';' dbs) in
          let db = List.map (fun e ->
            match String.split_on_char ':' e with
            | [n; ins] -> (nat_of_int (int_of_string n),
                           List.map (fun i -> nat_of_int (int_of_string i)) (List.filter (fun x -> x <> "") (String.split_on_char ',' ins)))
            | _ -> failwith "bad db") entries in
          let sh r = match r with Ok -> "Ok" | ErrRecurse -> "Recurse" | ErrBadCode -> "BadCode" in
          let qn = nat_of_int (int_of_string q) in
          (* getdata result, then eof/bof/spf-style plain evaluator result *)
          print_endline (sh (get_top gd_max_recurse_level db qn) ^ " " ^ sh (eval_top gd_max_recurse_level db qn))
      | "Z" :: size :: l :: dout :: lb :: ops ->
          (* lzma window: ops "first,n" = seek to sample `first` then read n samples, one handle *)
          let zi x = z_of_int (int_of_string x) in
          let size = zi size and l = zi l and dout = zi dout and lb = zi lb in
          let orc = full_orc dout l in
          let fuel = nat_of_int (2 * (int_of_z l) + 64) in
          let st = ref fresh in
          let buf = Buffer.create 64 in
          List.iter (fun op ->
            match String.split_on_char ',' op with
            | [f; n] ->
                let bc = z_of_int (int_of_string f * int_of_z size) in
                let (s1, _) = lzma_seek dout lb size orc fuel !st bc in
                let start = int_of_z (cursor s1) in
                let (((s2, cnt), _), _) = lzma_read lb size orc fuel s1 (zi n) in
                st := s2;
                Buffer.add_string buf (Printf.sprintf "%d@%d " (int_of_z cnt) start)
            | _ -> ()) ops;
          print_endline (String.trim (Buffer.contents buf))
      | "B" :: size :: ops ->
          (* bzip2 window: ops "S<k>@<script>" seek, "R<k>@<script>" read, "Z@<script>" size; one handle.
             <script> = "d:n:e,..." (e = 0 BZ_OK, 1 BZ_STREAM_END, E error): the answers BZ2_bzRead gave DURING
             THAT CALL, by decoder position (within one call every position is asked at most once) *)
          let zi x = z_of_int (int_of_string x) in
          let size = zi size in
          let parse script = List.filter_map (fun e ->
            match String.split_on_char ':' e with
            | [d; n; "E"] -> Some (zi d, None)
            | [d; n; f] -> Some (zi d, Some (zi n, f = "1"))
            | _ -> None) (String.split_on_char ',' script) in
          let st = ref bfresh in
          let sts x = match x with BzDone -> "D" | BzErr -> "E" | BzFuel -> "F" in
          let show s = Printf.sprintf "%d %d %d %d %d" (int_of_z s.bbase) (int_of_z s.bpos) (int_of_z s.bend)
                         (if s.bsend then 1 else 0) (int_of_z s.bfpos) in
          let buf = Buffer.create 256 in
          List.iter (fun opx ->
            let (op, script) = match String.index_opt opx '@' with
              | Some i -> (String.sub opx 0 i, String.sub opx (i + 1) (String.length opx - i - 1))
              | None -> (opx, "") in
            let tbl = parse script in
            let orc = bz_script_orc tbl in
            let fuel = nat_of_int (List.length tbl + 4) in
            let k = String.sub op 1 (String.length op - 1) in
            match op.[0] with
            | 'S' ->
                let ((s1, r), stt) = bz_seek size orc fuel !st (zi k) in
                st := s1;
                Buffer.add_string buf (Printf.sprintf "S%s %d %s %s|" k (int_of_z r) (show s1) (sts stt))
            | 'R' ->
                let c0 = int_of_z (bcursor !st) in
                let (((s1, r), out), stt) = bz_read size orc fuel !st (zi k) in
                st := s1;
                let tot = List.fold_left (fun a (_, l) -> a + int_of_z l) 0 out in
                Buffer.add_string buf (Printf.sprintf "R%s %d %s %s %d %d|" k (int_of_z r) (show s1) (sts stt) c0 tot)
            | 'Z' ->
                let (r, stt) = bz_size size orc fuel in
                Buffer.add_string buf (Printf.sprintf "Z %s %s|" (match r with Some v -> string_of_int (int_of_z v) | None -> "-1") (sts stt))
            | _ -> ()) ops;
          print_endline (Buffer.contents buf)
      | _ -> print_endline "?"
    done
  with End_of_file -> ()
