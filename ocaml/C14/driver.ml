(* C14 driver.  stdin lines:
     R <cl> <fault|-1> <oldmetalen> <newmetalen> <nfields> { <renamed 0|1> <oldlen> <nchunks> <len>.. }
        -> T <tokens of replace ++ flush of the format file>
           O <outcome>   n1 <phase-1 length>
           P <j> <consistent 0|1> <per field: o (old intact) n (new in place) b (both) x (neither)> <temps present>
           E
     D <sub 0|1> <tree>     tree := F | L | ( name tree name tree ... )   names are integers, format = 0
        -> U <path/.. r|f> ...      removed names in order
   paths: format 0, its temp 1; field i: old 10+4i, new 11+4i (or old), temp 12+4i *)
open Model

let rec n_of_int (i : int) : n =
  if i = 0 then N0 else
    let rec pos i = if i = 1 then XH else if i land 1 = 1 then XI (pos (i lsr 1)) else XO (pos (i lsr 1)) in
    Npos (pos i)
let rec int_of_pos = function XH -> 1 | XO p -> 2 * int_of_pos p | XI p -> 2 * int_of_pos p + 1
let int_of_n = function N0 -> 0 | Npos p -> int_of_pos p
let rec nat_of_int i = if i <= 0 then O else S (nat_of_int (i - 1))
let rec int_of_nat = function O -> 0 | S n -> 1 + int_of_nat n
let mk_content tag len = List.init len (fun j -> n_of_int ((tag * 7 + j) land 255))
let tfd = n_of_int 100

let pname (p : n) =
  let i = int_of_n p in
  if i = 0 then "FMT" else if i = 1 then "FT" else
    let f = (i - 10) / 4 and r = (i - 10) mod 4 in
    (match r with 0 -> "O" | 1 -> "N" | _ -> "T") ^ string_of_int f

let tok ((s, okb) : step * bool) : string =
  let st = if okb then "ok" else "bad" in
  match s with
  | Creat (_, p, _) -> Printf.sprintf "creat:%s:%s" (pname p) st
  | Write (_, c) -> Printf.sprintf "write:%s" st
  | Fcntl _ -> Printf.sprintf "fcntl:%s" st
  | Fchmod (_, _) -> Printf.sprintf "fchmod:%s" st
  | Close _ -> Printf.sprintf "close:%s" st
  | Rename (p, q) -> Printf.sprintf "rename:%s:%s:%s" (pname p) (pname q) st
  | Unlink p -> Printf.sprintf "unlink:%s:%s" (pname p) st
  | _ -> "other"

type tree = F | L | Dn of (int * tree) list

let () =
  try
    while true do
      let line = input_line stdin in
      let ws = List.filter (fun s -> s <> "") (String.split_on_char ' ' (String.trim line)) in
      match ws with
      | "R" :: rest ->
          let w = Array.of_list (List.map int_of_string rest) in
          let pos = ref 0 in
          let next () = let v = w.(!pos) in incr pos; v in
          let cl = next () = 1 in
          let fault = let k = next () in if k < 0 then None else Some (nat_of_int k) in
          let oml = next () in
          let nml = next () in
          let nf = next () in
          let fs = ref [] and files = ref [] in
          for i = 0 to nf - 1 do
            let ren = next () = 1 in
            let oldlen = next () in
            let nc = next () in
            let chunks = List.init nc (fun c -> let l = next () in mk_content (50 + 16 * i + c) l) in
            let o = n_of_int (10 + 4 * i) in
            let f = { r_old = o; r_new = (if ren then n_of_int (11 + 4 * i) else o); r_tmp = n_of_int (12 + 4 * i);
                      r_chunks = chunks } in
            fs := !fs @ [f];
            files := !files @ [(o, mk_content (200 + i) oldlen)]
          done;
          let fs = !fs in
          let oldmeta = mk_content 3 oml and newmeta = mk_content 5 nml in
          let st0 = mkstate ((n_of_int 0, oldmeta) :: !files) empty_state in
          let (tr1, oc) = replace tfd fs fault in
          let fl = { fpath = n_of_int 0; ftmp = n_of_int 1; fpre = []; fpost = [newmeta]; fextra = []; fperm = n_of_int 420 } in
          let tr = match oc with
            | Done -> tr1 @ mf_trace cl tfd [fl] false None
            | _ -> tr1 in
          print_string "T";
          List.iter (fun t -> print_string (" " ^ tok t)) tr;
          print_newline ();
          Printf.printf "O %s n1 %d\n" (match oc with Done -> "done" | Failed -> "failed" | Unclean -> "unclean")
            (int_of_nat (phase1_len tfd fs));
          let n = List.length tr in
          for j = 0 to n do
            let s = crash tr (nat_of_int j) st0 in
            let c = consistentb (n_of_int 0) oldmeta newmeta fs st0 s in
            let per f =
              let o = (match lookup s f.r_old, lookup st0 f.r_old with Some a, Some b -> a = b | _ -> false) in
              let nw = (match lookup s f.r_new with Some a -> a = newc f | None -> false) in
              if o && nw then "b" else if o then "o" else if nw then "n" else "x" in
            let tmps = List.length (List.filter (fun f -> exists_path s f.r_tmp) fs) in
            Printf.printf "P %d %d %s %d\n" j (if c then 1 else 0) (String.concat "" (List.map per fs)) tmps
          done;
          print_string "E\n"
      | "D" :: sub :: rest ->
          let toks = ref rest in
          let nextt () = match !toks with t :: r -> toks := r; t | [] -> failwith "eof" in
          let rec ptree () =
            match nextt () with
            | "F" -> NFile
            | "L" -> NLink
            | "(" ->
                let rec ents acc =
                  match nextt () with
                  | ")" -> List.rev acc
                  | nm -> let t = ptree () in ents ((n_of_int (int_of_string nm), t) :: acc) in
                NDir (ents [])
            | _ -> failwith "tree" in
          (match ptree () with
           | NDir es ->
               let r = trunc_dir (sub = "1") (nat_of_int 64) true (n_of_int 0) [] es in
               print_string "U";
               List.iter (fun (p, d) ->
                   print_string (" " ^ String.concat "/" (List.map (fun x -> string_of_int (int_of_n x)) p) ^ (if d then ":r" else ":f"))) r;
               print_newline ()
           | _ -> print_string "U ?\n")
      | _ -> ()
    done
  with End_of_file -> ()
