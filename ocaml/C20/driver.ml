(* C20 driver for the extracted print loop of dirfile2ascii (coq/C20/Ascii2.v).
   stdin, one case per line:  <nf> <skip option> <zero 0|1> <ncols> {<spf> <n_read>}*ncols
   stdout: one line per case: rows "<k>,<j>:<cells>" separated by ';', cells by ' ':
     D<idx> | F | I<at>,<lo>,<hi>,<num>,<den>        *)
open Model

let rec pos_of_int (n : int) : positive =
  if n = 1 then XH else if n land 1 = 1 then XI (pos_of_int (n lsr 1)) else XO (pos_of_int (n lsr 1))
let z_of_int (n : int) : z = if n = 0 then Z0 else if n > 0 then Zpos (pos_of_int n) else Zneg (pos_of_int (-n))
let rec int_of_pos = function XH -> 1 | XO p -> 2 * int_of_pos p | XI p -> 2 * int_of_pos p + 1
let int_of_z = function Z0 -> 0 | Zpos p -> int_of_pos p | Zneg p -> - (int_of_pos p)
let rec nat_of_int n = if n <= 0 then O else S (nat_of_int (n - 1))

let show_cell = function
  | Data i -> Printf.sprintf "D%d" (int_of_z i)
  | Fill -> "F"
  | Interp (a, lo, hi, num, den) -> Printf.sprintf "I%d,%d,%d,%d,%d" (int_of_z a) (int_of_z lo) (int_of_z hi) (int_of_z num) (int_of_z den)

let () =
  try
    while true do
      let line = input_line stdin in
      if String.length line > 0 && line.[0] = 'C' then begin
        (* C <open 0 ok|1 format|2 other> <n_syntax> <validate failures> <validated entries> <dangling> <nframes_err 0|1> *)
        match List.map int_of_string (List.filter (fun s -> s <> "") (String.split_on_char ' ' (String.sub line 1 (String.length line - 1)))) with
        | [op; ns; nfail; ntot; dang; nfe] ->
            let rec mk k b = if k <= 0 then [] else b :: mk (k - 1) b in
            let i = { opened = (if op = 0 then OpenOk else if op = 1 then OpenFormat else OpenOther); n_syntax = nat_of_int ns;
                      validate_fail = mk nfail true @ mk (ntot - nfail) false; dangling = nat_of_int dang; nframes_err = (nfe <> 0) } in
            let o = checkdirfile i in
            let rec int_of_nat = function O -> 0 | S k -> 1 + int_of_nat k in
            Printf.printf "exit %d syntax %d problems %d\n" (int_of_z o.exit_code) (int_of_nat o.syntax_reported) (int_of_nat o.problems_reported)
        | _ -> print_endline "?"
      end else
      match List.map int_of_string (List.filter (fun s -> s <> "") (String.split_on_char ' ' (String.trim line))) with
      | nf :: skip :: zero :: ncols :: rest ->
          let rec cols k l = if k = 0 then [] else match l with
            | s :: r :: t -> { spf = z_of_int s; n_read = z_of_int r } :: cols (k - 1) t
            | _ -> [] in
          let cs = cols ncols rest in
          let rs = rows (z_of_int nf) (z_of_int skip) (zero <> 0) cs (nat_of_int (nf + 2)) in
          print_endline (String.concat ";" (List.map (fun ((k, j), cells) -> Printf.sprintf "%d,%d:" (int_of_z k) (int_of_z j) ^ String.concat " " (List.map show_cell cells)) rs))
      | _ -> print_endline "?"
    done
  with End_of_file -> ()
