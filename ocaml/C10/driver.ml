(* C10 driver: evaluates the extracted guard / call model on request lines.
   Numbers are decimal, arbitrary size.  See checks/C10.py for the protocol. *)
module M = Model

let z_of_int (n : int) : M.z =
  let rec pos n = if n = 1 then M.XH else if n land 1 = 1 then M.XI (pos (n lsr 1)) else M.XO (pos (n lsr 1)) in
  if n = 0 then M.Z0 else if n > 0 then M.Zpos (pos n) else M.Zneg (pos (-n))

let ten = z_of_int 10

let z_of_string (s : string) : M.z =
  let neg = String.length s > 0 && s.[0] = '-' in
  let acc = ref M.Z0 in
  String.iteri (fun i c ->
    if c >= '0' && c <= '9' then acc := M.Z.add (M.Z.mul !acc ten) (z_of_int (Char.code c - 48))
    else if not (i = 0 && (c = '-' || c = '+')) then failwith ("bad number " ^ s)) s;
  if neg then M.Z.opp !acc else !acc

let rec int_of_pos (p : M.positive) : int =
  match p with M.XH -> 1 | M.XO q -> 2 * int_of_pos q | M.XI q -> 2 * int_of_pos q + 1

let small_int (v : M.z) : int = match v with M.Z0 -> 0 | M.Zpos p -> int_of_pos p | M.Zneg p -> - (int_of_pos p)

let string_of_z (v : M.z) : string =
  let neg, a = (match v with M.Zneg _ -> true, M.Z.opp v | _ -> false, v) in
  if a = M.Z0 then "0" else begin
    let b = Buffer.create 24 in
    let cur = ref a in
    while !cur <> M.Z0 do
      let d = small_int (M.Z.modulo !cur ten) in
      Buffer.add_char b (Char.chr (48 + d));
      cur := M.Z.div !cur ten
    done;
    let s = Buffer.contents b in
    let n = String.length s in
    (if neg then "-" else "") ^ String.init n (fun i -> s.[n - 1 - i])
  end

let coq_string (s : string) : M.string =
  let rec go i = if i >= String.length s then M.EmptyString else
    let c = Char.code s.[i] in
    let b k = (c lsr k) land 1 = 1 in
    M.String (M.Ascii (b 0, b 1, b 2, b 3, b 4, b 5, b 6, b 7), go (i + 1)) in
  go 0

let ocaml_string (s : M.string) : string =
  let b = Buffer.create 16 in
  let rec go = function
    | M.EmptyString -> ()
    | M.String (M.Ascii (b0, b1, b2, b3, b4, b5, b6, b7), r) ->
      let v k x = if x then 1 lsl k else 0 in
      Buffer.add_char b (Char.chr (v 0 b0 + v 1 b1 + v 2 b2 + v 3 b3 + v 4 b4 + v 5 b5 + v 6 b6 + v 7 b7)); go r in
  go s; Buffer.contents b

let zs = z_of_string
let bs b = if b then "1" else "0"
let show_range (r : M.range_res) = match r with M.Reject -> "R" | M.Accept (a, b) -> "A " ^ string_of_z a ^ " " ^ string_of_z b

let state : M.st ref = ref { M.s_rw = true; M.s_prot = []; M.s_ents = []; M.s_lvl = M.Z0 }

let show_outcome (o : M.outcome) = match o with
  | M.Ok r -> "O " ^ string_of_z r | M.Err e -> "E " ^ string_of_z e | M.Crash -> "C"

let () =
  try
    while true do
      let line = input_line stdin in
      let toks = List.filter (fun s -> s <> "") (String.split_on_char ' ' (String.trim line)) in
      (match toks with
       | ["frames"; which; spf; ff; fs; nf; ns] ->
         let f = if which = "get" then M.getdata64_range else M.putdata64_range in
         let (r, ub) = f (zs spf) (zs ff) (zs fs) (zs nf) (zs ns) in
         print_endline (show_range r ^ " ub" ^ bs ub)
       | ["dofield"; szr; szn; fs; ns] -> print_endline (show_range (M.dofield_guard (zs szr) (zs szn) (zs fs) (zs ns)))
       | ["seeks"; spf; fr; sa] ->
         let (r, ub) = M.seek64_sample (zs spf) (zs fr) (zs sa) in
         print_endline ((match r with None -> "N" | Some v -> "S " ^ string_of_z v) ^ " ub" ^ bs ub)
       | ["seeko"; sa; pos] ->
         print_endline (match M.seek64_offset (zs sa) (zs pos) with None -> "N" | Some v -> "S " ^ string_of_z v)
       | ["seeke"; o] -> print_endline (bs (M.seek_entry_guard (zs o)))
       | ["doseek"; sz; o] -> print_endline (bs (M.doseek_guard (zs sz) (zs o)))
       | ["slice"; fn; start; n; len] ->
         let form = (try snd (List.find (fun (k, _) -> ocaml_string k = fn) M.slice_forms) with Not_found -> M.SliceUnknown) in
         print_endline (bs (M.slice_guard form (zs start) (zs n) (zs len)))
       | ["addbit"; b; n] -> let (r, ub) = M.addbit_guard_f M.addbit_form (zs b) (zs n) in print_endline (bs r ^ " ub" ^ bs ub)
       | ["frag"; i; n] -> print_endline (bs (M.fragment_guard (zs i) (zs n)))
       | ["fraga"; i; n] -> print_endline (bs (M.fragment_guard_all (zs i) (zs n)))
       | ["leaks"] ->
         print_endline (String.concat ";" (List.map (fun (a, b) -> ocaml_string a ^ "|" ^ ocaml_string b) (M.leaks M.recurse_table))
                        ^ " balanced" ^ bs (M.table_balanced M.recurse_table)
                        ^ " in" ^ string_of_z M.gen_leak_in ^ " out" ^ string_of_z M.gen_leak_out)
       | "reset" :: rw :: prots ->
         state := { M.s_rw = (rw = "1"); M.s_prot = List.map zs prots; M.s_ents = []; M.s_lvl = M.Z0 };
         print_endline "ok"
       | "ent" :: name :: kind :: frag :: rest ->
         (* ent name kind frag v1 v2 ... | ref1 ref2 ... *)
         let rec split acc = function [] -> (List.rev acc, []) | "|" :: r -> (List.rev acc, r) | x :: r -> split (x :: acc) r in
         let (vals, refs) = split [] rest in
         let e = { M.e_name = coq_string name; M.e_kind = zs kind; M.e_frag = zs frag;
                   M.e_vals = List.map zs vals; M.e_refs = List.map coq_string refs } in
         state := { !state with M.s_ents = !state.M.s_ents @ [e] };
         print_endline "ok"
       | "call" :: rest ->
         let c = (match rest with
           | ["put"; name; start; n; v] -> M.CPutSlice (coq_string name, zs start, zs n, zs v)
           | ["get"; name; start; n] -> M.CGetSlice (coq_string name, zs start, zs n)
           | ["getdata"; name; ff; fs; nf; ns; szr] -> M.CGetData (coq_string name, zs ff, zs fs, zs nf, zs ns, zs szr)
           | ["add"; name; frag; v] -> M.CAddConst (coq_string name, zs frag, zs v)
           | ["del"; name] -> M.CDelete (coq_string name)
           | ["rename"; name; nn] -> M.CRename (coq_string name, coq_string nn)
           | ["move"; name; frag] -> M.CMove (coq_string name, zs frag)
           | ["altc"; name; len] -> M.CAlterCarray (coq_string name, zs len)
           | _ -> failwith "bad call") in
         let (s', o) = M.gen_step !state c in
         state := s';
         print_endline (show_outcome o ^ " L " ^ string_of_z s'.M.s_lvl)
       | ["obs"] ->
         print_endline (String.concat " " (List.map (fun e ->
           ocaml_string e.M.e_name ^ ":" ^ string_of_z e.M.e_kind ^ ":" ^ string_of_z e.M.e_frag ^ ":" ^
           (if e.M.e_kind = M.k_CARRAY || e.M.e_kind = M.k_CONST then String.concat "," (List.map string_of_z e.M.e_vals) else "")) !state.M.s_ents))
       | [] -> print_endline ""
       | _ -> print_endline ("? " ^ line))
    done
  with End_of_file -> ()
