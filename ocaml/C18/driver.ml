(* C18 driver.  stdin lines:
     W <fsz> <init_len> <nchunks> <len>...     -> per prefix j:  "P j <file length> <nframes>"  then E
     G <fx 0|1> <sz> <nobs> { <content length> }        greedy long-lived reader of a file whose content at
                                               observation i is the first <content length> bytes of the
                                               stream 0,1,2,...(mod 251): prints per observation
                                               "G i <from sample> <got samples> <byte offset of the first byte returned>"
*)
open Model
let rec n_of_int (i : int) : n =
  if i = 0 then N0 else
    let rec pos i = if i = 1 then XH else if i land 1 = 1 then XI (pos (i lsr 1)) else XO (pos (i lsr 1)) in
    Npos (pos i)
let rec int_of_pos = function XH -> 1 | XO p -> 2 * int_of_pos p | XI p -> 2 * int_of_pos p + 1
let int_of_n = function N0 -> 0 | Npos p -> int_of_pos p
let rec nat_of_int i = if i <= 0 then O else S (nat_of_int (i - 1))
let rec int_of_nat = function O -> 0 | S n -> 1 + int_of_nat n
let stream off len = List.init len (fun j -> n_of_int ((off + j) mod 251))

let () =
  try
    while true do
      let line = input_line stdin in
      let ws = List.filter (fun s -> s <> "") (String.split_on_char ' ' (String.trim line)) in
      match ws with
      | "W" :: rest ->
          let w = Array.of_list (List.map int_of_string rest) in
          let fsz = w.(0) and init = w.(1) and nc = w.(2) in
          let d = n_of_int 3 and p = n_of_int 1 in
          let off = ref init in
          let chunks = List.init nc (fun c -> let l = w.(3 + c) in let s = stream !off l in off := !off + l; s) in
          (* initial file *)
          let st0 = crash (writer_trace d p [stream 0 init]) (nat_of_int 2) empty_state in
          let tr = writer_trace d p chunks in
          for j = 0 to List.length tr do
            let c = content_at (crash tr (nat_of_int j) st0) p in
            Printf.printf "P %d %d %d\n" j (List.length c) (int_of_nat (nframes (nat_of_int fsz) c))
          done;
          print_string "E\n"
      | "G" :: rest ->
          let w = Array.of_list (List.map int_of_string rest) in
          let fx = w.(0) = 1 in
          let w = Array.sub w 1 (Array.length w - 1) in
          let sz = w.(0) and nobs = w.(1) in
          let r = ref { rpos = O; roff = O } in
          for i = 0 to nobs - 1 do
            let c = stream 0 w.(2 + i) in
            let from = int_of_nat !r.rpos in
            let (got, r') = rd_read fx (nat_of_int sz) c !r !r.rpos (nat_of_int 4000) in
            let first = match got with [] -> -1 | b :: _ -> int_of_n b in
            Printf.printf "G %d %d %d %d\n" i from (List.length got / sz) first;
            r := r'
          done;
          print_string "E\n"
      | "S1" :: rest ->
          (* S1 <n0> <nv> <j> : only the state after j steps *)
          let w = Array.of_list (List.map int_of_string rest) in
          let n0 = w.(0) and nv = w.(1) and j = w.(2) in
          let ws = List.init n0 (fun i -> n_of_int (1000 + i)) and vs = List.init nv (fun i -> n_of_int (1000 + n0 + i)) in
          let o = sie_observed ws vs (nat_of_int j) in
          Printf.printf "S %d %s\n" j (String.concat " " (List.map (fun x -> string_of_int (int_of_n x)) o))
      | "S" :: rest ->
          (* S <n0> <nv> : file holding samples 1000..1000+n0-1, writer appends nv further samples (values 1000+i);
             prints every state a reader can decode: "S j v v v ..." *)
          let w = Array.of_list (List.map int_of_string rest) in
          let n0 = w.(0) and nv = w.(1) in
          let ws = List.init n0 (fun i -> n_of_int (1000 + i)) and vs = List.init nv (fun i -> n_of_int (1000 + n0 + i)) in
          for j = 0 to 2 * nv do
            let o = sie_observed ws vs (nat_of_int j) in
            Printf.printf "S %d %s\n" j (String.concat " " (List.map (fun x -> string_of_int (int_of_n x)) o))
          done;
          print_string "E\n"
      | _ -> ()
    done
  with End_of_file -> ()
