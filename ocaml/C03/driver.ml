(* C03 driver: runs write/read histories through the extracted codec models.
   stdin, one case per line:
     <codec> <T> <S> <chunk> <init-hex-bytes-or-"-"> ; op ; op ; ...
   codec = raw | oop | sie | sie! ; T = 0..11 ; S = byte-order letters ; chunk = copy buffer in samples
   init  = initial data file payload (raw bytes for raw/oop, SIE records for sie)
   ops:  P <p> c1 c2 ...   put samples (component patterns, field type) at sample p
         G <p> <n>         get n samples at p (same handle)
         F                 flush/close (finish the out-of-place write, reopen)
   stdout per case:  results of the G ops ("g:" comps) and finally "f:" hex of the data file payload,
   "!" if the model's write returns an error. *)
open Model

let rec pos_of_int64u (n : int64) : positive =
  if n = 1L then XH
  else
    let half = Int64.shift_right_logical n 1 in
    if Int64.logand n 1L = 1L then XI (pos_of_int64u half) else XO (pos_of_int64u half)
let z_of_u64 (n : int64) : z = if n = 0L then Z0 else Zpos (pos_of_int64u n)
let rec int64_of_pos (p : positive) : int64 =
  match p with
  | XH -> 1L
  | XO q -> Int64.shift_left (int64_of_pos q) 1
  | XI q -> Int64.logor (Int64.shift_left (int64_of_pos q) 1) 1L
let u64_of_z (v : z) : int64 = match v with Z0 -> 0L | Zpos p -> int64_of_pos p | Zneg p -> Int64.neg (int64_of_pos p)
let rec nat_of_int (n : int) : nat = if n <= 0 then O else S (nat_of_int (n - 1))
let z_of_int (n : int) : z = if n >= 0 then z_of_u64 (Int64.of_int n) else (match z_of_u64 (Int64.of_int (-n)) with Zpos p -> Zneg p | x -> x)

let types = Array.of_list all_types
let ncomp t = if t >= 10 then 2 else 1
let sex_of s = { s_big = String.contains s 'b'; s_little = String.contains s 'l'; s_arm = String.contains s 'a' }
let hexz h = z_of_u64 (Scanf.sscanf h "%Lx" (fun x -> x))
let rec group n l = match l with
  | [] -> []
  | _ -> let rec take k l acc = if k = 0 then (List.rev acc, l) else (match l with x :: r -> take (k-1) r (x :: acc) | [] -> (List.rev acc, [])) in
         let (a, r) = take n l [] in a :: group n r
let bytes_of_hex s =
  if s = "-" then [] else
  let n = String.length s / 2 in
  List.init n (fun i -> z_of_u64 (Int64.of_string ("0x" ^ String.sub s (2*i) 2)))
let hex_of_bytes l =
  let b = Buffer.create 256 in
  List.iter (fun z -> Buffer.add_string b (Printf.sprintf "%02Lx" (u64_of_z z))) l; Buffer.contents b
let show_comps vs = String.concat " " (List.map (fun z -> Printf.sprintf "%Lx" (u64_of_z z)) (List.concat vs))
let toks s = List.filter (fun s -> s <> "") (String.split_on_char ' ' (String.trim s))

let rec firstn n l = if n <= 0 then [] else match l with [] -> [] | x :: r -> x :: firstn (n-1) r
let rec skipn n l = if n <= 0 then l else match l with [] -> [] | _ :: r -> skipn (n-1) r

let () =
  try
    while true do
      let line = input_line stdin in
      if String.length line > 8 && String.sub line 0 8 = "textput " then begin
        (* textput <zero line hex> <p> <lines: hex,hex,...|-> <new lines: hex,hex,...>  -> hex of the file bytes *)
        (match toks line with
         | [_; z; p; ls; d] ->
           let lines s = if s = "-" then [] else List.map (fun h -> bytes_of_hex (if h = "" then "-" else h)) (String.split_on_char ',' s) in
           print_endline (hex_of_bytes (text_put_bytes (bytes_of_hex z) (lines ls) (nat_of_int (int_of_string p)) (lines d)))
         | _ -> print_endline "?")
      end else
      match String.split_on_char ';' line with
      | hd :: ops ->
        (match toks hd with
         | [codec; t; s; chunk; init] ->
           let ti = int_of_string t in
           let ty = types.(ti) and sex = sex_of s in
           let zero = zero_sample ty in
           let out = Buffer.create 256 in
           let initb = bytes_of_hex init in
           if codec = "raw" then begin
             let f = ref initb in
             List.iter (fun op -> match toks op with
               | "P" :: p :: cs -> f := raw_put x86_64 ty sex !f (nat_of_int (int_of_string p)) (group (ncomp ti) (List.map hexz cs))
               | ["G"; p; n] ->
                 let a = raw_decode x86_64 ty sex !f in
                 Buffer.add_string out ("g:" ^ show_comps (firstn (int_of_string n) (skipn (int_of_string p) a)) ^ "|")
               | _ -> ()) ops;
             Buffer.add_string out ("f:" ^ hex_of_bytes !f)
           end else if codec = "oop" then begin
             let st = ref { o_old = raw_decode x86_64 ty sex initb; o_exists = (init <> "-"); o_ropen = false; o_rpos = O; o_tmp = None } in
             let ch = nat_of_int (int_of_string chunk) in
             let get = oop_get ch in
             List.iter (fun op -> match toks op with
               | "P" :: p :: cs -> st := oop_put zero ch !st (nat_of_int (int_of_string p)) (group (ncomp ti) (List.map hexz cs))
               | ["G"; p; n] ->
                 let (st', a) = get !st (nat_of_int (int_of_string p)) (nat_of_int (int_of_string n)) in
                 st := st';
                 Buffer.add_string out ("g:" ^ show_comps a ^ "|")
               | ["F"] -> st := oop_finish ch !st
               | ["K"; _] -> st := oop_finish ch !st
               | _ -> ()) ops;
             let st' = oop_finish ch !st in
             Buffer.add_string out ("f:" ^ hex_of_bytes (raw_layout x86_64 ty sex st'.o_old))
           end else begin
             (* sie: mode 0 closed, 1 read handle, 2 write handle *)
             (* codec "sie": the variant of the shortcut of _GD_SampIndSeek that the source has (Gen/SieSeek.v);
                codec "sie!": the other variant *)
             let g = if codec = "sie" then seek_shortcut_guarded else not seek_shortcut_guarded in
             let sie_put = sie_put_v g and sie_seek = sie_seek_v g in
             let st = ref (sie_open zero (sie_parse x86_64 ty sex initb)) and mode = ref 0 and bad = ref false in
             List.iter (fun op -> if not !bad then match toks op with
               | "P" :: p :: cs ->
                 if !mode <> 2 then begin st := sie_reopen zero !st; mode := 2 end;
                 (match sie_put zero (z_of_int (int_of_string p)) (group (ncomp ti) (List.map hexz cs)) !st with
                  | Some s' -> st := s'
                  | None -> bad := true; Buffer.add_string out "!")
               | ["G"; p; n] ->
                 if !mode = 0 then begin st := sie_reopen zero !st; mode := 1 end;
                 let (s', a) = sie_get zero (z_of_int (int_of_string p)) (z_of_int (int_of_string n)) !st in
                 st := s';
                 Buffer.add_string out ("g:" ^ show_comps a ^ "|")
               | ["F"] -> st := sie_reopen zero !st; mode := 0
               | ["K"; p] ->
                 (* gd_seek in read mode: through the open handle, or a fresh read handle *)
                 if !mode = 0 then begin st := sie_reopen zero !st; mode := 1 end;
                 st := sie_seek zero false (z_of_int (int_of_string p)) !st
               | _ -> ()) ops;
             Buffer.add_string out ("f:" ^ hex_of_bytes (sie_layout x86_64 ty sex (recs !st)))
           end;
           print_endline (Buffer.contents out)
         | _ -> print_endline "?")
      | [] -> print_endline "?"
    done
  with End_of_file -> ()
