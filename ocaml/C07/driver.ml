(* C07 driver.  stdin: one command per line; stdout: one line per command.
   P <std> <perm> <pretty> <maxlen> <P> <entry>   -> "<text hex> <canon of model parse of that text>"
   L <std> <ped> <line hex>                       -> "<canon of model parse>"   (NONE if rejected)
   G <P> <hex16>                                  -> "<print_g hex> <stable 0/1>"
   A <std> <perm> <name hex> <target hex>         -> alias line hex
   H <std> <perm> <name hex>                      -> hidden line hex
   K <ok> <line hex>                              -> tokens of the line (v6 tokeniser) as hex list, or ERR
   entry syntax: see checks/C07.py (canon_entry) *)
open Model
type string = Stdlib.String.t
let length = Stdlib.List.length
let concat = Stdlib.List.concat

let rec pos_of_int (n : int) : positive =
  if n = 1 then XH else if n land 1 = 1 then XI (pos_of_int (n lsr 1)) else XO (pos_of_int (n lsr 1))
let z_of_int (n : int) : z = if n = 0 then Z0 else if n > 0 then Zpos (pos_of_int n) else Zneg (pos_of_int (-n))
let rec int_of_pos (p : positive) : int = match p with XH -> 1 | XO q -> 2 * int_of_pos q | XI q -> 2 * int_of_pos q + 1
let int_of_z (v : z) : int = match v with Z0 -> 0 | Zpos p -> int_of_pos p | Zneg p -> - (int_of_pos p)

let z10 = z_of_int 10
let z_of_dec (s : string) : z =
  let neg = String.length s > 0 && s.[0] = '-' in
  let acc = ref Z0 in
  String.iteri (fun i c -> if c >= '0' && c <= '9' then acc := Z.add (Z.mul !acc z10) (z_of_int (Char.code c - 48))) s;
  if neg then Z.opp !acc else !acc
let z16 = z_of_int 16
let z_of_hex (s : string) : z =
  let acc = ref Z0 in
  String.iter (fun c ->
    let d = if c >= '0' && c <= '9' then Char.code c - 48 else if c >= 'a' && c <= 'f' then Char.code c - 87
            else if c >= 'A' && c <= 'F' then Char.code c - 55 else -1 in
    if d >= 0 then acc := Z.add (Z.mul !acc z16) (z_of_int d)) s;
  !acc

let bytes_of_hex (h : string) : z list =
  if h = "." || h = "-" then [] else begin
    let n = String.length h / 2 in
    List.init n (fun i -> z_of_int (int_of_string ("0x" ^ String.sub h (2 * i) 2)))
  end
let hex_of_bytes (l : z list) : string =
  if l = [] then "." else String.concat "" (List.map (fun b -> Printf.sprintf "%02x" ((int_of_z b) land 255)) l)
let str_of_bytes (l : z list) : string = String.concat "" (List.map (fun b -> String.make 1 (Char.chr ((int_of_z b) land 255))) l)
let dec_of_z (v : z) : string = str_of_bytes (print_Z v)

(* 16 hex digits of a bit pattern *)
let rec hexdigits (v : z) (n : int) (acc : string) : string =
  if n = 0 then acc else
    let (q, r) = Z.div_eucl v z16 in
    hexdigits q (n - 1) (String.make 1 "0123456789abcdef".[int_of_z r] ^ acc)
let hex16 (v : z) : string =
  (* NaNs are one class *)
  if dbl_is_nan v then "nan" else hexdigits v 16 ""

let gdt_of_string = function
  | "UINT8" -> T_U8 | "INT8" -> T_I8 | "UINT16" -> T_U16 | "INT16" -> T_I16 | "UINT32" -> T_U32 | "INT32" -> T_I32
  | "UINT64" -> T_U64 | "INT64" -> T_I64 | "FLOAT32" -> T_F32 | "FLOAT64" -> T_F64 | "COMPLEX64" -> T_C64
  | "COMPLEX128" -> T_C128 | s -> failwith ("type " ^ s)
let string_of_gdt = function
  | T_U8 -> "UINT8" | T_I8 -> "INT8" | T_U16 -> "UINT16" | T_I16 -> "INT16" | T_U32 -> "UINT32" | T_I32 -> "INT32"
  | T_U64 -> "UINT64" | T_I64 -> "INT64" | T_F32 -> "FLOAT32" | T_F64 -> "FLOAT64" | T_C64 -> "COMPLEX64" | T_C128 -> "COMPLEX128"

let split_code (s : string) =
  (* C<namehex>:<idx> *)
  let i = String.rindex s ':' in
  (bytes_of_hex (String.sub s 1 (i - 1)), z_of_dec (String.sub s (i + 1) (String.length s - i - 1)))
let isv (s : string) : z sval =
  if s.[0] = 'L' then SLit (z_of_dec (String.sub s 1 (String.length s - 1)))
  else let (n, i) = split_code s in SCode (n, i)
let parse_nan h = if h = "nan" then z_of_hex "7ff8000000000000" else z_of_hex h
let csv (s : string) : (z * z) sval =
  if s.[0] = 'L' then
    let b = String.sub s 1 (String.length s - 1) in
    let i = String.index b ';' in
    SLit (parse_nan (String.sub b 0 i), parse_nan (String.sub b (i + 1) (String.length b - i - 1)))
  else let (n, i) = split_code s in SCode (n, i)
let show_isv = function SLit v -> "L" ^ dec_of_z v | SCode (n, i) -> "C" ^ hex_of_bytes n ^ ":" ^ dec_of_z i
let show_csv = function SLit (a, b) -> "L" ^ hex16 a ^ ";" ^ hex16 b | SCode (n, i) -> "C" ^ hex_of_bytes n ^ ":" ^ dec_of_z i
let cv (s : string) : cval =
  let b = String.sub s 1 (String.length s - 1) in
  match s.[0] with
  | 'I' -> VI (z_of_dec b) | 'U' -> VU (z_of_dec b) | 'D' -> VD (parse_nan b)
  | 'X' -> let i = String.index b ';' in VC (parse_nan (String.sub b 0 i), parse_nan (String.sub b (i + 1) (String.length b - i - 1)))
  | _ -> failwith "cval"
let show_cv = function
  | VI v -> "I" ^ dec_of_z v | VU v -> "U" ^ dec_of_z v | VD b -> "D" ^ hex16 b | VC (a, b) -> "X" ^ hex16 a ^ ";" ^ hex16 b
let windop_of = function "EQ" -> WEq | "GE" -> WGe | "GT" -> WGt | "LE" -> WLe | "LT" -> WLt | "NE" -> WNe | "SET" -> WSet | "CLR" -> WClr | _ -> failwith "op"
let string_of_windop = function WEq -> "EQ" | WGe -> "GE" | WGt -> "GT" | WLe -> "LE" | WLt -> "LT" | WNe -> "NE" | WSet -> "SET" | WClr -> "CLR"
let thr (s : string) : wthr sval =
  if s.[0] = 'L' then
    let b = String.sub s 2 (String.length s - 2) in
    (match s.[1] with 'I' -> SLit (WI (z_of_dec b)) | 'U' -> SLit (WU (z_of_dec b)) | _ -> SLit (WR (parse_nan b)))
  else let (n, i) = split_code s in SCode (n, i)
let show_thr = function
  | SLit (WI v) -> "LI" ^ dec_of_z v | SLit (WU v) -> "LU" ^ dec_of_z v | SLit (WR b) -> "LR" ^ hex16 b
  | SCode (n, i) -> "C" ^ hex_of_bytes n ^ ":" ^ dec_of_z i
let b01 s = s <> "0"
let s01 b = if b then "1" else "0"

let entry_of (t : string list) : entry =
  match t with
  | "RAW" :: n :: ty :: s :: _ -> ERaw (bytes_of_hex n, gdt_of_string ty, isv s)
  | "LINCOM" :: n :: comp :: cnt :: rest ->
      let rec go k l = if k = 0 then [] else match l with
        | i :: m :: b :: r -> ((bytes_of_hex i, csv m), csv b) :: go (k - 1) r
        | _ -> failwith "lincom" in
      ELincom (bytes_of_hex n, b01 comp, go (int_of_string cnt) rest)
  | "LINTERP" :: n :: i :: tb :: _ -> ELinterp (bytes_of_hex n, bytes_of_hex i, bytes_of_hex tb)
  | ("BIT" | "SBIT" as k) :: n :: i :: a :: b :: _ -> EBit (k = "SBIT", bytes_of_hex n, bytes_of_hex i, isv a, isv b)
  | ("MULTIPLY" | "DIVIDE" | "INDIR" | "SINDIR" as k) :: n :: a :: b :: _ ->
      EYoke ((match k with "MULTIPLY" -> YMultiply | "DIVIDE" -> YDivide | "INDIR" -> YIndir | _ -> YSindir),
             bytes_of_hex n, bytes_of_hex a, bytes_of_hex b)
  | "RECIP" :: n :: i :: comp :: d :: _ -> ERecip (bytes_of_hex n, bytes_of_hex i, b01 comp, csv d)
  | "PHASE" :: n :: i :: s :: _ -> EPhase (bytes_of_hex n, bytes_of_hex i, isv s)
  | "POLYNOM" :: n :: i :: comp :: _ :: co -> EPolynom (bytes_of_hex n, bytes_of_hex i, b01 comp, List.map csv co)
  | "WINDOW" :: n :: i :: ck :: op :: th :: _ -> EWindow (bytes_of_hex n, bytes_of_hex i, bytes_of_hex ck, windop_of op, thr th)
  | "MPLEX" :: n :: i :: ct :: v :: p :: _ -> EMplex (bytes_of_hex n, bytes_of_hex i, bytes_of_hex ct, isv v, isv p)
  | "CONST" :: n :: ty :: v :: _ -> EConst (bytes_of_hex n, gdt_of_string ty, cv v)
  | "CARRAY" :: n :: ty :: _ :: vs -> ECarray (bytes_of_hex n, gdt_of_string ty, List.map cv vs)
  | "STRING" :: n :: v :: _ -> EString (bytes_of_hex n, bytes_of_hex v)
  | "SARRAY" :: n :: _ :: vs -> ESarray (bytes_of_hex n, List.map bytes_of_hex vs)
  | _ -> failwith "entry"

let show_entry (e : entry) : string =
  let h = hex_of_bytes in
  String.concat " " (match e with
  | ERaw (n, ty, s) -> ["RAW"; h n; string_of_gdt ty; show_isv s]
  | ELincom (n, comp, l) ->
      ["LINCOM"; h n; s01 comp; string_of_int (List.length l)] @
      List.concat (List.map (fun ((i, m), b) -> [h i; show_csv m; show_csv b]) l)
  | ELinterp (n, i, t) -> ["LINTERP"; h n; h i; h t]
  | EBit (s, n, i, a, b) -> [(if s then "SBIT" else "BIT"); h n; h i; show_isv a; show_isv b]
  | EYoke (k, n, a, b) -> [(match k with YMultiply -> "MULTIPLY" | YDivide -> "DIVIDE" | YIndir -> "INDIR" | YSindir -> "SINDIR"); h n; h a; h b]
  | ERecip (n, i, comp, d) -> ["RECIP"; h n; h i; s01 comp; show_csv d]
  | EPhase (n, i, s) -> ["PHASE"; h n; h i; show_isv s]
  | EPolynom (n, i, comp, co) -> ["POLYNOM"; h n; h i; s01 comp; string_of_int (List.length co)] @ List.map show_csv co
  | EWindow (n, i, ck, op, t) -> ["WINDOW"; h n; h i; h ck; string_of_windop op; show_thr t]
  | EMplex (n, i, ct, v, p) -> ["MPLEX"; h n; h i; h ct; show_isv v; show_isv p]
  | EConst (n, ty, v) -> ["CONST"; h n; string_of_gdt ty; show_cv v]
  | ECarray (n, ty, vs) -> ["CARRAY"; h n; string_of_gdt ty; string_of_int (List.length vs)] @ List.map show_cv vs
  | EString (n, v) -> ["STRING"; h n; h v]
  | ESarray (n, vs) -> ["SARRAY"; h n; string_of_int (List.length vs)] @ List.map h vs)

let show_opt = function Some e -> show_entry e | None -> "NONE"

let wctx_of std perm pretty maxlen p =
  { w_std = z_of_dec std; w_perm = b01 perm; w_pretty = b01 pretty; w_maxlen = z_of_dec maxlen; w_P = z_of_dec p }

let () =
  try
    while true do
      let line = input_line stdin in
      let t = List.filter (fun s -> s <> "") (String.split_on_char ' ' (String.trim line)) in
      (try
        match t with
        | "P" :: std :: perm :: pretty :: maxlen :: p :: e ->
            let c = wctx_of std perm pretty maxlen p in
            let en = entry_of e in
            let txt = print_entry c en in
            print_endline (hex_of_bytes txt ^ " " ^ show_opt (parse_line (rctx_of c) txt))
        | ["L"; std; ped; lh] ->
            print_endline (show_opt (parse_line { r_std = z_of_dec std; r_ped = b01 ped } (bytes_of_hex lh)))
        | ["G"; p; h] ->
            let b = z_of_hex h in
            print_endline (hex_of_bytes (print_g (z_of_dec p) b) ^ " " ^ s01 (stableb (z_of_dec p) b))
        | ["A"; std; perm; n; tg] ->
            print_endline (hex_of_bytes (print_alias (wctx_of std perm "0" "0" "15") (bytes_of_hex n) (bytes_of_hex tg)))
        | ["H"; std; perm; n] ->
            print_endline (hex_of_bytes (print_hidden (wctx_of std perm "0" "0" "15") (bytes_of_hex n)))
        | ["F"; std; big; arm; prot; off; force; enc] ->
            (* fragment header as the writer model prints it *)
            let pr = (match prot with "0" -> PNone | "1" -> PFormat | "2" -> PData | _ -> PAll) in
            let en = (match enc with
              | "none" -> Some ENone | "bzip2" -> Some EBzip2 | "gzip" -> Some EGzip | "lzma" -> Some ELzma | "slim" -> Some ESlim
              | "text" -> Some EText | "sie" -> Some ESie | "zzip" -> Some EZzip | "zzslim" -> Some EZzslim | "flac" -> Some EFlac | _ -> None) in
            let a = { fa_big = b01 big; fa_arm = b01 arm; fa_prot = pr; fa_off = z_of_dec off; fa_enc = en } in
            print_endline (hex_of_bytes (List.concat (print_header (wctx_of std "0" "0" "0" "17") a (b01 force))))
        | ["R"; ioff; iprot; lines] ->
            (* fragment header as the reader model understands it; lines = comma separated hex, each with its newline *)
            let ls = List.map bytes_of_hex (List.filter (fun x -> x <> "") (String.split_on_char ',' lines)) in
            let ip = (match iprot with "0" -> PNone | "1" -> PFormat | "2" -> PData | _ -> PAll) in
            (match parse_header (initial_state (z_of_dec ioff) ip) ls with
             | None -> print_endline "NONE"
             | Some st ->
                 let a = st.ps_a in
                 let pn = (match a.fa_prot with PNone -> 0 | PFormat -> 1 | PData -> 2 | PAll -> 3) in
                 let en = (match a.fa_enc with
                   | None -> "-" | Some ENone -> "none" | Some EBzip2 -> "bzip2" | Some EGzip -> "gzip" | Some ELzma -> "lzma" | Some ESlim -> "slim"
                   | Some EText -> "text" | Some ESie -> "sie" | Some EZzip -> "zzip" | Some EZzslim -> "zzslim" | Some EFlac -> "flac") in
                 Printf.printf "%s %s %s %s %d %s %s\n" (dec_of_z st.ps_r.r_std) (s01 st.ps_r.r_ped) (s01 a.fa_big) (s01 a.fa_arm) pn (dec_of_z a.fa_off) en)
        | ["I"; blank; file; ns; px; sx] ->
            let o h = if h = "-" then None else Some (bytes_of_hex h) in
            print_endline (hex_of_bytes (items_text false (include_items (b01 blank) (bytes_of_hex file) (o ns) (o px) (o sx))))
        | ["J"; std; lh] ->
            let r = { r_std = z_of_dec std; r_ped = true } in
            (match tokenise true (bytes_of_hex lh) with
             | Inr toks ->
                 (match parse_include r toks with
                  | Some (((f, ns), px), sx) ->
                      let o = function None -> "-" | Some b -> hex_of_bytes b in
                      print_endline (hex_of_bytes f ^ " " ^ o ns ^ " " ^ o px ^ " " ^ o sx)
                  | None -> print_endline "NONE")
             | Inl _ -> print_endline "NONE")
        | ["K"; v6; lh] ->
            (match tokenise (b01 v6) (bytes_of_hex lh) with
             | Inr toks -> print_endline ("OK " ^ String.concat "," (List.map hex_of_bytes toks))
             | Inl _ -> print_endline "ERR")
        | _ -> print_endline "?"
      with Failure m -> print_endline ("FAIL " ^ m) | Not_found -> print_endline "FAIL notfound" | Invalid_argument m -> print_endline ("FAIL " ^ m))
    done
  with End_of_file -> ()
