(* C06 driver: same input lines as harness/C06/conv.c.
   per line prints:  "<spec>|<model>"  where each side is hex comps or "U" (undefined / None) *)
open Model

let rec pos_of_int64u (hi : bool) (n : int64) : positive =
  (* n > 0 treated as unsigned *)
  if n = 1L then XH
  else
    let half = Int64.shift_right_logical n 1 in
    if Int64.logand n 1L = 1L then XI (pos_of_int64u hi half) else XO (pos_of_int64u hi half)

let z_of_u64 (n : int64) : z = if n = 0L then Z0 else Zpos (pos_of_int64u true n)

let rec int64_of_pos (p : positive) : int64 =
  match p with
  | XH -> 1L
  | XO q -> Int64.shift_left (int64_of_pos q) 1
  | XI q -> Int64.logor (Int64.shift_left (int64_of_pos q) 1) 1L

let u64_of_z (v : z) : int64 = match v with Z0 -> 0L | Zpos p -> int64_of_pos p | Zneg p -> Int64.neg (int64_of_pos p)

let types = Array.of_list all_gdtypes

let show (o : z list option) : string =
  match o with
  | None -> "U"
  | Some l -> String.concat " " (List.map (fun v -> Printf.sprintf "%Lx" (u64_of_z v)) l)

let () =
  try
    while true do
      let line = input_line stdin in
      match List.filter (fun s -> s <> "") (String.split_on_char ' ' (String.trim line)) with
      | "X" :: k :: rest when rest <> [] ->
          (* chain of k conversions through k+1 types: X k t0 t1 ... tk <components of the t0 value> *)
          let k = int_of_string k in
          let rec split n l = if n = 0 then ([], l) else (match l with x :: r -> let (a, b) = split (n - 1) r in (x :: a, b) | [] -> ([], [])) in
          let (tys, comps) = split (k + 1) rest in
          let tys = List.map (fun x -> types.(int_of_string x)) tys in
          let cs = List.map (fun h -> z_of_u64 (Scanf.sscanf h "%Lx" (fun x -> x))) comps in
          let rec go v = function
            | a :: (b :: _ as tl) -> (match v with None -> None | Some x -> go (spec_conv a b x) tl)
            | _ -> v in
          print_endline (match go (Some cs) tys with None -> "U" | r -> show r)
      | "C" :: a :: t :: r :: comps when comps <> [] ->
          (* composition through a field of type t: caller type a -> t -> return type r *)
          let ta = types.(int_of_string a) and tt = types.(int_of_string t) and tr = types.(int_of_string r) in
          let cs = List.map (fun h -> z_of_u64 (Scanf.sscanf h "%Lx" (fun x -> x))) comps in
          (match spec_conv ta tt cs with
           | None -> print_endline "U"
           | Some mid -> print_endline (show (spec_conv tt tr mid)))
      | a :: b :: comps when comps <> [] ->
          let ti = types.(int_of_string a) and tout = types.(int_of_string b) in
          let cs = List.map (fun h -> z_of_u64 (Scanf.sscanf h "%Lx" (fun x -> x))) comps in
          let spec = spec_conv ti tout cs in
          let model = match lookup conv_table ti tout with
            | Some c -> eval_cell c ti tout cs
            | None -> None in
          print_string (show spec); print_string "|"; print_endline (show model)
      | _ -> ()
    done
  with End_of_file -> ()
