(* C12 driver: runs the extracted flush-protocol model.
   stdin, one case per line (blank separated):
     <cl 0|1> <fault k | -1> <nfrag> then per fragment:
        <oldlen | -1 (absent)> <perm> <npre> <len>.. <npost> <len>.. <nextra> <len | -1 = fchmod>..
   fragment i uses path 2i (format file) and 2i+1 (temporary file), descriptor 100.
   stdout per case:
     T <tok> <tok> ...          the trace (one token per call)
     R <err> | <mod flags> | <final O/N/?/-> | <tmp exists 0/1> | retry <err> | <final> | <tmps>
     P <j> <O/N/?/- per fragment> <tmp size or - per fragment>     for every prefix j
     E
*)
open Model

let rec n_of_int (i : int) : n =
  if i = 0 then N0 else
    let rec pos i = if i = 1 then XH else if i land 1 = 1 then XI (pos (i lsr 1)) else XO (pos (i lsr 1)) in
    Npos (pos i)

let rec int_of_pos = function XH -> 1 | XO p -> 2 * int_of_pos p | XI p -> 2 * int_of_pos p + 1
let int_of_n = function N0 -> 0 | Npos p -> int_of_pos p

let rec nat_of_int i = if i <= 0 then O else S (nat_of_int (i - 1))
let rec int_of_nat = function O -> 0 | S n -> 1 + int_of_nat n

let mk_content (tag : int) (len : int) : n list = List.init len (fun j -> n_of_int ((tag + j) land 255))

let tfd = n_of_int 100

let tok_path (p : n) : string =
  let i = int_of_n p in
  if i land 1 = 0 then Printf.sprintf "P%d" (i / 2) else Printf.sprintf "T%d" (i / 2)

let tok ((s, okb) : step * bool) : string =
  let st = if okb then "ok" else "bad" in
  match s with
  | Creat (_, p, _) -> Printf.sprintf "creat:%s:%s" (tok_path p) st
  | OpenC (_, p, _) -> Printf.sprintf "openc:%s:%s" (tok_path p) st
  | OpenT (_, p, _) -> Printf.sprintf "opent:%s:%s" (tok_path p) st
  | Write (_, c) -> Printf.sprintf "write:%d:%s" (List.length c) st
  | PWrite (_, _, c) -> Printf.sprintf "pwrite:%d:%s" (List.length c) st
  | Fcntl _ -> Printf.sprintf "fcntl:%s" st
  | Fchmod (_, m) -> Printf.sprintf "fchmod:%s" st
  | Ftrunc (_, _) -> Printf.sprintf "ftrunc:%s" st
  | Close _ -> Printf.sprintf "close:%s" st
  | Rename (p, q) -> Printf.sprintf "rename:%s:%s:%s" (tok_path p) (tok_path q) st
  | Unlink p -> Printf.sprintf "unlink:%s:%s" (tok_path p) st

let () =
  try
    while true do
      let line = input_line stdin in
      let w = Array.of_list (List.map int_of_string
                (List.filter (fun s -> s <> "") (String.split_on_char ' ' (String.trim line)))) in
      if Array.length w >= 3 then begin
        let pos = ref 0 in
        let next () = let v = w.(!pos) in incr pos; v in
        let cl = next () = 1 in
        let fault = let k = next () in if k < 0 then None else Some (nat_of_int k) in
        let nf = next () in
        let frs = ref [] and olds = ref [] in
        for i = 0 to nf - 1 do
          let oldlen = next () in
          let perm = next () in
          let chunks tagbase =
            let n = next () in
            List.init n (fun c -> let l = next () in (c, l))
            |> List.map (fun (c, l) -> mk_content (tagbase + 16 * i + c) l) in
          let pre = chunks 1 in
          let post = chunks 7 in
          let extra =
            let n = next () in
            List.init n (fun c -> let l = next () in (c, l))
            |> List.map (fun (c, l) -> if l < 0 then None else Some (mk_content (11 + 16 * i + c) l)) in
          let f = { fpath = n_of_int (2 * i); ftmp = n_of_int (2 * i + 1); fpre = pre; fpost = post;
                    fextra = extra; fperm = n_of_int perm } in
          frs := !frs @ [f];
          if oldlen >= 0 then olds := !olds @ [(n_of_int (2 * i), mk_content (200 + i) oldlen)]
        done;
        let frs = !frs in
        let st0 = mkstate !olds empty_state in
        let tr = mf_trace cl tfd frs false fault in
        print_string "T";
        List.iter (fun t -> print_string (" " ^ tok t)) tr;
        print_newline ();
        let classify st f =
          match lookup st f.fpath with
          | None -> "-"
          | Some c -> if c = new_text f then "N" else if Some c = lookup st0 f.fpath then "O" else "?" in
        let tmpsz st f = match lookup st f.ftmp with None -> "-" | Some c -> string_of_int (List.length c) in
        let fin st = String.concat " " (List.map (classify st) frs) in
        let tmps st = String.concat " " (List.map (tmpsz st) frs) in
        let st1 = run tr st0 in
        let m = mf_modified frs false fault in
        let pend = pending frs m in
        let tr2 = mf_trace cl tfd pend false None in
        let st2 = run tr2 st1 in
        Printf.printf "R %d | %s | %s | %s | retry %d | %s | %s\n"
          (if mf_error frs false fault then 1 else 0)
          (String.concat " " (List.map (fun b -> if b then "1" else "0") m))
          (fin st1) (tmps st1)
          (if mf_error pend false None then 1 else 0) (fin st2) (tmps st2);
        let n = List.length tr in
        for j = 0 to n do
          let s = crash tr (nat_of_int j) st0 in
          Printf.printf "P %d | %s | %s\n" j (fin s) (tmps s)
        done;
        print_string "E\n"
      end
    done
  with End_of_file -> ()
