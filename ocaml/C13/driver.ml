(* C13 driver.  stdin lines:
     recode T ns EIN EOUT SIN SOUT c1 c2 ...   (EIN/EOUT = bin|text)  -> values a reader sees afterwards
     retype T T2 E S c1 ...                    (unsigned integer types) -> values afterwards *)
open Model
let rec pos_of_int64u (n : int64) : positive =
  if n = 1L then XH
  else
    let half = Int64.shift_right_logical n 1 in
    if Int64.logand n 1L = 1L then XI (pos_of_int64u half) else XO (pos_of_int64u half)
let z_of_u64 (n : int64) : z = if n = 0L then Z0 else Zpos (pos_of_int64u n)
let rec int64_of_pos (p : positive) : int64 =
  match p with
  | XH -> 1L
  | XO q -> Int64.shift_left (int64_of_pos q) 1
  | XI q -> Int64.logor (Int64.shift_left (int64_of_pos q) 1) 1L
let u64_of_z (v : z) : int64 = match v with Z0 -> 0L | Zpos p -> int64_of_pos p | Zneg p -> Int64.neg (int64_of_pos p)
let rec nat_of_int (n : int) : nat = if n <= 0 then O else S (nat_of_int (n - 1))
let types = Array.of_list all_types
let ncomp t = if t >= 10 then 2 else 1
let sex_of s = { s_big = String.contains s 'b'; s_little = String.contains s 'l'; s_arm = String.contains s 'a' }
let hexz h = z_of_u64 (Scanf.sscanf h "%Lx" (fun x -> x))
let rec group n l = match l with
  | [] -> []
  | _ -> let rec take k l acc = if k = 0 then (List.rev acc, l) else (match l with x :: r -> take (k-1) r (x :: acc) | [] -> (List.rev acc, [])) in
         let (a, r) = take n l [] in a :: group n r
let show_comps vs = String.concat " " (List.map (fun z -> Printf.sprintf "%Lx" (u64_of_z z)) (List.concat vs))
let codec s = if s = "text" then Text else Bin
let () =
  try
    while true do
      let line = input_line stdin in
      (match List.filter (fun s -> s <> "") (String.split_on_char ' ' (String.trim line)) with
       | "recode" :: t :: ns :: ei :: eo :: si :: so :: cs ->
         let ti = int_of_string t in
         let vs = group (ncomp ti) (List.map hexz cs) in
         print_endline (show_comps (mogrify_values x86_64 types.(ti) (nat_of_int (int_of_string ns)) (codec ei) (codec eo) (sex_of si) (sex_of so) vs))
       | "retype" :: t :: t2 :: e :: s :: cs ->
         let ti = int_of_string t and t2i = int_of_string t2 in
         let vs = group (ncomp ti) (List.map hexz cs) in
         print_endline (show_comps (retype_values (uint_conv types.(t2i)) x86_64 types.(ti) types.(t2i) (codec e) (sex_of s) vs))
       | _ -> print_endline "?")
    done
  with End_of_file -> ()
