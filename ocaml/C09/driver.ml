(* C09 driver: one include tree per input line (see checks/C09.py for the
   grammar); prints the result of interp_impl code_params and of interp_spec. *)
open Model

let rec pos_of_int (n : int) : positive =
  if n = 1 then XH else if n land 1 = 1 then XI (pos_of_int (n lsr 1)) else XO (pos_of_int (n lsr 1))
let n_of_int (n : int) : n = if n = 0 then N0 else Npos (pos_of_int n)
let rec int_of_pos (p : positive) : int = match p with XH -> 1 | XO q -> 2 * int_of_pos q | XI q -> 2 * int_of_pos q + 1
let int_of_n (v : n) : int = match v with N0 -> 0 | Npos p -> int_of_pos p
let rec z_of_pos_string (p : positive) : string =
  (* decimal printing of a possibly large positive: use arbitrary precision by repeated doubling on a digit list *)
  let rec dbl (ds : int list) (carry : int) : int list =
    match ds with
    | [] -> if carry > 0 then [carry] else []
    | d :: r -> let v = 2 * d + carry in (v mod 10) :: dbl r (v / 10) in
  let rec go (p : positive) : int list =
    match p with
    | XH -> [1]
    | XO q -> dbl (go q) 0
    | XI q -> dbl (go q) 1 in
  String.concat "" (List.rev_map string_of_int (go p))
let string_of_z (v : z) : string = match v with Z0 -> "0" | Zpos p -> z_of_pos_string p | Zneg p -> "-" ^ z_of_pos_string p
let rec int_of_nat (n : nat) : int = match n with O -> 0 | S m -> 1 + int_of_nat m

let str_of_string (s : string) : n list = List.init (String.length s) (fun i -> n_of_int (Char.code s.[i]))
let string_of_str (l : n list) : string = String.concat "" (List.map (fun c -> String.make 1 (Char.chr (int_of_n c land 255))) l)

(* tokens of the form "=chars" *)
let tok_str (t : string) : n list = str_of_string (String.sub t 1 (String.length t - 1))
let show_str (l : n list) : string = "=" ^ string_of_str l

let toks = ref [||]
let pos = ref 0
let next () = let t = !toks.(!pos) in incr pos; t

let rec parse_lines (n : int) : line list =
  if n = 0 then [] else let l = parse_line () in l :: parse_lines (n - 1)
and parse_line () : line =
  match next () with
  | "E" -> LEncoding (n_of_int (int_of_string (next ())))
  | "N" -> LEndian (next () = "1")
  | "O" -> let t = next () in
           LFrameOffset (List.map (fun c -> n_of_int (int_of_n c - 48)) (tok_str t))
  | "P" -> LProtect (n_of_int (int_of_string (next ())))
  | "V" -> LVersion (n_of_int (int_of_string (next ())))
  | "R" -> LReference (tok_str (next ()))
  | "S" -> LNamespace (tok_str (next ()))
  | "H" -> LHidden (tok_str (next ()))
  | "FR" -> let nm = tok_str (next ()) in let leg = next () = "1" in LField (nm, KRaw leg)
  | "FB" -> let nm = tok_str (next ()) in let inp = tok_str (next ()) in LField (nm, KBit inp)
  | "FL" -> let nm = tok_str (next ()) in let inp = tok_str (next ()) in let tb = tok_str (next ()) in
            LField (nm, KLinterp (inp, tb))
  | "A" -> let nm = tok_str (next ()) in let tg = tok_str (next ()) in LAlias (nm, tg)
  | "I" ->
      let d = next () in
      let ds = String.sub d 1 (String.length d - 1) in
      let dirs = if ds = "" then [] else List.map str_of_string (String.split_on_char '/' ds) in
      let px = tok_str (next ()) in let sx = tok_str (next ()) in
      let n = int_of_string (next ()) in
      let sub = parse_lines n in
      LInclude ({ in_dir = dirs; in_px = px; in_sx = sx }, sub)
  | t -> failwith ("bad token " ^ t)

let show_frag (f : frag) : string =
  let s = f.f_set in
  Printf.sprintf "F %d enc=%d end=%d off=%s prot=%d ns=%s px=%s sx=%s parent=%s dir==%s"
    (int_of_nat f.f_index) (int_of_n s.t_enc) (if s.t_end then 1 else 0) (string_of_z s.t_off) (int_of_n s.t_prot)
    (match f.f_ns with None -> "-" | Some x -> show_str x) (show_str f.f_px) (show_str f.f_sx)
    (match f.f_parent with None -> "-1" | Some p -> string_of_int (int_of_nat p))
    (String.concat "/" (List.map string_of_str f.f_dir))

let show_lookup (ents : entry list) (c : n list) : string =
  match lookup_repr ents c with Some x -> show_str x | None -> "~"

(* the field codes <alias>/<subfield> for every top-level alias and every subfield name of the
   dirfile (with and without a representation suffix), resolved by lookup_repr *)
let queries (ents : entry list) : string list =
  let names = List.map (fun e -> (string_of_str e.e_name, e)) ents in
  let plain nm = String.length nm > 0 && nm.[0] <> '.' && not (String.contains nm '/') &&
    not (String.length nm > 2 && nm.[String.length nm - 2] = '.' && String.contains "rimaz" nm.[String.length nm - 1]) in
  let aliases = List.filter (fun (nm, e) -> (match e.e_kind with EAlias _ -> true | _ -> false) && plain nm) names in
  let subs = List.sort_uniq compare (List.filter_map (fun (nm, _) ->
    match String.index_opt nm '/' with
    | Some i -> Some (String.sub nm (i + 1) (String.length nm - i - 1))
    | None -> None) names) in
  let qs = List.concat_map (fun (a, _) -> List.concat_map (fun sb -> [a ^ "/" ^ sb; a ^ "/" ^ sb ^ ".r"]) subs) aliases in
  let qs = List.filteri (fun i _ -> i < 160) (List.sort compare qs) in
  List.map (fun q -> Printf.sprintf "Q =%s -> %s" q (show_lookup ents (str_of_string q))) qs

let show_entry (ents : entry list) (frags : frag list) (resolved : (n list * n list option) list) (e : entry) : string =
  let d = try (List.find (fun f -> int_of_nat f.f_index = int_of_nat e.e_frag) frags).f_dir with Not_found -> [] in
  let inDir (fb : n list) = "=" ^ String.concat "/" (List.map string_of_str d @ [string_of_str fb]) in
  let k, x, r = match e.e_kind with
    | EIndex -> "I", "=", "-"
    | ERaw (fb, leg) -> "R", (inDir fb ^ (if leg then " ty=1" else " ty=2")), "-"
    | EBit i -> "B", show_str i ^ " rin=" ^ show_lookup ents i, "-"
    | ELinterp (i, tb) -> "L", show_str i ^ " tab=" ^ inDir tb ^ " rin=" ^ show_lookup ents i, "-"
    | EAlias t -> "A", show_str t,
        (match List.assoc_opt e.e_name resolved with Some (Some x) -> show_str x | _ -> "~") in
  Printf.sprintf "E %s frag=%d kind=%s hid=%d x=%s res=%s" (show_str e.e_name) (int_of_nat e.e_frag) k
    (if e.e_hidden then 1 else 0) x r

let show (tag : string) (r : fin) : unit =
  (match r with
   | FErr -> print_endline (tag ^ " ERR")
   | FCrash -> print_endline (tag ^ " CRASH")
   | FUnspec -> print_endline (tag ^ " UNSPEC")
   | FOk o ->
       print_endline (tag ^ " OK");
       List.iter (fun f -> print_endline (show_frag f)) o.o_frags;
       List.iter (fun e -> print_endline (show_entry o.o_entries o.o_frags o.o_resolved e)) o.o_entries;
       List.iter print_endline (queries o.o_entries);
       print_endline ("REF " ^ (match o.o_reference with None -> "-" | Some x -> show_str x)));
  print_endline "END"

(* NULL and "" root namespaces are the same namespace *)
let norm (r : fin) : fin =
  match r with
  | FOk o -> FOk { o with o_frags = List.map (fun f -> { f with f_ns = (match f.f_ns with Some [] -> None | x -> x) }) o.o_frags }
  | x -> x

let () =
  try
    while true do
      let line = input_line stdin in
      let ts = List.filter (fun s -> s <> "") (String.split_on_char ' ' (String.trim line)) in
      if ts <> [] then begin
        toks := Array.of_list ts; pos := 0;
        let n = int_of_string (next ()) in
        let t = parse_lines n in
        let im = interp_impl code_params t and sp = interp_spec t in
        show "IMPL" im;
        show "SPEC" sp;
        let b x = if x then 1 else 0 in
        (* static token features, and whether the proposed repair C09-4 makes the model agree *)
        let v p = b (norm (interp_impl p t) = norm sp) in
        Printf.printf "ATTR agree=%d repr=%d index=%d dotns=%d vnullns=%d\n"
          (b (norm im = norm sp)) (b (tree_reprlike t)) (b (tree_indexlike t))
          (b (tree_dotns t && not code_params.prm_nullns))
          (v { code_params with prm_nullns = true });
        flush stdout
      end
    done
  with End_of_file -> ()
