(* C02 driver: runs the extracted model on call histories.
   stdin, one case per line:
     <cfg8bits> <BUF> <eager> [crc] | <raw>;<raw>.. | <field>;<field>.. | <call>;<call>..
       raw   = enc(r|b|t),size,sgn(0|1),foff,hexbytes
       field = R,<raw> | P,<in>,<shift> | L,<in>,<m>,<b> | B,<in>,<bitnum>,<numbits> | M,<a>,<b>
       call  = g,<f>,<start|H>,<n> | s,<f>,<off>,<S|C|E> | t,<f> | c,<f|*> | a,<raw> | r
   stdout, one line per case: results separated by ';'
       D v1 v2 .. [# s1 s2 ..]   data (after '#': spec_window for an absolute start)
       P p | E e | K | UB        position / error / done / undefined behaviour (model stops) *)
open Model

let rec pos_of_int (n : int) : positive =
  if n = 1 then XH else if n land 1 = 1 then XI (pos_of_int (n lsr 1)) else XO (pos_of_int (n lsr 1))
let z_of_int (n : int) : z = if n = 0 then Z0 else if n > 0 then Zpos (pos_of_int n) else Zneg (pos_of_int (-n))
let rec int_of_pos (p : positive) : int =
  match p with XH -> 1 | XO q -> 2 * int_of_pos q | XI q -> 2 * int_of_pos q + 1
let int_of_z (v : z) : int = match v with Z0 -> 0 | Zpos p -> int_of_pos p | Zneg p -> - (int_of_pos p)
let rec nat_of_int (n : int) : nat = if n <= 0 then O else S (nat_of_int (n - 1))

(* decimal string -> z, for values beyond 62 bits *)
let z_of_string (s : string) : z =
  let neg = String.length s > 0 && s.[0] = '-' in
  let s = if neg then String.sub s 1 (String.length s - 1) else s in
  let ten = z_of_int 10 in
  let acc = ref Z0 in
  String.iter (fun ch -> acc := Z.add (Z.mul !acc ten) (z_of_int (Char.code ch - 48))) s;
  if neg then Z.opp !acc else !acc
let string_of_z (v : z) : string =
  (* values are small in practice; fall back to int *)
  string_of_int (int_of_z v)

let split c s = List.filter (fun x -> x <> "") (String.split_on_char c s)
let bytes_of_hex (h : string) : z list =
  let n = String.length h / 2 in
  List.init n (fun i -> z_of_int (int_of_string ("0x" ^ String.sub h (2 * i) 2)))

let parse_raw (s : string) : rawdef =
  match String.split_on_char ',' s with
  | [e; size; sgn; foff; hex] ->
      { rd_enc = (match e with "r" -> ERaw | "b" -> EBz | _ -> ETxt);
        rd_size = z_of_int (int_of_string size); rd_sgn = (sgn = "1");
        rd_bytes = bytes_of_hex hex; rd_foff = z_of_int (int_of_string foff) }
  | [e; size; sgn; foff] ->
      { rd_enc = (match e with "r" -> ERaw | "b" -> EBz | _ -> ETxt);
        rd_size = z_of_int (int_of_string size); rd_sgn = (sgn = "1");
        rd_bytes = []; rd_foff = z_of_int (int_of_string foff) }
  | _ -> failwith ("bad raw " ^ s)

let parse_field (s : string) : fdef =
  match String.split_on_char ',' s with
  | ["R"; r] -> FRaw (nat_of_int (int_of_string r))
  | ["P"; i; sh] -> FPhase (nat_of_int (int_of_string i), z_of_string sh)
  | ["L"; i; m; b] -> FLincom (nat_of_int (int_of_string i), z_of_string m, z_of_string b)
  | ["B"; i; bn; nb] -> FBit (nat_of_int (int_of_string i), z_of_string bn, z_of_string nb)
  | ["M"; a; b] -> FMult (nat_of_int (int_of_string a), nat_of_int (int_of_string b))
  | _ -> failwith ("bad field " ^ s)

let parse_call (s : string) : call =
  match String.split_on_char ',' s with
  | ["g"; f; st; n] ->
      CGet (nat_of_int (int_of_string f), (if st = "H" then None else Some (z_of_string st)), z_of_string n)
  | ["s"; f; off; w] ->
      CSeek (nat_of_int (int_of_string f), z_of_string off, (match w with "S" -> WSet | "C" -> WCur | _ -> WEnd))
  | ["t"; f] -> CTell (nat_of_int (int_of_string f))
  | ["c"; "*"] -> CClose None
  | ["c"; f] -> CClose (Some (nat_of_int (int_of_string f)))
  | ["a"; r] -> CAuto (nat_of_int (int_of_string r))
  | ["r"] -> CLevel
  | _ -> failwith ("bad call " ^ s)

let show_list l = String.concat " " (List.map string_of_z l)

(* MPLEX layer: "M <cval> <CH> | in values | count values | events"
   events: g,<rt>,<first>,<n>  |  p,<0 = input, 1 = count>,<at>,<v1:v2:..>   (lists index absolute samples)
   rt >= 100 marks a floating point return type: its padding is the tag 999999999 (NaN) *)
let nan_tag = z_of_int 999999999
let mplex_line (hd : string) (ins : string) (cnts : string) (evs : string) : string =
  match split ' ' hd with
  | [_; cv; ch] ->
      let cval = z_of_string cv and chz = z_of_string ch in
      let pad rt = if int_of_z rt >= 100 then nan_tag else Z0 in
      let lst s = List.map z_of_string (split ',' (String.trim s)) in
      let vin = ref (lst ins) and vcnt = ref (lst cnts) in
      let ca = ref None in
      let splice l at vals =
        let a = Array.of_list l in
        let n = max (Array.length a) (at + List.length vals) in
        let b = Array.make n Z0 in
        Array.blit a 0 b 0 (Array.length a);
        List.iteri (fun i v -> b.(at + i) <- v) vals;
        Array.to_list b in
      let outs = List.map (fun e ->
        match String.split_on_char ',' e with
        | ["g"; rt; first; n] ->
            let (ca', l) = mplex_read cval chz pad (Zneg XH) (z_of_int 10) !ca (of_list !vin) (of_list !vcnt)
                             (z_of_string rt) (z_of_string first) (z_of_string n) in
            ca := ca';
            "D " ^ String.concat " " (List.map (fun v -> if v = nan_tag then "nan" else string_of_z v) l)
        | ["p"; which; at; vals] ->
            let vs = List.map z_of_string (split ':' vals) in
            if which = "0" then vin := splice !vin (int_of_string at) vs
            else vcnt := splice !vcnt (int_of_string at) vs;
            ca := None;     (* dc2eda2 *)
            "K"
        | _ -> "BAD") (split ';' (String.trim evs)) in
      String.concat ";" outs
  | _ -> "BADHEAD"

let () =
  try
    while true do
      let line = input_line stdin in
      if String.length line > 0 && line.[0] = 'M' then
        (match String.split_on_char '|' line with
         | [hd; a; b; e] -> print_endline (mplex_line hd a b e)
         | _ -> print_endline "BADLINE")
      else
      match String.split_on_char '|' line with
      | [hd; raws; fields; calls] ->
          (match split ' ' hd with
           | bits :: buf :: eager :: more ->
               let b i = bits.[i] = '1' in
               let c = { fix_bz_rewind = b 0; fix_bz_eof = b 1; fix_here = b 2; fix_text_pseudo = b 3;
                         fix_leak = b 4; fix_negseek = b 5; fix_phase_sign = b 6; fix_bz_err = b 7 } in
               let bUF = z_of_int (int_of_string buf) in
               (* optional 4th header token "crc": the stored CRC of the bzip2 stream is wrong *)
               let dec = if more = ["crc"] then dec_bz2_crc bUF (eager = "1") else dec_bz2 bUF (eager = "1") in
               let d = ref { d_cfg = c; d_raws = List.map parse_raw (split ';' (String.trim raws));
                         d_fields = List.map parse_field (split ';' (String.trim fields)) } in
               let st = ref (init !d) and dead = ref false in
               let outs = List.map (fun cs ->
                 if !dead then "X"
                 else match String.split_on_char ',' cs with
                 | ["w"; r; k; hex] ->
                     (* gd_putdata on a RAW field of the raw encoding: coq/C02/Writes.v put_raw *)
                     let bs = bytes_of_hex hex in
                     let rn = nat_of_int (int_of_string r) in
                     let size = int_of_z (List.nth !d.d_raws (int_of_string r)).rd_size in
                     (match put_raw !d !st rn (z_of_string k) bs with
                      | Some (d', s') -> d := d'; st := s'; "W " ^ string_of_int (List.length bs / size)
                      | None -> "E -8")
                 | _ ->
                   let c = parse_call cs in
                   let (s', r) = step dec !d !st c in
                   st := s';
                   match r with
                   | RData l ->
                       let spec = match c with
                         | CGet (f, Some k, n) -> " # " ^ show_list (spec_window !d f k n)
                         | _ -> "" in
                       "D " ^ show_list l ^ spec
                   | RPos p -> "P " ^ string_of_z p
                   | RErr e -> "E " ^ string_of_z e
                   | RDone -> "K"
                   | RUB -> dead := true; "UB") (split ';' (String.trim calls)) in
               print_endline (String.concat ";" outs)
           | _ -> print_endline "BADHEAD")
      | _ -> print_endline "BADLINE"
    done
  with End_of_file -> ()
