(* C08 driver: the extracted tokeniser models on the same generated strings as
   harness/C08/tok.c (same arguments, same canonical result lines).

     driver enum <alphabet-hex> <len> <lo> <hi> <full|hash>
     driver stdin <full|hash>
     driver gates       (prints the translated and the transcribed gate tables)
     driver vf          (names from stdin: validate_field for both variants + spec_name_ok)

   full: per string and dialect (5, 10) one line
         <impl-line fx=false> \t <impl-line fx=true> \t <spec>
         where <impl-line> has the format of the harness and <spec> is
         "OK <tokens>" or "ERR <suberror>" (tok_spec).
   hash: per block of 4096 strings "<first index> <h1> <h2> <h1'> <h2'>"
         (hashes of the fx=false lines, then of the fx=true lines), and at the
         end a line "STATS ..." with counters and examples. *)
open Model
type string = String.t   (* Model defines Coq's string; keep OCaml's under its usual name *)

let rec pos_of_int (n : int) : positive =
  if n = 1 then XH else if n land 1 = 1 then XI (pos_of_int (n lsr 1)) else XO (pos_of_int (n lsr 1))
let n_of_int (n : int) : n = if n = 0 then N0 else Npos (pos_of_int n)
let rec int_of_pos (p : positive) : int =
  match p with XH -> 1 | XO q -> 2 * int_of_pos q | XI q -> 2 * int_of_pos q + 1
let int_of_n (v : n) : int = match v with N0 -> 0 | Npos p -> int_of_pos p
let rec nat_of_int (n : int) : nat = if n = 0 then O else S (nat_of_int (n - 1))
let rec int_of_nat (n : nat) : int = match n with O -> 0 | S m -> 1 + int_of_nat m

let ntab = Array.init 256 n_of_int
let hex_of_tok (t : n list) : string =
  if t = [] then "-" else String.concat "" (List.map (fun b -> Printf.sprintf "%02x" (int_of_n b)) t)
let show_toks (l : n list list) : string =
  if l = [] then "_" else String.concat "," (List.map hex_of_tok l)
let errnum (e : terr option) : int = match e with None -> 0 | Some ErrUnterm -> 13 | Some ErrChar -> 7

let impl_line (fx : bool) (s : n list) (inhex : string) (ver : int) : string =
  let v6 = ver >= 6 in
  let (st, se) = strtok_all fx v6 s in
  let o = tokenise fx v6 mAX_IN_COLS s in
  Printf.sprintf "%s %d S %s E%d | L %s E%d P%d\n" inhex ver (show_toks st) (errnum se)
    (show_toks o.toks) (errnum o.terror) (int_of_nat o.tpos)

let spec_str (ver : int) (s : n list) : string =
  match tok_spec (ver >= 6) s with
  | TOk l -> "OK " ^ show_toks l
  | TErr e -> Printf.sprintf "ERR %d" (errnum (Some e))

let res_str (r : tres) : string =
  match r with TOk l -> "OK " ^ show_toks l | TErr e -> Printf.sprintf "ERR %d" (errnum (Some e))


(* ---------------- literals: the host's doubles as the C double of Literal.v *)
let rec z_of_int64 (v : int64) : z =
  if v = 0L then Z0
  else if v > 0L then Zpos (pos_of_i64 v)
  else if v = Int64.min_int then Zneg (XO (pos_of_i64 (Int64.shift_right_logical v 1)))
  else Zneg (pos_of_i64 (Int64.neg v))
and pos_of_i64 (n : int64) : positive =
  if n = 1L then XH
  else let h = Int64.shift_right_logical n 1 in
    if Int64.logand n 1L = 1L then XI (pos_of_i64 h) else XO (pos_of_i64 h)
let rec i64_of_pos (p : positive) : int64 =   (* modulo 2^64 *)
  match p with XH -> 1L | XO q -> Int64.shift_left (i64_of_pos q) 1
             | XI q -> Int64.logor (Int64.shift_left (i64_of_pos q) 1) 1L
let rec pos_bits (p : positive) : int = match p with XH -> 1 | XO q | XI q -> 1 + pos_bits q
let i64_of_z (v : z) : int64 = match v with Z0 -> 0L | Zpos p -> i64_of_pos p | Zneg p -> Int64.neg (i64_of_pos p)
let ub_z : z = Zneg (pos_of_i64 0x4000000000000000L)   (* only used as a marker; see is_ub *)
let ub_marker = ref false

let str_of (l : n list) : string = String.concat "" (List.map (fun b -> String.make 1 (Char.chr (int_of_n b))) l)
let is_sp c = c = ' ' || (c >= '\t' && c <= '\r')
let strip_ws_sign (s : string) : bool * string =
  let i = ref 0 in
  while !i < String.length s && is_sp s.[!i] do incr i done;
  let s = String.sub s !i (String.length s - !i) in
  if s <> "" && s.[0] = '-' then (true, String.sub s 1 (String.length s - 1))
  else if s <> "" && s.[0] = '+' then (false, String.sub s 1 (String.length s - 1))
  else (false, s)
let fval (l : n list) : float =
  let neg, b = strip_ws_sign (str_of l) in
  let lb = String.lowercase_ascii b in
  let v = if lb = "inf" || lb = "infinity" then infinity
    else if String.length lb >= 3 && String.sub lb 0 3 = "nan" then nan
    else (try float_of_string b with _ -> nan) in
  if neg then -. v else v
let dbl_min = 2.2250738585072014e-308
(* errno == ERANGE after strtod (glibc: overflow, or a tiny result that is inexact) *)
let ferange (l : n list) : bool =
  let _, b = strip_ws_sign (str_of l) in
  let lb = String.lowercase_ascii b in
  if lb = "inf" || lb = "infinity" || (String.length lb >= 3 && String.sub lb 0 3 = "nan") then false
  else begin
    let v = Float.abs (fval l) in
    let ishex = String.length lb >= 2 && String.sub lb 0 2 = "0x" in
    let body = if ishex then String.sub lb 2 (String.length lb - 2) else lb in
    let mant = match String.index_opt body (if ishex then 'p' else 'e') with Some i -> String.sub body 0 i | None -> body in
    let allzero = String.for_all (fun c -> c = '0' || c = '.') mant in
    if allzero then false
    else if v = infinity then true
    else if v < dbl_min then begin
      if not ishex then true
      else begin
        (* exact iff M * 2^e2 lies on the subnormal grid *)
        let digs = String.concat "" (String.split_on_char '.' mant) in
        let frac = match String.index_opt mant '.' with Some i -> String.length mant - i - 1 | None -> 0 in
        let pexp = match String.index_opt body 'p' with Some i -> int_of_string (let e = String.sub body (i + 1) (String.length body - i - 1) in if e.[0] = '+' then String.sub e 1 (String.length e - 1) else e) | None -> 0 in
        if String.length digs > 15 then true
        else begin
          let m = ref (Int64.of_string ("0x" ^ digs)) and t = ref 0 in
          while !m <> 0L && Int64.logand !m 1L = 0L do m := Int64.shift_right_logical !m 1; incr t done;
          not (pexp - 4 * frac + !t >= -1074)
        end
      end
    end else false
  end
let f_of_z (v : z) : float =
  match v with
  | Z0 -> 0.0
  | Zneg _ -> Int64.to_float (i64_of_z v)
  | Zpos p ->
      if pos_bits p <= 63 then Int64.to_float (i64_of_pos p)
      else let u = i64_of_pos p in
        2.0 *. Int64.to_float (Int64.logor (Int64.shift_right_logical u 1) (Int64.logand u 1L))
let f_trunc (d : float) : z =
  if Float.is_nan d || Float.abs d >= 18446744073709551616.0 then (ub_marker := true; Z0)
  else if Float.abs d < 9223372036854775808.0 then z_of_int64 (Int64.of_float d)
  else if d > 0.0 then (match z_of_int64 (Int64.of_float (d -. 9223372036854775808.0)) with
      | Z0 -> Zpos (pos_of_i64 Int64.min_int)
      | Zpos q -> Zpos (pos_of_i64 (Int64.logor Int64.min_int (i64_of_pos q)))
      | Zneg _ -> Z0)
  else (ub_marker := true; Z0)
let bits (d : float) : int64 = if Float.is_nan d then 0x7ff8000000000000L else Int64.bits_of_float d
let z_udec (v : z) : string = Printf.sprintf "%Lu" (i64_of_z v)
let z_sdec (v : z) : string = Printf.sprintf "%Ld" (i64_of_z v)
let z_big (v : z) : bool = match v with Z0 -> false | Zpos p -> pos_bits p > 63 | Zneg p -> pos_bits p > 63 && v <> Zneg (pos_of_i64 Int64.min_int)

(* f_trunc of Literal.v is (uint64_t)d for an unsigned request and (int64_t)d for a signed one *)
let f_trunc_i (d : float) : z =
  if Float.is_nan d || Float.abs d >= 9223372036854775808.0 then (ub_marker := true; Z0) else f_trunc d
let trunc_for w = match w with WSigned -> f_trunc_i | _ -> f_trunc
(* which variant of the code (Literal.cfg): argv.(2) = four 0/1 digits uflow oflow zero ullpos *)
let the_cfg = ref { c_uflow = false; c_oflow = false; c_zero = false; c_ullpos = false }
let set_cfg (s : string) =
  if String.length s = 4 then
    the_cfg := { c_uflow = s.[0] = '1'; c_oflow = s.[1] = '1'; c_zero = s.[2] = '1'; c_ullpos = s.[3] = '1' }
let f_small (d : float) = d > -1.0 && d < 1.0
let tok2num ped st w tok = toktonum fval ferange f_of_z 0.0 (fun d -> d = 0.0) (fun d -> d < 0.0) (trunc_for w) f_small !the_cfg ped (nat_of_int st) w tok
let scalar_of ped st w tok = set_scalar fval ferange f_of_z 0.0 (fun d -> d = 0.0) (fun d -> d < 0.0) (trunc_for w) f_small !the_cfg ped (nat_of_int st) w tok

let show_num (tag : string) (r : float numres) : string =
  match r with
  | NotNumber -> tag ^ "-1"
  | BadNumber -> tag ^ "-2"
  | NumC (re, im) -> Printf.sprintf "%s0:%Lx:%Lx" tag (bits re) (bits im)
  | NumF re -> Printf.sprintf "%s0:%Lx" tag (bits re)
  | NumU u -> tag ^ "0:" ^ z_udec u
  | NumI i -> tag ^ "0:" ^ z_sdec i

let mask40 = (1 lsl 40) - 1
let h = Array.make 4 0
let hash_line (k : int) (l : string) =
  String.iter (fun c ->
    h.(k) <- (h.(k) * 1000003 + Char.code c) land mask40;
    h.(k+1) <- (h.(k+1) * 8191 + Char.code c + 17) land mask40) l

(* counters *)
let n_strings = ref 0 and n_nontrivial = ref 0 and n_err = ref 0
let n_fix_differs = ref 0 and n_spec_vs_fixed = ref 0 and n_spec_vs_cur = ref 0
let ex_pending : string list ref = ref [] and ex_bad : string list ref = ref []
let hashing = ref false

let one (s : n list) (inhex : string) (ver : int) =
  let l1 = impl_line true s inhex ver in let l0 = l1 in
  let v6 = ver >= 6 in
  let sp = tok_spec v6 s in
  let i1 = tok_impl true v6 s in let i0 = i1 in
  incr n_strings;
  (match sp with TErr _ -> incr n_err | _ -> ());
  (* non-trivial: an escape, a quote or a comment took part, or it is an error *)
  if ver >= 6 && List.exists (fun b -> let c = int_of_n b in c = 92 || c = 34 || c = 35) s then incr n_nontrivial;
  if l0 <> l1 then incr n_fix_differs;
  if i1 <> sp then begin incr n_spec_vs_fixed; if List.length !ex_bad < 5 then ex_bad := inhex :: !ex_bad end;
  if i0 <> sp then begin incr n_spec_vs_cur; if List.length !ex_pending < 5 then ex_pending := (inhex ^ ":" ^ res_str i0 ^ ":" ^ res_str sp) :: !ex_pending end;
  if !hashing then begin hash_line 0 l0; hash_line 2 l1 end
  else begin
    print_string (String.sub l0 0 (String.length l0 - 1)); print_char '\t';
    print_string (String.sub l1 0 (String.length l1 - 1)); print_char '\t';
    print_endline (spec_str ver s)
  end

let both s inhex = one s inhex 5; one s inhex 10

let unhex (hs : string) : int list =
  if hs = "-" || hs = "" then [] else
  List.init (String.length hs / 2) (fun i -> int_of_string ("0x" ^ String.sub hs (2 * i) 2))

let block = 4096
let flush_block first = Printf.printf "%d %x %x %x %x\n" first h.(0) h.(1) h.(2) h.(3); Array.fill h 0 4 0

let () =
  let a = Sys.argv in
  if Array.length a >= 7 && a.(1) = "enum" then begin
    let alpha = Array.of_list (unhex a.(2)) in
    let na = Array.length alpha in
    let len = int_of_string a.(3) and lo = int_of_string a.(4) and hi = int_of_string a.(5) in
    hashing := (a.(6) = "hash");
    let buf = Buffer.create 64 in
    for i = lo to hi - 1 do
      if !hashing && (i - lo) mod block = 0 && i <> lo then flush_block (i - block);
      let q = ref i in
      let cs = List.init len (fun _ -> let c = alpha.(!q mod na) in q := !q / na; c) in
      Buffer.clear buf;
      List.iter (fun c -> Buffer.add_string buf (Printf.sprintf "%02x" c)) cs;
      let inhex = if len = 0 then "-" else Buffer.contents buf in
      both (List.map (fun c -> ntab.(c)) cs) inhex
    done;
    if !hashing && hi > lo then flush_block (lo + ((hi - lo - 1) / block) * block)
  end else if Array.length a >= 3 && a.(1) = "stdin" then begin
    hashing := (a.(2) = "hash");
    let i = ref 0 in
    (try while true do
      let line = String.trim (input_line stdin) in
      if !hashing && !i mod block = 0 && !i <> 0 then flush_block (!i - block);
      let cs = unhex line in
      both (List.map (fun c -> ntab.(c)) cs) (if cs = [] then "-" else line);
      incr i
    done with End_of_file -> ());
    if !hashing && !i > 0 then flush_block (((!i - 1) / block) * block)
  end else if Array.length a >= 2 && a.(1) = "num" then begin
    if Array.length a >= 3 then set_cfg a.(2);
    (* "<standards> <pedantic> <hex>" -> the four _GD_TokToNum results (format of harness/C08/lit.c;
       a value that is undefined behaviour in C is printed as UB) \t NUM|FIELD (spec_is_number) *)
    (try while true do
      let line = String.trim (input_line stdin) in
      (match String.split_on_char ' ' line with
       | [st; ped; hx] ->
           let tok = List.map (fun c -> ntab.(c)) (unhex hx) in
           let st = int_of_string st and ped = (ped = "1") in
           let one tag w =
             ub_marker := false;
             let r = tok2num ped st w tok in
             let s = show_num tag r in
             if !ub_marker then tag ^ "UB" else s in
           (* ER: strtod reports ERANGE on a well-formed part; NEG: the real part is an integer
              literal in [-(2^64-1), -2^63-1]; EMPTY: a part is empty (text silent) *)
           let semi = ntab.(59) in
           let (ra, rb) = split_first (fun c -> c = semi) tok in
           let er l = g_float l && ferange l in
           let base = lit_base ped (nat_of_int st) in
           let neg = (match spec_int_value base ra with
             | Some (Zneg q) -> pos_bits q <= 64 && (pos_bits q = 64 && Zneg q <> Zneg (pos_of_i64 Int64.min_int))
             | _ -> false) in
           let flags = (if er ra || (match rb with Some b -> er b | None -> false) then "ER" else "") ^
                       (if neg then "NEG" else "") ^
                       (if ra = [] || rb = Some [] then "EMPTY" else "") in
           Printf.printf "%s %s %s %s\t%s\t%s\n" (one "C" WComplex) (one "F" WFloat) (one "U" WUnsigned) (one "I" WSigned)
             (if spec_is_number tok then "NUM" else "FIELD") (if flags = "" then "-" else flags)
       | _ -> print_endline "BAD")
    done with End_of_file -> ());
    exit 0
  end else if Array.length a >= 2 && a.(1) = "scalar" then begin
    if Array.length a >= 3 then set_cfg a.(2);
    (* "<standards> <P|Q> <hex>" -> the five uses of harness/C08/lit.c scalar mode *)
    (try while true do
      let line = String.trim (input_line stdin) in
      (match String.split_on_char ' ' line with
       | [st; mode; hx] ->
           let tok = List.map (fun c -> ntab.(c)) (unhex hx) in
           let st = int_of_string st and ped = (mode = "P") in
           (* _GD_InputCode -> _GD_BuildCode: a leading dot means "relative to the root namespace" and is
              dropped (no namespace or affixes in the harness dirfile); namespaces belong to C09 *)
           let fld code ix = let code = (match code with c :: r when int_of_n c = 46 -> r | _ -> code) in Printf.sprintf " E0.0 S%s[%s]" (String.concat "" (List.map (fun b -> Printf.sprintf "%02x" (int_of_n b)) code)) (z_sdec ix) in
           let use w (lit : float numres -> string) =
             ub_marker := false;
             let r = scalar_of ped st w tok in
             let s = (match r with
               | SError -> " E-1.19"
               | SField (code, ix) -> fld code ix
               | SLiteral v -> lit v) in
             if !ub_marker then " UB" else s in
           let wrap32 (v : z) : int64 = Int64.logand (i64_of_z v) 0xFFFFFFFFL in
           let sx32 (v : z) : int64 = let x = wrap32 v in if Int64.logand x 0x80000000L <> 0L then Int64.sub x 0x100000000L else x in
           let raw = use WUnsigned (function NumU u -> let s = wrap32 u in if s = 0L then " E-1.1" else Printf.sprintf " E0.0 L%Lu" s | _ -> " ?") in
           let ph = use WSigned (function NumI i -> Printf.sprintf " E0.0 L%s" (z_sdec i) | _ -> " ?") in
           let bit = use WSigned (function NumI i -> let b = sx32 i in
                                   (* bitnum + numbits - 1 in int arithmetic: INT_MAX + 1 is undefined in C *)
                                   if b = 2147483647L then (ub_marker := true; " UB")
                                   else if b < 0L then " E-1.5" else if b > 63L then " E-1.6" else Printf.sprintf " E0.0 L%Ld" b | _ -> " ?") in
           let lin = use WComplex (function NumC (re, im) -> Printf.sprintf " E0.0 L%Lx:%Lx:%d" (bits re) (bits im) (if im <> 0.0 then 1 else 0) | _ -> " ?") in
           let win = use WFloat (function NumF re -> Printf.sprintf " E0.0 L%Lx" (bits re) | _ -> " ?") in
           Printf.printf "%s%s%s%s%s\t%s\n" raw ph bit lin win (if spec_is_number tok then "NUM" else "FIELD")
       | _ -> print_endline "BAD")
    done with End_of_file -> ());
    exit 0
  end else if Array.length a >= 2 && a.(1) = "line" then begin
    (* "<P|Q> <version> <line-hex>": the line is tokenised by the model tokeniser and given to
       LineSpec.spec_line, once with the gate table translated from the parser and once with the
       HISTORY table.  Prints "<code-table result>\t<HISTORY-table result>", each either E<suberror>
       or the canonical entry dump of harness/C08/spec.c, or UB *)
    if Array.length a >= 3 then set_cfg a.(2);
    let hx l = if l = [] then "-" else String.concat "" (List.map (fun b -> Printf.sprintf "%02x" (int_of_n b)) l) in
    (try while true do
      let line = String.trim (input_line stdin) in
      (match String.split_on_char ' ' line with
       | [mode; st; hxs] ->
           let ped = (mode = "P") and st = int_of_string st in
           let txt = List.map (fun c -> ntab.(c)) (unhex hxs) in
           let toks = (match tok_line true (not ped || st >= 6) txt with TOk l -> l | TErr _ -> []) in
           let show which tbl =
             ub_marker := false;
             let r = (if which then Model.impl_line else Model.spec_line) fval ferange f_of_z 0.0 (fun d -> d = 0.0) (fun d -> d < 0.0) f_trunc f_trunc_i f_small !the_cfg
                       tbl ped (nat_of_int st) toks in
             let code c = (match c with c0 :: r when int_of_n c0 = 46 -> r | _ -> c) in
             let fld c ix = Printf.sprintf "S%s[%s]" (hx (code c)) (z_sdec ix) in
             let sx32 (v : z) : int64 = let x = Int64.logand (i64_of_z v) 0xFFFFFFFFL in if Int64.logand x 0x80000000L <> 0L then Int64.sub x 0x100000000L else x in
             let p_int32 s = (match s with SField (c, ix) -> fld c ix | SLiteral (NumI i) -> Printf.sprintf "L%Ld" (sx32 i) | SLiteral (NumU u) -> Printf.sprintf "L%Ld" (sx32 u) | _ -> "?") in
             let p_i64 s = (match s with SField (c, ix) -> fld c ix | SLiteral (NumI i) -> "L" ^ z_sdec i | _ -> "?") in
             let p_u64 s = (match s with SField (c, ix) -> fld c ix | SLiteral (NumU u) -> "L" ^ z_udec u | _ -> "?") in
             let p_u32 s = (match s with SField (c, ix) -> fld c ix | SLiteral (NumU u) -> Printf.sprintf "L%Lu" (Int64.logand (i64_of_z u) 0xFFFFFFFFL) | _ -> "?") in
             let p_f s = (match s with SField (c, ix) -> fld c ix | SLiteral (NumF d) -> Printf.sprintf "L%Lx" (bits d) | _ -> "?") in
             let p_c s = (match s with SField (c, ix) -> fld c ix | SLiteral (NumC (re, im)) -> Printf.sprintf "L%Lx:%Lx" (bits re) (bits im) | _ -> "?") in
             let cat f l = String.concat "," (List.map f l) in
             let s = (match r with
               | LErr e -> Printf.sprintf "E%d" (int_of_nat e)
               | LOk (E_RAW (ty, spf)) -> Printf.sprintf "RAW:%x:%s" (int_of_n ty) (p_u32 spf)
               | LOk (E_LINCOM (n, ins, m, b)) -> Printf.sprintf "LINCOM:%d:%s:%s:%s" (int_of_nat n) (cat (fun c -> hx (code c)) ins) (cat p_c m) (cat p_c b)
               | LOk (E_LINTERP (i, tb)) -> Printf.sprintf "LINTERP:%s:%s" (hx (code i)) (hx tb)
               | LOk (E_BIT (sg, i, bn, nb)) -> Printf.sprintf "%s:%s:%s:%s" (if sg then "SBIT" else "BIT") (hx (code i)) (p_int32 bn) (p_int32 nb)
               | LOk (E_YOKE (k, i1, i2)) -> Printf.sprintf "%s:%s,%s" (match int_of_nat k with 0 -> "MULTIPLY" | 1 -> "DIVIDE" | 2 -> "INDIR" | _ -> "SINDIR") (hx (code i1)) (hx (code i2))
               | LOk (E_PHASE (i, sh)) -> Printf.sprintf "PHASE:%s:%s" (hx (code i)) (p_i64 sh)
               | LOk (E_POLYNOM (o, i, a)) -> Printf.sprintf "POLYNOM:%d:%s:%s" (int_of_nat o) (hx (code i)) (cat p_c a)
               | LOk (E_RECIP (i, d)) -> Printf.sprintf "RECIP:%s:%s" (hx (code i)) (p_c d)
               | LOk (E_MPLEX (i1, i2, c, p)) -> Printf.sprintf "MPLEX:%s,%s:%s:%s" (hx (code i1)) (hx (code i2)) (p_int32 c) (p_int32 p)
               | LOk (E_WINDOW (i1, i2, op, th)) ->
                   let o = int_of_nat op in
                   Printf.sprintf "WINDOW:%s,%s:%d:%s" (hx (code i1)) (hx (code i2)) o
                     (if o = 1 || o = 6 then p_i64 th else if o = 7 || o = 8 then p_u64 th else p_f th)
               | LOk (E_CONST ty) -> Printf.sprintf "CONST:%x" (int_of_n ty)
               | LOk (E_CARRAY (ty, len)) -> Printf.sprintf "CARRAY:%x:%d" (int_of_n ty) (int_of_nat len)
               | LOk (E_STRING v) -> "STRING:" ^ hx v
               | LOk (E_SARRAY vs) -> "SARRAY:" ^ cat hx vs) in
             if !ub_marker then "UB" else s in
           let code_tbl g = (match code_gate g with Some v -> v | None -> O) in
           (* model of the _GD_Parse* functions with the translated gates; LineSpec with the same gates; LineSpec with the HISTORY gates *)
           Printf.printf "%s\t%s\t%s\n" (show true code_tbl) (show false code_tbl) (show false spec_gate)
       | _ -> print_endline "BAD")
    done with End_of_file -> ());
    exit 0
  end else if Array.length a >= 2 && a.(1) = "callback" then begin
    (* "<answers> <verdicts>": answers = letters I C A R X per callback call (last repeated);
       verdicts = comma separated, per line "-" (accepted) or the GD_E_FORMAT suberror.
       prints "C<n> <sub>@<line>... E<error> S<sub> L<line>" (format of harness/C08/spec.c) *)
    (try while true do
      let line = String.trim (input_line stdin) in
      (match String.split_on_char ' ' line with
       | [ans; vs] ->
           let n = String.length ans in
           let cb (k : nat) : answer =
             let k = int_of_nat k in
             (match ans.[if k < n then k else n - 1] with
              | 'I' -> IGNORE | 'C' -> CONTINUE | 'A' -> ABORT | 'R' -> RESCAN | _ -> OTHER (nat_of_int 77)) in
           let ls = List.map (fun v -> if v = "-" then [None] else [Some (nat_of_int (int_of_string v)); None])
                      (String.split_on_char ',' vs) in
           let (recs, err) = fragment_run cb ls in
           let rs = String.concat "" (List.map (fun (s, l) -> Printf.sprintf " %d@%d" (int_of_nat s) (int_of_nat l)) recs) in
           (match err with
            | None -> Printf.printf "C%d%s E0 S0 L0\n" (List.length recs) rs
            | Some (Inl (s, l)) -> Printf.printf "C%d%s E-1 S%d L%d\n" (List.length recs) rs (int_of_nat s) (int_of_nat l)
            | Some (Inr _) -> Printf.printf "C%d%s E-25 S0 L0\n" (List.length recs) rs)
       | _ -> print_endline "BAD")
    done with End_of_file -> ());
    exit 0
  end else if Array.length a >= 2 && a.(1) = "vf" then begin
    (* per name: <hex> <176 digits fx=false> \t <176 digits fx=true> \t <11 digits: 1 = the
       Standards refuse the name as a new field name in pedantic mode at Version 0..10> *)
    (try while true do
      let line = String.trim (input_line stdin) in
      let s = List.map (fun c -> ntab.(c)) (unhex line) in
      let digits fx =
        let b = Buffer.create 176 in
        List.iter (fun ty -> List.iter (fun k -> List.iter (fun st ->
          for v = 0 to 10 do
            Buffer.add_char b (if validate_field fx ty (nat_of_int k) (nat_of_int v) st s then '1' else '0')
          done) [false; true]) [0; 2]) [VF_NAME; VF_AFFIX; VF_NS; VF_CODE];
        Buffer.contents b in
      let spec = String.init 11 (fun v -> if spec_name_ok (nat_of_int v) s then '0' else '1') in
      Printf.printf "%s %s\t%s\t%s\n" line (digits false) (digits true) spec
    done with End_of_file -> ());
    exit 0
  end else if Array.length a >= 2 && a.(1) = "gates" then begin
    (* the two gate tables: per name (index in all_gnames), Version 0..10, mode *)
    List.iteri (fun i g ->
      Printf.printf "GATE %d %d %d\n" i
        (match code_gate g with Some v -> int_of_nat v | None -> -1) (int_of_nat (spec_gate g));
      for v = 0 to 10 do
        List.iter (fun ped ->
          Printf.printf "G %d %d %d %d %d\n" i v (if ped then 1 else 0)
            (if code_applies ped (nat_of_int v) g then 1 else 0)
            (if spec_applies ped (nat_of_int v) g then 1 else 0)) [false; true]
      done) all_gnames;
    exit 0
  end else exit 2;
  Printf.printf "STATS strings=%d nontrivial=%d spec_errors=%d fix_differs=%d fixed_vs_spec=%d current_vs_spec=%d pending=[%s] bad=[%s]\n"
    !n_strings !n_nontrivial !n_err !n_fix_differs !n_spec_vs_fixed !n_spec_vs_cur
    (String.concat ";" (List.rev !ex_pending)) (String.concat ";" (List.rev !ex_bad))
