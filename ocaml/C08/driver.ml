(* C08 driver: the extracted tokeniser models on the same generated strings as
   harness/C08/tok.c (same arguments, same canonical result lines).

     driver enum <alphabet-hex> <len> <lo> <hi> <full|hash>
     driver stdin <full|hash>
     driver gates       (prints the translated and the transcribed gate tables)
     driver vf          (names from stdin: validate_field for both variants + spec_name_ok)

   full: per string and dialect (5, 10) one line
         <impl-line fx=false> \t <impl-line fx=true> \t <spec>
         where <impl-line> has the format of the harness and <spec> is
         "OK <tokens>" or "ERR <suberror>" (tok_spec).
   hash: per block of 4096 strings "<first index> <h1> <h2> <h1'> <h2'>"
         (hashes of the fx=false lines, then of the fx=true lines), and at the
         end a line "STATS ..." with counters and examples. *)
open Model

let rec pos_of_int (n : int) : positive =
  if n = 1 then XH else if n land 1 = 1 then XI (pos_of_int (n lsr 1)) else XO (pos_of_int (n lsr 1))
let n_of_int (n : int) : n = if n = 0 then N0 else Npos (pos_of_int n)
let rec int_of_pos (p : positive) : int =
  match p with XH -> 1 | XO q -> 2 * int_of_pos q | XI q -> 2 * int_of_pos q + 1
let int_of_n (v : n) : int = match v with N0 -> 0 | Npos p -> int_of_pos p
let rec nat_of_int (n : int) : nat = if n = 0 then O else S (nat_of_int (n - 1))
let rec int_of_nat (n : nat) : int = match n with O -> 0 | S m -> 1 + int_of_nat m

let ntab = Array.init 256 n_of_int
let hex_of_tok (t : n list) : string =
  if t = [] then "-" else String.concat "" (List.map (fun b -> Printf.sprintf "%02x" (int_of_n b)) t)
let show_toks (l : n list list) : string =
  if l = [] then "_" else String.concat "," (List.map hex_of_tok l)
let errnum (e : terr option) : int = match e with None -> 0 | Some ErrUnterm -> 13 | Some ErrChar -> 7

let impl_line (fx : bool) (s : n list) (inhex : string) (ver : int) : string =
  let v6 = ver >= 6 in
  let (st, se) = strtok_all fx v6 s in
  let o = tokenise fx v6 mAX_IN_COLS s in
  Printf.sprintf "%s %d S %s E%d | L %s E%d P%d\n" inhex ver (show_toks st) (errnum se)
    (show_toks o.toks) (errnum o.terror) (int_of_nat o.tpos)

let spec_str (ver : int) (s : n list) : string =
  match tok_spec (ver >= 6) s with
  | TOk l -> "OK " ^ show_toks l
  | TErr e -> Printf.sprintf "ERR %d" (errnum (Some e))

let res_str (r : tres) : string =
  match r with TOk l -> "OK " ^ show_toks l | TErr e -> Printf.sprintf "ERR %d" (errnum (Some e))

let mask40 = (1 lsl 40) - 1
let h = Array.make 4 0
let hash_line (k : int) (l : string) =
  String.iter (fun c ->
    h.(k) <- (h.(k) * 1000003 + Char.code c) land mask40;
    h.(k+1) <- (h.(k+1) * 8191 + Char.code c + 17) land mask40) l

(* counters *)
let n_strings = ref 0 and n_nontrivial = ref 0 and n_err = ref 0
let n_fix_differs = ref 0 and n_spec_vs_fixed = ref 0 and n_spec_vs_cur = ref 0
let ex_pending : string list ref = ref [] and ex_bad : string list ref = ref []
let hashing = ref false

let one (s : n list) (inhex : string) (ver : int) =
  let l0 = impl_line false s inhex ver and l1 = impl_line true s inhex ver in
  let v6 = ver >= 6 in
  let sp = tok_spec v6 s in
  let i0 = tok_impl false v6 s and i1 = tok_impl true v6 s in
  incr n_strings;
  (match sp with TErr _ -> incr n_err | _ -> ());
  (* non-trivial: an escape, a quote or a comment took part, or it is an error *)
  if ver >= 6 && List.exists (fun b -> let c = int_of_n b in c = 92 || c = 34 || c = 35) s then incr n_nontrivial;
  if l0 <> l1 then incr n_fix_differs;
  if i1 <> sp then begin incr n_spec_vs_fixed; if List.length !ex_bad < 5 then ex_bad := inhex :: !ex_bad end;
  if i0 <> sp then begin incr n_spec_vs_cur; if List.length !ex_pending < 5 then ex_pending := (inhex ^ ":" ^ res_str i0 ^ ":" ^ res_str sp) :: !ex_pending end;
  if !hashing then begin hash_line 0 l0; hash_line 2 l1 end
  else begin
    print_string (String.sub l0 0 (String.length l0 - 1)); print_char '\t';
    print_string (String.sub l1 0 (String.length l1 - 1)); print_char '\t';
    print_endline (spec_str ver s)
  end

let both s inhex = one s inhex 5; one s inhex 10

let unhex (hs : string) : int list =
  if hs = "-" || hs = "" then [] else
  List.init (String.length hs / 2) (fun i -> int_of_string ("0x" ^ String.sub hs (2 * i) 2))

let block = 4096
let flush_block first = Printf.printf "%d %x %x %x %x\n" first h.(0) h.(1) h.(2) h.(3); Array.fill h 0 4 0

let () =
  let a = Sys.argv in
  if Array.length a >= 7 && a.(1) = "enum" then begin
    let alpha = Array.of_list (unhex a.(2)) in
    let na = Array.length alpha in
    let len = int_of_string a.(3) and lo = int_of_string a.(4) and hi = int_of_string a.(5) in
    hashing := (a.(6) = "hash");
    let buf = Buffer.create 64 in
    for i = lo to hi - 1 do
      if !hashing && (i - lo) mod block = 0 && i <> lo then flush_block (i - block);
      let q = ref i in
      let cs = List.init len (fun _ -> let c = alpha.(!q mod na) in q := !q / na; c) in
      Buffer.clear buf;
      List.iter (fun c -> Buffer.add_string buf (Printf.sprintf "%02x" c)) cs;
      let inhex = if len = 0 then "-" else Buffer.contents buf in
      both (List.map (fun c -> ntab.(c)) cs) inhex
    done;
    if !hashing && hi > lo then flush_block (lo + ((hi - lo - 1) / block) * block)
  end else if Array.length a >= 3 && a.(1) = "stdin" then begin
    hashing := (a.(2) = "hash");
    let i = ref 0 in
    (try while true do
      let line = String.trim (input_line stdin) in
      if !hashing && !i mod block = 0 && !i <> 0 then flush_block (!i - block);
      let cs = unhex line in
      both (List.map (fun c -> ntab.(c)) cs) (if cs = [] then "-" else line);
      incr i
    done with End_of_file -> ());
    if !hashing && !i > 0 then flush_block (((!i - 1) / block) * block)
  end else if Array.length a >= 2 && a.(1) = "vf" then begin
    (* per name: <hex> <176 digits fx=false> \t <176 digits fx=true> \t <11 digits: 1 = the
       Standards refuse the name as a new field name in pedantic mode at Version 0..10> *)
    (try while true do
      let line = String.trim (input_line stdin) in
      let s = List.map (fun c -> ntab.(c)) (unhex line) in
      let digits fx =
        let b = Buffer.create 176 in
        List.iter (fun ty -> List.iter (fun k -> List.iter (fun st ->
          for v = 0 to 10 do
            Buffer.add_char b (if validate_field fx ty (nat_of_int k) (nat_of_int v) st s then '1' else '0')
          done) [false; true]) [0; 2]) [VF_NAME; VF_AFFIX; VF_NS; VF_CODE];
        Buffer.contents b in
      let spec = String.init 11 (fun v -> if spec_name_ok (nat_of_int v) s then '0' else '1') in
      Printf.printf "%s %s\t%s\t%s\n" line (digits false) (digits true) spec
    done with End_of_file -> ());
    exit 0
  end else if Array.length a >= 2 && a.(1) = "gates" then begin
    (* the two gate tables: per name (index in all_gnames), Version 0..10, mode *)
    List.iteri (fun i g ->
      Printf.printf "GATE %d %d %d\n" i
        (match code_gate g with Some v -> int_of_nat v | None -> -1) (int_of_nat (spec_gate g));
      for v = 0 to 10 do
        List.iter (fun ped ->
          Printf.printf "G %d %d %d %d %d\n" i v (if ped then 1 else 0)
            (if code_applies ped (nat_of_int v) g then 1 else 0)
            (if spec_applies ped (nat_of_int v) g then 1 else 0)) [false; true]
      done) all_gnames;
    exit 0
  end else exit 2;
  Printf.printf "STATS strings=%d nontrivial=%d spec_errors=%d fix_differs=%d fixed_vs_spec=%d current_vs_spec=%d pending=[%s] bad=[%s]\n"
    !n_strings !n_nontrivial !n_err !n_fix_differs !n_spec_vs_fixed !n_spec_vs_cur
    (String.concat ";" (List.rev !ex_pending)) (String.concat ";" (List.rev !ex_bad))
