(* C04 driver: evaluates the extracted layout model on the x86-64 host instance.
   stdin lines:
     raw  T S c1 c2 ...        -> hex bytes of raw_layout
     sie  T S c1 c2 ...        -> hex bytes of sie_layout (sie_compress vs)
     text T c1 c2 ...          -> hex bytes of text_layout
     draw T S HEXBYTES         -> components of raw_decode
     dsie T S HEXBYTES         -> "<increasing 0/1> " components of sie_expand (sie_parse f)
     dtext T HEXBYTES          -> components of text_decode
     fix  T OLD NEW HEXBYTES   -> hex bytes of fix_endianness
   T = 0..11, S = letters among l b a (0 = no flag); c = hex component patterns. *)
open Model

let rec pos_of_int64u (n : int64) : positive =
  if n = 1L then XH
  else
    let half = Int64.shift_right_logical n 1 in
    if Int64.logand n 1L = 1L then XI (pos_of_int64u half) else XO (pos_of_int64u half)
let z_of_u64 (n : int64) : z = if n = 0L then Z0 else Zpos (pos_of_int64u n)
let rec int64_of_pos (p : positive) : int64 =
  match p with
  | XH -> 1L
  | XO q -> Int64.shift_left (int64_of_pos q) 1
  | XI q -> Int64.logor (Int64.shift_left (int64_of_pos q) 1) 1L
let u64_of_z (v : z) : int64 = match v with Z0 -> 0L | Zpos p -> int64_of_pos p | Zneg p -> Int64.neg (int64_of_pos p)

let types = Array.of_list all_types
let ncomp t = if t >= 10 then 2 else 1
let sex_of s =
  { s_big = String.contains s 'b'; s_little = String.contains s 'l'; s_arm = String.contains s 'a' }
let hexz h = z_of_u64 (Scanf.sscanf h "%Lx" (fun x -> x))
let rec group n l = match l with
  | [] -> []
  | _ -> let rec take k l acc = if k = 0 then (List.rev acc, l) else (match l with x :: r -> take (k-1) r (x :: acc) | [] -> (List.rev acc, [])) in
         let (a, r) = take n l [] in a :: group n r
let bytes_of_hex s =
  let n = String.length s / 2 in
  List.init n (fun i -> z_of_u64 (Int64.of_string ("0x" ^ String.sub s (2*i) 2)))
let hex_of_bytes l =
  let b = Buffer.create 256 in
  List.iter (fun z -> Buffer.add_string b (Printf.sprintf "%02Lx" (u64_of_z z))) l; Buffer.contents b
let show_comps vs = String.concat " " (List.map (fun z -> Printf.sprintf "%Lx" (u64_of_z z)) (List.concat vs))

let () =
  try
    while true do
      let line = input_line stdin in
      let toks = List.filter (fun s -> s <> "") (String.split_on_char ' ' (String.trim line)) in
      (match toks with
       | "raw" :: t :: s :: cs ->
         let ti = int_of_string t in
         let vs = group (ncomp ti) (List.map hexz cs) in
         print_endline (hex_of_bytes (raw_layout x86_64 types.(ti) (sex_of s) vs))
       | "sie" :: t :: s :: cs ->
         let ti = int_of_string t in
         let vs = group (ncomp ti) (List.map hexz cs) in
         print_endline (hex_of_bytes (sie_layout x86_64 types.(ti) (sex_of s) (sie_compress vs)))
       | "text" :: t :: cs ->
         let ti = int_of_string t in
         let vs = group (ncomp ti) (List.map hexz cs) in
         print_endline (hex_of_bytes (text_layout types.(ti) vs))
       | "draw" :: t :: s :: rest ->
         let ti = int_of_string t in
         let f = match rest with h :: _ -> bytes_of_hex h | [] -> [] in
         print_endline (show_comps (raw_decode x86_64 types.(ti) (sex_of s) f))
       | "dsie" :: t :: s :: rest ->
         let ti = int_of_string t in
         let f = match rest with h :: _ -> bytes_of_hex h | [] -> [] in
         let rs = sie_parse x86_64 types.(ti) (sex_of s) f in
         print_endline ((if ends_increasingb (Zneg XH) rs then "1 " else "0 ") ^ show_comps (sie_expand rs))
       | "dtext" :: t :: rest ->
         let ti = int_of_string t in
         let f = match rest with h :: _ -> bytes_of_hex h | [] -> [] in
         print_endline (show_comps (text_decode types.(ti) f))
       | "fix" :: t :: o :: n :: rest ->
         let ti = int_of_string t in
         let f = match rest with h :: _ -> bytes_of_hex h | [] -> [] in
         print_endline (hex_of_bytes (fix_endianness x86_64 types.(ti) (sex_of o) (sex_of n) f))
       | _ -> print_endline "?")
    done
  with End_of_file -> ()
