(* C15 driver: runs the same operation lines as harness/C15/nametab.c on the
   extracted model and prints the same canonical text.
   usage: driver <cfgbits>   (2 chars 0/1: xcache bfrag -- repairs C15-19 / C15-20, proposed but possibly not in the tree)
   extra output per step (lines starting with "i "): the model's invariant bits. *)
open Model

let rec pos_of_int n = if n = 1 then XH else if n land 1 = 1 then XI (pos_of_int (n lsr 1)) else XO (pos_of_int (n lsr 1))
let n_of_int n = if n = 0 then N0 else Npos (pos_of_int n)
let rec int_of_pos = function XH -> 1 | XO p -> 2 * int_of_pos p | XI p -> 2 * int_of_pos p + 1
let int_of_n = function N0 -> 0 | Npos p -> int_of_pos p
let z_of_int n = if n = 0 then Z0 else if n > 0 then Zpos (pos_of_int n) else Zneg (pos_of_int (-n))
let int_of_z = function Z0 -> 0 | Zpos p -> int_of_pos p | Zneg p -> - (int_of_pos p)
let rec nat_to_int = function O -> 0 | S n -> 1 + nat_to_int n

let name_of_string s = List.init (String.length s) (fun i -> n_of_int (Char.code s.[i]))
let string_of_name n = String.concat "" (List.map (fun c -> String.make 1 (Char.chr (int_of_n c))) n)
let tok s = if s = "~" then "" else s
let show s = if s = "" then "~" else s
let optok s = if s = "-" then None else Some (name_of_string (tok s))
let split_list s = if s = "-" then [] else String.split_on_char ',' s

let msel = [0; 1; 2; 3; 4; 5; 6; 7; 8; 9; 10; 11; 12; 13; 14; 15; 16; 17; 18; 19; 20; 21; 22]

let by_id l id = List.find_opt (fun e -> int_of_n e.e_id = int_of_n id) l
let pname l = function
  | None -> "-"
  | Some id -> (match by_id l id with Some e -> show (string_of_name e.e_name) | None -> "!")

let dump st =
  let l = st.s_ents in
  let fr i = match List.nth st.s_fref i with Some n -> show (string_of_name n) | None -> "-" in
  Printf.printf "ref %s fref %s %s\n" (pname l st.s_ref) (fr 0) (fr 1);
  List.iter (fun e ->
    Printf.printf "e %s ty=%d fr=%d hid=%d meta=%d" (show (string_of_name e.e_name)) (int_of_n e.e_ty)
      (int_of_n e.e_frag) (if e.e_hid then 1 else 0) (if e.e_meta then 1 else 0);
    if e.e_meta then Printf.printf " par=%s" (pname l e.e_par)
    else begin
      Printf.printf " par=- kids=%s"
        (if e.e_kids = [] then "-" else String.concat "," (List.map (fun k -> pname l (Some k)) e.e_kids))
    end;
    if int_of_n e.e_ty = 21 then begin
      let tgt = match e.e_ins with (t, _) :: _ -> string_of_name t | [] -> "" in
      Printf.printf " tgt=%s dist=%s dir=%d" (show tgt) (pname l e.e_dist) (if e.e_dir then 1 else 0)
    end else begin
      Printf.printf " ins=%s"
        (if e.e_ins = [] then "-" else String.concat "," (List.map (fun (c, ch) -> show (string_of_name c) ^ ":" ^ pname l ch) e.e_ins));
      Printf.printf " scs=%s"
        (if e.e_scs = [] then "-" else String.concat "," (List.map (function Some c -> show (string_of_name c) | None -> "-") e.e_scs))
    end;
    print_newline ()) l;
  Printf.printf "sorted %d\n" (if sorted_ok st then 1 else 0);
  let container parent =
    let pn = match parent with None -> "-" | Some e -> show (string_of_name e.e_name) in
    let par = match parent with None -> None | Some e -> Some e.e_name in
    Printf.printf "n %s" pn;
    List.iter (fun s -> List.iter (fun f ->
      match nentries st par (n_of_int s) (n_of_int f) with
      | Some n -> Printf.printf " %d" (nat_to_int n)
      | None -> Printf.printf " 0") [0; 1; 2; 3]) msel;
    print_newline ();
    Printf.printf "k %s" pn;
    (match constants st par with
     | Some vs -> List.iter (fun v -> Printf.printf " %d" (int_of_z v)) vs
     | None -> ());
    print_newline ();
    let vals tag ty fmt =
      Printf.printf "%s %s" tag pn;
      (match values_of st par (n_of_int ty) with
       | Some vs -> List.iter (fun v -> Printf.printf " %s" (fmt (int_of_z v))) vs
       | None -> ());
      print_newline () in
    vals "vs" 17 (fun v -> Printf.sprintf "s%d" v);
    vals "vc" 16 (fun v -> Printf.sprintf "2:%d" (v land 255));
    vals "va" 18 (fun v -> Printf.sprintf "s%d" v) in
  container None;
  List.iter (fun e -> if (not e.e_meta) && e.e_kids <> [] then container (Some e)) l

let dump_aliases st =
  let l = st.s_ents in
  List.iter (fun e ->
    if int_of_n e.e_ty <> 21 then begin
      let al = List.filter (fun a -> int_of_n a.e_ty = 21 && (match a.e_dist with Some d -> int_of_n d = int_of_n e.e_id | None -> false)) l in
      if al <> [] then begin
        Printf.printf "al %s %d :" (show (string_of_name e.e_name)) (1 + List.length al);
        List.iter (fun a -> Printf.printf " %s" (show (string_of_name a.e_name))) (e :: al);
        print_newline ()
      end
    end) l

let dump_match st =
  List.iteri (fun a fr ->
    List.iter (fun sl ->
      List.iter (fun f ->
        Printf.printf "x %d %d %d :" a sl f;
        List.iter (fun n -> Printf.printf " %s" (show (string_of_name n)))
          (match_entries st (match fr with Some k -> Some (n_of_int k) | None -> None) (n_of_int sl) (n_of_int f));
        print_newline ()) [0; 3]) [22; 19; 20; 21]) [Some 0; Some 1; None]

let b2 b = if b then 1 else 0

let () =
  let bits = if Array.length Sys.argv > 1 then Sys.argv.(1) else "00" in
  let g i = i < String.length bits && bits.[i] = '1' in
  let cfg = () in
  let st = ref init_state in
  try
    while true do
      let line = input_line stdin in
      let t = Array.of_list (List.filter (fun s -> s <> "") (String.split_on_char ' ' (String.trim line))) in
      if Array.length t > 0 then begin
        if t.(0) = "=" then begin st := init_state; print_endline "=" end
        else begin
          let o = match t.(0) with
            | "A" ->
                let ins = List.map (fun s -> name_of_string (tok s)) (split_list t.(7)) in
                let scs = List.map (fun s -> if s = "-" || s = "~" then None else Some (name_of_string s)) (split_list t.(8)) in
                OAdd (t.(1) = "1", optok t.(2), name_of_string (tok t.(3)), n_of_int (int_of_string t.(4)),
                      n_of_int (int_of_string t.(5)), t.(6) = "1", ins, scs, z_of_int (int_of_string t.(9)))
            | "L" -> OAlias (optok t.(1), name_of_string (tok t.(2)), name_of_string (tok t.(3)), n_of_int (int_of_string t.(4)))
            | "D" -> ODel (name_of_string (tok t.(1)), n_of_int (int_of_string t.(2)))
            | "R" -> ORen (name_of_string (tok t.(1)), name_of_string (tok t.(2)), n_of_int (int_of_string t.(3)))
            | "V" -> OMove (name_of_string (tok t.(1)), n_of_int (int_of_string t.(2)))
            | "H" -> OHide (name_of_string (tok t.(1)), t.(2) = "1")
            | "X" -> OAffix (n_of_int (int_of_string t.(1)), name_of_string (tok t.(2)), name_of_string (tok t.(3)))
            | "Q" -> OList (optok t.(1), n_of_int (int_of_string t.(2)), n_of_int (int_of_string t.(3)))
            | "U" | "I" | "J" | "S" | "N" | "W" -> OAffix (n_of_int 0, [n_of_int 47], [])   (* not modelled: see below *)
            | _ -> failwith ("bad op " ^ t.(0)) in
          let (st', r) = if List.mem t.(0) ["U"; "I"; "J"; "S"; "N"; "W"] then (!st, RUnmodelled) else (ignore cfg; step !st o) in
          (match r with
           | RInt z -> Printf.printf "> r %d\n" (int_of_z z)
           | RList l ->
               print_string "> l";
               List.iter (function Some n -> Printf.printf " %s" (show (string_of_name n)) | None -> print_string " !") l;
               print_newline ()
           | RCrash k -> Printf.printf "> crash %d\n" (int_of_n k)
           | RUnmodelled -> print_endline "> unmodelled");
          (match r with
           | RCrash _ | RUnmodelled -> ()
           | _ ->
             st := st';
             dump !st;
             dump_aliases !st;
             dump_match !st;
             Printf.printf "i sorted=%d fresh=%d ref=%d clive=%d ccons=%d meta=%d alive=%d ares=%d\n"
               (b2 (sorted_ok !st)) (b2 (ids_fresh !st)) (b2 (ref_ok !st)) (b2 (cache_live !st))
               (b2 (cache_consistent !st)) (b2 (meta_ok !st)) (b2 (alias_live !st)) (b2 (alias_resolved !st)))
        end
      end
    done
  with End_of_file -> ()
