(* C01/C16 driver: runs the extracted model on textual case descriptions.
   stdin lines:
     reset
     L <n>                                                   the handle's MPLEX look-back (-1 = all)
     V <align> <rawpad> <alloc0> <clamp> <bofceil>            source variant (0/1 each, from translate/tr_readpath.py)
     raw <id> <ctype 0..9> <spf> <fo> <n> <hex>...          declare RAW leaf data
     def <name> raw <id> | index | phase <in> <shift> | lincom1 <in> <m> <b>
        | lincom2 <a> <b> m1 b1 m2 b2 | lincom3 <a> <b> <c> m1 b1 m2 b2 m3 b3
        | linterp <in> <rows> x y ... | bit <in> <bitnum> <numbits> | sbit ...
        | recip <in> <d> | polynom <in> <k> a0..ak | indir <in> <cty> <n> v...
        | multiply <a> <b> | divide <a> <b> | window <a> <b> <OP> <thr> | mplex <a> <b> <cnt> <period>
        (scalars: hex binary64 bit patterns; window thr: decimal for EQ NE SET CLR)
     G <name> <rt> <s> <n>  -> "G M <e|count vals..>|S <count vals..>|T <tags>"
     E <name>               -> "E <impl_eof> <impl_bof> <spf>|<spec_eof> <spec_bof>|<first k>=0 with is_real, scanned up to 400>|<noclamp> <nophase>"
     N <id>                 -> "N <impl_nframes>|<spec_nframes>"
   values: hex bit patterns, "?" = undefined (XU). *)
open Model

let rec pos_of_int64u (n : int64) : positive =
  if n = 1L then XH
  else
    let half = Int64.shift_right_logical n 1 in
    if Int64.logand n 1L = 1L then XI (pos_of_int64u half) else XO (pos_of_int64u half)
let z_of_u64 (n : int64) : z = if n = 0L then Z0 else Zpos (pos_of_int64u n)
let z_of_i64 (n : int64) : z =
  if n = 0L then Z0 else if n > 0L then Zpos (pos_of_int64u n)
  else if n = Int64.min_int then Zneg (pos_of_int64u n) (* 2^63 as unsigned *)
  else Zneg (pos_of_int64u (Int64.neg n))
let rec int64_of_pos (p : positive) : int64 =
  match p with
  | XH -> 1L
  | XO q -> Int64.shift_left (int64_of_pos q) 1
  | XI q -> Int64.logor (Int64.shift_left (int64_of_pos q) 1) 1L
let i64_of_z (v : z) : int64 = match v with Z0 -> 0L | Zpos p -> int64_of_pos p | Zneg p -> Int64.neg (int64_of_pos p)
let n_of_int (i : int) : n = if i = 0 then N0 else Npos (pos_of_int64u (Int64.of_int i))
let int_of_n (x : n) : int = match x with N0 -> 0 | Npos p -> Int64.to_int (int64_of_pos p)

let hexz (s : string) : z = z_of_u64 (Scanf.sscanf s "%Lx" (fun x -> x))
let decz (s : string) : z = z_of_i64 (Int64.of_string s)

let ctypes = [| I8; U8; I16; U16; I32; U32; I64; U64; F32; F64 |]
let cty s = ctypes.(int_of_string s)

let cur = ref (mk_variant false false false false false)
let lbk = ref (Zneg XH)
let raws : (int, rawinfo) Hashtbl.t = Hashtbl.create 16
let fields : (string, field) Hashtbl.t = Hashtbl.create 64
let dummy = { r_ty = U8; r_spf = Zpos XH; r_fo = Z0; r_data = [] }
let db : database = fun id -> try Hashtbl.find raws (int_of_n id) with Not_found -> dummy
let fld name = try Hashtbl.find fields name with Not_found -> failwith ("unknown field " ^ name)

let rec take k l = if k = 0 then ([], l) else match l with x :: r -> let (a, b) = take (k - 1) r in (x :: a, b) | [] -> failwith "short"
let rec pairs l = match l with x :: y :: r -> (hexz x, hexz y) :: pairs r | _ -> []

let windop s = match s with
  | "EQ" -> WEq | "GE" -> WGe | "GT" -> WGt | "LE" -> WLe | "LT" -> WLt | "NE" -> WNe
  | "SET" -> WSet | "CLR" -> WClr | _ -> failwith "windop"

let define name kind args =
  let f = match kind, args with
    | "raw", [id] -> Raw (n_of_int (int_of_string id))
    | "index", [] -> Index
    | "phase", [a; sh] -> Phase (fld a, decz sh)
    | "lincom1", [a; m; b] -> Un (ULincom (hexz m, hexz b), fld a)
    | "lincom2", [a; b; m1; b1; m2; b2] -> Bin (BLincom (hexz m1, hexz b1, hexz m2, hexz b2), fld a, fld b)
    | "lincom3", [a; b; c; m1; b1; m2; b2; m3; b3] ->
        Tri (TLincom (hexz m1, hexz b1, hexz m2, hexz b2, hexz m3, hexz b3), fld a, fld b, fld c)
    | "linterp", a :: _ :: rows -> Un (ULinterp (pairs rows), fld a)
    | "bit", [a; bn; nb] -> Un (UBit (false, decz bn, decz nb), fld a)
    | "sbit", [a; bn; nb] -> Un (UBit (true, decz bn, decz nb), fld a)
    | "recip", [a; d] -> Un (URecip (hexz d), fld a)
    | "polynom", a :: _ :: co -> Un (UPolynom (List.map hexz co), fld a)
    | "indir", a :: ct :: _ :: vs -> Un (UIndir (cty ct, List.map hexz vs), fld a)
    | "multiply", [a; b] -> Bin (BMultiply, fld a, fld b)
    | "divide", [a; b] -> Bin (BDivide, fld a, fld b)
    | "window", [a; b; op; thr] ->
        let o = windop op in
        let t = (match o with WEq | WNe | WSet | WClr -> decz thr | _ -> hexz thr) in
        Bin (BWindow (o, t), fld a, fld b)
    | "mplex", [a; b; cnt; per] -> Mplex (fld a, fld b, decz cnt, decz per)
    | _ -> failwith ("bad def " ^ kind) in
  Hashtbl.replace fields name f

let show_v (v : xval) = match v with XV b -> Printf.sprintf "%Lx" (i64_of_z b) | XU -> "?"
let show_l l = String.concat " " (List.map show_v l)
let show_tag t = match t with
  | TRawPad -> "rawpad" | TUnaligned -> "unaligned"
  | TMplexRate -> "mplexrate" | TMplexNeg -> "mplexneg" | TAllocZero -> "alloczero" | TMplexSeek -> "mplexseek" | TMplexNested -> "mplexnested"
let zs v = Int64.to_string (i64_of_z v)
let rec len_z l = List.length l

let () =
  try
    while true do
      let line = input_line stdin in
      (try
        match List.filter (fun s -> s <> "") (String.split_on_char ' ' (String.trim line)) with
        | ["reset"] -> Hashtbl.reset raws; Hashtbl.reset fields
        | ["L"; n] -> lbk := decz n
        | ["V"; a; b; c; d; e] -> cur := mk_variant (a = "1") (b = "1") (c = "1") (d = "1") (e = "1")
        | "raw" :: id :: ct :: spf :: fo :: _ :: vals ->
            Hashtbl.replace raws (int_of_string id)
              { r_ty = cty ct; r_spf = decz spf; r_fo = decz fo; r_data = List.map hexz vals }
        | "def" :: name :: kind :: args -> define name kind args
        | ["G"; name; rt; s; n] ->
            let f = fld name and rt = cty rt and s = decz s and n = decz n in
            let m = (match x_impl_read db !cur !lbk rt f s n with
              | None -> "e"
              | Some l -> Printf.sprintf "%d %s" (len_z l) (show_l l)) in
            let sp = x_spec_window db !lbk rt f s n in
            let tags = x_uncovered db !cur !lbk rt f s n in
            Printf.printf "G M %s|S %d %s|T %s\n" m (len_z sp) (show_l sp)
              (String.concat "," (List.sort_uniq compare (List.map show_tag tags)))
        | ["E"; name] ->
            let f = fld name in
            let ie = (match x_impl_eof db !cur f with Some v -> zs v | None -> "none") in
            let se = (match x_spec_eof_report db f with Some v -> zs v | None -> "none") in
            let rec first k = if k > 400 then -1 else if x_is_real db f (z_of_i64 (Int64.of_int k)) then k else first (k + 1) in
            Printf.printf "E %s %s %s|%s %s|%d|%b %b\n" ie (zs (x_impl_bof db !cur f)) (zs (x_spf db f)) se (zs (x_spec_bof db f)) (first 0)
              (x_noclampb db f) (x_nophaseb f)
        | ["N"; id] ->
            let i = n_of_int (int_of_string id) in
            Printf.printf "N %s|%s\n" (zs (x_impl_nframes db i)) (zs (x_spec_nframes db i))
        | [] -> ()
        | _ -> print_endline "bad"
      with Failure m -> Printf.printf "fail %s\n" m
         | Not_found -> print_endline "fail notfound")
    done
  with End_of_file -> ()
