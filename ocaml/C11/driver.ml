(* C11 driver: classification of public names and the protection model, from the extracted Coq. *)
module M = Model

let coq_string (s : string) : M.string =
  let rec go i = if i >= String.length s then M.EmptyString else
    let c = Char.code s.[i] in
    let b k = (c lsr k) land 1 = 1 in
    M.String (M.Ascii (b 0, b 1, b 2, b 3, b 4, b 5, b 6, b 7), go (i + 1)) in
  go 0

let ocaml_string (s : M.string) : string =
  let b = Buffer.create 16 in
  let rec go = function
    | M.EmptyString -> ()
    | M.String (M.Ascii (b0, b1, b2, b3, b4, b5, b6, b7), r) ->
      let v k x = if x then 1 lsl k else 0 in
      Buffer.add_char b (Char.chr (v 0 b0 + v 1 b1 + v 2 b2 + v 3 b3 + v 4 b4 + v 5 b5 + v 6 b6 + v 7 b7)); go r in
  go s; Buffer.contents b

let rec nat_of_int n = if n <= 0 then M.O else M.S (nat_of_int (n - 1))
let rec int_of_nat = function M.O -> 0 | M.S k -> 1 + int_of_nat k

let mclass_name = function
  | M.MAdd -> "add" | M.MAlter -> "alter" | M.MPutData -> "putdata" | M.MPutScalar -> "putscalar" | M.MDelete -> "delete"
  | M.MRename -> "rename" | M.MMove -> "move" | M.MHide -> "hide" | M.MInclude -> "include" | M.MUninclude -> "uninclude"
  | M.MFragAttr -> "fragattr" | M.MProtect -> "protect" | M.MAffix -> "affix" | M.MRewrite -> "rewrite" | M.MReference -> "reference"

let prot_of_int k = { M.p_fmt = (k land 1 = 1); M.p_dat = (k land 2 = 2) }

let res_name = function M.ROk -> "OK" | M.RAccMode -> "ACCMODE" | M.RProtected -> "PROTECTED" | M.RBadIndex -> "BADINDEX" | M.ROther -> "OTHER"

let field_of (w : string) (frags : string) (leaf : string) : M.field =
  let lf = (let g = nat_of_int (int_of_string (String.sub leaf 1 (String.length leaf - 1))) in
            if leaf.[0] = 'R' then M.FRaw g else M.FScalar g) in
  let fr = if frags = "-" then [] else List.map int_of_string (String.split_on_char ',' frags) in
  List.fold_right (fun g acc -> M.FDerived (nat_of_int g, (w = "w"), [acc])) fr lf

let () =
  try
    while true do
      let line = input_line stdin in
      let toks = List.filter (fun s -> s <> "") (String.split_on_char ' ' (String.trim line)) in
      (match toks with
       | ["classify"; n] ->
         print_endline (match M.classify (coq_string n) with
           | None -> "U" | Some M.Reader -> "R" | Some M.Lifetime -> "L" | Some (M.Mutator m) -> "M " ^ mclass_name m)
       | ["api"] -> print_endline (String.concat " " (List.map ocaml_string M.public_api))
       | ["affix_guarded"] -> print_endline (if M.gen_affix_guarded then "1" else "0")
       | "exec" :: rw :: p0 :: p1 :: rest ->
         let s = { M.rw = (rw = "1"); M.prots = [prot_of_int (int_of_string p0); prot_of_int (int_of_string p1); prot_of_int (int_of_string p0); prot_of_int 0; prot_of_int 1];
                   M.meta = [M.O; M.O; M.O; M.O; M.O]; M.data = [M.O; M.O; M.O; M.O; M.O] } in
         let n k = nat_of_int (int_of_string k) in
         let c = (match rest with
           | ["put"; w; frags; leaf] -> M.CPutData (field_of w frags leaf)
           | ["seekw"; w; frags; leaf] -> M.CSeekWrite (field_of w frags leaf)
           | ["puts"; leaf] -> M.CPutScalar (field_of "w" "-" leaf)
           | ["medit"; g] -> M.CMetaEdit (M.MAlter, n g)
           | ["dedit"; g] -> M.CDataEdit (M.MAlter, n g)
           | ["move"; a; b; wd] -> M.CMove (n a, n b, wd = "1")
           | ["fattr"; g; rc] -> M.CFragAttr (n g, rc = "1")
           | ["incl"; g] -> M.CInclude (n g)
           | ["unincl"; g; p] -> M.CUninclude (n g, n p)
           | ["affix"; g; p] -> M.CAffix (n g, n p)
           | ["prot"; g; k] -> M.CProtect (n g, prot_of_int (int_of_string k))
           | ["rewrite"; g] -> M.CRewrite (n g)
           | ["renupdb"; g; users] ->
             M.CRenameUpdb (n g, if users = "-" then [] else List.map n (String.split_on_char ',' users))
           | _ -> failwith "bad call") in
         let (r, s') = M.gen_exec s c in
         let ch l = String.concat "," (List.filter (fun x -> x <> "") (List.mapi (fun i v -> if v <> M.O then string_of_int i else "") l)) in
         print_endline (res_name r ^ " M" ^ ch s'.M.meta ^ " D" ^ ch s'.M.data)
       | [] -> print_endline ""
       | _ -> print_endline ("? " ^ line))
    done
  with End_of_file -> ()
