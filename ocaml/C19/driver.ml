(* C19 driver.  stdin lines:
     A <spf> <frame_offset> <nframes> <base> <n> <f64 bits hex>*n   set the array (element j = sample base + j)
     Q <value bits hex> <field_start> <field_end>             query
   per Q line prints  "<current model> | <C19-1 + C19-2> | <C19-1 only> | <C19-2 only>"  each one of
     ok <num hex>/<den hex> (sign as leading -) , nonfinite , err DOMAIN , err RANGE , HANG *)
open Model

let rec pos_of_int64u (n : int64) : positive =
  if n = 1L then XH
  else
    let half = Int64.shift_right_logical n 1 in
    if Int64.logand n 1L = 1L then XI (pos_of_int64u half) else XO (pos_of_int64u half)

let z_of_u64 (n : int64) : z = if n = 0L then Z0 else Zpos (pos_of_int64u n)
let z_of_int (n : int) : z =
  if n = 0 then Z0 else if n > 0 then Zpos (pos_of_int64u (Int64.of_int n))
  else Zneg (pos_of_int64u (Int64.of_int (-n)))

let hex_of_pos (p : positive) : string =
  (* binary digits, most significant first, then to hex *)
  let rec bits p acc = match p with
    | XH -> 1 :: acc
    | XO q -> bits q (0 :: acc)
    | XI q -> bits q (1 :: acc) in
  let bl = bits p [] in
  let n = List.length bl in
  let pad = (4 - n mod 4) mod 4 in
  let bl = (List.init pad (fun _ -> 0)) @ bl in
  let buf = Buffer.create 32 in
  let rec go = function
    | a :: b :: c :: d :: tl ->
        Buffer.add_char buf "0123456789abcdef".[a * 8 + b * 4 + c * 2 + d]; go tl
    | _ -> () in
  go bl; Buffer.contents buf

let hex_of_z = function
  | Z0 -> "0"
  | Zpos p -> hex_of_pos p
  | Zneg p -> "-" ^ hex_of_pos p

let rec nat_of_int n = if n <= 0 then O else S (nat_of_int (n - 1))

let show = function
  | Ok q -> let q = qred q in Printf.sprintf "ok %s/%s" (hex_of_z q.qnum) (hex_of_pos q.qden)
  | NonFinite -> "nonfinite"
  | EDomain -> "err DOMAIN"
  | ERange -> "err RANGE"
  | OutOfFuel -> "HANG"

let () =
  let arr = ref (fun _ -> None) and spf = ref Z0 and fo = ref Z0 and nf = ref Z0 in
  let fuel = nat_of_int 600 in
  try
    while true do
      let line = input_line stdin in
      match List.filter (fun s -> s <> "") (String.split_on_char ' ' (String.trim line)) with
      | "A" :: s :: o :: f :: b :: _n :: bits ->
          spf := z_of_int (int_of_string s); fo := z_of_int (int_of_string o); nf := z_of_int (int_of_string f);
          let l = List.map (fun h -> q_of_bits (z_of_u64 (Scanf.sscanf h "%Lx" (fun x -> x)))) bits in
          arr := arr_from (z_of_int (int_of_string b)) l
      | [ "Q"; vb; fs; fe ] ->
          let value = q_of_bits (z_of_u64 (Scanf.sscanf vb "%Lx" (fun x -> x))) in
          let a = z_of_int (int_of_string fs) and b = z_of_int (int_of_string fe) in
          let r1 = framenum cur_fxp cur_fxs fuel !arr !spf !fo !nf value a b in
          let r2 = framenum true true fuel !arr !spf !fo !nf value a b in
          let r3 = framenum true false fuel !arr !spf !fo !nf value a b in
          let r4 = framenum false true fuel !arr !spf !fo !nf value a b in
          print_string (show r1); print_string " | "; print_string (show r2); print_string " | ";
          print_string (show r3); print_string " | "; print_endline (show r4)
      | _ -> ()
    done
  with End_of_file -> ()
