/* C12 harness.
 *   flush run DIR OP MODS   open DIR read-write, modify the fragments listed in
 *                           MODS (comma separated indices, "-" for none), then
 *                           between the two marker calls perform OP, report the
 *                           result and the per-fragment `modified` flags, then
 *                           perform OP a second time (the retry after a fault
 *                           has been lifted) and report again.
 *        OP = metaflush | rewrite:<i> | rewriteall | flush | sync | close | include
 *             (include: gd_include("sub1/formatnew", GD_CREAT|GD_EXCL) + a field in it + gd_metaflush)
 *   flush dump DIR          open DIR read-only and print a canonical snapshot
 *                           of the metadata (what a fresh gd_open sees).
 *   flush hold DIR          open DIR read-only, then for every line read on
 *                           stdin print the snapshot again from the SAME handle
 *                           (the reader that had the dirfile open before).
 */
#include "internal.h"
#include <inttypes.h>

static void mark(const char *m) { access(m, F_OK); }

static int cmpstr(const void *a, const void *b) { return strcmp(*(const char *const *)a, *(const char *const *)b); }

static void dump(DIRFILE *D)
{
  int e = gd_error(D);
  unsigned int i, n;
  printf("error %d\n", e);
  if (e) return;
  n = gd_nfragments(D);
  printf("nfragments %u\n", n);
  for (i = 0; i < n; i++) {
    const char *nm = gd_fragmentname(D, i);
    const char *b = nm ? strrchr(nm, '/') : NULL;
    printf("fragment %u %s parent %d enc %lu\n", i, b ? b + 1 : "?", i ? gd_parent_fragment(D, i) : -1,
        gd_encoding(D, i));
  }
  n = gd_nentries(D, NULL, GD_ALL_ENTRIES, 0);
  const char **l = gd_entry_list(D, NULL, GD_ALL_ENTRIES, 0);
  const char **s = malloc(sizeof(*s) * (n + 1));
  for (i = 0; i < n; i++) s[i] = l[i];
  qsort(s, n, sizeof *s, cmpstr);
  for (i = 0; i < n; i++) {
    gd_entry_t E;
    if (gd_entry(D, s[i], &E)) { printf("entry %s ERR %d\n", s[i], gd_error(D)); continue; }
    printf("entry %s type %d frag %d", s[i], E.field_type, E.fragment_index);
    if (E.field_type == GD_CONST_ENTRY) {
      double v = 0;
      gd_get_constant(D, s[i], GD_FLOAT64, &v);
      printf(" const %.17g ctype %d", v, E.EN(scalar,const_type));
    } else if (E.field_type == GD_RAW_ENTRY)
      printf(" raw %d spf %u", E.EN(raw,data_type), E.EN(raw,spf));
    else if (E.field_type == GD_STRING_ENTRY) {
      char buf[256] = "";
      gd_get_string(D, s[i], sizeof buf, buf);
      printf(" string [%s]", buf);
    }
    printf("\n");
    gd_free_entry_strings(&E);
  }
  free(s);
  printf("enddump\n");
}

static int do_op(DIRFILE *D, const char *op)
{
  if (!strcmp(op, "metaflush")) return gd_metaflush(D);
  if (!strncmp(op, "rewrite:", 8)) return gd_rewrite_fragment(D, atoi(op + 8));
  if (!strcmp(op, "rewriteall")) return gd_rewrite_fragment(D, GD_ALL_FRAGMENTS);
  if (!strcmp(op, "flush")) return gd_flush(D, NULL);
  if (!strcmp(op, "sync")) return gd_sync(D, NULL);
  if (!strcmp(op, "close")) return gd_close(D);
  if (!strcmp(op, "include")) {
    /* create a new fragment in a sub-directory, put a field in it, flush;
     * a retry continues where the failed attempt stopped */
    static int fi = -1, field_done = 0;
    if (fi < 0) {
      fi = gd_include(D, "sub1/formatnew", 0, GD_CREAT | GD_EXCL);
      if (fi < 0) {
        int err = gd_error(D);         /* (the next API call clears it) */
        struct stat sb;
        char path[4096];
        snprintf(path, sizeof path, "%s/sub1/formatnew", gd_dirfilename(D));
        if (err == GD_E_IO && stat(path, &sb) == 0)      /* the failed attempt had created it */
          fi = gd_include(D, "sub1/formatnew", 0, GD_CREAT);
        else
          return err;
        if (fi < 0) return gd_error(D);
      }
    }
    if (!field_done) {
      if (gd_add_spec(D, "nn CONST UINT8 77", fi)) return gd_error(D);
      field_done = 1;
    }
    return gd_metaflush(D);
  }
  fprintf(stderr, "bad op %s\n", op);
  exit(2);
}

static void report(DIRFILE *D, const char *tag, int ret, int freed)
{
  int i;
  if (freed) { printf("%s ret %d freed\n", tag, ret); return; }
  printf("%s ret %d error %d flags", tag, ret, gd_error(D));
  for (i = 0; i < D->n_fragment; i++) printf(" %d", D->fragment[i].modified ? 1 : 0);
  printf("\n");
}

int main(int argc, char **argv)
{
  setvbuf(stdout, NULL, _IOLBF, 0);
  if (argc >= 3 && !strcmp(argv[1], "dump")) {
    DIRFILE *D = gd_open(argv[2], GD_RDONLY);
    dump(D);
    gd_discard(D);
    return 0;
  }
  if (argc >= 3 && !strcmp(argv[1], "hold")) {
    char line[64];
    DIRFILE *D = gd_open(argv[2], GD_RDONLY);
    dump(D);
    while (fgets(line, sizeof line, stdin)) dump(D);
    gd_discard(D);
    return 0;
  }
  if (argc >= 5 && !strcmp(argv[1], "run")) {
    const char *op = argv[3];
    char *mods = strdup(argv[4]), *t;
    int ret, freed;
    DIRFILE *D = gd_open(argv[2], GD_RDWR);
    printf("open %d nfragments %d\n", gd_error(D), gd_error(D) ? 0 : gd_nfragments(D));
    if (gd_error(D)) return 3;
    /* history before the flush: C12_PREOPS = comma separated list of
     *   r:<field>          gd_getdata of 2 samples of <field> (the result, also a failure, is only reported)
     *   i:<path>:<parent>  gd_include(<path>, <parent>, 0) of a fragment file that exists on disk
     *   n                  gd_nframes */
    if (getenv("C12_PREOPS") && getenv("C12_PREOPS")[0]) {
      char *pre = strdup(getenv("C12_PREOPS")), *save = NULL, *q;
      for (q = strtok_r(pre, ",", &save); q; q = strtok_r(NULL, ",", &save)) {
        if (q[0] == 'r') {
          double v[4];
          size_t n = gd_getdata(D, q + 2, 0, 0, 0, 2, GD_FLOAT64, v);
          printf("pre %s got %zu error %d\n", q, n, gd_error(D));
        } else if (q[0] == 'i') {
          char *path = q + 2, *c = strrchr(path, ':');
          int parent = 0, fi;
          if (c) { *c = 0; parent = atoi(c + 1); }
          fi = gd_include(D, path, parent, 0);
          printf("pre i:%s ret %d error %d\n", path, fi, gd_error(D));
        } else if (q[0] == 'n') {
          printf("pre n %lld error %d\n", (long long)gd_nframes(D), gd_error(D));
        }
      }
      free(pre);
    }
    {
      int i;
      for (i = 0; i < D->n_fragment; i++) printf("fragname %d %s\n", i, D->fragment[i].cname);
    }
    for (t = strtok(mods, ","); t; t = strtok(NULL, ",")) {
      char spec[128], name[32];
      int i, r1, r2;
      uint8_t v;
      if (t[0] == '-') break;
      i = atoi(t);
      snprintf(spec, sizeof spec, "n%d CONST UINT8 %d", i, 40 + i);
      r1 = gd_add_spec(D, spec, i);
      snprintf(name, sizeof name, "c%d", i);
      v = 90 + i;
      r2 = gd_put_constant(D, name, GD_UINT8, &v);
      printf("mod %d %d %d\n", i, r1, r2);
    }
    {
      int i;
      printf("before flags");
      for (i = 0; i < D->n_fragment; i++) printf(" %d", D->fragment[i].modified ? 1 : 0);
      printf("\n");
    }
    if (getenv("C12_PARENT_ENDIAN")) {
      /* the root fragment changes its byte order (metadata only): every child that inherited it must restate its own */
      int r0 = gd_alter_endianness(D, GD_BIG_ENDIAN, 0, 0);
      int i;
      printf("parent-endian %d\nbefore flags", r0);
      for (i = 0; i < D->n_fragment; i++) printf(" %d", D->fragment[i].modified ? 1 : 0);
      printf("\n");
    }
    mark("/__GD_MARK_BEGIN__");
    ret = do_op(D, op);
    mark("/__GD_MARK_END__");
    freed = (!strcmp(op, "close") && ret == 0);
    report(D, "first", ret, freed);
    if (!freed) {
      ret = do_op(D, op);
      freed = (!strcmp(op, "close") && ret == 0);
      report(D, "retry", ret, freed);
      if (!freed) gd_discard(D);
    }
    return 0;
  }
  fprintf(stderr, "usage: flush run DIR OP MODS | dump DIR | hold DIR\n");
  return 2;
}
