"""Helpers shared by checks/C12.py, C14.py, C18.py: building and driving the
system-call supervisor harness/C12/shim.c, parsing its log, tree snapshots."""
import os, sys, re, hashlib, shutil, subprocess

HERE = os.path.dirname(os.path.abspath(__file__))
sys.path.insert(0, os.path.join(HERE, "..", "..", "bin"))
import vlib

ERRNO = {"EPERM": 1, "ENOENT": 2, "EIO": 5, "EACCES": 13, "EEXIST": 17, "EMFILE": 24, "ENOSPC": 28, "EROFS": 30}


def build_shim(impl):
    """compile shim.c next to the implementation build (content-hash keyed)."""
    src = os.path.join(HERE, "shim.c")
    out = os.path.join(impl, "shim-" + hashlib.sha256(open(src, "rb").read()).hexdigest()[:12])
    if os.path.exists(out):
        return out
    tmp = out + ".tmp%d" % os.getpid()
    rc, o = vlib.sh("gcc -O1 -w -o %s %s" % (tmp, src), timeout=300)
    if rc != 0:
        raise vlib.BuildError("shim does not build:\n" + o[-2000:])
    os.rename(tmp, out)
    return out


def load_staged_findings(chk, pid):
    """known_findings.d/<ID>.json is the staging area merged into
    known_findings.json by the coordinator; honour it directly as well."""
    p = os.path.join(vlib.VERIF, "known_findings.d", pid + ".json")
    if os.path.exists(p):
        try:
            import json
            for f in json.load(open(p)).get("findings", []):
                if f.get("property") == pid and f.get("status", "open") == "open" and \
                        f["key"] not in [k["key"] for k in chk.known]:
                    chk.known.append(f)
        except (ValueError, KeyError) as e:
            chk.notes.append("cannot read %s: %s" % (p, e))


class Call:
    __slots__ = ("idx", "name", "p1", "p2", "arg", "ret", "note")

    def __init__(self, line):
        f = line.rstrip("\n").split("\t")
        f += [""] * (7 - len(f))
        self.idx = int(f[0]); self.name = f[1]; self.p1 = f[2]; self.p2 = f[3]
        self.arg = int(f[4] or 0)
        self.ret = f[5]
        self.note = f[6]

    @property
    def ok(self):
        return self.ret not in ("KILLED",) and int(self.ret) >= 0

    def __repr__(self):
        return "%d:%s(%s%s,%d)=%s%s" % (self.idx, self.name, self.p1, ("," + self.p2) if self.p2 else "", self.arg, self.ret,
                                          "!" if self.note else "")


def read_log(path):
    if not os.path.exists(path):
        return []
    return [Call(l) for l in open(path) if l.strip()]


def run_shim(shim, root, cmd, log=None, snap=None, kill=None, fail=None, timeout=120, inp=None, snap_end=None, env=None, short=None):
    """fail = (k, errno[, count]).  Returns (rc, output)."""
    a = [shim, "-r", root]
    if log:
        a += ["-l", log]
    if snap:
        os.makedirs(snap, exist_ok=True)
        a += ["-s", snap]
    if snap_end:
        os.makedirs(snap_end, exist_ok=True)
        a += ["-S", snap_end]
    if kill is not None:
        a += ["-k", str(kill)]
    if short is not None:
        a += ["-w", str(short)]
    if fail is not None:
        for f in (fail if isinstance(fail, list) else [fail]):
            a += ["-f", ":".join(str(x) for x in f)]
    return vlib.sh(a + ["--"] + cmd, timeout=timeout, inp=inp, env=env)


def tree(root):
    """{relative path: bytes | ('link', target)} for every non-directory below root."""
    out = {}
    for d, dirs, files in os.walk(root):
        for f in files + [x for x in dirs if os.path.islink(os.path.join(d, x))]:
            p = os.path.join(d, f)
            r = os.path.relpath(p, root)
            if os.path.islink(p):
                out[r] = ("link", os.readlink(p))
            else:
                with open(p, "rb") as fh:
                    out[r] = fh.read()
    return out


def dirs_of(root):
    return sorted(os.path.relpath(os.path.join(d, x), root) for d, dirs, _ in os.walk(root) for x in dirs
                  if not os.path.islink(os.path.join(d, x)))


TMP_RE = re.compile(r"(^|/)[A-Za-z0-9_.]*_[A-Za-z0-9]{6}$")


def is_temp_name(rel):
    """mktemp-style name <something>_XXXXXX"""
    return TMP_RE.search(rel) is not None
