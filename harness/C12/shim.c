/* shim: system-call supervisor shared by C12 / C14 / C18.
 *
 * glibc's stdio reaches write(2)/close(2) through hidden internal symbols, so
 * an LD_PRELOAD library does not see the calls fprintf/fclose make.  This
 * supervisor therefore interposes at the real system-call boundary with
 * ptrace(2): it runs a command, and between two marker calls made by the
 * harness  (access("/__GD_MARK_BEGIN__",0) ... access("/__GD_MARK_END__",0))
 * it
 *   (a) logs every file-related system call that touches a path under ROOT
 *       (index, name, path(s), argument, result),
 *   (b) can make the K-th such call fail with a chosen errno (the call is
 *       not executed),
 *   (c) can SIGKILL the process just before the K-th call,
 *   (d) can copy ROOT to SNAP/<K> before every call (the directory state a
 *       concurrent observer or a kill at that instant would see), and
 *   (e) interactive mode: prints "STOP ..." before every call and waits for
 *       a command on stdin:  c = continue, k = kill, f <errno> = fail.
 *
 * usage: shim -r ROOT [-l LOG] [-f K:ERRNO[:COUNT]]... (up to 8 -f) [-k K] [-s SNAPDIR | -S SNAPDIR] [-i]
 *             -- cmd args...
 *   -S SNAPDIR : snapshot only at the END marker (SNAPDIR/end)
 * exit status: that of the command; 137 when killed by -k / k.
 * log line: idx \t name \t path \t path2 \t arg \t result \t note
 *   path is relative to ROOT ("." for ROOT itself); result is the return
 *   value or -errno; note is "INJECT" for an injected failure.
 */
#define _GNU_SOURCE
#include <sys/ptrace.h>
#include <linux/ptrace.h>
#include <sys/wait.h>
#include <sys/user.h>
#include <sys/syscall.h>
#include <sys/stat.h>
#include <fcntl.h>
#include <unistd.h>
#include <stdio.h>
#include <stdlib.h>
#include <string.h>
#include <signal.h>
#include <errno.h>
#include <limits.h>

static char root[PATH_MAX];
static size_t rootlen;
static FILE *logf;
static const char *snapdir;
static int interactive, snap_end_only;
#define MAXFAIL 8
static long fail_k[MAXFAIL], fail_errno[MAXFAIL], fail_count[MAXFAIL], kill_k = -1;
static int nfail;
static long short_k = -1;     /* -w K: the K-th call, if it is a write, transfers only half of its bytes */
static pid_t child;

struct sc { long nr; const char *name; int kind; };
/* kind: 1 = fd in arg0; 2 = path in arg0; 3 = dirfd arg0 + path arg1;
 * 4 = two paths (arg0,arg1); 5 = dirfd,path,dirfd,path (arg0..3);
 * 6 = path arg0 , dirfd arg1, path arg2 (symlinkat) */
static const struct sc table[] = {
  { SYS_read, "read", 1 }, { SYS_write, "write", 1 }, { SYS_pread64, "pread", 1 },
  { SYS_pwrite64, "pwrite", 1 }, { SYS_readv, "readv", 1 }, { SYS_writev, "writev", 1 },
  { SYS_close, "close", 1 }, { SYS_fstat, "fstat", 1 }, { SYS_lseek, "lseek", 1 },
  { SYS_fsync, "fsync", 1 }, { SYS_fdatasync, "fdatasync", 1 }, { SYS_ftruncate, "ftruncate", 1 },
  { SYS_fchmod, "fchmod", 1 }, { SYS_fcntl, "fcntl", 1 }, { SYS_getdents64, "getdents", 1 },
  { SYS_getdents, "getdents", 1 }, { SYS_fchown, "fchown", 1 },
  { SYS_open, "open", 2 }, { SYS_creat, "creat", 2 }, { SYS_stat, "stat", 2 }, { SYS_lstat, "lstat", 2 },
  { SYS_truncate, "truncate", 2 }, { SYS_mkdir, "mkdir", 2 }, { SYS_rmdir, "rmdir", 2 },
  { SYS_unlink, "unlink", 2 }, { SYS_readlink, "readlink", 2 }, { SYS_chmod, "chmod", 2 },
  { SYS_utime, "utime", 2 }, { SYS_utimes, "utimes", 2 }, { SYS_chdir, "chdir", 2 },
  { SYS_openat, "openat", 3 }, { SYS_mkdirat, "mkdirat", 3 }, { SYS_newfstatat, "fstatat", 3 },
  { SYS_unlinkat, "unlinkat", 3 }, { SYS_readlinkat, "readlinkat", 3 }, { SYS_fchmodat, "fchmodat", 3 },
  { SYS_utimensat, "utimensat", 3 }, { SYS_futimesat, "futimesat", 3 },
#ifdef SYS_statx
  { SYS_statx, "statx", 3 },
#endif
#ifdef SYS_openat2
  { SYS_openat2, "openat2", 3 },
#endif
  { SYS_rename, "rename", 4 }, { SYS_link, "link", 4 }, { SYS_symlink, "symlink", 4 },
  { SYS_renameat, "renameat", 5 }, { SYS_linkat, "linkat", 5 },
#ifdef SYS_renameat2
  { SYS_renameat2, "renameat2", 5 },
#endif
  { SYS_symlinkat, "symlinkat", 6 },
  { -1, NULL, 0 }
};

static int read_str(pid_t p, unsigned long addr, char *buf, size_t n)
{
  size_t i = 0;
  if (!addr) { buf[0] = 0; return -1; }
  while (i + 1 < n) {
    errno = 0;
    long w = ptrace(PTRACE_PEEKDATA, p, addr + i, 0);
    if (errno) break;
    for (size_t j = 0; j < sizeof(long) && i + 1 < n; j++, i++) {
      buf[i] = ((char *)&w)[j];
      if (!buf[i]) return 0;
    }
  }
  buf[i] = 0;
  return 0;
}

/* lexical normalisation of an absolute path (no symlink resolution of the last
 * component: the operation is on the name) */
static void normalise(char *p)
{
  char out[PATH_MAX * 2]; size_t o = 0; char *s = p;
  out[0] = 0;
  while (*s) {
    while (*s == '/') s++;
    char *e = s; while (*e && *e != '/') e++;
    size_t l = e - s;
    if (l == 0) break;
    if (l == 1 && s[0] == '.') { }
    else if (l == 2 && s[0] == '.' && s[1] == '.') { while (o > 0 && out[o - 1] != '/') o--; if (o > 0) o--; }
    else { out[o++] = '/'; memcpy(out + o, s, l); o += l; }
    s = e;
  }
  if (o == 0) out[o++] = '/';
  out[o] = 0;
  strcpy(p, out);
}

static void fd_path(pid_t p, long fd, char *buf, size_t n)
{
  char lnk[64];
  if ((int)fd == AT_FDCWD) snprintf(lnk, sizeof lnk, "/proc/%d/cwd", p);
  else snprintf(lnk, sizeof lnk, "/proc/%d/fd/%ld", p, fd);
  ssize_t r = readlink(lnk, buf, n - 1);
  if (r < 0) r = 0;
  buf[r] = 0;
  char *d = strstr(buf, " (deleted)");
  if (d && d[10] == 0) *d = 0;
}

static void at_path(pid_t p, long dirfd, unsigned long addr, char *buf, size_t n)
{
  char name[PATH_MAX];
  read_str(p, addr, name, sizeof name);
  if (name[0] == '/') snprintf(buf, n, "%s", name);
  else {
    char dir[PATH_MAX];
    fd_path(p, dirfd, dir, sizeof dir);
    snprintf(buf, n, "%s/%s", dir, name);
  }
  normalise(buf);
}

static const char *rel(const char *abs)
{
  if (strncmp(abs, root, rootlen) == 0) {
    if (abs[rootlen] == 0) return ".";
    if (abs[rootlen] == '/') return abs + rootlen + 1;
  }
  return NULL;
}

static void snapshot(const char *tag)
{
  char cmd[PATH_MAX * 2 + 64];
  if (!snapdir) return;
  snprintf(cmd, sizeof cmd, "cp -a '%s' '%s/%s'", root, snapdir, tag);
  if (system(cmd) != 0) fprintf(stderr, "shim: snapshot failed: %s\n", cmd);
}

int main(int argc, char **argv)
{
  int a = 1;
  const char *logname = NULL;
  while (a < argc && strcmp(argv[a], "--")) {
    if (!strcmp(argv[a], "-r") && a + 1 < argc) { if (!realpath(argv[++a], root)) { perror("realpath"); return 2; } }
    else if (!strcmp(argv[a], "-l") && a + 1 < argc) logname = argv[++a];
    else if (!strcmp(argv[a], "-s") && a + 1 < argc) snapdir = argv[++a];
    else if (!strcmp(argv[a], "-S") && a + 1 < argc) { snapdir = argv[++a]; snap_end_only = 1; }
    else if (!strcmp(argv[a], "-k") && a + 1 < argc) kill_k = atol(argv[++a]);
    else if (!strcmp(argv[a], "-i")) interactive = 1;
    else if (!strcmp(argv[a], "-w") && a + 1 < argc) short_k = atol(argv[++a]);
    else if (!strcmp(argv[a], "-f") && a + 1 < argc) {
      char *s = argv[++a];
      if (nfail < MAXFAIL) {
        fail_k[nfail] = strtol(s, &s, 10);
        fail_errno[nfail] = 0; fail_count[nfail] = 1;
        if (*s == ':') fail_errno[nfail] = strtol(s + 1, &s, 10);
        if (*s == ':') fail_count[nfail] = strtol(s + 1, &s, 10);
        nfail++;
      }
    } else { fprintf(stderr, "shim: bad option %s\n", argv[a]); return 2; }
    a++;
  }
  if (a >= argc - 0 || !root[0]) { fprintf(stderr, "usage: shim -r ROOT [...] -- cmd\n"); return 2; }
  a++;
  rootlen = strlen(root);
  if (logname) { logf = fopen(logname, "w"); if (!logf) { perror(logname); return 2; } }

  child = fork();
  if (child == 0) {
    ptrace(PTRACE_TRACEME, 0, 0, 0);
    raise(SIGSTOP);
    execvp(argv[a], argv + a);
    _exit(127);
  }
  int st;
  waitpid(child, &st, 0);
  ptrace(PTRACE_SETOPTIONS, child, 0, PTRACE_O_TRACESYSGOOD | PTRACE_O_EXITKILL);

  int in_window = 0, in_syscall = 0;
  long idx = 0;
  int cur_logged = 0, cur_inject = 0, cur_short = 0; long cur_errno = 0;
  char p1[PATH_MAX * 2], p2[PATH_MAX * 2], rp1[PATH_MAX], rp2[PATH_MAX];
  const char *cur_name = ""; long cur_arg = 0;
  int sig = 0, status = 0;

  for (;;) {
    ptrace(PTRACE_SYSCALL, child, 0, sig);
    sig = 0;
    if (waitpid(child, &st, 0) < 0) break;
    if (WIFEXITED(st)) { status = WEXITSTATUS(st); break; }
    if (WIFSIGNALED(st)) { status = 128 + WTERMSIG(st); break; }
    if (!WIFSTOPPED(st)) continue;
    if (WSTOPSIG(st) != (SIGTRAP | 0x80)) {
      if (WSTOPSIG(st) != SIGTRAP) sig = WSTOPSIG(st);
      continue;
    }
    struct user_regs_struct r;
    ptrace(PTRACE_GETREGS, child, 0, &r);
    {
      struct ptrace_syscall_info si;
      memset(&si, 0, sizeof si);
      if (ptrace(PTRACE_GET_SYSCALL_INFO, child, sizeof si, &si) > 0) {
        if (si.op == PTRACE_SYSCALL_INFO_ENTRY) in_syscall = 0;
        else if (si.op == PTRACE_SYSCALL_INFO_EXIT) in_syscall = 1;
      }
    }
    if (!in_syscall) {
      /* ---- entry ---- */
      in_syscall = 1;
      cur_logged = 0; cur_inject = 0; cur_short = 0;
      long nr = r.orig_rax;
      /* markers */
      if (nr == SYS_access || nr == SYS_faccessat
#ifdef SYS_faccessat2
          || nr == SYS_faccessat2
#endif
         ) {
        char m[64];
        read_str(child, nr == SYS_access ? r.rdi : r.rsi, m, sizeof m);
        if (!strcmp(m, "/__GD_MARK_BEGIN__")) in_window = 1;
        else if (!strcmp(m, "/__GD_MARK_END__")) {
          if (in_window) { snapshot("end"); if (interactive) { printf("END\n"); fflush(stdout); } }
          in_window = 0;
        }
        continue;
      }
      if (!in_window) continue;
      const struct sc *e;
      for (e = table; e->name; e++) if (e->nr == nr) break;
      if (!e->name) continue;
      p1[0] = p2[0] = 0;
      cur_arg = 0;
      switch (e->kind) {
        case 1: fd_path(child, (long)(int)r.rdi, p1, sizeof p1);
                if (nr == SYS_write || nr == SYS_read || nr == SYS_pwrite64 || nr == SYS_pread64) cur_arg = (long)r.rdx;
                else if (nr == SYS_ftruncate || nr == SYS_fchmod || nr == SYS_fcntl || nr == SYS_lseek) cur_arg = (long)r.rsi;
                break;
        case 2: at_path(child, AT_FDCWD, r.rdi, p1, sizeof p1); if (nr == SYS_open) cur_arg = (long)r.rsi; break;
        case 3: at_path(child, (long)(int)r.rdi, r.rsi, p1, sizeof p1); if (nr == SYS_openat) cur_arg = (long)r.rdx; if (nr == SYS_unlinkat) cur_arg = (long)r.rdx; break;
        case 4: at_path(child, AT_FDCWD, r.rdi, p1, sizeof p1); at_path(child, AT_FDCWD, r.rsi, p2, sizeof p2); break;
        case 5: at_path(child, (long)(int)r.rdi, r.rsi, p1, sizeof p1); at_path(child, (long)(int)r.rdx, r.r10, p2, sizeof p2); break;
        case 6: read_str(child, r.rdi, p1, sizeof p1); at_path(child, (long)(int)r.rsi, r.rdx, p2, sizeof p2); break;
      }
      const char *q1 = rel(p1), *q2 = p2[0] ? rel(p2) : NULL;
      if (e->kind == 6) { q1 = NULL; }
      if (!q1 && !q2) continue;
      snprintf(rp1, sizeof rp1, "%s", q1 ? q1 : p1);
      snprintf(rp2, sizeof rp2, "%s", p2[0] ? (q2 ? q2 : p2) : "");
      cur_logged = 1; cur_name = e->name;
      /* this is logged call number idx */
      if (snapdir && !snap_end_only) { char t[32]; snprintf(t, sizeof t, "%ld", idx); snapshot(t); }
      int do_kill = (idx == kill_k), do_fail = 0, fi;
      cur_errno = 0;
      for (fi = 0; fi < nfail; fi++)
        if (idx >= fail_k[fi] && idx < fail_k[fi] + fail_count[fi]) { do_fail = 1; cur_errno = fail_errno[fi]; }
      if (interactive) {
        char line[128];
        printf("STOP\t%ld\t%s\t%s\t%s\t%ld\n", idx, cur_name, rp1, rp2, cur_arg);
        fflush(stdout);
        if (!fgets(line, sizeof line, stdin)) do_kill = 1;
        else if (line[0] == 'k') do_kill = 1;
        else if (line[0] == 'f') { do_fail = 1; cur_errno = atol(line + 1); }
      }
      if (do_kill) {
        if (logf) { fprintf(logf, "%ld\t%s\t%s\t%s\t%ld\tKILLED\t\n", idx, cur_name, rp1, rp2, cur_arg); fflush(logf); }
        kill(child, SIGKILL);
        waitpid(child, &st, 0);
        status = 137;
        break;
      }
      if (idx == short_k && (nr == SYS_write || nr == SYS_pwrite64) && r.rdx >= 2) {
        r.rdx = r.rdx / 2;          /* a short write: the call succeeds with fewer bytes than asked for */
        ptrace(PTRACE_SETREGS, child, 0, &r);
        cur_short = 1;
      }
      if (do_fail) {
        cur_inject = 1;
        r.orig_rax = -1;            /* no such system call: the kernel skips it */
        ptrace(PTRACE_SETREGS, child, 0, &r);
      }
    } else {
      /* ---- exit ---- */
      in_syscall = 0;
      if (!cur_logged) continue;
      long ret = (long)r.rax;
      if (cur_inject) {
        r.rax = (unsigned long)(-cur_errno);
        ptrace(PTRACE_SETREGS, child, 0, &r);
        ret = -cur_errno;
      }
      if (logf) {
        fprintf(logf, "%ld\t%s\t%s\t%s\t%ld\t%ld\t%s\n", idx, cur_name, rp1, rp2, cur_arg, ret, cur_inject ? "INJECT" : cur_short ? "SHORT" : "");
        fflush(logf);
      }
      if (interactive) { printf("RET\t%ld\t%ld\n", idx, ret); fflush(stdout); }
      idx++;
    }
  }
  if (logf) fclose(logf);
  return status;
}
