/* C05 harness (recursion): argv[1] = dirfile; stdin: field names, one per
 * line.  For each: gd_getdata64 (8 samples from 0, FLOAT64) on a fresh handle;
 * prints "<field> <error> <recurse_level after>" */
#include "internal.h"
int main(int argc, char **argv)
{
  char line[256]; double buf[64];
  alarm(30);
  DIRFILE *D = gd_open(argv[1], GD_RDONLY);
  if (gd_error(D)) { printf("OPEN %d\n", gd_error(D)); return 1; }
  while (fgets(line, sizeof line, stdin)) {
    line[strcspn(line, "\n")] = 0;
    if (!line[0]) continue;
    gd_getdata64(D, line, 0, 0, 0, 8, GD_FLOAT64, buf);
    int e1 = gd_error(D);
    gd_eof64(D, line); int e2 = gd_error(D);
    gd_bof64(D, line); int e3 = gd_error(D);
    gd_spf(D, line); int e4 = gd_error(D);
    printf("%s %d %d %d %d %d\n", line, e1, e2, e3, e4, D->recurse_level);
  }
  gd_discard(D);
  return 0;
}
