/* C05 harness (recursion): argv[1] = dirfile; stdin: field names, one per
 * line.  For each: gd_getdata64 (8 samples from 0, FLOAT64), gd_eof, gd_bof, gd_spf, then gd_seek, gd_tell,
 * gd_native_type, gd_raw_close, gd_sync; prints "<field> <errors of the first four> <recurse_level> <errors of
 * the other five> <recurse_level>".  alarm(30): an evaluator that fans out over a cycle is killed. */
#include "internal.h"
int main(int argc, char **argv)
{
  char line[256]; double buf[64];
  alarm(30);
  DIRFILE *D = gd_open(argv[1], GD_RDONLY);
  if (gd_error(D)) { printf("OPEN %d\n", gd_error(D)); return 1; }
  while (fgets(line, sizeof line, stdin)) {
    line[strcspn(line, "\n")] = 0;
    if (!line[0]) continue;
    gd_getdata64(D, line, 0, 0, 0, 8, GD_FLOAT64, buf);
    int e1 = gd_error(D);
    gd_eof64(D, line); int e2 = gd_error(D);
    gd_bof64(D, line); int e3 = gd_error(D);
    gd_spf(D, line); int e4 = gd_error(D);
    int lv1 = D->recurse_level;
    /* the other evaluators that walk the field graph on the same depth counter */
    gd_seek64(D, line, 0, 3, GD_SEEK_SET); int e5 = gd_error(D);
    gd_tell64(D, line); int e6 = gd_error(D);
    gd_native_type(D, line); int e7 = gd_error(D);
    gd_raw_close(D, line); int e8 = gd_error(D);
    gd_sync(D, line); int e9 = gd_error(D);
    printf("%s %d %d %d %d %d %d %d %d %d %d %d\n", line, e1, e2, e3, e4, lv1, e5, e6, e7, e8, e9, D->recurse_level);
  }
  gd_discard(D);
  return 0;
}
