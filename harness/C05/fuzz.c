/* C05 harness (validation stream): open a possibly malformed dirfile and run
 * every read-side API call on every field the parser accepted.
 * argv[1] = dirfile path.  Prints one line per call: "<call> <field> <error> <n>".
 * Exit status 0 unless a call returned something that is neither success nor
 * a GetData error (checked here), or the sanitizer aborted the process.
 * An alarm bounds every run (a hang is reported by the driver as a timeout). */
#include "internal.h"
#include <inttypes.h>
#include <signal.h>

static int cb(gd_parser_data_t *p, void *extra)
{
  int *n = extra; (*n)++;
  (void)p;
  return GD_SYNTAX_IGNORE;
}

static int bad = 0;
/* FNV-1a over the bytes a call returned, so that two runs with differently filled heaps can be
 * compared: a difference means the result depends on uninitialised memory */
static unsigned long long sum(const void *p, size_t n)
{
  const unsigned char *b = p; unsigned long long h = 1469598103934665603ULL; size_t i;
  for (i = 0; i < n; i++) { h ^= b[i]; h *= 1099511628211ULL; }
  return h;
}
static void report_data(const char *call, const char *f, DIRFILE *D, size_t n, const void *buf, size_t esz)
{
  int e = gd_error(D);
  printf("%s %s %d %zu sum=%llx\n", call, f, e, n, (e == 0 && n > 0 && n <= 4096) ? sum(buf, n * esz) : 0ULL);
}
static void report(const char *call, const char *f, DIRFILE *D, long long n)
{
  int e = gd_error(D);
  char buf[4096];
  printf("%s %s %d %lld\n", call, f, e, n);
  if (e > 0 || e < -GD_N_ERROR_CODES) { printf("BAD-ERROR-CODE %d\n", e); bad = 1; }
  if (e == GD_E_INTERNAL_ERROR) printf("NOTE-INTERNAL-ERROR\n"); /* a GetData error code: C10's concern, not a C05 failure */
  if (e) gd_error_string(D, buf, sizeof buf);
}

#include <dirent.h>
static int count_fds(void)
{
  int n = 0; DIR *d = opendir("/proc/self/fd"); struct dirent *e;
  if (!d) return -1;
  while ((e = readdir(d))) if (e->d_name[0] != '.') n++;
  closedir(d);
  return n;
}

int main(int argc, char **argv)
{
  int fds0 = count_fds();
  int nerr = 0, pedantic = argc > 2 && argv[2][0] == 'p';
  unsigned i, nf;
  const char **fl;
  static double dbuf[4096 * 2];
  static int64_t ibuf[4096];
  alarm(20);
  DIRFILE *D = gd_cbopen(argv[1], GD_RDONLY | (pedantic ? GD_PEDANTIC : 0), cb, &nerr);
  if (D == NULL) { printf("NULL-HANDLE\n"); return 2; }
  report("open", "-", D, nerr);
  if (gd_error(D)) { gd_discard(D); return bad; }
  nf = gd_nentries(D, NULL, GD_ALL_ENTRIES, GD_ENTRIES_HIDDEN);
  fl = gd_entry_list(D, NULL, GD_ALL_ENTRIES, GD_ENTRIES_HIDDEN);
  report("nframes", "-", D, (long long)gd_nframes64(D));
  { const char *r = gd_reference(D, NULL); report("reference", r ? r : "(null)", D, 0); }
  for (i = 0; fl && i < nf && i < 200; i++) {
    const char *f = fl[i];
    gd_entry_t E;
    gd_entype_t t = gd_entry_type(D, f);
    report("entry_type", f, D, t);
    if (gd_entry(D, f, &E) == 0) { report("entry", f, D, E.field_type); gd_free_entry_strings(&E); }
    else report("entry", f, D, -1);
    report("fragment_index", f, D, gd_fragment_index(D, f));
    report("validate", f, D, gd_validate(D, f));
    if (t == GD_CONST_ENTRY) { { int rr = gd_get_constant(D, f, GD_FLOAT64, dbuf); report_data("get_constant", f, D, rr == 0 ? 1 : 0, dbuf, 8); } continue; }
    if (t == GD_CARRAY_ENTRY) { size_t l = gd_array_len(D, f); report("array_len", f, D, l);
      if (l <= 4096) { int rr = gd_get_carray(D, f, GD_FLOAT64, dbuf); report_data("get_carray", f, D, rr == 0 ? l : 0, dbuf, 8); } continue; }
    if (t == GD_STRING_ENTRY) { char sb[64]; report("get_string", f, D, gd_get_string(D, f, sizeof sb, sb)); continue; }
    if (t == GD_SARRAY_ENTRY) { report("array_len", f, D, gd_array_len(D, f)); continue; }
    if (t == GD_NO_ENTRY) continue;
    {
      unsigned spf = gd_spf(D, f); report("spf", f, D, spf);
      report("native_type", f, D, gd_native_type(D, f));
      long long eof = gd_eof64(D, f); report("eof", f, D, eof);
      long long bof = gd_bof64(D, f); report("bof", f, D, bof);
      if (t == GD_SINDIR_ENTRY) {
        /* twice (a failed first resolution of the inputs must not be remembered as a success), and every string
         * handed back is read: a pointer that is not a string is an ASan report */
        int rep;
        for (rep = 0; rep < 2; rep++) {
          const char *sb[64]; size_t k, ns, tot = 0;
          memset(sb, 0, sizeof sb);
          ns = gd_getdata64(D, f, 0, 0, 0, 8, GD_STRING, sb);
          for (k = 0; k < ns && k < 64; k++) if (sb[k]) tot += strlen(sb[k]);
          report(rep ? "getdata_s2" : "getdata_s", f, D, (long long)(ns * 1000 + tot % 1000));
        }
        continue;
      }
      report_data("getdata_d0", f, D, gd_getdata64(D, f, 0, 0, 0, 64, GD_FLOAT64, dbuf), dbuf, 8);
      report_data("getdata_i3", f, D, gd_getdata64(D, f, 0, 3, 0, 17, GD_INT64, ibuf), ibuf, 8);
      report_data("getdata_c", f, D, gd_getdata64(D, f, 1, 1, 1, 5, GD_COMPLEX128, dbuf), dbuf, 16);
      report_data("getdata_u2", f, D, gd_getdata64(D, f, 0, 2, 0, 23, GD_FLOAT64, dbuf), dbuf, 8);
      report_data("getdata_u5", f, D, gd_getdata64(D, f, 0, 5, 0, 21, GD_FLOAT64, dbuf), dbuf, 8);
      report_data("getdata_u7", f, D, gd_getdata64(D, f, 0, 7, 0, 19, GD_COMPLEX128, dbuf), dbuf, 16);
      report("getdata_null", f, D, gd_getdata64(D, f, 0, 0, 2, 0, GD_NULL, NULL));
      if (eof > 8) report_data("getdata_tail", f, D, gd_getdata64(D, f, 0, eof - 5, 0, 16, GD_FLOAT64, dbuf), dbuf, 8);
      report("getdata_far", f, D, gd_getdata64(D, f, 0, 1000000, 0, 9, GD_FLOAT64, dbuf));
      { /* representation suffixes */
        char code[300]; const char *sfx[4] = { ".i", ".r", ".m", ".a" }; int q;
        if (strlen(f) < 290) for (q = 0; q < 4; q++) {
          snprintf(code, sizeof code, "%s%s", f, sfx[q]);
          report("getdata_repr", code, D, gd_getdata64(D, code, 0, 2, 0, 9, (q & 1) ? GD_FLOAT64 : GD_INT32, dbuf));
        }
      }
      report("seek", f, D, gd_seek64(D, f, 0, 7, GD_SEEK_SET));
      report("tell", f, D, gd_tell64(D, f));
      report_data("getdata_here", f, D, gd_getdata64(D, f, GD_HERE, 0, 0, 11, GD_FLOAT64, dbuf), dbuf, 8);
      report("seek_end", f, D, gd_seek64(D, f, 0, -2, GD_SEEK_END));
      report("getdata_here2", f, D, gd_getdata64(D, f, GD_HERE, 0, 0, 5, GD_FLOAT64, dbuf));
      report("seek0", f, D, gd_seek64(D, f, 0, 0, GD_SEEK_SET));
      report_data("getdata_back", f, D, gd_getdata64(D, f, 0, 1, 0, 30, GD_UINT8, ibuf), ibuf, 1);
#ifdef C05_FRAMENUM
      report("framenum", f, D, (long long)gd_framenum_subset64(D, f, 3.5, 0, 0));
#endif
    }
  }
  {
    unsigned k, nfr = gd_nfragments(D);
    for (k = 0; k < nfr && k < 40; k++) {
      const char *nm = gd_fragmentname(D, k);
      report("fragment", nm ? nm : "(null)", D, gd_encoding(D, k));
      report("endianness", "-", D, gd_endianness(D, k));
      report("frameoffset", "-", D, gd_frameoffset64(D, k));
      report("protection", "-", D, gd_protection(D, k));
      report("parent", "-", D, gd_parent_fragment(D, k));
    }
  }
  if (gd_close(D)) {
    /* the handle survives a failed close: the documented way out is gd_discard; retry it a
     * bounded number of times (each attempt closes at most one more failing file) */
    int k, e0 = gd_error(D);
    printf("CLOSE-FAILED %d\n", e0);
    for (k = 1; k <= 64; k++)
      if (gd_discard(D) == 0) break;
    if (k <= 64) printf("DISCARD-RETRIES %d\n", k); else printf("DISCARD-NEVER\n");
  }
  { int fds1 = count_fds(); if (fds0 >= 0 && fds1 > fds0) {
      int k; printf("FD-LEAK %d:", fds1 - fds0);
      for (k = 3; k < 64; k++) { char l[64], t[512]; ssize_t r; snprintf(l, sizeof l, "/proc/self/fd/%d", k);
        r = readlink(l, t, sizeof t - 1); if (r > 0) { t[r] = 0; const char *b = strrchr(t, '/'); printf(" %s", b ? b + 1 : t); } }
      printf("\n"); bad = 1; } }
  fflush(stdout);
  return bad;
}
