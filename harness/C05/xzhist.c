/* C05 harness (lzma window): argv[1] = dirfile with RAW field "x" (type given in format,
 * /ENCODING lzma), argv[2] = sample size in bytes.  stdin: one line of ops "first,n first,n ...";
 * ONE handle: for each op gd_getdata64(x, first_sample=first, n) in the native type, printing
 * "<count>:<hex bytes>" per op.  Output buffer is exactly n samples (malloc) so an overrun is an ASan report. */
#include "internal.h"
int main(int argc, char **argv)
{
  static char line[1 << 16];
  int size = atoi(argv[2]);
  DIRFILE *D = gd_open(argv[1], GD_RDONLY);
  if (gd_error(D)) { printf("OPEN %d\n", gd_error(D)); return 1; }
  gd_type_t t = gd_native_type(D, "x");
  if (!fgets(line, sizeof line, stdin)) return 0;
  char *p = line;
  for (;;) {
    long long first, n; int used = 0;
    if (sscanf(p, " %lld,%lld%n", &first, &n, &used) < 2) break;
    p += used;
    unsigned char *buf = malloc(n > 0 ? (size_t)n * size : 1);
    size_t g = gd_getdata64(D, "x", 0, first, 0, n, t, buf), i;
    printf("%zu:", g);
    if (gd_error(D)) printf("E%d", gd_error(D));
    for (i = 0; i < g * (size_t)size; i++) printf("%02x", buf[i]);
    printf(" ");
    free(buf);
  }
  printf("\n");
  gd_discard(D);
  return 0;
}
