/* C05 harness (bzip2 window): drives _GD_Bzip2Open/_GD_Bzip2Seek/_GD_Bzip2Read/_GD_Bzip2Size of the
 * CURRENT src/bzip.c directly (the file is compiled into this harness with BZ2_bzRead wrapped, so that
 * every decoder answer is logged: these answers are the oracle of the Coq model coq/C05/BzipWindow.v).
 * argv[1] = directory, argv[2] = file name (x.bz2), argv[3] = sample size (1,2,4,8,16).
 * stdin: one line of ops: "S<offset>" seek to sample, "R<nmemb>" read, "Z" size.
 * stdout, one line per event:
 *   O <dpos> <n> <bzerror> <hex of the n bytes>      a BZ2_bzRead call at decoder position dpos
 *   = <op> <ret> <base> <pos> <end> <stream_end> <filepos> [<hex of ret*size bytes>]
 * The read buffer is malloc'ed with exactly nmemb*size bytes, so an overrun is an ASan report. */
#include "internal.h"
#ifdef HAVE_BZLIB_H
#include <bzlib.h>
#endif

static int verif_bzRead(int *bzerror, BZFILE *b, void *buf, int len);
#define BZ2_bzRead verif_bzRead
#include "bzip.c"
#undef BZ2_bzRead

static struct gd_bzdata *cur;   /* the handle being driven (NULL inside _GD_Bzip2Size) */
static long long size_dpos;

static int verif_bzRead(int *bzerror, BZFILE *b, void *buf, int len)
{
  int n = BZ2_bzRead(bzerror, b, buf, len), i;
  long long d = cur ? (long long)(cur->base + cur->end) : size_dpos;
  printf("%c %lld %d %d ", cur ? 'O' : 'o', d, n, *bzerror);
  if (*bzerror == BZ_OK || *bzerror == BZ_STREAM_END) {
    for (i = 0; i < n; i++) printf("%02x", ((unsigned char*)buf)[i]);
    if (!cur) size_dpos += n;
  }
  printf("\n");
  return n;
}

static gd_type_t type_of(int size)
{
  switch (size) {
    case 1: return GD_UINT8; case 2: return GD_UINT16; case 4: return GD_INT32;
    case 8: return GD_FLOAT64; default: return GD_COMPLEX128;
  }
}

int main(int argc, char **argv)
{
  static char line[1 << 16];
  struct gd_raw_file_ file;
  DIRFILE *D;
  int size = atoi(argv[3]), dirfd;
  gd_type_t t = type_of(size);
  char *p;

  /* a DIRFILE is needed only because gd_OpenAt wants one */
  D = gd_open(argv[1], GD_RDONLY);
  dirfd = open(argv[1], O_RDONLY);
  memset(&file, 0, sizeof file);
  file.name = argv[2];
  file.idata = -1;
  file.D = D;
  file.subenc = 0;

  if (!fgets(line, sizeof line, stdin)) return 0;
  printf("CAP %d\n", (int)GD_BZIP_BUFFER_SIZE);
  if (_GD_Bzip2Open(dirfd, &file, t, 0, GD_FILE_READ)) { printf("OPENFAIL %d\n", file.error); return 0; }
  cur = (struct gd_bzdata *)file.edata;

  for (p = line; *p; ) {
    long long a = 0; int used = 0; char op = *p;
    if (op == ' ' || op == '\n') { p++; continue; }
    if (op == 'S' || op == 'R') { sscanf(p + 1, "%lld%n", &a, &used); p += 1 + used; } else p++;
    if (op == 'S') {
      long long r = (long long)_GD_Bzip2Seek(&file, (off64_t)a, t, GD_FILE_READ);
      printf("= S%lld %lld %lld %d %d %d %lld\n", a, r, (long long)cur->base, cur->pos, cur->end, cur->stream_end, (long long)file.pos);
    } else if (op == 'R') {
      unsigned char *buf = malloc(a > 0 ? (size_t)a * size : 1);
      long long r = (long long)_GD_Bzip2Read(&file, buf, t, (size_t)a), i;
      printf("= R%lld %lld %lld %d %d %d %lld ", a, r, (long long)cur->base, cur->pos, cur->end, cur->stream_end, (long long)file.pos);
      for (i = 0; i < r * size; i++) printf("%02x", buf[i]);
      printf("\n");
      free(buf);
    } else if (op == 'Z') {
      struct gd_raw_file_ f2;
      struct gd_bzdata *keep = cur;
      long long r;
      memset(&f2, 0, sizeof f2);
      f2.name = argv[2]; f2.idata = -1; f2.D = D;
      cur = NULL; size_dpos = 0;
      r = (long long)_GD_Bzip2Size(dirfd, &f2, t, 0);
      cur = keep;
      printf("= Z %lld\n", r);
    }
    fflush(stdout);
  }
  _GD_Bzip2Close(&file);
  close(dirfd);
  gd_discard(D);
  printf("END\n");
  return 0;
}
