/* C05 harness (SIE cursor): argv[1] = dirfile with a RAW field "s" (INT32,
 * spf 1, /ENCODING sie).  stdin: lines "<first_sample> <nelem>"; for each,
 * a FRESH handle reads and prints "<err> <count> v0 v1 ..." (as int64).
 * The output buffer is exactly nelem elements (malloc'd) so an overrun is an
 * ASan report. */
#include "internal.h"
#include <inttypes.h>
int main(int argc, char **argv)
{
  char line[128];
  while (fgets(line, sizeof line, stdin)) {
    long long first, nelem; size_t n, i;
    if (sscanf(line, "%lld %lld", &first, &nelem) != 2) continue;
    DIRFILE *D = gd_open(argv[1], GD_RDONLY);
    int32_t *buf = malloc(nelem > 0 ? nelem * sizeof(int32_t) : 1);
    n = gd_getdata64(D, "s", 0, first, 0, nelem, GD_INT32, buf);
    printf("%d %zu", gd_error(D), n);
    for (i = 0; i < n && i < (size_t)nelem; i++) printf(" %d", buf[i]);
    printf("\n");
    free(buf);
    gd_discard(D);
  }
  return 0;
}
