/* C20 reference for the command-line tools, written from their documentation
 * and independent of their buffer arithmetic.
 *
 *  utilref ascii <dir> <ff> <nf> <skip> <precision|-> <zero|-> <delim> {<conv><field>}...
 *     what dirfile2ascii must print: for frame k = 0, skip, 2*skip, .. < nf and
 *     sample j, column i shows sample j of frame ff+k of field i, fetched ONE
 *     SAMPLE AT A TIME with gd_getdata64(field, ff+k, j, 0, 1, ..), formatted with
 *     "%<precision><conv>".  Columns that the tool interpolates (spf below the
 *     maximum, no --skip) are printed as "~", except on rows that fall exactly
 *     on a sample of the field (see below).  First line: "status <0|1>" (1 =
 *     a library call failed: the tool must fail too).
 *  utilref check <dir>
 *     "cb <n>"  number of parser-callback invocations of gd_cbopen
 *     "open <gd_error>", "problems <n>" (gd_validate failures over fields and
 *     metafields incl. hidden, + dangling aliases), "entries <n>", "nframes <n|err>"  */
#include "getdata.h"
#include <stdio.h>
#include <stdlib.h>
#include <string.h>
#include <inttypes.h>
#include <math.h>

static int cb(gd_parser_data_t *p, void *x) { (void)p; (*(int*)x)++; return GD_SYNTAX_IGNORE; }

static int do_check(const char *dir)
{
  int n = 0, prob = 0, ent = 0, dang = 0, i, j;
  DIRFILE *D = gd_cbopen(dir, GD_RDONLY, cb, &n);
  int e = gd_error(D);
  const char **fl, **ml;
  printf("cb %d\nopen %d\n", n, e);
  if (e && e != GD_E_FORMAT) { printf("fatal\n"); return 0; }
  fl = gd_entry_list(D, NULL, 0, GD_ENTRIES_HIDDEN | GD_ENTRIES_NOALIAS);
  for (i = 0; fl[i]; i++) {
    char code[4096];
    if (gd_validate(D, fl[i])) prob++;
    ent++;
    ml = gd_entry_list(D, fl[i], 0, GD_ENTRIES_HIDDEN | GD_ENTRIES_NOALIAS);
    for (j = 0; ml[j]; j++) { snprintf(code, sizeof code, "%s/%s", fl[i], ml[j]); if (gd_validate(D, code)) prob++; ent++; }
    ml = gd_entry_list(D, fl[i], GD_ALIAS_ENTRIES, GD_ENTRIES_HIDDEN);
    for (j = 0; ml[j]; j++) { snprintf(code, sizeof code, "%s/%s", fl[i], ml[j]); if (gd_entry_type(D, code) == GD_NO_ENTRY) { prob++; dang++; } ent++; }
  }
  fl = gd_entry_list(D, NULL, GD_ALIAS_ENTRIES, GD_ENTRIES_HIDDEN);
  for (i = 0; fl[i]; i++) { if (gd_entry_type(D, fl[i]) == GD_NO_ENTRY) { prob++; dang++; } ent++; }
  printf("problems %d\nentries %d\ndangling %d\n", prob, ent, dang);
  { off_t nf = gd_nframes(D); if (gd_error(D)) printf("nframes err\n"); else printf("nframes %" PRIu64 "\n", (uint64_t)nf); }
  gd_close(D);
  return 0;
}

/* utilref dump <dir> <ff> <nf> <precision|-> {<conv><field>}...
 *   what gd_getdata returns for the whole range, element by element, formatted with "%<precision><conv>":
 *   "status <0|1>", "range <ff> <nf>" (after the defaults of the tool: nf 0 = to the end, ff -1 = the last nf frames),
 *   then per field "field <i> <spf> <n_read> <n_want>" and n_want lines "<formatted>\t<raw>" (raw: %a or the
 *   integer); elements past n_read are NaN / 0 as the tool pads them.  No index arithmetic of the tool is
 *   reproduced here: the extracted Coq model says which element goes where. */
static int do_dump(int argc, char **argv)
{
  const char *dir = argv[2];
  long long ff = atoll(argv[3]), nf = atoll(argv[4]);
  const char *prec = strcmp(argv[5], "-") ? argv[5] : "";
  int i;
  DIRFILE *D = gd_open(dir, GD_RDONLY);
  if (gd_error(D)) { printf("status 1\n"); return 0; }
  if (nf == 0) nf = gd_nframes64(D) - ff;
  if (ff == -1) ff = gd_nframes64(D) - nf;
  for (i = 6; i < argc; i++) { gd_spf(D, argv[i] + 1); if (gd_error(D)) { printf("status 1\n"); return 0; } }
  if (nf < 0 || nf > 100000) { printf("status 2\n"); return 0; }
  printf("status 0\nrange %lld %lld\n", ff, nf);
  for (i = 6; i < argc; i++) {
    const char *c = argv[i];
    unsigned spf = gd_spf(D, c + 1);
    size_t want = (size_t)nf * spf, n, k;
    char fmt[64], one[2] = { c[0], 0 };
    const char *f = c[0] == 'i' ? PRId64 : c[0] == 'o' ? PRIo64 : c[0] == 'u' ? PRIu64 : c[0] == 'x' ? PRIx64 : c[0] == 'X' ? PRIX64 : NULL;
    snprintf(fmt, sizeof fmt, "%%%s%s", prec, f ? f : one);
    if (strchr("aAeEfFgG", c[0])) {
      double *b = malloc(sizeof(double) * (want + 1));
      n = gd_getdata64(D, c + 1, ff, 0, nf, 0, GD_FLOAT64, b);
      if (gd_error(D)) { printf("readerror\n"); return 0; }
      printf("field %d %u %zu %zu\n", i - 6, spf, n, want);
      for (k = 0; k < want; k++) { double v = k < n ? b[k] : NAN; printf(fmt, v); printf("\t%a\n", v); }
      free(b);
    } else if (c[0] == 'i') {
      int64_t *b = malloc(sizeof(int64_t) * (want + 1));
      n = gd_getdata64(D, c + 1, ff, 0, nf, 0, GD_INT64, b);
      if (gd_error(D)) { printf("readerror\n"); return 0; }
      printf("field %d %u %zu %zu\n", i - 6, spf, n, want);
      for (k = 0; k < want; k++) { int64_t v = k < n ? b[k] : 0; printf(fmt, v); printf("\t%" PRId64 "\n", v); }
      free(b);
    } else {
      uint64_t *b = malloc(sizeof(uint64_t) * (want + 1));
      n = gd_getdata64(D, c + 1, ff, 0, nf, 0, GD_UINT64, b);
      if (gd_error(D)) { printf("readerror\n"); return 0; }
      printf("field %d %u %zu %zu\n", i - 6, spf, n, want);
      for (k = 0; k < want; k++) { uint64_t v = k < n ? b[k] : 0; printf(fmt, v); printf("\t%" PRIu64 "\n", v); }
      free(b);
    }
  }
  gd_close(D);
  return 0;
}

int main(int argc, char **argv)
{
  if (argc >= 3 && !strcmp(argv[1], "check")) return do_check(argv[2]);
  if (argc >= 7 && !strcmp(argv[1], "dump")) return do_dump(argc, argv);
  if (argc < 10 || strcmp(argv[1], "ascii")) return 2;
  {
    const char *dir = argv[2];
    long long ff = atoll(argv[3]); long long nf = atoll(argv[4]); long long skip = atoll(argv[5]);
    const char *prec = strcmp(argv[6], "-") ? argv[6] : "";
    const char *zero = strcmp(argv[7], "-") ? argv[7] : NULL;
    const char *delim = argv[8];
    int nfld = argc - 9, i, skipping = skip > 0;
    unsigned spf[64], maxspf = 0;
    char fmt[64][32];
    long long k; unsigned j;
    DIRFILE *D = gd_open(dir, GD_RDONLY);
    if (gd_error(D)) { printf("status 1\n"); return 0; }
    if (nf == 0) nf = gd_nframes64(D) - ff;
    if (ff == -1) ff = gd_nframes64(D) - nf;
    for (i = 0; i < nfld; i++) {
      const char *c = argv[9 + i];
      const char *f = c[0] == 'i' ? PRId64 : c[0] == 'o' ? PRIo64 : c[0] == 'u' ? PRIu64 : c[0] == 'x' ? PRIx64 : c[0] == 'X' ? PRIX64 : NULL;
      char one[2] = { c[0], 0 };
      spf[i] = gd_spf(D, c + 1);
      if (gd_error(D)) { printf("status 1\n"); return 0; }
      if (spf[i] > maxspf) maxspf = spf[i];
      snprintf(fmt[i], sizeof fmt[i], "%%%s%s", prec, f ? f : one);
    }
    /* any read error on the whole range makes the tool fail */
    for (i = 0; i < nfld; i++) {
      static double tmp[1 << 16];
      if (nf * spf[i] < (1 << 16)) { gd_getdata64(D, argv[9 + i] + 1, ff, 0, nf, 0, GD_FLOAT64, tmp); if (gd_error(D)) { printf("status 1\n"); return 0; } }
    }
    printf("status 0\n");
    if (skip < 1) skip = 1;
    for (k = 0; k < nf; k += skip)
      for (j = 0; j < (skipping ? 1 : maxspf); j++) {
        for (i = 0; i < nfld; i++) {
          const char *c = argv[9 + i];
          if (spf[i] != maxspf && !skipping) {
            /* an interpolated column.  On a row that falls exactly on a sample of this field (max_spf a multiple of its
             * spf and j * spf a multiple of max_spf) the interpolation weight is 0 and the tool must show that very
             * sample, as gd_getdata returns it; judged only when the neighbouring samples the slope is taken from can be
             * read too (for floating-point columns 0 * (NaN padding) would not be 0).  Other rows: "~" (not judged here) */
            int done = 0;
            if (maxspf % spf[i] == 0 && (j * spf[i]) % maxspf == 0 && !zero) {
              long long p = (long long)j * spf[i] / maxspf;
              long long abs0 = (ff + k) * (long long)spf[i] + p;
              int isf = strchr("aAeEfFgG", c[0]) != NULL;
              double dv[3]; int64_t iv; uint64_t uv; size_t n;
              if (isf) {
                if (abs0 >= 1 && gd_getdata64(D, c + 1, 0, abs0 - 1, 0, 3, GD_FLOAT64, dv) == 3 &&
                    dv[0] == dv[0] && dv[1] == dv[1] && dv[2] == dv[2]) { printf(fmt[i], dv[1]); done = 1; }
              } else if (c[0] == 'i') {
                n = gd_getdata64(D, c + 1, 0, abs0, 0, 1, GD_INT64, &iv);
                if (n == 1 && iv > -(1LL << 52) && iv < (1LL << 52)) { printf(fmt[i], iv); done = 1; }
              } else {
                n = gd_getdata64(D, c + 1, 0, abs0, 0, 1, GD_UINT64, &uv);
                if (n == 1 && uv < (1ULL << 52)) { printf(fmt[i], uv); done = 1; }
              }
              gd_error(D);
            }
            if (!done) printf("~");
          } else {
            size_t n;
            if (strchr("aAeEfFgG", c[0])) { double v; n = gd_getdata64(D, c + 1, ff + k, j, 0, 1, GD_FLOAT64, &v); if (!n) { if (zero) printf("%s", zero); else printf(fmt[i], (double)NAN); } else printf(fmt[i], v); }
            else if (c[0] == 'i') { int64_t v; n = gd_getdata64(D, c + 1, ff + k, j, 0, 1, GD_INT64, &v); if (!n) { if (zero) printf("%s", zero); else printf(fmt[i], (int64_t)0); } else printf(fmt[i], v); }
            else { uint64_t v; n = gd_getdata64(D, c + 1, ff + k, j, 0, 1, GD_UINT64, &v); if (!n) { if (zero) printf("%s", zero); else printf(fmt[i], (uint64_t)0); } else printf(fmt[i], v); }
          }
          printf("%s", i < nfld - 1 ? delim : "\n");
        }
      }
    gd_close(D);
  }
  return 0;
}
