/* C20 harness: every C++ wrapper method against the C function it documents
 * itself as wrapping, on twin copies of a dirfile.
 *
 *   cxxdiff <dirA> <dirB> <seed> <rounds> [open-flags-hex] [cb]     (cb: open with a parser callback that ignores syntax errors)
 *
 * dirA is driven through the C++ classes, dirB through the C API, with the
 * same (pseudo-random, seeded) arguments.  Each comparison prints nothing when
 * the two sides agree and "DIFF <op> | X=<..> | C=<..>" otherwise; the last
 * line is "DONE <number of comparisons>".  Both handles are closed at the end
 * so that the caller can compare the two directory trees (side effects). */
#include <complex>
#include <string>
#include <sstream>
#include <vector>
#include <cstdio>
#include <cstdlib>
#include <cstring>
#include <stdint.h>
#define private public
#define protected public
#include "getdata/dirfile.h"
#undef private
#undef protected

using namespace GetData;
typedef std::string S;

static long ncmp = 0;
static uint64_t rs = 88172645463325252ULL;
static unsigned rnd(unsigned n) { rs ^= rs << 13; rs ^= rs >> 7; rs ^= rs << 17; return n ? (unsigned)((rs >> 11) % n) : 0; }

static S str(const char *s) { return s ? S("\"") + s + "\"" : S("(null)"); }
template <class T> static S num(T v) { std::ostringstream o; o << v; return o.str(); }
static S dbl(double d) { char b[64]; if (d != d) return "nan"; snprintf(b, sizeof b, "%.17g", d); return b; }
static S list(const char **l) { if (!l) return "(null)"; S r = "["; for (int i = 0; l[i]; i++) { r += str(l[i]); r += ","; } return r + "]"; }
static S bytes(const void *p, size_t n) { S r; char b[4]; for (size_t i = 0; i < n; i++) { snprintf(b, 4, "%02x", ((const unsigned char*)p)[i]); r += b; } return r; }

static void cmp(const S &op, const S &x, const S &c)
{
  ncmp++;
  if (x != c) printf("DIFF %s | X=%s | C=%s\n", op.c_str(), x.c_str(), c.c_str());
}
/* compare result + error code of both handles */
#define BOTH(op, xexpr, cexpr) do { S _x = (xexpr); _x += " e=" + num(X->Error()); S _c = (cexpr); _c += " e=" + num(gd_error(C)); cmp(op, _x, _c); } while (0)

/* evaluate a first, then b (operands of + are unsequenced) */
#define SEQ(a, b) seq2((a), [&]() { return (b); })
template <class F> static S seq2(const S &a, F f) { S b = f(); return a + b; }

#if defined(__SANITIZE_ADDRESS__)
#include <sanitizer/asan_interface.h>
static int poisoned(const void *p) { return p && __asan_address_is_poisoned(p); }
#else
static int poisoned(const void *p) { (void)p; return 0; }
#endif

static S entry_c(const gd_entry_t &E)
{
  std::ostringstream o;
  o << "field=" << str(E.field) << " type=" << (int)E.field_type << " frag=" << E.fragment_index << " flags=" << E.flags;
  int i;
  switch (E.field_type) {
    case GD_RAW_ENTRY: o << " spf=" << E.u.raw.spf << " dt=" << (int)E.u.raw.data_type; break;
    case GD_LINCOM_ENTRY:
      o << " n=" << E.u.lincom.n_fields;
      for (i = 0; i < E.u.lincom.n_fields; i++)
        o << " in=" << str(E.in_fields[i]) << " m=" << dbl(E.u.lincom.m[i]) << " b=" << dbl(E.u.lincom.b[i])
          << " cm=" << dbl(E.u.lincom.cm[i][0]) << "," << dbl(E.u.lincom.cm[i][1])
          << " cb=" << dbl(E.u.lincom.cb[i][0]) << "," << dbl(E.u.lincom.cb[i][1]);
      break;
    case GD_LINTERP_ENTRY: o << " in=" << str(E.in_fields[0]) << " table=" << str(E.u.linterp.table); break;
    case GD_BIT_ENTRY: case GD_SBIT_ENTRY: o << " in=" << str(E.in_fields[0]) << " bitnum=" << E.u.bit.bitnum << " numbits=" << E.u.bit.numbits; break;
    case GD_MULTIPLY_ENTRY: case GD_DIVIDE_ENTRY: case GD_INDIR_ENTRY: case GD_SINDIR_ENTRY:
      o << " in=" << str(E.in_fields[0]) << " in2=" << str(E.in_fields[1]); break;
    case GD_RECIP_ENTRY: o << " in=" << str(E.in_fields[0]) << " div=" << dbl(E.u.recip.dividend) << " cdiv=" << dbl(E.u.recip.cdividend[0]) << "," << dbl(E.u.recip.cdividend[1]); break;
    case GD_PHASE_ENTRY: o << " in=" << str(E.in_fields[0]) << " shift=" << (long long)E.u.phase.shift; break;
    case GD_POLYNOM_ENTRY:
      o << " in=" << str(E.in_fields[0]) << " ord=" << E.u.polynom.poly_ord;
      for (i = 0; i <= E.u.polynom.poly_ord; i++) o << " a=" << dbl(E.u.polynom.a[i]) << " ca=" << dbl(E.u.polynom.ca[i][0]) << "," << dbl(E.u.polynom.ca[i][1]);
      break;
    case GD_WINDOW_ENTRY: o << " in=" << str(E.in_fields[0]) << " in2=" << str(E.in_fields[1]) << " op=" << (int)E.u.window.windop << " thr=" << bytes(&E.u.window.threshold, 8); break;
    case GD_MPLEX_ENTRY: o << " in=" << str(E.in_fields[0]) << " in2=" << str(E.in_fields[1]) << " cv=" << E.u.mplex.count_val << " per=" << E.u.mplex.period; break;
    case GD_CONST_ENTRY: o << " ct=" << (int)E.u.scalar.const_type; break;
    case GD_CARRAY_ENTRY: o << " ct=" << (int)E.u.scalar.const_type << " len=" << E.u.scalar.array_len; break;
    case GD_SARRAY_ENTRY: o << " len=" << E.u.scalar.array_len; break;
    default: break;
  }
  for (i = 0; i <= GD_MAX_POLYORD; i++) if (E.scalar[i]) o << " sc" << i << "=" << str(E.scalar[i]) << "<" << E.scalar_ind[i] << ">";
  return o.str();
}

/* the same description obtained only through the public getters of the C++ Entry */
static S entry_x(Entry *e)
{
  std::ostringstream o;
  if (!e) return "(null)";
  int t = (int)e->Type(), i;
  o << "field=" << str(e->Name()) << " type=" << t << " frag=" << e->FragmentIndex() << " flags=" << e->Flags();
  switch (t) {
    case GD_RAW_ENTRY: o << " spf=" << e->SamplesPerFrame() << " dt=" << (int)e->RawType(); break;
    case GD_LINCOM_ENTRY:
      o << " n=" << e->NFields();
      for (i = 0; i < e->NFields(); i++)
        o << " in=" << str(e->Input(i)) << " m=" << dbl(e->Scale(i)) << " b=" << dbl(e->Offset(i))
          << " cm=" << dbl(e->CScale(i).real()) << "," << dbl(e->CScale(i).imag())
          << " cb=" << dbl(e->COffset(i).real()) << "," << dbl(e->COffset(i).imag());
      break;
    case GD_LINTERP_ENTRY: o << " in=" << str(e->Input(0)) << " table=" << str(e->Table()); break;
    case GD_BIT_ENTRY: case GD_SBIT_ENTRY: o << " in=" << str(e->Input(0)) << " bitnum=" << e->FirstBit() << " numbits=" << e->NumBits(); break;
    case GD_MULTIPLY_ENTRY: case GD_DIVIDE_ENTRY: case GD_INDIR_ENTRY: case GD_SINDIR_ENTRY:
      o << " in=" << str(e->Input(0)) << " in2=" << str(e->Input(1)); break;
    case GD_RECIP_ENTRY: o << " in=" << str(e->Input(0)) << " div=" << dbl(e->Dividend()) << " cdiv=" << dbl(e->CDividend().real()) << "," << dbl(e->CDividend().imag()); break;
    case GD_PHASE_ENTRY: o << " in=" << str(e->Input(0)) << " shift=" << (long long)e->Shift(); break;
    case GD_POLYNOM_ENTRY:
      o << " in=" << str(e->Input(0)) << " ord=" << e->PolyOrd();
      for (i = 0; i <= e->PolyOrd(); i++) o << " a=" << dbl(e->Coefficient(i)) << " ca=" << dbl(e->CCoefficient(i).real()) << "," << dbl(e->CCoefficient(i).imag());
      break;
    case GD_WINDOW_ENTRY: { gd_triplet_t th = e->Threshold(); o << " in=" << str(e->Input(0)) << " in2=" << str(e->Input(1)) << " op=" << (int)e->WindOp() << " thr=" << bytes(&th, 8); } break;
    case GD_MPLEX_ENTRY: o << " in=" << str(e->Input(0)) << " in2=" << str(e->Input(1)) << " cv=" << e->CountVal() << " per=" << e->Period(); break;
    case GD_CONST_ENTRY: o << " ct=" << (int)e->ConstType(); break;
    case GD_CARRAY_ENTRY: o << " ct=" << (int)e->ConstType() << " len=" << e->ArrayLen(); break;
    case GD_SARRAY_ENTRY: o << " len=" << e->ArrayLen(); break;
    default: break;
  }
  for (i = 0; i <= GD_MAX_POLYORD; i++) if (e->E.scalar[i]) o << " sc" << i << "=" << str(e->E.scalar[i]) << "<" << e->E.scalar_ind[i] << ">";
  return o.str();
}

static S centry(DIRFILE *C, const char *code)
{
  gd_entry_t E;
  memset(&E, 0, sizeof E);
  if (gd_entry(C, code, &E)) return "(error " + num(gd_error(C)) + ")";
  S r = entry_c(E);
  gd_free_entry_strings(&E);
  return r;
}

static std::vector<S> names(const char **l) { std::vector<S> v; if (l) for (int i = 0; l[i]; i++) v.push_back(l[i]); return v; }

static const gd_type_t TY[] = { GD_UINT8, GD_INT8, GD_UINT16, GD_INT16, GD_UINT32, GD_INT32, GD_UINT64, GD_INT64, GD_FLOAT32, GD_FLOAT64, GD_COMPLEX64, GD_COMPLEX128 };
static const gd_entype_t ET[] = { GD_RAW_ENTRY, GD_LINCOM_ENTRY, GD_LINTERP_ENTRY, GD_BIT_ENTRY, GD_MULTIPLY_ENTRY, GD_PHASE_ENTRY, GD_INDEX_ENTRY,
  GD_POLYNOM_ENTRY, GD_SBIT_ENTRY, GD_DIVIDE_ENTRY, GD_RECIP_ENTRY, GD_WINDOW_ENTRY, GD_MPLEX_ENTRY, GD_INDIR_ENTRY, GD_SINDIR_ENTRY,
  GD_CONST_ENTRY, GD_STRING_ENTRY, GD_CARRAY_ENTRY, GD_SARRAY_ENTRY };

static int count_cb(gd_parser_data_t *p, void *extra) { (void)p; (*(int*)extra)++; return GD_SYNTAX_IGNORE; }

int main(int argc, char **argv)
{
  if (argc < 5) return 2;
  const char *dirA = argv[1], *dirB = argv[2];
  rs ^= strtoull(argv[3], NULL, 0) * 2654435761ULL + 1;
  int rounds = atoi(argv[4]);
  unsigned long oflags = argc > 5 ? strtoul(argv[5], NULL, 16) : GD_RDWR;

  int use_cb = argc > 6 && !strcmp(argv[6], "cb");
  int nx_cb = 0, nc_cb = 0;
  Dirfile *X = use_cb ? new Dirfile(dirA, oflags, count_cb, &nx_cb) : new Dirfile(dirA, oflags);
  DIRFILE *C = use_cb ? gd_cbopen(dirB, oflags, count_cb, &nc_cb) : gd_open(dirB, oflags);
  BOTH("open", S("opened cb=") + num(nx_cb), S("opened cb=") + num(nc_cb));
  BOTH("ErrorCount", num(X->ErrorCount()), num(gd_error_count(C)));

  std::vector<S> all = names(gd_entry_list(C, NULL, 0, GD_ENTRIES_HIDDEN));
  std::vector<S> vec = names(gd_vector_list(C));
  if (all.empty()) all.push_back("nosuchfield");
  if (vec.empty()) vec.push_back("nosuchfield");
  all.push_back("missing_field"); vec.push_back("missing_field");

  /* ---- entries: getters against gd_entry for every field ---- */
  for (size_t i = 0; i < all.size(); i++) {
    const char *f = all[i].c_str();
    Entry *e = X->Entry(f);
    S c = centry(C, f);
    S x = e ? entry_x(e) : S("(error " + num(X->Error()) + ")");
    if (!e && c[0] != '(') x = "(null entry)";
    cmp(S("Entry(") + f + ")", x, c);
    /* metafields */
    std::vector<S> m = names(gd_entry_list(C, f, 0, GD_ENTRIES_HIDDEN));
    BOTH(S("NMFields ") + f, num(X->NMFields(f)), num(gd_nmfields(C, f)));
    BOTH(S("MFieldList ") + f, list(X->MFieldList(f)), list(gd_mfield_list(C, f)));
    BOTH(S("NMVectors ") + f, num(X->NMVectors(f)), num(gd_nmvectors(C, f)));
    BOTH(S("MVectorList ") + f, list(X->MVectorList(f)), list(gd_mvector_list(C, f)));
    BOTH(S("MStrings ") + f, list(X->MStrings(f)), list(gd_mstrings(C, f)));
    for (size_t k = 0; k < m.size(); k++) {
      S code = all[i] + "/" + m[k];
      Entry *me = X->Entry(code.c_str());
      cmp(S("Entry(") + code + ")", me ? entry_x(me) : S("(null entry)"), centry(C, code.c_str()));
      delete me;
    }
    for (unsigned t = 0; t < sizeof ET / sizeof ET[0]; t++) {
      BOTH(S("NMFieldsByType ") + f, num(X->NMFieldsByType(f, (EntryType)ET[t])), num(gd_nmfields_by_type(C, f, ET[t])));
      BOTH(S("MFieldListByType ") + f, list(X->MFieldListByType(f, (EntryType)ET[t])), list(gd_mfield_list_by_type(C, f, ET[t])));
    }
    BOTH(S("SamplesPerFrame ") + f, num(X->SamplesPerFrame(f)), num(gd_spf(C, f)));
    BOTH(S("NativeType ") + f, num((int)X->NativeType(f)), num((int)gd_native_type(C, f)));
    BOTH(S("EoF ") + f, num(X->EoF(f)), num(gd_eof64(C, f)));
    BOTH(S("BoF ") + f, num(X->BoF(f)), num(gd_bof64(C, f)));
    BOTH(S("Validate ") + f, num(X->Validate(f)), num(gd_validate(C, f)));
    BOTH(S("FragmentIndex ") + f, num(X->FragmentIndex(f)), num(gd_fragment_index(C, f)));
    BOTH(S("Hidden ") + f, num(X->Hidden(f)), num(gd_hidden(C, f)));
    BOTH(S("ArrayLen ") + f, num(X->ArrayLen(f)), num(gd_array_len(C, f)));
    BOTH(S("CarrayLen ") + f, num(X->CarrayLen(f)), num(gd_array_len(C, f)));
    BOTH(S("NAliases ") + f, num(X->NAliases(f)), num(gd_naliases(C, f)));
    BOTH(S("Aliases ") + f, list(X->Aliases(f)), list(gd_aliases(C, f)));
    BOTH(S("AliasTarget ") + f, str(X->AliasTarget(f)), str(gd_alias_target(C, f)));
    { char *a = X->LinterpTableName(f); char *b = gd_linterp_tablename(C, f);
      /* the two copies live in different directories: compare the base names */
      const char *ba = a ? strrchr(a, '/') : NULL, *bb = b ? strrchr(b, '/') : NULL;
      BOTH(S("LinterpTableName ") + f, str(ba), str(bb)); free(a); free(b); }
    delete e;
  }

  /* ---- whole-dirfile queries ---- */
  BOTH("NFields", num(X->NFields()), num(gd_nfields(C)));
  BOTH("FieldList", list(X->FieldList()), list(gd_field_list(C)));
  BOTH("NVectors", num(X->NVectors()), num(gd_nvectors(C)));
  BOTH("VectorList", list(X->VectorList()), list(gd_vector_list(C)));
  BOTH("Strings", list(X->Strings()), list(gd_strings(C)));
  BOTH("NFrames", num(X->NFrames()), num(gd_nframes64(C)));
  BOTH("NFragments", num(X->NFragments()), num(gd_nfragments(C)));
  for (unsigned t = 0; t < sizeof ET / sizeof ET[0]; t++) {
    BOTH("NFieldsByType", num(X->NFieldsByType((EntryType)ET[t])), num(gd_nfields_by_type(C, ET[t])));
    BOTH("FieldListByType", list(X->FieldListByType((EntryType)ET[t])), list(gd_field_list_by_type(C, ET[t])));
  }
  for (int k = 0; k < 12; k++) {
    int type = rnd(2) ? 0 : (int)ET[rnd(sizeof ET / sizeof ET[0])];
    unsigned fl = rnd(16);
    const char *par = rnd(3) ? NULL : all[rnd(all.size())].c_str();
    BOTH("NEntries", num(X->NEntries(par, type, fl)), num(gd_nentries(C, par, type, fl)));
    BOTH("EntryList", list(X->EntryList(par, type, fl)), list(gd_entry_list(C, par, type, fl)));
    const char **lx = NULL, **lc = NULL;
    const char *re = rnd(2) ? "^[a-m]" : "a";
    int frag = rnd(2) ? GD_ALL_FRAGMENTS : (int)rnd(2);
    unsigned nx = X->MatchEntries(re, frag, type, fl, &lx), nc = gd_match_entries(C, re, frag, type, fl, &lc);
    BOTH("MatchEntries", num(nx) + list(lx), num(nc) + list(lc));
  }
  { /* constants / carrays as doubles */
    unsigned n = gd_nfields_by_type(C, GD_CONST_ENTRY);
    const double *cx = (const double*)X->Constants(Float64), *cc = (const double*)gd_constants(C, GD_FLOAT64);
    BOTH("Constants", cx ? bytes(cx, n * 8) : S("(null)"), cc ? bytes(cc, n * 8) : S("(null)"));
    const gd_carray_t *ax = X->Carrays(Int32), *ac = gd_carrays(C, GD_INT32);
    S sx, sc;
    for (int i = 0; ax && ax[i].n; i++) sx += num(ax[i].n) + ":" + bytes(ax[i].d, ax[i].n * 4) + ";";
    for (int i = 0; ac && ac[i].n; i++) sc += num(ac[i].n) + ":" + bytes(ac[i].d, ac[i].n * 4) + ";";
    BOTH("Carrays", sx, sc);
    const char ***qx = X->Sarrays(), ***qc = gd_sarrays(C);
    S tx, tc;
    for (int i = 0; qx && qx[i]; i++) tx += list(qx[i]);
    for (int i = 0; qc && qc[i]; i++) tc += list(qc[i]);
    BOTH("Sarrays", tx, tc);
  }
  { const char *a = X->Name(), *b = gd_dirfilename(C);
    BOTH("Name", S(!a ? "(null)" : strrchr(a, '/') ? "ok" : "?"), S(!b ? "(null)" : strrchr(b, '/') ? "ok" : "?")); }
  { const char *a = X->ReferenceFilename(); char *b0 = NULL; const char *r = gd_reference(C, NULL);
    if (r) b0 = gd_raw_filename(C, r);
    const char *ba = a ? strrchr(a, '/') : NULL, *bb = b0 ? strrchr(b0, '/') : NULL;
    BOTH("ReferenceFilename", str(ba), str(bb)); free(b0); }
  BOTH("Standards", num(X->Standards()), num(gd_dirfile_standards(C, GD_VERSION_CURRENT)));
  BOTH("Flags", num(X->Flags()), num(gd_flags(C, 0, 0)));

  /* ---- fragments ---- */
  int nfrag = gd_nfragments(C);
  for (int i = -1; i <= nfrag; i++) {
    Fragment *F = X->Fragment(i);
    if (!F) { cmp("Fragment(out of range)", "null", (i < 0 || i >= nfrag) ? "null" : "fragment"); continue; }
    char *pc = NULL, *sc = NULL;
    cmp("Fragment.Encoding", num((unsigned long)F->Encoding()), num(gd_encoding(C, i)));
    cmp("Fragment.Endianness", num(F->Endianness()), num(gd_endianness(C, i)));
    cmp("Fragment.FrameOffset", num(F->FrameOffset()), num(gd_frameoffset64(C, i)));
    cmp("Fragment.Protection", num(F->Protection()), num(gd_protection(C, i)));
    cmp("Fragment.Index", num(F->Index()), num(i));
    cmp("Fragment.Parent", num(F->Parent()), num(i == 0 ? -1 : gd_parent_fragment(C, i)));
    { const char *a = F->Name(), *b = gd_fragmentname(C, i); cmp("Fragment.Name", str(a ? strrchr(a, '/') : NULL), str(b ? strrchr(b, '/') : NULL)); }
    if (gd_fragment_affixes(C, i, &pc, &sc) < 0) pc = sc = NULL;
    cmp("Fragment.Prefix", str(F->Prefix()), str(pc));
    cmp("Fragment.Suffix", str(F->Suffix()), str(sc));
    cmp("Fragment.Namespace", str(F->Namespace()), str(gd_fragment_namespace(C, i, NULL)));
    free(pc); free(sc);
    delete F;
  }

  /* ---- data access with generated arguments ---- */
  static unsigned char bx[1 << 16], bc[1 << 16], src[1 << 16];
  /* reverse look-ups, before anything is written; only ranges whose last sample exists, so that the call returns
   * also on a library without the C19 repair */
  for (size_t i = 0; i < vec.size(); i++) {
    const char *f = vec[i].c_str();
    unsigned sp = gd_spf(C, f); gd_off64_t eof = gd_eof64(C, f); gd_off64_t bof = gd_bof64(C, f);
    (void)X->SamplesPerFrame(f); (void)X->EoF(f); (void)X->BoF(f);
    if (gd_error(C) || sp == 0) continue;
    for (int k = 0; k < 6; k++) {
      double v = (double)rnd(300) - 20 + rnd(4) * 0.25; gd_off64_t a = bof / sp + rnd(2) + 1, b = a + 1 + rnd(4);
      if ((b + 1) * sp - 1 <= eof)
        BOTH(S("FrameNum ") + f, dbl(X->FrameNum(f, v, a, b)), dbl(gd_framenum_subset64(C, f, v, a, b)));
    }
  }
  for (int r = 0; r < rounds; r++) {
    std::vector<S> &pool = rnd(4) ? vec : all;
    const char *f = pool[rnd(pool.size())].c_str();
    gd_type_t ty = TY[rnd(12)];
    gd_off64_t ff = rnd(6), fs = rnd(5);
    size_t nf = rnd(4), ns = rnd(7);
    for (size_t i = 0; i < 4096; i++) src[i] = (unsigned char)rnd(256);
    memset(bx, 0x5a, 4096); memset(bc, 0x5a, 4096);
    size_t nx = X->GetData(f, ff, fs, nf, ns, (DataType)ty, bx), nc = gd_getdata64(C, f, ff, fs, nf, ns, ty, bc);
    BOTH(S("GetData ") + f, num(nx) + ":" + bytes(bx, 512), num(nc) + ":" + bytes(bc, 512));
    BOTH(S("Tell ") + f, num(X->Tell(f)), num(gd_tell64(C, f)));
    { static const int whs[4] = {GD_SEEK_SET, GD_SEEK_CUR, GD_SEEK_END, GD_SEEK_SET | GD_SEEK_WRITE}; int wh = whs[rnd(4)];
      BOTH(S("Seek ") + f, num(X->Seek(f, ff, fs, wh)), num(gd_seek64(C, f, ff, fs, wh))); }
    if (rnd(3) == 0) {
      size_t px = X->PutData(f, ff, fs, nf, ns, (DataType)ty, src), pc2 = gd_putdata64(C, f, ff, fs, nf, ns, ty, src);
      BOTH(S("PutData ") + f, num(px), num(pc2));
    }
    const char *g = all[rnd(all.size())].c_str();
    memset(bx, 0x5a, 4096); memset(bc, 0x5a, 4096);
    BOTH(S("GetConstant ") + g, num(X->GetConstant(g, (DataType)ty, bx)) + bytes(bx, 16), num(gd_get_constant(C, g, ty, bc)) + bytes(bc, 16));
    { unsigned st = rnd(4); size_t ln = rnd(4);
      memset(bx, 0x5a, 4096); memset(bc, 0x5a, 4096);
      int rx = X->GetCarray(g, (DataType)ty, bx, st, ln);
      int rc = ln ? gd_get_carray_slice(C, g, st, ln, ty, bc) : gd_get_carray(C, g, ty, bc);
      BOTH(S("GetCarray ") + g, num(rx) + bytes(bx, 128), num(rc) + bytes(bc, 128));
      if (rnd(3) == 0) {
        rx = X->PutCarray(g, (DataType)ty, src, st, ln);
        rc = ln ? gd_put_carray_slice(C, g, st, ln, ty, src) : gd_put_carray(C, g, ty, src);
        BOTH(S("PutCarray ") + g, num(rx), num(rc));
      }
      if (rnd(3) == 0) BOTH(S("PutConstant ") + g, num(X->PutConstant(g, (DataType)ty, src)), num(gd_put_constant(C, g, ty, src)));
      const char *sx[16], *sc2[16]; memset(sx, 0, sizeof sx); memset(sc2, 0, sizeof sc2);
      unsigned st2 = rnd(3); size_t ln2 = rnd(3);
      rx = X->GetSarray(g, sx, st2, ln2);
      rc = ln2 ? gd_get_sarray_slice(C, g, st2, ln2, sc2) : gd_get_sarray(C, g, sc2);
      S a, b; for (int i = 0; i < 8; i++) { a += str(sx[i]); b += str(sc2[i]); }
      BOTH(S("GetSarray ") + g, num(rx) + a, num(rc) + b);
      if (rnd(3) == 0) {
        const char *in[4] = { "p", "q q", "", "r" };
        rx = X->PutSarray(g, in, st2, ln2);
        rc = ln2 ? gd_put_sarray_slice(C, g, st2, ln2, in) : gd_put_sarray(C, g, in);
        BOTH(S("PutSarray ") + g, num(rx), num(rc));
      }
    }
    { char sx[64], sc2[64]; memset(sx, 0, 64); memset(sc2, 0, 64); size_t ln = rnd(20);
      BOTH(S("GetString ") + g, num(X->GetString(g, ln, sx)) + str(sx), num(gd_get_string(C, g, ln, sc2)) + str(sc2));
      if (rnd(4) == 0) BOTH(S("PutString ") + g, num(X->PutString(g, "new value")), num(gd_put_string(C, g, "new value"))); }
    { const char *sx[8], *sc2[8]; memset(sx, 0, sizeof sx); memset(sc2, 0, sizeof sc2);
      size_t a = X->GetData(f, ff, fs, 0, 3, sx), b = gd_getdata64(C, f, ff, fs, 0, 3, GD_STRING, sc2);
      S p, q; for (int i = 0; i < 3; i++) { p += str(a ? sx[i] : NULL); q += str(b ? sc2[i] : NULL); }
      BOTH(S("GetData(strings) ") + f, num(a) + p, num(b) + q); }
    for (size_t i = 0; i < vec.size() && i < 6; i++)
      BOTH(S("Tell(after round) ") + vec[i], num(X->Tell(vec[i].c_str())), num(gd_tell64(C, vec[i].c_str())));
  }

  /* ---- metadata changes ---- */
  BOTH("AddSpec", num(X->AddSpec("zz_new RAW UINT8 2", 0)), num(gd_add_spec(C, "zz_new RAW UINT8 2", 0)));
  BOTH("AddSpec(bad)", num(X->AddSpec("zz_bad RAWW UINT8 2", 0)), num(gd_add_spec(C, "zz_bad RAWW UINT8 2", 0)));
  BOTH("MAddSpec", num(X->MAddSpec("mm CONST UINT8 3", "zz_new")), num(gd_madd_spec(C, "mm CONST UINT8 3", "zz_new")));
  BOTH("AlterSpec", num(X->AlterSpec("zz_new RAW UINT16 3", 1)), num(gd_alter_spec(C, "zz_new RAW UINT16 3", 1)));
  BOTH("MAlterSpec", num(X->MAlterSpec("mm CONST INT32 3", "zz_new", 0)), num(gd_malter_spec(C, "mm CONST INT32 3", "zz_new", 0)));
  BOTH("AddAlias", num(X->AddAlias("zz_alias", "zz_new", 0)), num(gd_add_alias(C, "zz_alias", "zz_new", 0)));
  BOTH("MAddAlias", num(X->MAddAlias("zz_new", "ma", "zz_new/mm")), num(gd_madd_alias(C, "zz_new", "ma", "zz_new/mm")));
  BOTH("Hide", num(X->Hide("zz_new")), num(gd_hide(C, "zz_new")));
  BOTH("Hidden", num(X->Hidden("zz_new")), num(gd_hidden(C, "zz_new")));
  BOTH("UnHide", num(X->UnHide("zz_new")), num(gd_unhide(C, "zz_new")));
  BOTH("VerbosePrefix", num(X->VerbosePrefix("pfx: ")), num(gd_verbose_prefix(C, "pfx: ")));
  X->MplexLookback(3); gd_mplex_lookback(C, 3);
  BOTH("OpenLimit", num(X->OpenLimit(GD_OLIMIT_CURRENT)), num(gd_open_limit(C, GD_OLIMIT_CURRENT)));
  BOTH("Flags(set)", num(X->Flags(GD_PRETTY_PRINT, GD_VERBOSE)), num(gd_flags(C, GD_PRETTY_PRINT, GD_VERBOSE)));
  BOTH("Standards(5)", num(X->Standards(5)), num(gd_dirfile_standards(C, 5)));
  BOTH("Standards(cur)", num(X->Standards(GD_VERSION_LATEST)), num(gd_dirfile_standards(C, GD_VERSION_LATEST)));
  { char *a = X->StrTok("one \"two three\" four"), *b = gd_strtok(C, "one \"two three\" four");
    BOTH("StrTok", str(a), str(b)); free(a); free(b);
    a = X->StrTok(); b = gd_strtok(C, NULL); BOTH("StrTok(next)", str(a), str(b)); free(a); free(b); }
  { /* include a new fragment, with affixes and with a namespace */
    BOTH("Include", num(X->Include("inc_new1", 0, GD_CREAT)), num(gd_include(C, "inc_new1", 0, GD_CREAT)));
    BOTH("IncludeAffix", num(X->IncludeAffix("inc_new2", 0, "P_", "_S", GD_CREAT)), num(gd_include_affix(C, "inc_new2", 0, "P_", "_S", GD_CREAT)));
    BOTH("IncludeNS", num(X->IncludeNS("inc_new3", 0, "ns", GD_CREAT)), num(gd_include_ns(C, "inc_new3", 0, "ns", GD_CREAT)));
    int n = gd_nfragments(C);
    /* long-lived Fragment objects: after EVERY setter EVERY accessor of the object is compared with the C API on the
     * other handle (the object caches encoding, byte sex, offset, protection, affixes and the namespace pointer) */
    /* fragment 1 (included by the format file, usually with affixes), and the two just included with affixes / a
     * namespace; the plain one (n - 3) is left alone: Entry::Move below moves a field into it */
    int frs[3] = { 1, n - 2, n - 1 };
    for (int fk = 0; fk < 3; fk++) {
      int fi = frs[fk];
      if (fi < 1 || fi >= n || (fk > 0 && fi == 1) || fi == n - 3) continue;
      Fragment *F = X->Fragment(fi);
      if (!F) { cmp("Fragment(existing)", "null", "fragment"); continue; }
#define XE() (S(" e=") + num(X->Error()))
#define CE() (S(" e=") + num(gd_error(C)))
#define FRAG_ALL(tag) do { char *_pc = NULL, *_sc = NULL; std::ostringstream _x, _c; \
        const char *_xn = F->Name(), *_cn = gd_fragmentname(C, fi); \
        _x << "enc=" << (unsigned long)F->Encoding() << " end=" << F->Endianness() << " off=" << (long long)F->FrameOffset() \
           << " prot=" << F->Protection() << " idx=" << F->Index() << " parent=" << F->Parent() \
           << " name=" << str(_xn ? strrchr(_xn, '/') : NULL) << " prefix=" << str(F->Prefix()) << " suffix=" << str(F->Suffix()) \
           << " ns=" << str(F->Namespace()); \
        if (gd_fragment_affixes(C, fi, &_pc, &_sc) < 0) _pc = _sc = NULL; \
        _c << "enc=" << gd_encoding(C, fi) << " end=" << gd_endianness(C, fi) << " off=" << (long long)gd_frameoffset64(C, fi) \
           << " prot=" << gd_protection(C, fi) << " idx=" << fi << " parent=" << gd_parent_fragment(C, fi) \
           << " name=" << str(_cn ? strrchr(_cn, '/') : NULL) << " prefix=" << str(_pc) << " suffix=" << str(_sc) \
           << " ns=" << str(gd_fragment_namespace(C, fi, NULL)); \
        free(_pc); free(_sc); cmp(S("Fragment accessors after ") + tag + " [fragment " + num(fi) + "]", _x.str(), _c.str()); } while (0)
#define CSUF() ({ char *_p = NULL, *_s = NULL; S _r; if (gd_fragment_affixes(C, fi, &_p, &_s) >= 0 && _s) _r = _s; free(_p); free(_s); _r; })
#define CPRE() ({ char *_p = NULL, *_s = NULL; S _r; if (gd_fragment_affixes(C, fi, &_p, &_s) >= 0 && _p) _r = _p; free(_p); free(_s); _r; })
/* a cached pointer of the object that points into freed memory (seen by AddressSanitizer without dereferencing it) */
#define FRAG_PTRS(tag, failed) do { int _bad = poisoned(F->prefix) || poisoned(F->suffix) || poisoned(F->ns) || poisoned(F->name); \
        if (_bad) { printf("DIFF Fragment cached pointer dangles after %s [fragment %d] | X=%s%s%s%s points into freed memory | C=(the C API returns live strings)\n", \
            S(tag).c_str(), fi, poisoned(F->prefix) ? " prefix" : "", poisoned(F->suffix) ? " suffix" : "", poisoned(F->ns) ? " namespace" : "", poisoned(F->name) ? " name" : ""); ncmp++; } \
        if (_bad || (failed)) { F = X->Fragment(fi); /* abandon the object (not deleted: it may free twice) */ \
          if (!F) break; } } while (0)
      FRAG_ALL("construction");
      static const char *pres[] = { "Q_", "ns3.R_", "", "ns4.ns5.T_", "U_" };
      static const char *sufs[] = { "_T", "", "_V" };
      for (unsigned k = 0; k < sizeof pres / sizeof pres[0]; k++) {
        /* the wrapper hands the library the new prefix together with the suffix the object holds */
        S suf = CSUF();
        int rxp = F->SetPrefix(pres[k]);
        S x = num(rxp); x += XE();
        S c = num(gd_alter_affixes(C, fi, pres[k], suf.empty() ? NULL : suf.c_str())); c += CE();
        cmp(S("Fragment.SetPrefix(") + pres[k] + ")", x, c);
        FRAG_PTRS(S("SetPrefix(") + pres[k] + ")" + (rxp ? " failed" : ""), rxp != 0);
        FRAG_ALL(S("SetPrefix(") + pres[k] + ")");
        if (k < sizeof sufs / sizeof sufs[0]) {
          S pre = CPRE(); const char *cns = gd_fragment_namespace(C, fi, NULL);
          S full = (cns && cns[0]) ? S(cns) + "." + pre : pre;
          (void)full;
          int rxs = F->SetSuffix(sufs[k]);
          S x2 = num(rxs); x2 += XE();
          S c2 = num(gd_alter_affixes(C, fi, pre.empty() ? NULL : pre.c_str(), sufs[k])); c2 += CE();
          cmp(S("Fragment.SetSuffix(") + sufs[k] + ")", x2, c2);
          FRAG_PTRS(S("SetSuffix(") + sufs[k] + ")" + (rxs ? " failed" : ""), rxs != 0);
          FRAG_ALL(S("SetSuffix(") + sufs[k] + ")");
        }
        if (k == 1 || k == 3) {
          const char *nn = k == 1 ? "nn" : "";
          S x3 = num(F->SetNamespace(nn));
          gd_fragment_namespace(C, fi, nn); S c3 = num(gd_error(C));
          cmp(S("Fragment.SetNamespace(") + nn + ")", x3, c3);
          FRAG_PTRS(S("SetNamespace(") + nn + ")", 0);
          FRAG_ALL(S("SetNamespace(") + nn + ")");
        }
      }
      { S x = num(F->SetFrameOffset(3, 0)); x += XE(); S c = num(gd_alter_frameoffset64(C, 3, fi, 0)); c += CE(); cmp("Fragment.SetFrameOffset", x, c); FRAG_ALL("SetFrameOffset"); }
      { S x = num(F->SetProtection(GD_PROTECT_DATA)); x += XE(); S c = num(gd_alter_protection(C, GD_PROTECT_DATA, fi)); c += CE(); cmp("Fragment.SetProtection", x, c); FRAG_ALL("SetProtection"); }
      { S x = num(F->SetProtection(GD_PROTECT_NONE)); x += XE(); S c = num(gd_alter_protection(C, GD_PROTECT_NONE, fi)); c += CE(); cmp("Fragment.SetProtection(none)", x, c); FRAG_ALL("SetProtection(none)"); }
      { S x = num(F->SetEndianness(GD_BIG_ENDIAN, 0)); x += XE(); S c = num(gd_alter_endianness(C, GD_BIG_ENDIAN, fi, 0)); c += CE(); cmp("Fragment.SetEndianness", x, c); FRAG_ALL("SetEndianness"); }
      { S x = num(F->SetEncoding(TextEncoding, 0)); x += XE(); S c = num(gd_alter_encoding(C, GD_TEXT_ENCODED, fi, 0)); c += CE(); cmp("Fragment.SetEncoding", x, c); FRAG_ALL("SetEncoding"); }
      BOTH("Fragment.ReWrite", num(F->ReWrite()), num(gd_rewrite_fragment(C, fi)));
      FRAG_ALL("ReWrite");
      delete F;
    }
    BOTH("UnInclude", num(X->UnInclude(n - 1, 1)), num(gd_uninclude(C, n - 1, 1)));
  }

  /* ---- adding entries built by the C++ constructors vs gd_entry_t built by hand ---- */
  {
    const char *in0 = vec[0].c_str();
    gd_entry_t E;
#define CENT(T) memset(&E, 0, sizeof E); E.field_type = T; E.fragment_index = 0
#define ADD(tag, xent, name) do { int _rx = X->Add(xent); int _rc = gd_add(C, &E); \
      BOTH(S("Add ") + tag, num(_rx), num(_rc)); cmp(S("Add ") + tag + " result", centry(X->D, name), centry(C, name)); } while (0)
    { RawEntry e("n_raw", UInt16, 3, 0); CENT(GD_RAW_ENTRY); E.field = (char*)"n_raw"; E.u.raw.spf = 3; E.u.raw.data_type = GD_UINT16; ADD("RawEntry", e, "n_raw"); }
    { BitEntry e("n_bit", in0, 3, 4, 0); CENT(GD_BIT_ENTRY); E.field = (char*)"n_bit"; E.in_fields[0] = (char*)in0; E.u.bit.bitnum = 3; E.u.bit.numbits = 4; ADD("BitEntry", e, "n_bit"); }
    { SBitEntry e("n_sbit", in0, 2, 5, 0); CENT(GD_SBIT_ENTRY); E.field = (char*)"n_sbit"; E.in_fields[0] = (char*)in0; E.u.bit.bitnum = 2; E.u.bit.numbits = 5; ADD("SBitEntry", e, "n_sbit"); }
    { PhaseEntry e("n_phase", in0, -7, 0); CENT(GD_PHASE_ENTRY); E.field = (char*)"n_phase"; E.in_fields[0] = (char*)in0; E.u.phase.shift = -7; ADD("PhaseEntry", e, "n_phase"); }
    { MultiplyEntry e("n_mul", in0, "n_raw", 0); CENT(GD_MULTIPLY_ENTRY); E.field = (char*)"n_mul"; E.in_fields[0] = (char*)in0; E.in_fields[1] = (char*)"n_raw"; ADD("MultiplyEntry", e, "n_mul"); }
    { DivideEntry e("n_div", "n_raw", in0, 0); CENT(GD_DIVIDE_ENTRY); E.field = (char*)"n_div"; E.in_fields[0] = (char*)"n_raw"; E.in_fields[1] = (char*)in0; ADD("DivideEntry", e, "n_div"); }
    { RecipEntry e("n_recip", in0, 2.5, 0); CENT(GD_RECIP_ENTRY); E.field = (char*)"n_recip"; E.in_fields[0] = (char*)in0; E.u.recip.dividend = 2.5; E.u.recip.cdividend[0] = 2.5; ADD("RecipEntry", e, "n_recip"); }
    { LinterpEntry e("n_lint", in0, "table.lut", 0); CENT(GD_LINTERP_ENTRY); E.field = (char*)"n_lint"; E.in_fields[0] = (char*)in0; E.u.linterp.table = (char*)"table.lut"; ADD("LinterpEntry", e, "n_lint"); }
    { const char *ins[2] = { in0, "n_raw" }; double m[2] = { 1.5, -2 }, b[2] = { 0.25, 8 };
      LincomEntry e("n_lincom", 2, ins, m, b, 0); CENT(GD_LINCOM_ENTRY); E.field = (char*)"n_lincom"; E.u.lincom.n_fields = 2;
      for (int i = 0; i < 2; i++) { E.in_fields[i] = (char*)ins[i]; E.u.lincom.m[i] = m[i]; E.u.lincom.b[i] = b[i]; }
      ADD("LincomEntry", e, "n_lincom"); }
    { double a[4] = { 1, 0.5, -0.25, 3 }; PolynomEntry e("n_poly", 3, in0, a, 0); CENT(GD_POLYNOM_ENTRY); E.field = (char*)"n_poly"; E.in_fields[0] = (char*)in0;
      E.u.polynom.poly_ord = 3; for (int i = 0; i < 4; i++) E.u.polynom.a[i] = a[i]; ADD("PolynomEntry", e, "n_poly"); }
    { gd_triplet_t th; th.i = 5; WindowEntry e("n_win", in0, "n_raw", WindOpGe, th, 0); CENT(GD_WINDOW_ENTRY); E.field = (char*)"n_win"; E.in_fields[0] = (char*)in0; E.in_fields[1] = (char*)"n_raw";
      E.u.window.windop = GD_WINDOP_GE; E.u.window.threshold.i = 5; ADD("WindowEntry", e, "n_win"); }
    { MplexEntry e("n_mplex", in0, "n_raw", 2, 7, 0); CENT(GD_MPLEX_ENTRY); E.field = (char*)"n_mplex"; E.in_fields[0] = (char*)in0; E.in_fields[1] = (char*)"n_raw";
      E.u.mplex.count_val = 2; E.u.mplex.period = 7; ADD("MplexEntry", e, "n_mplex"); }
    { ConstEntry e("n_const", Float32, 0); CENT(GD_CONST_ENTRY); E.field = (char*)"n_const"; E.u.scalar.const_type = GD_FLOAT32; ADD("ConstEntry", e, "n_const"); }
    { CarrayEntry e("n_carray", Int16, 5, 0); CENT(GD_CARRAY_ENTRY); E.field = (char*)"n_carray"; E.u.scalar.const_type = GD_INT16; E.u.scalar.array_len = 5; ADD("CarrayEntry", e, "n_carray"); }
    { StringEntry e("n_string", 0); CENT(GD_STRING_ENTRY); E.field = (char*)"n_string"; ADD("StringEntry", e, "n_string"); }
    { SarrayEntry e("n_sarray", 3, 0); CENT(GD_SARRAY_ENTRY); E.field = (char*)"n_sarray"; E.u.scalar.array_len = 3; ADD("SarrayEntry", e, "n_sarray"); }
    { IndirEntry e("n_indir", in0, "n_carray", 0); CENT(GD_INDIR_ENTRY); E.field = (char*)"n_indir"; E.in_fields[0] = (char*)in0; E.in_fields[1] = (char*)"n_carray"; ADD("IndirEntry", e, "n_indir"); }
    { SindirEntry e("n_sindir", in0, "n_sarray", 0); CENT(GD_SINDIR_ENTRY); E.field = (char*)"n_sindir"; E.in_fields[0] = (char*)in0; E.in_fields[1] = (char*)"n_sarray"; ADD("SindirEntry", e, "n_sindir"); }
    { ConstEntry e("mc", UInt8, 0); e.E.field = strdup("mc"); CENT(GD_CONST_ENTRY); E.field = (char*)"mc"; E.u.scalar.const_type = GD_UINT8;
      int rx = X->MAdd(e, "n_raw"), rc = gd_madd(C, &E, "n_raw"); BOTH("MAdd", num(rx), num(rc)); cmp("MAdd result", centry(X->D, "n_raw/mc"), centry(C, "n_raw/mc")); }
    { int16_t five[5] = { 1, 2, 3, 4, 5 }; float six = 6;
      gd_put_carray(C, "n_carray", GD_INT16, five); X->PutCarray("n_carray", Int16, five);
      gd_put_constant(C, "n_const", GD_FLOAT32, &six); X->PutConstant("n_const", Float32, &six); }

    /* ---- setters against gd_alter_entry ---- */
#define ALTER(tag, name, XT, xstmt, cstmt) do { XT *e = (XT*)X->Entry(name); gd_entry_t G; memset(&G, 0, sizeof G); \
      if (e && !gd_entry(C, name, &G)) { int _rx = (xstmt); cstmt; int _rc = gd_alter_entry(C, name, &G, 0); gd_free_entry_strings(&G); \
        BOTH(S("set ") + tag, num(_rx), num(_rc)); cmp(S("set ") + tag + " library", centry(X->D, name), centry(C, name)); \
        if (_rx == 0 && _rc == 0) cmp(S("set ") + tag + " object", entry_x(e), centry(C, name)); } delete e; } while (0)
    ALTER("RawEntry::SetSamplesPerFrame", "n_raw", RawEntry, e->SetSamplesPerFrame(4, 0), G.u.raw.spf = 4);
    ALTER("RawEntry::SetType", "n_raw", RawEntry, e->SetType(Int32, 0), G.u.raw.data_type = GD_INT32);
    ALTER("BitEntry::SetFirstBit", "n_bit", BitEntry, e->SetFirstBit(1), G.u.bit.bitnum = 1);
    ALTER("BitEntry::SetNumBits", "n_bit", BitEntry, e->SetNumBits(2), G.u.bit.numbits = 2);
    ALTER("BitEntry::SetInput", "n_bit", BitEntry, e->SetInput("n_raw"), (free(G.in_fields[0]), G.in_fields[0] = strdup("n_raw")));
    ALTER("BitEntry::SetFirstBit(str)", "n_bit", BitEntry, e->SetFirstBit("n_const"), (G.scalar[0] = strdup("n_const"), G.scalar_ind[0] = -1));
    ALTER("BitEntry::SetNumBits(str)", "n_bit", BitEntry, e->SetNumBits("n_carray<1>"), (G.scalar[1] = strdup("n_carray"), G.scalar_ind[1] = 1));
    ALTER("SBitEntry::SetFirstBit", "sbit", SBitEntry, e->SetFirstBit(1), G.u.bit.bitnum = 1);
    ALTER("SBitEntry::SetNumBits", "sbit", SBitEntry, e->SetNumBits(3), G.u.bit.numbits = 3);
    ALTER("SBitEntry::SetNumBits(str)", "sbit", SBitEntry, e->SetNumBits("n_const"), (G.scalar[1] = strdup("n_const"), G.scalar_ind[1] = -1));
    ALTER("PhaseEntry::SetShift", "n_phase", PhaseEntry, e->SetShift(11), G.u.phase.shift = 11);
    ALTER("PhaseEntry::SetInput", "n_phase", PhaseEntry, e->SetInput("n_raw"), (free(G.in_fields[0]), G.in_fields[0] = strdup("n_raw")));
    ALTER("PhaseEntry::SetShift(str)", "n_phase", PhaseEntry, e->SetShift("n_const"), (G.scalar[0] = strdup("n_const"), G.scalar_ind[0] = -1));
    ALTER("scalar-element PhaseEntry::SetShift(str)", "n_phase", PhaseEntry, e->SetShift("n_carray<2>"), (free(G.scalar[0]), G.scalar[0] = strdup("n_carray"), G.scalar_ind[0] = 2));
    ALTER("RecipEntry::SetDividend", "n_recip", RecipEntry, e->SetDividend(-4.0), (G.u.recip.dividend = -4.0, G.u.recip.cdividend[0] = -4.0, G.u.recip.cdividend[1] = 0));
    ALTER("LinterpEntry::SetTable", "n_lint", LinterpEntry, e->SetTable("other.lut", 0), (free(G.u.linterp.table), G.u.linterp.table = strdup("other.lut")));
    ALTER("LincomEntry::SetScale", "n_lincom", LincomEntry, e->SetScale(9.5, 1), (G.u.lincom.m[1] = 9.5, G.u.lincom.cm[1][0] = 9.5, G.u.lincom.cm[1][1] = 0));
    ALTER("LincomEntry::SetOffset", "n_lincom", LincomEntry, e->SetOffset(-1.5, 0), (G.u.lincom.b[0] = -1.5, G.u.lincom.cb[0][0] = -1.5, G.u.lincom.cb[0][1] = 0));
    ALTER("LincomEntry::SetInput", "n_lincom", LincomEntry, e->SetInput("n_mul", 1), (free(G.in_fields[1]), G.in_fields[1] = strdup("n_mul")));
    ALTER("PolynomEntry::SetCoefficient", "n_poly", PolynomEntry, e->SetCoefficient(7.25, 2), (G.u.polynom.a[2] = 7.25, G.u.polynom.ca[2][0] = 7.25, G.u.polynom.ca[2][1] = 0));
    ALTER("MplexEntry::SetCountVal", "n_mplex", MplexEntry, e->SetCountVal(1), G.u.mplex.count_val = 1);
    ALTER("MplexEntry::SetPeriod", "n_mplex", MplexEntry, e->SetPeriod(4), G.u.mplex.period = 4);
    /* every string (scalar field code) overload, with CONST codes and CARRAY element codes; the object's getters
     * must afterwards show what the library holds */
    ALTER("LincomEntry::SetScale(str)", "n_lincom", LincomEntry, e->SetScale("n_const", 0), (G.scalar[0] = strdup("n_const"), G.scalar_ind[0] = -1));
    ALTER("LincomEntry::SetOffset(str)", "n_lincom", LincomEntry, e->SetOffset("n_carray<3>", 1), (G.scalar[GD_MAX_LINCOM + 1] = strdup("n_carray"), G.scalar_ind[GD_MAX_LINCOM + 1] = 3));
    ALTER("LincomEntry::SetOffset(str,0)", "n_lincom", LincomEntry, e->SetOffset("n_carray<4>", 0), (G.scalar[GD_MAX_LINCOM] = strdup("n_carray"), G.scalar_ind[GD_MAX_LINCOM] = 4));
    ALTER("LincomEntry::SetScale(str,1)", "n_lincom", LincomEntry, e->SetScale("n_carray<1>", 1), (G.scalar[1] = strdup("n_carray"), G.scalar_ind[1] = 1));
    ALTER("PolynomEntry::SetCoefficient(str)", "n_poly", PolynomEntry, e->SetCoefficient("n_carray<2>", 1), (G.scalar[1] = strdup("n_carray"), G.scalar_ind[1] = 2));
    ALTER("PolynomEntry::SetCoefficient(str,3)", "n_poly", PolynomEntry, e->SetCoefficient("n_const", 3), (G.scalar[3] = strdup("n_const"), G.scalar_ind[3] = -1));
    ALTER("RecipEntry::SetDividend(str)", "n_recip", RecipEntry, e->SetDividend("n_carray<0>"), (G.scalar[0] = strdup("n_carray"), G.scalar_ind[0] = 0));
    ALTER("MplexEntry::SetCountVal(str)", "n_mplex", MplexEntry, e->SetCountVal("n_carray<1>"), (G.scalar[0] = strdup("n_carray"), G.scalar_ind[0] = 1));
    ALTER("MplexEntry::SetPeriod(str)", "n_mplex", MplexEntry, e->SetPeriod("n_const"), (G.scalar[1] = strdup("n_const"), G.scalar_ind[1] = -1));
    ALTER("RawEntry::SetSamplesPerFrame(str)", "n_raw", RawEntry, e->SetSamplesPerFrame("n_carray<2>", 0), (G.scalar[0] = strdup("n_carray"), G.scalar_ind[0] = 2));
    ALTER("SBitEntry::SetFirstBit(str)", "sbit", SBitEntry, e->SetFirstBit("n_carray<0>"), (G.scalar[0] = strdup("n_carray"), G.scalar_ind[0] = 0));
    /* the remaining CONST / CARRAY<n> forms of the string overloads */
    ALTER("LincomEntry::SetOffset(str const)", "n_lincom", LincomEntry, e->SetOffset("n_const", 1), (free(G.scalar[GD_MAX_LINCOM + 1]), G.scalar[GD_MAX_LINCOM + 1] = strdup("n_const"), G.scalar_ind[GD_MAX_LINCOM + 1] = -1));
    ALTER("RecipEntry::SetDividend(str const)", "n_recip", RecipEntry, e->SetDividend("n_const"), (free(G.scalar[0]), G.scalar[0] = strdup("n_const"), G.scalar_ind[0] = -1));
    ALTER("MplexEntry::SetCountVal(str const)", "n_mplex", MplexEntry, e->SetCountVal("n_const"), (free(G.scalar[0]), G.scalar[0] = strdup("n_const"), G.scalar_ind[0] = -1));
    ALTER("MplexEntry::SetPeriod(str elem)", "n_mplex", MplexEntry, e->SetPeriod("n_carray<4>"), (free(G.scalar[1]), G.scalar[1] = strdup("n_carray"), G.scalar_ind[1] = 4));
    ALTER("RawEntry::SetSamplesPerFrame(str const)", "n_raw", RawEntry, e->SetSamplesPerFrame("n_const", 0), (free(G.scalar[0]), G.scalar[0] = strdup("n_const"), G.scalar_ind[0] = -1));
    ALTER("BitEntry::SetFirstBit(str elem)", "n_bit", BitEntry, e->SetFirstBit("n_carray<2>"), (free(G.scalar[0]), G.scalar[0] = strdup("n_carray"), G.scalar_ind[0] = 2));
    ALTER("PhaseEntry::SetShift(str elem 4)", "n_phase", PhaseEntry, e->SetShift("n_carray<4>"), (free(G.scalar[0]), G.scalar[0] = strdup("n_carray"), G.scalar_ind[0] = 4));
    /* WINDOW: the threshold is an integer, a bit mask or a double depending on the operator: a new entry for each of the
     * eight operators, then the numeric and the string (CONST and CARRAY element) overloads of SetThreshold */
    {
      static const gd_windop_t ops[8] = { GD_WINDOP_EQ, GD_WINDOP_NE, GD_WINDOP_GE, GD_WINDOP_GT, GD_WINDOP_LE, GD_WINDOP_LT, GD_WINDOP_SET, GD_WINDOP_CLR };
      for (int k = 0; k < 8; k++) {
        S nm = S("n_w") + num(k);
        gd_triplet_t th; memset(&th, 0, sizeof th);
        if (ops[k] == GD_WINDOP_EQ || ops[k] == GD_WINDOP_NE) th.i = 3 + k; else if (ops[k] == GD_WINDOP_SET || ops[k] == GD_WINDOP_CLR) th.u = 5 + k; else th.r = 2.5 + k;
        { WindowEntry e(nm.c_str(), in0, "n_mul", (WindOpType)ops[k], th, 0); CENT(GD_WINDOW_ENTRY); E.field = (char*)nm.c_str(); E.in_fields[0] = (char*)in0; E.in_fields[1] = (char*)"n_mul";
          E.u.window.windop = ops[k]; E.u.window.threshold = th; ADD(S("WindowEntry op ") + num((int)ops[k]), e, nm.c_str()); }
        { gd_triplet_t t2; memset(&t2, 0, sizeof t2);
          if (ops[k] == GD_WINDOP_EQ || ops[k] == GD_WINDOP_NE) t2.i = -7; else if (ops[k] == GD_WINDOP_SET || ops[k] == GD_WINDOP_CLR) t2.u = 0x30; else t2.r = -0.75;
          ALTER(S("WindowEntry::SetThreshold(numeric) op ") + num((int)ops[k]), nm.c_str(), WindowEntry, e->SetThreshold(t2), G.u.window.threshold = t2); }
        ALTER(S("WindowEntry::SetThreshold(str const) op ") + num((int)ops[k]), nm.c_str(), WindowEntry, e->SetThreshold("n_const"), (G.scalar[0] = strdup("n_const"), G.scalar_ind[0] = -1));
        ALTER(S("WindowEntry::SetThreshold(str elem) op ") + num((int)ops[k]), nm.c_str(), WindowEntry, e->SetThreshold("n_carray<3>"), (free(G.scalar[0]), G.scalar[0] = strdup("n_carray"), G.scalar_ind[0] = 3));
      }
    }
    ALTER("MultiplyEntry::SetInput", "n_mul", MultiplyEntry, e->SetInput("n_phase", 1), (free(G.in_fields[1]), G.in_fields[1] = strdup("n_phase")));
    ALTER("DivideEntry::SetInput", "n_div", DivideEntry, e->SetInput("n_phase", 0), (free(G.in_fields[0]), G.in_fields[0] = strdup("n_phase")));
    ALTER("ConstEntry::SetType", "n_const", ConstEntry, e->SetType(Int64), G.u.scalar.const_type = GD_INT64);
    ALTER("CarrayEntry::SetType", "n_carray", CarrayEntry, e->SetType(Float64), G.u.scalar.const_type = GD_FLOAT64);
    ALTER("CarrayEntry::SetArrayLen", "n_carray", CarrayEntry, e->SetArrayLen(7), G.u.scalar.array_len = 7);
    ALTER("SarrayEntry::SetArrayLen", "n_sarray", SarrayEntry, e->SetArrayLen(2), G.u.scalar.array_len = 2);
    { gd_triplet_t th; th.i = 9;
      ALTER("WindowEntry::SetThreshold", "n_win", WindowEntry, e->SetThreshold(th), G.u.window.threshold.i = 9);
      ALTER("WindowEntry::SetWindOp", "n_win", WindowEntry, e->SetWindOp(WindOpLt), G.u.window.windop = GD_WINDOP_LT); }
      ALTER("WindowEntry::SetThreshold(str)", "n_win", WindowEntry, e->SetThreshold("n_carray<4>"), (G.scalar[0] = strdup("n_carray"), G.scalar_ind[0] = 4));
    { Entry *e = X->Entry("n_phase"); if (e) {
        S x = num(e->Rename("n_phase2", 0)); x += str(e->Name()); S c = num(gd_rename(C, "n_phase", "n_phase2", 0)); c += S("\"n_phase2\"");
        BOTH("Entry::Rename", x, c); cmp("Entry::Rename library", centry(X->D, "n_phase2"), centry(C, "n_phase2"));
        x = num(e->Move(2, 0)); x += num(e->FragmentIndex()); c = num(gd_move(C, "n_phase2", 2, 0)); c += num(gd_fragment_index(C, "n_phase2"));
        BOTH("Entry::Move", x, c); delete e; } }
    { RawEntry *r = X->Reference("n_raw"); const char *c = gd_reference(C, "n_raw"); BOTH("Reference", str(r ? r->Name() : NULL), str(c)); delete r; }
    BOTH("Delete", num(X->Delete("n_sindir", 0)), num(gd_delete(C, "n_sindir", 0)));
    BOTH("Delete(meta, force)", num(X->Delete("n_raw", GD_DEL_META | GD_DEL_FORCE | GD_DEL_DEREF)), num(gd_delete(C, "n_raw", GD_DEL_META | GD_DEL_FORCE | GD_DEL_DEREF)));
  }
  BOTH("Sync", num(X->Sync()), num(gd_sync(C, NULL)));
  BOTH("RawClose", num(X->RawClose()), num(gd_raw_close(C, NULL)));
  BOTH("Flush", num(X->Flush()), num(gd_flush(C, NULL)));
  BOTH("MetaFlush", num(X->MetaFlush()), num(gd_metaflush(C)));
  BOTH("DeSync", num(X->DeSync(0)), num(gd_desync(C, 0)));
  { const char *a = X->ErrorString(); char *b = gd_error_string(C, NULL, 0); cmp("ErrorString", str(a), str(b)); free(b); }
  int rx = X->Close(), rc = gd_close(C);
  cmp("Close", num(rx), num(rc));
  delete X;
  printf("DONE %ld\n", ncmp);
  return 0;
}
