/* C14 harness: data-file replacing operations under the system-call supervisor.
 *   rep run DIR OP...    open DIR read-write, then between the two markers:
 *                        perform every OP in turn (result printed), read every
 *                        RAW field back through the SAME handle (is it still
 *                        usable?), and gd_close (gd_discard if that fails).
 *   rep read DIR         fresh read-only open; print every RAW field:
 *                        name, type, spf, first and last frame, all samples.
 *   rep trunc DIR FLAGS  gd_open(DIR, GD_RDWR | GD_TRUNC [| GD_TRUNCSUB] ...) between markers
 * OP:  enc:<none|gzip|bzip2|lzma|text|sie>:<frag>   gd_alter_encoding(.., move=1)
 *      end:<big|little>:<frag>                      gd_alter_endianness(.., move=1)
 *      off:<n>:<frag>                               gd_alter_frameoffset64(.., move=1)
 *      ren:<old>:<new>                              gd_rename(.., GD_REN_DATA)
 *      mov:<field>:<frag>                           gd_move(.., GD_REN_DATA)
 *      del:<field>                                  gd_delete(.., GD_DEL_DATA)
 *      typ:<field>:<type code>:<spf>                gd_alter_raw(.., recode=1)
 *      put:<field>:<first frame>:<nframes>:<value>  gd_putdata of constant samples
 *      flush | sync | metaflush | rawclose          gd_flush(NULL) / gd_sync / gd_metaflush / gd_raw_close(NULL)
 */
#include "internal.h"
#include <inttypes.h>

static void mark(const char *m) { access(m, F_OK); }
static int cmpstr(const void *a, const void *b) { return strcmp(*(const char *const *)a, *(const char *const *)b); }

static unsigned long enc_of(const char *s)
{
  if (!strcmp(s, "none")) return GD_UNENCODED;
  if (!strcmp(s, "gzip")) return GD_GZIP_ENCODED;
  if (!strcmp(s, "bzip2")) return GD_BZIP2_ENCODED;
  if (!strcmp(s, "lzma")) return GD_LZMA_ENCODED;
  if (!strcmp(s, "text")) return GD_TEXT_ENCODED;
  if (!strcmp(s, "sie")) return GD_SIE_ENCODED;
  return GD_ENC_UNSUPPORTED;
}

static void dump(DIRFILE *D, const char *tag)
{
  unsigned int i, n;
  printf("%s error %d\n", tag, gd_error(D));
  if (gd_error(D)) return;
  n = gd_nfields_by_type(D, GD_RAW_ENTRY);
  const char **l = gd_field_list_by_type(D, GD_RAW_ENTRY);
  const char **s = malloc(sizeof(*s) * (n + 1));
  for (i = 0; i < n; i++) s[i] = l[i];
  qsort(s, n, sizeof *s, cmpstr);
  for (i = 0; i < n; i++) {
    gd_entry_t E;
    off64_t bof, eof, f;
    if (gd_entry(D, s[i], &E)) { printf("%s field %s ERR %d\n", tag, s[i], gd_error(D)); continue; }
    bof = gd_bof64(D, s[i]);
    eof = gd_eof64(D, s[i]);
    printf("%s field %s type 0x%x spf %u frag %d bof %" PRId64 " eof %" PRId64 " err %d :", tag, s[i], E.EN(raw,data_type),
        E.EN(raw,spf), E.fragment_index, (int64_t)bof, (int64_t)eof, gd_error(D));
    if (eof > bof && eof - bof < 100000) {
      size_t ns = (size_t)(eof - bof), k, got;
      double *v = malloc(sizeof(double) * (ns + 1));
      got = gd_getdata64(D, s[i], 0, bof, 0, ns, GD_FLOAT64, v);
      printf(" got %zu err %d", got, gd_error(D));
      for (k = 0; k < got; k++) printf(" %.17g", v[k]);
      free(v);
    }
    printf("\n");
    gd_free_entry_strings(&E);
  }
  printf("%s end\n", tag);
}

static int do_op(DIRFILE *D, char *op)
{
  char *a[6] = {0};
  int n = 0;
  char *t;
  for (t = strtok(op, ":"); t && n < 6; t = strtok(NULL, ":")) a[n++] = t;
  if (!strcmp(a[0], "enc")) return gd_alter_encoding(D, enc_of(a[1]), atoi(a[2]), 1);
  if (!strcmp(a[0], "end")) return gd_alter_endianness(D, !strcmp(a[1], "big") ? GD_BIG_ENDIAN : GD_LITTLE_ENDIAN, atoi(a[2]), 1);
  if (!strcmp(a[0], "off")) return gd_alter_frameoffset64(D, atoll(a[1]), atoi(a[2]), 1);
  if (!strcmp(a[0], "ren")) return gd_rename(D, a[1], a[2], GD_REN_DATA);
  if (!strcmp(a[0], "mov")) return gd_move(D, a[1], atoi(a[2]), GD_REN_DATA);
  if (!strcmp(a[0], "del")) return gd_delete(D, a[1], GD_DEL_DATA);
  if (!strcmp(a[0], "typ")) return gd_alter_raw(D, a[1], (gd_type_t)strtol(a[2], NULL, 0), atoi(a[3]), 1);
  if (!strcmp(a[0], "put")) {
    size_t nf = atoi(a[3]), k;
    unsigned spf = gd_spf(D, a[1]);
    double *v = malloc(sizeof(double) * (nf * spf + 1));
    for (k = 0; k < nf * spf; k++) v[k] = atof(a[4]) + k;
    size_t w = gd_putdata64(D, a[1], atoll(a[2]), 0, nf, 0, GD_FLOAT64, v);
    free(v);
    return gd_error(D) ? gd_error(D) : (w == nf * spf ? 0 : -1000);
  }
  if (!strcmp(a[0], "hread")) { dump(D, "H"); return 0; }
  if (!strcmp(a[0], "flush")) return gd_flush(D, NULL);
  if (!strcmp(a[0], "sync")) return gd_sync(D, NULL);
  if (!strcmp(a[0], "metaflush")) return gd_metaflush(D);
  if (!strcmp(a[0], "rawclose")) return gd_raw_close(D, NULL);
  fprintf(stderr, "bad op %s\n", a[0]);
  exit(2);
}

int main(int argc, char **argv)
{
  setvbuf(stdout, NULL, _IOLBF, 0);
  if (argc >= 3 && !strcmp(argv[1], "read")) {
    DIRFILE *D = gd_open(argv[2], GD_RDONLY);
    dump(D, "R");
    gd_discard(D);
    return 0;
  }
  if (argc >= 4 && !strcmp(argv[1], "trunc")) {
    unsigned long fl = GD_RDWR | GD_TRUNC | GD_UNENCODED;
    DIRFILE *D;
    if (strstr(argv[3], "sub")) fl |= GD_TRUNCSUB;
    if (strstr(argv[3], "creat")) fl |= GD_CREAT;
    mark("/__GD_MARK_BEGIN__");
    D = gd_open(argv[2], fl);
    printf("open %d\n", gd_error(D));
    int r = gd_close(D);
    if (r) gd_discard(D);
    mark("/__GD_MARK_END__");
    printf("close %d\n", r);
    return 0;
  }
  if (argc >= 4 && !strcmp(argv[1], "run")) {
    int i, r;
    DIRFILE *D = gd_open(argv[2], GD_RDWR);
    printf("open %d\n", gd_error(D));
    if (gd_error(D)) return 3;
    mark("/__GD_MARK_BEGIN__");
    for (i = 3; i < argc; i++) {
      char *op = strdup(argv[i]);
      r = do_op(D, op);
      printf("op %s ret %d error %d invalid %d\n", argv[i], r, gd_error(D), (D->flags & GD_INVALID) ? 1 : 0);
      free(op);
    }
    if (!(D->flags & GD_INVALID) && r != 0) dump(D, "H");
    r = gd_close(D);
    printf("close %d\n", r);
    if (r) gd_discard(D);
    mark("/__GD_MARK_END__");
    return 0;
  }
  fprintf(stderr, "usage: rep run DIR OP... | read DIR | trunc DIR flags\n");
  return 2;
}
