/* gdrun: operation-sequence interpreter over the public GetData API, used by
 * the C03, C04 and C13 checks.
 *
 * stdin : one command per line (tokens separated by blanks)
 * stdout: exactly one line per command
 *
 * Sample values travel as hex bit patterns of the stated type (index 0..11 =
 * INT8 UINT8 INT16 UINT16 INT32 UINT32 INT64 UINT64 FLOAT32 FLOAT64 COMPLEX64
 * COMPLEX128); a complex sample is two patterns.  NaNs are not canonicalised.
 */
#include "internal.h"
#include <inttypes.h>

static const gd_type_t T[12] = { GD_INT8, GD_UINT8, GD_INT16, GD_UINT16, GD_INT32,
  GD_UINT32, GD_INT64, GD_UINT64, GD_FLOAT32, GD_FLOAT64, GD_COMPLEX64, GD_COMPLEX128 };
static int csize(int t) { return t < 2 ? 1 : t < 4 ? 2 : t < 6 ? 4 : t < 8 ? 8 : (t == 8 || t == 10) ? 4 : 8; }
static int ncomp(int t) { return t >= 10 ? 2 : 1; }

#define MAXTOK 70000
static char *tok[MAXTOK];
static int ntok;
static char *line;
static size_t linecap;

static DIRFILE *D;

static unsigned long enc_by_name(const char *s)
{
  if (!strcmp(s, "none")) return GD_UNENCODED;
  if (!strcmp(s, "text")) return GD_TEXT_ENCODED;
  if (!strcmp(s, "gzip")) return GD_GZIP_ENCODED;
  if (!strcmp(s, "bzip2")) return GD_BZIP2_ENCODED;
  if (!strcmp(s, "lzma")) return GD_LZMA_ENCODED;
  if (!strcmp(s, "sie")) return GD_SIE_ENCODED;
  if (!strcmp(s, "auto")) return GD_AUTO_ENCODED;
  return strtoul(s, NULL, 0);
}

static const char *enc_name(unsigned long e)
{
  switch (e) {
    case GD_UNENCODED: return "none"; case GD_TEXT_ENCODED: return "text";
    case GD_GZIP_ENCODED: return "gzip"; case GD_BZIP2_ENCODED: return "bzip2";
    case GD_LZMA_ENCODED: return "lzma"; case GD_SIE_ENCODED: return "sie";
    case GD_AUTO_ENCODED: return "auto"; default: return "other";
  }
}

static off64_t parse_frame(const char *s)
{
  if (!strcmp(s, "HERE")) return GD_HERE;
  return (off64_t)strtoll(s, NULL, 0);
}

int main(void)
{
  ssize_t len;
  setvbuf(stdout, NULL, _IOFBF, 1 << 16);
  while ((len = getline(&line, &linecap, stdin)) > 0) {
    char *p = line, *sv;
    ntok = 0;
    for (p = strtok_r(line, " \t\r\n", &sv); p && ntok < MAXTOK; p = strtok_r(NULL, " \t\r\n", &sv))
      tok[ntok++] = p;
    if (ntok == 0) { printf("\n"); continue; }
    const char *c = tok[0];
    if (!strcmp(c, "open")) {
      unsigned long fl = !strcmp(tok[2], "ro") ? GD_RDONLY : GD_RDWR;
      int i;
      for (i = 3; i < ntok; i++) {
        if (!strcmp(tok[i], "creat")) fl |= GD_CREAT;
        else if (!strcmp(tok[i], "big")) fl |= GD_BIG_ENDIAN;
        else if (!strcmp(tok[i], "little")) fl |= GD_LITTLE_ENDIAN;
        else if (!strcmp(tok[i], "arm")) fl |= GD_ARM_ENDIAN;
        else if (!strcmp(tok[i], "force_enc")) fl |= GD_FORCE_ENCODING;
        else fl |= enc_by_name(tok[i]);
      }
      D = gd_open(tok[1], fl);
      printf("open %d\n", gd_error(D));
    } else if (!strcmp(c, "close")) {
      int r = D ? gd_close(D) : -99;
      if (r == 0) D = NULL;
      printf("close %d\n", r);
    } else if (!strcmp(c, "discard")) {
      int r = D ? gd_discard(D) : -99;
      if (r == 0) D = NULL;
      printf("discard %d\n", r);
    } else if (!strcmp(c, "put")) {
      /* put field type first_frame first_samp n hex... */
      int t = atoi(tok[2]);
      off64_t ff = parse_frame(tok[3]), fs = strtoll(tok[4], NULL, 0);
      size_t n = strtoull(tok[5], NULL, 0), i;
      int cs = csize(t), nc = ncomp(t);
      unsigned char *buf = malloc(n * cs * nc + 16);
      for (i = 0; i < n * nc; i++) {
        uint64_t v = (6 + (int)i < ntok) ? strtoull(tok[6 + i], NULL, 16) : 0;
        memcpy(buf + i * cs, &v, cs);
      }
      size_t r = gd_putdata64(D, tok[1], ff, fs, 0, n, T[t], buf);
      printf("put %zu %d\n", r, gd_error(D));
      free(buf);
    } else if (!strcmp(c, "get")) {
      /* get field type first_frame first_samp nsamp */
      int t = atoi(tok[2]);
      off64_t ff = parse_frame(tok[3]), fs = strtoll(tok[4], NULL, 0);
      size_t n = strtoull(tok[5], NULL, 0), i;
      int cs = csize(t), nc = ncomp(t);
      unsigned char *buf = malloc(n * cs * nc + 16);
      memset(buf, 0xA5, n * cs * nc + 16);
      size_t r = gd_getdata64(D, tok[1], ff, fs, 0, n, T[t], buf);
      printf("get %zu %d", r, gd_error(D));
      for (i = 0; i < r * nc; i++) {
        uint64_t v = 0;
        memcpy(&v, buf + i * cs, cs);
        printf(" %" PRIx64, v);
      }
      printf("\n");
      free(buf);
    } else if (!strcmp(c, "flush") || !strcmp(c, "sync") || !strcmp(c, "rawclose")) {
      const char *f = (ntok > 1 && strcmp(tok[1], "*")) ? tok[1] : NULL;
      int r = !strcmp(c, "flush") ? gd_flush(D, f) : !strcmp(c, "sync") ? gd_sync(D, f) : gd_raw_close(D, f);
      printf("%s %d\n", c, r);
    } else if (!strcmp(c, "standards")) {
      /* standards v : gd_dirfile_standards (v: 0.., -1 current, -2 latest, -3 earliest) */
      int r = gd_dirfile_standards(D, atoi(tok[1]));
      printf("standards %d %d\n", r, gd_error(D));
    } else if (!strcmp(c, "metaflush")) {
      printf("metaflush %d\n", gd_metaflush(D));
    } else if (!strcmp(c, "nframes")) {
      off64_t r = gd_nframes64(D);
      printf("nframes %" PRId64 " %d\n", (int64_t)r, gd_error(D));
    } else if (!strcmp(c, "eof")) {
      off64_t r = gd_eof64(D, tok[1]);
      printf("eof %" PRId64 "\n", (int64_t)r);
    } else if (!strcmp(c, "bof")) {
      off64_t r = gd_bof64(D, tok[1]);
      printf("bof %" PRId64 "\n", (int64_t)r);
    } else if (!strcmp(c, "enc")) {
      unsigned long e = gd_encoding(D, atoi(tok[1]));
      printf("enc %s %d\n", enc_name(e), gd_error(D));
    } else if (!strcmp(c, "endian")) {
      unsigned long e = gd_endianness(D, atoi(tok[1]));
      printf("endian %s%s %d\n", (e & GD_BIG_ENDIAN) ? "big" : "little", (e & GD_ARM_FLAG) == GD_ARM_ENDIAN && GD_ARM_ENDIAN ? "-arm" : "",
          gd_error(D));
    } else if (!strcmp(c, "foff")) {
      off64_t r = gd_frameoffset64(D, atoi(tok[1]));
      printf("foff %" PRId64 "\n", (int64_t)r);
    } else if (!strcmp(c, "alter_encoding")) {
      int r = gd_alter_encoding(D, enc_by_name(tok[1]), atoi(tok[2]), atoi(tok[3]));
      printf("alter_encoding %d %d\n", r, (D->flags & GD_INVALID) ? 1 : 0);
    } else if (!strcmp(c, "alter_endianness")) {
      unsigned long s = !strcmp(tok[1], "big") ? GD_BIG_ENDIAN : GD_LITTLE_ENDIAN;
      if (atoi(tok[2])) s |= GD_ARM_ENDIAN; else s |= GD_NOT_ARM_ENDIAN;
      int r = gd_alter_endianness(D, s, atoi(tok[3]), atoi(tok[4]));
      printf("alter_endianness %d %d\n", r, (D->flags & GD_INVALID) ? 1 : 0);
    } else if (!strcmp(c, "alter_endianness_raw")) {
      /* alter_endianness_raw <byte_sex as number> frag move */
      int r = gd_alter_endianness(D, strtoul(tok[1], NULL, 0), atoi(tok[2]), atoi(tok[3]));
      printf("alter_endianness_raw %d %d\n", r, (D->flags & GD_INVALID) ? 1 : 0);
    } else if (!strcmp(c, "alter_frameoffset")) {
      int r = gd_alter_frameoffset64(D, strtoll(tok[1], NULL, 0), atoi(tok[2]), atoi(tok[3]));
      printf("alter_frameoffset %d %d\n", r, (D->flags & GD_INVALID) ? 1 : 0);
    } else if (!strcmp(c, "alter_raw")) {
      int t = atoi(tok[2]);
      int r = gd_alter_raw(D, tok[1], t < 0 ? GD_NULL : T[t], (unsigned)atoi(tok[3]), atoi(tok[4]));
      printf("alter_raw %d %d\n", r, (D->flags & GD_INVALID) ? 1 : 0);
    } else if (!strcmp(c, "move")) {
      int r = gd_move(D, tok[1], atoi(tok[2]), (unsigned)strtoul(tok[3], NULL, 0));
      printf("move %d %d\n", r, (D->flags & GD_INVALID) ? 1 : 0);
    } else if (!strcmp(c, "rename")) {
      int r = gd_rename(D, tok[1], tok[2], (unsigned)strtoul(tok[3], NULL, 0));
      printf("rename %d %d\n", r, (D->flags & GD_INVALID) ? 1 : 0);
    } else if (!strcmp(c, "seek")) {
      /* seek field frame samp flags(numeric: GD_SEEK_SET 0, CUR 1, END 2, | GD_SEEK_WRITE 4) */
      off64_t r = gd_seek64(D, tok[1], strtoll(tok[2], NULL, 0), strtoll(tok[3], NULL, 0), atoi(tok[4]));
      printf("seek %" PRId64 " %d\n", (int64_t)r, gd_error(D));
    } else if (!strcmp(c, "tell")) {
      off64_t r = gd_tell64(D, tok[1]);
      printf("tell %" PRId64 " %d\n", (int64_t)r, gd_error(D));
    } else if (!strcmp(c, "rawname")) {
      char *s = gd_raw_filename(D, tok[1]);
      printf("rawname %s\n", s ? s : "(null)");
      free(s);
    } else if (!strcmp(c, "fixend")) {
      /* fixend type oldflags newflags hexbytes : _GD_FixEndianness on a buffer */
      int t = atoi(tok[1]);
      unsigned o = (unsigned)strtoul(tok[2], NULL, 0), nw = (unsigned)strtoul(tok[3], NULL, 0);
      const char *h = ntok > 4 ? tok[4] : "";
      size_t nb = strlen(h) / 2, i;
      uint64_t *al = malloc(nb + 32);
      unsigned char *buf = (unsigned char *)al;
      for (i = 0; i < nb; i++) { unsigned v; sscanf(h + 2 * i, "%2x", &v); buf[i] = (unsigned char)v; }
      _GD_FixEndianness(buf, nb / (csize(t) * ncomp(t)), T[t], o, nw);
      printf("fixend ");
      for (i = 0; i < nb; i++) printf("%02x", buf[i]);
      printf("\n");
      free(al);
    } else if (!strcmp(c, "error")) {
      char buf[400];
      gd_error_string(D, buf, sizeof buf);
      printf("error %d %s\n", gd_error(D), buf);
    } else if (!strcmp(c, "include")) {
      int r = gd_include(D, tok[1], atoi(tok[2]), strtoul(tok[3], NULL, 0));
      printf("include %d %d\n", r, gd_error(D));
    } else if (!strcmp(c, "add_raw")) {
      /* add_raw name type spf frag : gd_add_raw */
      int r = gd_add_raw(D, tok[1], T[atoi(tok[2])], (unsigned)atoi(tok[3]), atoi(tok[4]));
      printf("add_raw %d\n", r);
    } else if (!strcmp(c, "add_entry")) {
      /* add_entry name type spf frag : gd_add with a gd_entry_t */
      gd_entry_t E;
      memset(&E, 0, sizeof E);
      E.field = tok[1];
      E.field_type = GD_RAW_ENTRY;
      E.fragment_index = atoi(tok[4]);
      E.EN(raw,data_type) = T[atoi(tok[2])];
      E.EN(raw,spf) = (unsigned)atoi(tok[3]);
      int r = gd_add(D, &E);
      printf("add_entry %d\n", r);
    } else if (!strcmp(c, "alter_entry")) {
      /* alter_entry name type spf recode : gd_alter_entry with a RAW gd_entry_t (type < 0: GD_NULL, spf 0: unchanged) */
      gd_entry_t E;
      memset(&E, 0, sizeof E);
      E.field_type = GD_RAW_ENTRY;
      E.EN(raw,data_type) = atoi(tok[2]) < 0 ? GD_NULL : T[atoi(tok[2])];
      E.EN(raw,spf) = (unsigned)atoi(tok[3]);
      int r = gd_alter_entry(D, tok[1], &E, atoi(tok[4]));
      printf("alter_entry %d %d\n", r, (D->flags & GD_INVALID) ? 1 : 0);
    } else if (!strcmp(c, "alter_spec")) {
      /* alter_spec recode rest-of-line-tokens joined by blanks */
      char spec[4096]; int i; spec[0] = 0;
      for (i = 2; i < ntok; i++) { strcat(spec, tok[i]); if (i + 1 < ntok) strcat(spec, " "); }
      int r = gd_alter_spec(D, spec, atoi(tok[1]));
      printf("alter_spec %d %d\n", r, (D->flags & GD_INVALID) ? 1 : 0);
    } else if (!strcmp(c, "addspec")) {
      /* addspec frag rest-of-line-tokens joined by blanks */
      char spec[4096]; int i; spec[0] = 0;
      for (i = 2; i < ntok; i++) { strcat(spec, tok[i]); if (i + 1 < ntok) strcat(spec, " "); }
      int r = gd_add_spec(D, spec, atoi(tok[1]));
      printf("addspec %d\n", r);
    } else {
      printf("unknown-command %s\n", c);
    }
  }
  fflush(stdout);
  if (D) gd_discard(D);
  return 0;
}
