"""Shared python helpers for the C03/C04/C13 checks: type tables, an
independent (struct/zlib/bz2/lzma based) encoder/decoder for RAW data files,
and a runner for harness/C04/gdrun.c scripts."""
import struct, zlib, gzip, bz2, lzma, os

NAMES = ["INT8", "UINT8", "INT16", "UINT16", "INT32", "UINT32", "INT64", "UINT64",
         "FLOAT32", "FLOAT64", "COMPLEX64", "COMPLEX128"]
CSIZE = [1, 1, 2, 2, 4, 4, 8, 8, 4, 8, 4, 8]       # component width
NCOMP = [1, 1, 1, 1, 1, 1, 1, 1, 1, 1, 2, 2]
TSIZE = [c * n for c, n in zip(CSIZE, NCOMP)]
ISFLOAT = [False] * 8 + [True] * 4
ISSIGNED = [True, False, True, False, True, False, True, False] + [False] * 4
EXT = {"none": "", "gzip": ".gz", "bzip2": ".bz2", "lzma": ".xz", "text": ".txt", "sie": ".sie"}
ENCS = ["none", "gzip", "bzip2", "lzma", "text", "sie"]
SEXES = ["l", "b", "la", "ba"]
HOOKS = ("-DGD_VERIF_BUFFER_SIZE=64 -DGD_VERIF_BZIP_BUFFER_SIZE=64 -DGD_VERIF_LZMA_DATA_OUT=64 "
         "-DGD_VERIF_LZMA_DATA_IN=64 -DGD_VERIF_LZMA_LOOKBACK=16")
GD_BIG, GD_LITTLE, GD_ARM = 0x4, 0x8, 0x2000


def sex_directive(sex):
    return "/ENDIAN %s%s" % ("big" if "b" in sex else "little", " arm" if "a" in sex else "")


def sex_flags(sex):
    return (GD_BIG if "b" in sex else 0) | (GD_LITTLE if "l" in sex else 0) | (GD_ARM if "a" in sex else 0)


def sexes_for(t):
    """byte orders that make a difference for type t (ARM only for 8-byte IEEE components)"""
    return SEXES if t in (9, 11) else SEXES[:2]


# ---- the independent oracle: python struct -------------------------------
_FMT = {1: "B", 2: "H", 4: "I", 8: "Q"}


def enc_comp(t, sex, z):
    """bytes of one component bit pattern z of type t in a fragment of order sex"""
    w = CSIZE[t]
    b = struct.pack(("<" if "l" in sex else ">") + _FMT[w], z)
    if "a" in sex and w == 8 and ISFLOAT[t]:
        # ARM FPA doubles: the two 32-bit words are exchanged
        b = b[4:] + b[:4]
    return b


def enc_samples(t, sex, comps):
    return b"".join(enc_comp(t, sex, z) for z in comps)


def dec_samples(t, sex, data):
    w = CSIZE[t]
    out = []
    for i in range(0, len(data) - w + 1, w):
        b = data[i:i + w]
        if "a" in sex and w == 8 and ISFLOAT[t]:
            b = b[4:] + b[:4]
        out.append(struct.unpack(("<" if "l" in sex else ">") + _FMT[w], b)[0])
    return out


def int_value(t, z):
    bits = 8 * CSIZE[t]
    return z - (1 << bits) if ISSIGNED[t] and z >= (1 << (bits - 1)) else z


def float_value(t, z):
    return struct.unpack("<f", struct.pack("<I", z))[0] if CSIZE[t] == 4 else struct.unpack("<d", struct.pack("<Q", z))[0]


def text_line(t, comps):
    """what the Standards' text encoding holds for one sample (the library uses %.7g / %.16g)"""
    if not ISFLOAT[t]:
        return "%d\n" % int_value(t, comps[0])
    fmt = "%.7g" if CSIZE[t] == 4 else "%.16g"
    return ";".join(fmt % float_value(t, z) for z in comps) + "\n"


def sie_records(t, sex, comps, split_runs=None):
    """independent SIE writer: list of (end, sample comps); split_runs = set of
    sample indices after which a run is cut even when the next value is equal"""
    nc = NCOMP[t]
    vs = [tuple(comps[i:i + nc]) for i in range(0, len(comps), nc)]
    recs = []
    for i, v in enumerate(vs):
        last = i + 1 == len(vs)
        if last or vs[i + 1] != v or (split_runs and i in split_runs):
            recs.append((i, v))
    return recs


def sie_bytes(t, sex, recs):
    out = b""
    for e, v in recs:
        out += struct.pack(("<" if "l" in sex else ">") + "q", e) + enc_samples(t, sex, v)
    return out


def sie_decode(t, sex, data):
    """returns (records, expanded comps, strictly_increasing)"""
    rs = 8 + TSIZE[t]
    recs, out, prev, inc = [], [], -1, True
    for i in range(0, len(data) - rs + 1, rs):
        e = struct.unpack(("<" if "l" in sex else ">") + "q", data[i:i + 8])[0]
        v = dec_samples(t, sex, data[i + 8:i + rs])
        recs.append((e, tuple(v)))
        if e <= prev or e - prev > (1 << 24):
            inc = False          # not increasing, or an absurd index (treated as malformed)
        else:
            out += v * (e - prev)
            prev = e
    return recs, out, inc


def container_decode(enc, data):
    if enc == "gzip":
        return gzip.decompress(data)
    if enc == "bzip2":
        return bz2.decompress(data)
    if enc == "lzma":
        return lzma.decompress(data)
    return data


def container_encode(enc, data, ext=None):
    if enc == "gzip":
        return gzip.compress(data, 6)
    if enc == "bzip2":
        return bz2.compress(data, 9)
    if enc == "lzma":
        if ext == ".lzma":
            return lzma.compress(data, format=lzma.FORMAT_ALONE)
        return lzma.compress(data, format=lzma.FORMAT_XZ)
    return data


def read_field_file(d, field, enc):
    p = os.path.join(d, field + EXT[enc])
    if not os.path.exists(p):
        return None
    return open(p, "rb").read()


def hexs(comps):
    return " ".join("%x" % z for z in comps)


def parse_get(line):
    """'get n err h h h' -> (n, err, [ints])"""
    tk = line.split()
    if len(tk) < 3 or tk[0] != "get":
        return None
    return int(tk[1]), int(tk[2]), [int(x, 16) for x in tk[3:]]
