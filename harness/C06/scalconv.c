/* C06 harness (INDEX reads and scalar parameters): argv[1] = scratch directory.  stdin lines:
 *   "I <first> <n>"                 gd_getdata64(INDEX, first, n) and of "ph PHASE INDEX 0" as every type R
 *                                   -> lines "I <r> <hex...>" and "J <r> <hex...>"
 *   "S <T> <hex [hexim]>"           a CONST k of type T holding the value (put as its storage type); the parameters of
 *                                   fields naming k are read back with gd_entry:
 *                                   -> "P shift <hex>" (PHASE shift, int64)  "P weq <hex>" (WINDOW EQ threshold, int64)
 *                                      "P wset <hex>" (WINDOW SET threshold, uint64)  "P wgt <hex>" (WINDOW GT, double)
 *                                      "P lin <re> <im>" (LINCOM cm[0])  "P rec <re> <im>" (RECIP cdividend)
 *                                      "P pol <re> <im>" (POLYNOM ca[0])
 * NaN outputs are canonicalised. */
#include "internal.h"
#include <inttypes.h>
static const gd_type_t T[12] = { GD_INT8, GD_UINT8, GD_INT16, GD_UINT16, GD_INT32,
  GD_UINT32, GD_INT64, GD_UINT64, GD_FLOAT32, GD_FLOAT64, GD_COMPLEX64, GD_COMPLEX128 };
static const char *TN[12] = { "INT8", "UINT8", "INT16", "UINT16", "INT32", "UINT32", "INT64", "UINT64",
  "FLOAT32", "FLOAT64", "COMPLEX64", "COMPLEX128" };
static const int ST[12] = { 6, 7, 6, 7, 6, 7, 6, 7, 9, 9, 11, 11 };
static int esize(int t) { return t < 2 ? 1 : t < 4 ? 2 : t < 6 ? 4 : t < 8 ? 8 : (t == 8 || t == 10) ? 4 : 8; }
static int ncomp(int t) { return t >= 10 ? 2 : 1; }
static uint64_t canon64(double d) { uint64_t v; memcpy(&v, &d, 8); if (d != d) v = 0x7ff8000000000000ull; return v; }
static void show(int t, const unsigned char *buf, int n)
{
  int i, c;
  for (i = 0; i < n; i++) for (c = 0; c < ncomp(t); c++) {
    uint64_t v = 0; int es = esize(t);
    memcpy(&v, buf + (size_t)(i * ncomp(t) + c) * es, es);
    if (t >= 8) { if (es == 4) { float f; memcpy(&f, &v, 4); if (f != f) v = 0x7fc00000u; }
                  else { double d; memcpy(&d, &v, 8); if (d != d) v = 0x7ff8000000000000ull; } }
    printf(" %" PRIx64, v);
  }
  printf("\n");
}
int main(int argc, char **argv)
{
  static char line[1 << 16];
  static unsigned char out[4096 * 16];
  char path[4096], fmt[4096];
  while (fgets(line, sizeof line, stdin)) {
    snprintf(path, sizeof path, "%s/d", argv[1]);
    snprintf(fmt, sizeof fmt, "rm -rf %s; mkdir %s", path, path); if (system(fmt)) return 2;
    snprintf(fmt, sizeof fmt, "%s/format", path);
    if (line[0] == 'I') {
      long long first; int n, r;
      sscanf(line + 1, "%lld %d", &first, &n);
      FILE *f = fopen(fmt, "w"); fprintf(f, "ph PHASE INDEX 0\n"); fclose(f);
      DIRFILE *D = gd_open(path, GD_RDONLY);
      for (r = 0; r < 12; r++) {
        memset(out, 0xA5, (size_t)n * 16);
        size_t g = gd_getdata64(D, "INDEX", 0, first, 0, n, T[r], out);
        printf("I %d", r); if (g != (size_t)n) printf(" SHORT%zu", g); show(r, out, n);
        memset(out, 0xA5, (size_t)n * 16);
        g = gd_getdata64(D, "ph", 0, first, 0, n, T[r], out);
        printf("J %d", r); if (g != (size_t)n) printf(" SHORT%zu", g); show(r, out, n);
      }
      gd_discard(D);
    } else if (line[0] == 'S') {
      int t; char *p; unsigned char v[16]; uint64_t w; gd_entry_t E;
      t = (int)strtol(line + 1, &p, 10);
      w = strtoull(p, &p, 16); memcpy(v, &w, 8);
      w = strtoull(p, &p, 16); memcpy(v + 8, &w, 8);
      FILE *f = fopen(fmt, "w");
      fprintf(f, "data RAW UINT8 1\nk CONST %s 0\nph PHASE data k\nweq WINDOW data data EQ k\nwset WINDOW data data SET k\n"
                 "wgt WINDOW data data GT k\nlin LINCOM 1 data k 0\nrec RECIP data k\npol POLYNOM data k 1\n", TN[t]);
      fclose(f);
      DIRFILE *D = gd_open(path, GD_RDWR);
      if (gd_put_constant(D, "k", T[ST[t]], v)) printf("PUTFAIL %d\n", gd_error(D));
      if (!gd_entry(D, "ph", &E)) { printf("P shift %" PRIx64 "\n", (uint64_t)E.EN(phase,shift)); gd_free_entry_strings(&E); } else printf("P shift ERR%d\n", gd_error(D));
      if (!gd_entry(D, "weq", &E)) { printf("P weq %" PRIx64 "\n", (uint64_t)E.EN(window,threshold).i); gd_free_entry_strings(&E); } else printf("P weq ERR%d\n", gd_error(D));
      if (!gd_entry(D, "wset", &E)) { printf("P wset %" PRIx64 "\n", (uint64_t)E.EN(window,threshold).u); gd_free_entry_strings(&E); } else printf("P wset ERR%d\n", gd_error(D));
      if (!gd_entry(D, "wgt", &E)) { printf("P wgt %" PRIx64 "\n", canon64(E.EN(window,threshold).r)); gd_free_entry_strings(&E); } else printf("P wgt ERR%d\n", gd_error(D));
      if (!gd_entry(D, "lin", &E)) { printf("P lin %" PRIx64 " %" PRIx64 "\n", canon64(creal(E.EN(lincom,cm)[0])), canon64(cimag(E.EN(lincom,cm)[0]))); gd_free_entry_strings(&E); } else printf("P lin ERR%d\n", gd_error(D));
      if (!gd_entry(D, "rec", &E)) { printf("P rec %" PRIx64 " %" PRIx64 "\n", canon64(creal(E.EN(recip,cdividend))), canon64(cimag(E.EN(recip,cdividend)))); gd_free_entry_strings(&E); } else printf("P rec ERR%d\n", gd_error(D));
      if (!gd_entry(D, "pol", &E)) { printf("P pol %" PRIx64 " %" PRIx64 "\n", canon64(creal(E.EN(polynom,ca)[0])), canon64(cimag(E.EN(polynom,ca)[0]))); gd_free_entry_strings(&E); } else printf("P pol ERR%d\n", gd_error(D));
      gd_discard(D);
    }
    printf("END\n");
    fflush(stdout);
  }
  return 0;
}
