/* C06 harness (callers): conversions on the public API paths.
 * argv[1] = scratch directory.  stdin lines: "<A> <T> <n> <hex0 [hex0im]> ..." (A = caller type
 * index 0..11, T = field type index; complex values take two hex words).
 * For each line: a fresh dirfile with "f RAW <T> 1" and "c CONST <T> 0"; gd_putdata64 of the n
 * values as type A; then for every R in 0..11: gd_getdata64 as R -> one output line
 *   "R <r> <hex...>"  and gd_put_constant(A, v_i)/gd_get_constant(R) for each i -> "K <r> <hex...>".
 * NaN outputs are canonicalised. */
#include "internal.h"
#include <inttypes.h>
static const gd_type_t T[12] = { GD_INT8, GD_UINT8, GD_INT16, GD_UINT16, GD_INT32,
  GD_UINT32, GD_INT64, GD_UINT64, GD_FLOAT32, GD_FLOAT64, GD_COMPLEX64, GD_COMPLEX128 };
static const char *TN[12] = { "INT8", "UINT8", "INT16", "UINT16", "INT32", "UINT32", "INT64", "UINT64",
  "FLOAT32", "FLOAT64", "COMPLEX64", "COMPLEX128" };
static int esize(int t) { return t < 2 ? 1 : t < 4 ? 2 : t < 6 ? 4 : t < 8 ? 8 : (t == 8 || t == 10) ? 4 : 8; }
static int ncomp(int t) { return t >= 10 ? 2 : 1; }
static void show(int t, const unsigned char *buf, int n)
{
  int i, c;
  for (i = 0; i < n; i++) for (c = 0; c < ncomp(t); c++) {
    uint64_t v = 0; int es = esize(t);
    memcpy(&v, buf + (size_t)(i * ncomp(t) + c) * es, es);
    if (t >= 8) { if (es == 4) { float f; memcpy(&f, &v, 4); if (f != f) v = 0x7fc00000u; }
                  else { double d; memcpy(&d, &v, 8); if (d != d) v = 0x7ff8000000000000ull; } }
    printf(" %" PRIx64, v);
  }
  printf("\n");
}
int main(int argc, char **argv)
{
  static char line[1 << 20];
  static unsigned char in[65536 * 16], out[65536 * 16];
  char path[4096], fmt[4096];
  while (fgets(line, sizeof line, stdin)) {
    int a, t, n, i, r, off = 0, k;
    if (sscanf(line, "%d %d %d%n", &a, &t, &n, &off) < 3) continue;
    char *p = line + off;
    for (i = 0; i < n * ncomp(a); i++) {
      uint64_t v = strtoull(p, &p, 16);
      memcpy(in + (size_t)i * esize(a), &v, esize(a));
    }
    snprintf(path, sizeof path, "%s/d", argv[1]);
    snprintf(fmt, sizeof fmt, "rm -rf %s; mkdir %s", path, path); if (system(fmt)) return 2;
    snprintf(fmt, sizeof fmt, "%s/format", path);
    FILE *f = fopen(fmt, "w"); fprintf(f, "/ENCODING none\n/ENDIAN little\nf RAW %s 1\nc CONST %s 0\n", TN[t], TN[t]); fclose(f);
    DIRFILE *D = gd_open(path, GD_RDWR);
    size_t w = gd_putdata64(D, "f", 0, 0, 0, n, T[a], in);
    if (w != (size_t)n) { printf("PUTFAIL %d %zu\n", gd_error(D), w); }
    for (r = 0; r < 12; r++) {
      memset(out, 0xA5, (size_t)n * 16);
      size_t g = gd_getdata64(D, "f", 0, 0, 0, n, T[r], out);
      printf("R %d", r); if (g != (size_t)n) printf(" SHORT%zu", g); show(r, out, n);
    }
    for (r = 0; r < 12; r++) {
      printf("K %d", r);
      for (i = 0; i < n; i++) {
        unsigned char o1[16];
        k = gd_put_constant(D, "c", T[a], in + (size_t)i * esize(a) * ncomp(a));
        k |= gd_get_constant(D, "c", T[r], o1);
        memcpy(out + (size_t)i * esize(r) * ncomp(r), o1, esize(r) * ncomp(r));
      }
      show(r, out, n);
    }
    gd_discard(D);
    fflush(stdout);
  }
  return 0;
}
