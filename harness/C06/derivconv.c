/* C06 harness (conversions inside derived fields): argv[1] = scratch dir.
 * stdin lines: "<T> <R1> <R2> <n1> <n> <hex v0> ... <hex v(n-1)> | <i0> ... <i(n-1)>"
 *   f RAW <T> 1 holds the values (bit patterns of type T, real types only), i RAW UINT8 1 the index values.
 *   p PHASE f 0;  l LINCOM 1 f 1 0;  m MPLEX f i 1;  b PHASE m 0
 * For each of p, l, m, b (one handle, in this order): read [0,n1) as R1, then [n1,n) as R2 and print
 *   "<field> <count> <hex...>" for the second chunk.  NaNs canonicalised. */
#include "internal.h"
#include <inttypes.h>
static const gd_type_t T[12] = { GD_INT8, GD_UINT8, GD_INT16, GD_UINT16, GD_INT32,
  GD_UINT32, GD_INT64, GD_UINT64, GD_FLOAT32, GD_FLOAT64, GD_COMPLEX64, GD_COMPLEX128 };
static const char *TN[12] = { "INT8", "UINT8", "INT16", "UINT16", "INT32", "UINT32", "INT64", "UINT64",
  "FLOAT32", "FLOAT64", "COMPLEX64", "COMPLEX128" };
static int esize(int t) { return t < 2 ? 1 : t < 4 ? 2 : t < 6 ? 4 : t < 8 ? 8 : (t == 8 || t == 10) ? 4 : 8; }
static int ncomp(int t) { return t >= 10 ? 2 : 1; }
int main(int argc, char **argv)
{
  static char line[1 << 16];
  static unsigned char in[4096 * 8], idx[4096], o1[4096 * 16], o2[4096 * 16];
  char path[4096], cmd[8300];
  const char *fld[4] = { "p", "l", "m", "b" };
  while (fgets(line, sizeof line, stdin)) {
    int t, r1, r2, n1, n, i, off = 0, k, c;
    if (sscanf(line, "%d %d %d %d %d%n", &t, &r1, &r2, &n1, &n, &off) < 5) continue;
    char *p = line + off;
    for (i = 0; i < n; i++) { uint64_t v = strtoull(p, &p, 16); memcpy(in + (size_t)i * esize(t), &v, esize(t)); }
    while (*p == ' ' || *p == '|') p++;
    for (i = 0; i < n; i++) idx[i] = (unsigned char)strtoul(p, &p, 10);
    snprintf(path, sizeof path, "%s/d", argv[1]);
    snprintf(cmd, sizeof cmd, "rm -rf %s; mkdir %s", path, path); if (system(cmd)) return 2;
    snprintf(cmd, sizeof cmd, "%s/format", path);
    FILE *f = fopen(cmd, "w");
    fprintf(f, "/ENCODING none\n/ENDIAN little\nf RAW %s 1\ni RAW UINT8 1\np PHASE f 0\nl LINCOM 1 f 1 0\nm MPLEX f i 1\nb PHASE m 0\n", TN[t]);
    fclose(f);
    DIRFILE *D = gd_open(path, GD_RDWR);
    gd_putdata64(D, "f", 0, 0, 0, n, T[t], in);
    gd_putdata64(D, "i", 0, 0, 0, n, GD_UINT8, idx);
    gd_flush(D, NULL);
    for (k = 0; k < 4; k++) {
      size_t g1 = gd_getdata64(D, fld[k], 0, 0, 0, n1, T[r1], o1);
      size_t g2 = gd_getdata64(D, fld[k], 0, n1, 0, n - n1, T[r2], o2);
      (void)g1;
      printf("%s %zu", fld[k], g2);
      for (i = 0; i < (int)g2; i++) for (c = 0; c < ncomp(r2); c++) {
        uint64_t v = 0; int es = esize(r2);
        memcpy(&v, o2 + (size_t)(i * ncomp(r2) + c) * es, es);
        if (r2 >= 8) { if (es == 4) { float x; memcpy(&x, &v, 4); if (x != x) v = 0x7fc00000u; }
                       else { double x; memcpy(&x, &v, 8); if (x != x) v = 0x7ff8000000000000ull; } }
        printf(" %" PRIx64, v);
      }
      printf("\n");
    }
    gd_discard(D);
    fflush(stdout);
  }
  return 0;
}
