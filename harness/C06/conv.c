/* C06 harness: feed samples through the compiled _GD_ConvertType.
 * stdin : lines "<in 0..11> <out 0..11> <hex comp0> [<hex comp1>]"
 * stdout: one line per input line: "<hex comp0> [<hex comp1>]" of the output
 * Consecutive lines with the same (in,out) are converted in ONE call with
 * n = run length, so a wrong stride/pointer type shows up as wrong data.
 * NaN outputs are canonicalised (NaNs are compared as a class). */
#include "internal.h"
#include <inttypes.h>

static const gd_type_t T[12] = { GD_INT8, GD_UINT8, GD_INT16, GD_UINT16, GD_INT32,
  GD_UINT32, GD_INT64, GD_UINT64, GD_FLOAT32, GD_FLOAT64, GD_COMPLEX64, GD_COMPLEX128 };

static int esize(int t) { return t < 2 ? 1 : t < 4 ? 2 : t < 6 ? 4 : t < 8 ? 8 : (t == 8 || t == 10) ? 4 : 8; }
static int ncomp(int t) { return t >= 10 ? 2 : 1; }
static int isflt(int t) { return t >= 8; }

#define MAXRUN 4096
static unsigned char inbuf[MAXRUN * 16 + 64], outbuf[MAXRUN * 16 + 64];
static int run_in = -1, run_out = -1, run_n = 0;

static void flush_run(DIRFILE *D)
{
  int i, c;
  if (run_n == 0) return;
  memset(outbuf, 0xA5, sizeof outbuf);
  _GD_ConvertType(D, inbuf, T[run_in], outbuf, T[run_out], run_n);
  for (i = 0; i < run_n; i++) {
    for (c = 0; c < ncomp(run_out); c++) {
      uint64_t v = 0;
      int es = esize(run_out);
      memcpy(&v, outbuf + (size_t)(i * ncomp(run_out) + c) * es, es);
      if (isflt(run_out)) {
        if (es == 4) { float f; memcpy(&f, &v, 4); if (f != f) v = 0x7fc00000u; }
        else { double d; memcpy(&d, &v, 8); if (d != d) v = 0x7ff8000000000000ull; }
      }
      printf("%s%" PRIx64, c ? " " : "", v);
    }
    printf("\n");
  }
  run_n = 0;
}

int main(void)
{
  DIRFILE *D = calloc(1, sizeof *D);
  char line[256];
  while (fgets(line, sizeof line, stdin)) {
    int a, b, k; uint64_t c0 = 0, c1 = 0;
    k = sscanf(line, "%d %d %" SCNx64 " %" SCNx64, &a, &b, &c0, &c1);
    if (k < 3) continue;
    if (a != run_in || b != run_out || run_n >= MAXRUN) { flush_run(D); run_in = a; run_out = b; }
    {
      int es = esize(a);
      memcpy(inbuf + (size_t)(run_n * ncomp(a)) * es, &c0, es);
      if (ncomp(a) == 2) memcpy(inbuf + (size_t)(run_n * 2 + 1) * es, &c1, es);
    }
    run_n++;
  }
  flush_run(D);
  if (D->error) { fprintf(stderr, "internal error flagged\n"); return 3; }
  return 0;
}
