/* C06 harness (CONST/CARRAY type change): argv[1] = scratch directory.
 * stdin lines: "<A> <T1> <T2> <n> <hex0 [hex0im]> ..." (type indices 0..11 as in apiconv.c).
 * Fresh dirfile with "c CONST <T1> 0" and "k CARRAY <T1> 0 ... 0" (n elements).  For each value i:
 * gd_put_constant(c, A, v_i); gd_alter_const(c, T2); gd_get_constant(c, R) for every R -> lines "K <r> <hex...>"
 * (the constant is altered back to T1 before the next value); then gd_put_carray(k, A, all n);
 * gd_alter_carray(k, T2, 0); gd_get_carray(k, R) for every R -> lines "Y <r> <hex...>".
 * NaN outputs are canonicalised. */
#include "internal.h"
#include <inttypes.h>
static const gd_type_t T[12] = { GD_INT8, GD_UINT8, GD_INT16, GD_UINT16, GD_INT32,
  GD_UINT32, GD_INT64, GD_UINT64, GD_FLOAT32, GD_FLOAT64, GD_COMPLEX64, GD_COMPLEX128 };
static const char *TN[12] = { "INT8", "UINT8", "INT16", "UINT16", "INT32", "UINT32", "INT64", "UINT64",
  "FLOAT32", "FLOAT64", "COMPLEX64", "COMPLEX128" };
static int esize(int t) { return t < 2 ? 1 : t < 4 ? 2 : t < 6 ? 4 : t < 8 ? 8 : (t == 8 || t == 10) ? 4 : 8; }
static int ncomp(int t) { return t >= 10 ? 2 : 1; }
static void show(int t, const unsigned char *buf, int n)
{
  int i, c;
  for (i = 0; i < n; i++) for (c = 0; c < ncomp(t); c++) {
    uint64_t v = 0; int es = esize(t);
    memcpy(&v, buf + (size_t)(i * ncomp(t) + c) * es, es);
    if (t >= 8) { if (es == 4) { float f; memcpy(&f, &v, 4); if (f != f) v = 0x7fc00000u; }
                  else { double d; memcpy(&d, &v, 8); if (d != d) v = 0x7ff8000000000000ull; } }
    printf(" %" PRIx64, v);
  }
  printf("\n");
}
int main(int argc, char **argv)
{
  static char line[1 << 20];
  static unsigned char in[4096 * 16], out[12][4096 * 16];
  char path[4096], fmt[4096];
  while (fgets(line, sizeof line, stdin)) {
    int a, t1, t2, n, i, r, off = 0;
    if (sscanf(line, "%d %d %d %d%n", &a, &t1, &t2, &n, &off) < 4) continue;
    char *p = line + off;
    for (i = 0; i < n * ncomp(a); i++) {
      uint64_t v = strtoull(p, &p, 16);
      memcpy(in + (size_t)i * esize(a), &v, esize(a));
    }
    snprintf(path, sizeof path, "%s/d", argv[1]);
    snprintf(fmt, sizeof fmt, "rm -rf %s; mkdir %s", path, path); if (system(fmt)) return 2;
    snprintf(fmt, sizeof fmt, "%s/format", path);
    FILE *f = fopen(fmt, "w"); fprintf(f, "c CONST %s 0\nk CARRAY %s", TN[t1], TN[t1]);
    for (i = 0; i < n; i++) fprintf(f, " 0");
    fprintf(f, "\n"); fclose(f);
    DIRFILE *D = gd_open(path, GD_RDWR);
    int bad = 0;
    for (i = 0; i < n; i++) {
      bad |= gd_put_constant(D, "c", T[a], in + (size_t)i * esize(a) * ncomp(a));
      bad |= gd_alter_const(D, "c", T[t2]);
      for (r = 0; r < 12; r++)
        bad |= gd_get_constant(D, "c", T[r], out[r] + (size_t)i * esize(r) * ncomp(r));
      bad |= gd_alter_const(D, "c", T[t1]);
    }
    if (bad) printf("CONSTFAIL %d\n", gd_error(D));
    for (r = 0; r < 12; r++) { printf("K %d", r); show(r, out[r], n); }
    bad = gd_put_carray(D, "k", T[a], in);
    bad |= gd_alter_carray(D, "k", T[t2], 0);
    for (r = 0; r < 12; r++) {
      memset(out[r], 0xA5, (size_t)n * 16);
      bad |= gd_get_carray(D, "k", T[r], out[r]);
    }
    if (bad) printf("CARRAYFAIL %d\n", gd_error(D));
    for (r = 0; r < 12; r++) { printf("Y %d", r); show(r, out[r], n); }
    gd_discard(D);
    fflush(stdout);
  }
  return 0;
}
