/* C06 harness (CONST/CARRAY creation with a value): argv[1] = scratch directory.
 * stdin lines: "<A> <T> <n> <hex0 [hex0im]> ..." (type indices 0..11 as in apiconv.c).
 * Fresh dirfile with "parent RAW UINT8 1".  For each value i: gd_add_const(c<i>, T, A, v_i),
 * gd_madd_const(parent, m<i>, T, A, v_i); once: gd_add_carray(ka, T, n, A, all), gd_madd_carray(parent, kb, ...).
 * Then for every R: gd_get_constant / gd_get_carray -> lines
 *   "N <r> <hex...>" (add_const)  "M <r> ..." (madd_const)  "P <r> ..." (add_carray)  "Q <r> ..." (madd_carray)
 * NaN outputs are canonicalised. */
#include "internal.h"
#include <inttypes.h>
static const gd_type_t T[12] = { GD_INT8, GD_UINT8, GD_INT16, GD_UINT16, GD_INT32,
  GD_UINT32, GD_INT64, GD_UINT64, GD_FLOAT32, GD_FLOAT64, GD_COMPLEX64, GD_COMPLEX128 };
static int esize(int t) { return t < 2 ? 1 : t < 4 ? 2 : t < 6 ? 4 : t < 8 ? 8 : (t == 8 || t == 10) ? 4 : 8; }
static int ncomp(int t) { return t >= 10 ? 2 : 1; }
static void show(int t, const unsigned char *buf, int n)
{
  int i, c;
  for (i = 0; i < n; i++) for (c = 0; c < ncomp(t); c++) {
    uint64_t v = 0; int es = esize(t);
    memcpy(&v, buf + (size_t)(i * ncomp(t) + c) * es, es);
    if (t >= 8) { if (es == 4) { float f; memcpy(&f, &v, 4); if (f != f) v = 0x7fc00000u; }
                  else { double d; memcpy(&d, &v, 8); if (d != d) v = 0x7ff8000000000000ull; } }
    printf(" %" PRIx64, v);
  }
  printf("\n");
}
int main(int argc, char **argv)
{
  static char line[1 << 20];
  static unsigned char in[4096 * 16], out[4][12][4096 * 16];
  char path[4096], fmt[4096], nm[64];
  while (fgets(line, sizeof line, stdin)) {
    int a, t, n, i, r, k, off = 0, bad = 0;
    if (sscanf(line, "%d %d %d%n", &a, &t, &n, &off) < 3) continue;
    char *p = line + off;
    for (i = 0; i < n * ncomp(a); i++) {
      uint64_t v = strtoull(p, &p, 16);
      memcpy(in + (size_t)i * esize(a), &v, esize(a));
    }
    snprintf(path, sizeof path, "%s/d", argv[1]);
    snprintf(fmt, sizeof fmt, "rm -rf %s; mkdir %s", path, path); if (system(fmt)) return 2;
    snprintf(fmt, sizeof fmt, "%s/format", path);
    FILE *f = fopen(fmt, "w"); fprintf(f, "/ENCODING none\nparent RAW UINT8 1\n"); fclose(f);
    DIRFILE *D = gd_open(path, GD_RDWR);
    for (i = 0; i < n; i++) {
      const void *v = in + (size_t)i * esize(a) * ncomp(a);
      snprintf(nm, sizeof nm, "c%d", i); bad |= gd_add_const(D, nm, T[t], T[a], v, 0);
      snprintf(nm, sizeof nm, "m%d", i); bad |= gd_madd_const(D, "parent", nm, T[t], T[a], v);
    }
    bad |= gd_add_carray(D, "ka", T[t], n, T[a], in, 0);
    bad |= gd_madd_carray(D, "parent", "kb", T[t], n, T[a], in);
    if (bad) printf("ADDFAIL %d\n", gd_error(D));
    for (r = 0; r < 12; r++) {
      for (k = 0; k < 4; k++) memset(out[k][r], 0xA5, (size_t)n * 16);
      for (i = 0; i < n; i++) {
        snprintf(nm, sizeof nm, "c%d", i); gd_get_constant(D, nm, T[r], out[0][r] + (size_t)i * esize(r) * ncomp(r));
        snprintf(nm, sizeof nm, "parent/m%d", i); gd_get_constant(D, nm, T[r], out[1][r] + (size_t)i * esize(r) * ncomp(r));
      }
      gd_get_carray(D, "ka", T[r], out[2][r]);
      gd_get_carray(D, "parent/kb", T[r], out[3][r]);
    }
    for (k = 0; k < 4; k++) for (r = 0; r < 12; r++) { printf("%c %d", "NMPQ"[k], r); show(r, out[k][r], n); }
    gd_discard(D);
    fflush(stdout);
  }
  return 0;
}
