/* C09 harness: open each dirfile named on stdin (one path per line) with
 * gd_open(GD_RDONLY) in a forked child and print what the property observes:
 *
 *   IMPL OK | IMPL ERR | IMPL CRASH
 *   F <i> enc= end= off= prot= ns= px= sx= parent= dir==<subdir of the fragment>
 *   E =<name> frag= kind=I|R|B|A hid= x=<raw file|input code|alias target> res=<ultimate target|~|->
 *   REF <reference field or ->
 *   G =<name> n= v=       one sample of a RAW field read with gd_getdata64 at frame 12
 *   X <text>              public API disagrees with the internal value
 *   N <text>              note (API mode: which call failed)
 * A line "@<script>" selects API mode (see run_api).
 *   END
 *
 * Per-fragment values come from the public API (gd_endianness,
 * gd_frameoffset64, gd_protection, gd_fragment_affixes, gd_fragment_namespace,
 * gd_parent_fragment, gd_fragmentname); the stored encoding and the NULL/""
 * distinction of the root namespace are read from DIRFILE (gd_encoding would
 * probe the file system for auto-encoded fragments).  The entry list is
 * walked in D->entry (names that the public lookup would re-interpret, e.g.
 * "x.r", stay observable) and cross-checked against gd_fragment_index,
 * gd_alias_target, gd_hidden, gd_entry, gd_raw_filename where those succeed. */
#include "internal.h"
#include <sys/wait.h>
#include <inttypes.h>

static const char *rel(const char *root, const char *path)
{
  size_t n = strlen(root);
  if (strncmp(root, path, n) == 0 && path[n] == '/') return path + n + 1;
  if (strcmp(root, path) == 0) return "";
  return path;
}

static const char *resolved(DIRFILE *D, const char *code, char *buf, size_t n)
{
  int repr;
  gd_entry_t *T = _GD_FindFieldAndRepr(D, code, &repr, NULL, 0);
  if (T == NULL) return "~";
  snprintf(buf, n, "=%s", T->field);
  return buf;
}

static int plain_name(const char *nm)
{
  size_t l = strlen(nm);
  if (l == 0 || nm[0] == '.' || strchr(nm, '/')) return 0;
  if (l > 2 && nm[l - 2] == '.' && strchr("rimaz", nm[l - 1])) return 0;
  return 1;
}

static int cmpstr(const void *a, const void *b) { return strcmp(*(char *const *)a, *(char *const *)b); }

/* every code <top-level alias>/<subfield name> (and the same with .r), looked up with _GD_FindFieldAndRepr */
static void queries(DIRFILE *D)
{
  unsigned u, v, ns = 0, nq = 0, k;
  char **subs = malloc(sizeof(char *) * (D->n_entries + 1));
  char **qs;
  char rb[4200];
  for (u = 0; u < D->n_entries; u++) {
    const char *sl = strchr(D->entry[u]->field, '/');
    if (sl) subs[ns++] = strdup(sl + 1);
  }
  qsort(subs, ns, sizeof(char *), cmpstr);
  for (u = 0, v = 0; u < ns; u++) if (u == 0 || strcmp(subs[u], subs[v - 1])) subs[v++] = subs[u];
  ns = v;
  qs = malloc(sizeof(char *) * (2 * ns * D->n_entries + 1));
  for (u = 0; u < D->n_entries; u++) {
    gd_entry_t *E = D->entry[u];
    if (E->field_type != GD_ALIAS_ENTRY || !plain_name(E->field)) continue;
    for (k = 0; k < ns; k++) {
      char tmp[4200];
      snprintf(tmp, sizeof tmp, "%s/%s", E->field, subs[k]); qs[nq++] = strdup(tmp);
      snprintf(tmp, sizeof tmp, "%s/%s.r", E->field, subs[k]); qs[nq++] = strdup(tmp);
    }
  }
  qsort(qs, nq, sizeof(char *), cmpstr);
  for (k = 0; k < nq && k < 160; k++) printf("Q =%s -> %s\n", qs[k], resolved(D, qs[k], rb, sizeof rb));
}

static void show(DIRFILE *D, const char *root)
{
  unsigned u;
  int i, n;
  printf("IMPL OK\n");
  n = gd_nfragments(D);
  for (i = 0; i < n; i++) {
    char *px = NULL, *sx = NULL, *fn, *slash;
    const char *nsapi;
    unsigned long enc = D->fragment[i].encoding;
    int par;
    gd_fragment_affixes(D, i, &px, &sx);
    nsapi = gd_fragment_namespace(D, i, NULL);
    par = (i == 0) ? -1 : gd_parent_fragment(D, i);
    fn = strdup(gd_fragmentname(D, i));
    slash = strrchr(fn, '/');
    if (slash) *slash = 0;
    printf("F %d enc=%lu end=%d off=%" PRId64 " prot=%d ns=%s%s px==%s sx==%s parent=%d dir==%s\n", i,
        (enc & GD_ENCODING) >> 24, (gd_endianness(D, i) & GD_BIG_ENDIAN) ? 1 : 0,
        (int64_t)gd_frameoffset64(D, i), gd_protection(D, i),
        D->fragment[i].ns ? "=" : "-", D->fragment[i].ns ? D->fragment[i].ns : "",
        px ? px : "", sx ? sx : "", par, rel(root, fn));
    if (strcmp(nsapi ? nsapi : "", D->fragment[i].ns ? D->fragment[i].ns : "") != 0)
      printf("X gd_fragment_namespace(%d) = %s\n", i, nsapi ? nsapi : "(null)");
    if (enc != GD_AUTO_ENCODED && enc != GD_ENC_UNSUPPORTED && gd_encoding(D, i) != enc)
      printf("X gd_encoding(%d) = %lx, stored %lx\n", i, gd_encoding(D, i), enc);
    free(px); free(sx); free(fn);
  }
  /* the ARM middle-endian flag of "/ENDIAN ... arm" (printed only when some fragment has it) */
  for (i = 0; i < n; i++)
    if ((D->fragment[i].byte_sex & GD_ARM_FLAG) == GD_ARM_ENDIAN && GD_ARM_ENDIAN) {
      int j;
      for (j = 0; j < n; j++)
        printf("R %d arm=%d\n", j, (gd_endianness(D, j) & GD_ARM_FLAG) == GD_ARM_ENDIAN);
      break;
    }
  for (u = 0; u < D->n_entries; u++) {
    gd_entry_t *E = D->entry[u];
    const char *k = "?";
    char *x = NULL;
    const char *res = "-";
    char resbuf[4096];
    int simple = 1; /* a name the public lookup reads literally */
    const char *c;
    for (c = E->field; *c; c++) if (*c == '.') simple = 0;
    switch (E->field_type) {
      case GD_INDEX_ENTRY: k = "I"; x = strdup(""); break;
      case GD_RAW_ENTRY:
        k = "R";
        {
          char *full = _GD_MakeFullPath(D, D->fragment[E->fragment_index].dirfd, E->e->u.raw.filebase, 0);
          {
            char tmp[4200];
            snprintf(tmp, sizeof tmp, "%s ty=%d", full ? rel(root, full) : "?", (int)GD_SIZE(E->EN(raw,data_type)));
            x = strdup(tmp);
          }
          if (simple && (D->fragment[E->fragment_index].encoding == GD_UNENCODED)) {
            char *pub = gd_raw_filename(D, E->field);
            if (pub == NULL || full == NULL || strcmp(pub, full))
              printf("X gd_raw_filename(%s) = %s, expected %s\n", E->field, pub ? pub : "(null)", full ? full : "(null)");
            free(pub);
          }
          free(full);
        }
        break;
      case GD_BIT_ENTRY:
        k = "B";
        {
          char tmp[8400], rb[4200];
          snprintf(tmp, sizeof tmp, "%s rin=%s", E->in_fields[0], resolved(D, E->in_fields[0], rb, sizeof rb));
          x = strdup(tmp);
        }
        break;
      case GD_LINTERP_ENTRY:
        k = "L";
        {
          char tmp[12800];
          char *full = _GD_MakeFullPath(D, D->fragment[E->fragment_index].dirfd, E->EN(linterp,table), 0);
          char rb[4200];
          snprintf(tmp, sizeof tmp, "%s tab==%s rin=%s", E->in_fields[0], full ? rel(root, full) : "?",
              resolved(D, E->in_fields[0], rb, sizeof rb));
          x = strdup(tmp);
          if (simple) {
            const char *pub = gd_linterp_tablename(D, E->field);
            if (pub == NULL || full == NULL || strcmp(pub, full))
              printf("X gd_linterp_tablename(%s) = %s, expected %s\n", E->field, pub ? pub : "(null)", full ? full : "(null)");
            free((void *)pub);
          }
          free(full);
        }
        break;
      case GD_ALIAS_ENTRY:
        k = "A"; x = strdup(E->in_fields[0]);
        if (E->e->entry[0]) { snprintf(resbuf, sizeof resbuf, "=%s", E->e->entry[0]->field); res = resbuf; }
        else res = "~";
        if (simple) {
          const char *t = gd_alias_target(D, E->field);
          gd_entry_t T;
          int r;
          if (t == NULL || strcmp(t, E->in_fields[0])) printf("X gd_alias_target(%s) = %s\n", E->field, t ? t : "(null)");
          r = gd_entry(D, E->field, &T);
          if (r == 0) {
            if (E->e->entry[0] == NULL || strcmp(T.field, E->e->entry[0]->field))
              printf("X gd_entry(%s) names %s\n", E->field, T.field);
            gd_free_entry_strings(&T);
          } else if (E->e->entry[0] != NULL)
            printf("X gd_entry(%s) fails, internal target %s\n", E->field, E->e->entry[0]->field);
        }
        break;
      default: k = "?"; x = strdup(""); break;
    }
    printf("E =%s frag=%d kind=%s hid=%d x==%s res=%s\n", E->field, E->fragment_index, k,
        (E->flags & GD_EN_HIDDEN) ? 1 : 0, x, res);
    if (simple && E->field_type != GD_INDEX_ENTRY) {
      int fi = gd_fragment_index(D, E->field);
      int hid = gd_hidden(D, E->field);
      if (fi != E->fragment_index) printf("X gd_fragment_index(%s) = %d\n", E->field, fi);
      if (hid != ((E->flags & GD_EN_HIDDEN) ? 1 : 0)) printf("X gd_hidden(%s) = %d\n", E->field, hid);
    }
    free(x);
  }
  queries(D);
  {
    const char *r = gd_reference(D, NULL);
    printf("REF %s%s\n", r ? "=" : "-", r ? r : "");
  }
  /* data: one sample of every RAW field of a raw-readable fragment at frame 12, so that a wrong
   * byte order, frame offset or file location shows in the value */
  for (u = 0; u < D->n_entries; u++) {
    gd_entry_t *E = D->entry[u];
    size_t l;
    unsigned long enc;
    if (E->field_type != GD_RAW_ENTRY) continue;
    enc = D->fragment[E->fragment_index].encoding;
    if (enc != GD_AUTO_ENCODED && enc != GD_UNENCODED) continue;
    l = strlen(E->field);
    if (E->field[0] == '.' || strchr(E->field, '/')) continue;
    if (l > 2 && E->field[l - 2] == '.' && strchr("rimaz", E->field[l - 1])) continue;
    if (!strcmp(E->field, "FILEFRAM")) continue; /* names INDEX at Standards Version <= 5 */
    {
      uint16_t v = 0xEEEE;
      size_t nr = gd_getdata64(D, E->field, 12, 0, 0, 1, GD_UINT16, &v);
      if (gd_error(D)) printf("G =%s n=-1 v=0\n", E->field);
      else printf("G =%s n=%d v=%x\n", E->field, (int)nr, nr ? v : 0);
    }
  }
  printf("END\n");
}

static void run(const char *dir)
{
  char root[4096];
  DIRFILE *D;
  if (realpath(dir, root) == NULL) { printf("IMPL ERR\nEND\n"); return; }
  D = gd_open(dir, GD_RDONLY);
  if (gd_error(D)) { printf("IMPL ERR\nEND\n"); gd_discard(D); return; }
  show(D, root);
  gd_discard(D);
}

/* API mode: the root fragment is built by API calls, sub-fragments (already on disk) come in
 * through gd_include_affix / gd_include_ns with the parent's current encoding and byte order as
 * flags (what /INCLUDE does) and GD_PEDANTIC (gd_add_spec & co. parse strictly at D->standards);
 * gd_alter_affixes / gd_fragment_namespace then change an inclusion.  The first failing call
 * ends the script with IMPL ERR (the parser would have rejected the equivalent format file). */
static void run_api(const char *script)
{
  FILE *fp = fopen(script, "r");
  char line[8192], root[4096] = "";
  DIRFILE *D = NULL;
  int failed = 0, lineno = 0;
  if (!fp) { printf("IMPL ERR\nN no script\nEND\n"); return; }
  while (!failed && fgets(line, sizeof line, fp)) {
    char *f[6] = {0};
    int nf = 0, r = 0;
    char *q = line;
    size_t l = strlen(line);
    while (l && (line[l - 1] == '\n')) line[--l] = 0;
    lineno++;
    if (!l) continue;
    while (nf < 6 && q) { f[nf++] = q; q = strchr(q, '\t'); if (q) *q++ = 0; }
#define ARG(k) ((f[k] && strcmp(f[k], "-")) ? f[k] : NULL)
    if (!strcmp(f[0], "NEW")) {
      D = gd_open(f[1], GD_RDWR | GD_CREAT | GD_EXCL);
      r = gd_error(D);
      if (!r && realpath(f[1], root) == NULL) r = -999;
    } else if (D == NULL) r = -998;
    else if (!strcmp(f[0], "SPEC")) r = gd_add_spec(D, f[2], atoi(f[1]));
    else if (!strcmp(f[0], "ALIAS")) r = gd_add_alias(D, f[1], f[2], atoi(f[3]));
    else if (!strcmp(f[0], "MALIAS")) r = gd_madd_alias(D, f[1], f[2], f[3]);
    else if (!strcmp(f[0], "HIDE")) r = gd_hide(D, f[1]);
    else if (!strcmp(f[0], "REF")) r = gd_reference(D, f[1]) ? 0 : gd_error(D);
    else if (!strcmp(f[0], "ENC")) r = gd_alter_encoding(D, (unsigned long)atoi(f[1]) << 24, atoi(f[2]), 0);
    else if (!strcmp(f[0], "END")) r = gd_alter_endianness(D, atoi(f[1]) ? GD_BIG_ENDIAN : GD_LITTLE_ENDIAN, atoi(f[2]), 0);
    else if (!strcmp(f[0], "OFF")) r = gd_alter_frameoffset64(D, strtoll(f[1], NULL, 10), atoi(f[2]), 0);
    else if (!strcmp(f[0], "PROT")) r = gd_alter_protection(D, atoi(f[1]), atoi(f[2]));
    else if (!strcmp(f[0], "INC") || !strcmp(f[0], "INCNS")) {
      int par = atoi(f[0][3] ? f[3] : f[4]);
      unsigned long fl = GD_PEDANTIC | D->fragment[par].encoding |
        ((D->fragment[par].byte_sex & GD_BIG_ENDIAN) ? GD_BIG_ENDIAN : GD_LITTLE_ENDIAN);
      if (f[0][3]) r = gd_include_ns(D, f[1], par, ARG(2), fl);
      else r = gd_include_affix(D, f[1], par, ARG(2), ARG(3), fl);
      r = (r < 0) ? r : 0;
    } else if (!strcmp(f[0], "AFFIX")) r = gd_alter_affixes(D, atoi(f[1]), ARG(2), ARG(3));
    else if (!strcmp(f[0], "NS")) r = gd_fragment_namespace(D, atoi(f[1]), f[2]) ? 0 : gd_error(D);
    else r = -997;
    if (r) { printf("IMPL ERR\nN %s failed: %d at %d\nEND\n", f[0], r, lineno); failed = 1; }
  }
  fclose(fp);
  if (!failed && D) show(D, root);
  else if (!failed) printf("IMPL ERR\nN empty script\nEND\n");
  if (D) gd_discard(D);
}

int main(void)
{
  char line[8192];
  while (fgets(line, sizeof line, stdin)) {
    pid_t pid;
    int st;
    size_t l = strlen(line);
    while (l && (line[l - 1] == '\n' || line[l - 1] == '\r')) line[--l] = 0;
    if (!l) continue;
    fflush(stdout);
    pid = fork();
    if (pid == 0) { if (line[0] == '@') run_api(line + 1); else run(line); fflush(stdout); _exit(0); }
    waitpid(pid, &st, 0);
    if (!WIFEXITED(st) || WEXITSTATUS(st) != 0) { printf("IMPL CRASH\nEND\n"); }
    fflush(stdout);
  }
  return 0;
}
