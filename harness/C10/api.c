/* C10/C11 harness: a line-oriented interpreter that drives the public API of
 * the freshly built libgetdata on a fixed fixture dirfile and reports, per
 * call, the return value, gd_error, D->recurse_level (through internal.h) and
 * a hash of the full observable snapshot (metadata through the handle + data
 * reads + recursive directory listing with content hashes).
 *
 *   api --list                       print "name signature" for every op
 *   api <workdir>                    read commands from stdin:
 *     case <id> <RDWR|RDONLY> <p0> <p1> [flags]   build fixture, open
 *     op <name> <args...>            one call:  "R <ret> E <err> L <lvl>"
 *     rep <n> <name> <args...>       n calls, snapshot before/after each failing one
 *     snap | dump | fsnap            snapshot hash / full text / per-file hashes
 *     reopen <RDWR|RDONLY>           discard + gd_open again
 *     close                          gd_close the handle (flushes)
 * Signature letters: s string, i int, l int64, z size_t, u unsigned long,
 * t gd_type_t, f fragment index, d double, x unsigned flags.
 * Strings: "~" = empty, "@L<n>" = n times 'a', %xx escapes.
 * Buffers are sized as documented; a call whose documented buffer would
 * exceed BUFSZ is not made ("SKIP").                                        */
#include "internal.h"
#include <inttypes.h>
#include <complex.h>
#include <dirent.h>
#include <stdarg.h>
#include <ctype.h>
#include <signal.h>
#include <sys/time.h>
#include <sys/stat.h>

#define BUFSZ (1u << 20)
static union { unsigned char b[BUFSZ + 64]; double d[1]; const char *p0; } BUF;
#define BUFP ((const char **)(void *)BUF.b)
static DIRFILE *D;
static char WD[2000], DD[2100];
static int verbose;

/* ------------------------------------------------------------ utilities */
static uint64_t fnv(uint64_t h, const void *p, size_t n)
{
  const unsigned char *c = p; size_t i;
  for (i = 0; i < n; i++) { h ^= c[i]; h *= 1099511628211ull; }
  return h;
}

static void wfile(const char *rel, const void *data, size_t n)
{
  char p[2300]; FILE *f;
  snprintf(p, sizeof p, "%s/%s", DD, rel);
  f = fopen(p, "wb"); if (!f) { perror(p); exit(3); }
  fwrite(data, 1, n, f); fclose(f);
}

static void rmrf(const char *p)
{
  DIR *d = opendir(p); struct dirent *e; char q[2600];
  if (d) {
    while ((e = readdir(d))) {
      if (!strcmp(e->d_name, ".") || !strcmp(e->d_name, "..")) continue;
      snprintf(q, sizeof q, "%s/%s", p, e->d_name);
      rmrf(q);
    }
    closedir(d); rmdir(p);
  } else unlink(p);
}

static const char *PROT[4] = { "none", "format", "data", "all" };

static void fixture(const char *p0, const char *p1, const char *enc1)
{
  char fmt[4000]; int i; unsigned char raw[100]; int16_t r16[50]; float rc[100];
  char txt[1000]; int n = 0;
  rmrf(DD); mkdir(DD, 0777);
  snprintf(fmt, sizeof fmt, "%s/sub", DD); mkdir(fmt, 0777);
  snprintf(fmt, sizeof fmt, "%s/pre", DD); mkdir(fmt, 0777);
  snprintf(fmt, sizeof fmt,
    "/ENCODING none\n/ENDIAN little\n/PROTECT %s\n"
    "raw RAW UINT8 2\nr16 RAW INT16 1\nrc RAW COMPLEX64 1\n"
    "lincom LINCOM 2 raw 1 0 r16 2 1\nlinterp LINTERP raw lut.txt\n"
    "bit BIT raw 1 3\nsbit SBIT r16 2 4\nphase PHASE raw 3\n"
    "mult MULTIPLY raw r16\ndiv DIVIDE raw r16\nrecip RECIP raw 2.5\n"
    "poly POLYNOM raw 1 2 3\nwin WINDOW raw r16 GT 3\nmplex MPLEX raw r16 1 3\n"
    "const CONST FLOAT64 3.5\ncarray CARRAY INT32 1 2 3 4\n"
    "indir INDIR r16 carray\nstring STRING hello\nsarray SARRAY a b c d\n"
    "sindir SINDIR r16 sarray\n/ALIAS al raw\nlcbad LINCOM 1 missing 1 0\n"
    "raw/meta CONST UINT8 7\nraw/mstr STRING x\nraw/mph PHASE raw 1\n"
    "xph PHASE sraw 1\nxlc LINCOM 1 xph 1 0\nxbit BIT xlc 0 8\n"
    /* scalars used as parameters by fields that sort before the entries that block their deletion */
    "kc CONST UINT8 2\nab PHASE raw kc\nac RAW UINT8 kc\n/ALIAS kalias kc\n"
    "kca CARRAY UINT8 1 2 3\nad BIT raw kca<1> 2\nkindir INDIR r16 kca\n"
    "kc/mv PHASE raw 1\nkzz LINCOM 1 kc/mv 1 0\n"
    "nofile RAW UINT8 1\n"      /* a RAW field whose data file does not exist */
    "xsc PHASE raw skc\n"       /* a client, in fragment 0, of a scalar that lives in fragment 1 */
    "/INCLUDE sub/format1\n/INCLUDE pre/format2 P_\n/REFERENCE raw\n", p0);
  wfile("format", fmt, strlen(fmt));
  snprintf(fmt, sizeof fmt,
    "/ENCODING %s\n/PROTECT %s\nsraw RAW UINT8 1\nsph PHASE sraw 1\nsconst CONST UINT8 1\n"
    "scarray CARRAY UINT8 1 2 3\nsstring STRING s\nssarray SARRAY p q\nskc CONST UINT8 3\nsnofile RAW UINT8 1\n", enc1, p1);
  wfile("sub/format1", fmt, strlen(fmt));
  /* fragment 2: included with a prefix, so that field codes there carry an affix */
  snprintf(fmt, sizeof fmt,
    "/ENCODING none\npraw RAW UINT8 1\nplint LINTERP praw ../lut.txt\npph PHASE praw 1\npbit BIT praw 0 4\n"
    "plc LINCOM 1 praw 2 0\nppoly POLYNOM praw 1 2\npconst CONST UINT8 3\npmult MULTIPLY praw praw\n"
    "/INCLUDE deep/format3\n");
  snprintf(fmt + 2000, sizeof fmt - 2000, "%s/pre/deep", DD); mkdir(fmt + 2000, 0777);
  /* fragment 3 is unprotected by its own directive, fragment 4 (two levels below fragment 2) is format-protected */
  wfile("pre/deep/format3", "/PROTECT none\ndconst CONST UINT8 9\n/INCLUDE deeper/format4\n", 59);
  snprintf(fmt + 2000, sizeof fmt - 2000, "%s/pre/deep/deeper", DD); mkdir(fmt + 2000, 0777);
  wfile("pre/deep/deeper/format4", "/PROTECT format\neconst CONST UINT8 8\n", 37);
  /* a fragment that is not included: defines fields, a metafield of raw, a /REFERENCE, then fails to parse */
  wfile("sub/badfrag", "newraw RAW UINT8 1\nraw/submeta CONST UINT8 1\n/REFERENCE newraw\nthis is bad\n", 75);
  wfile("pre/format2", fmt, strlen(fmt));
  for (i = 0; i < 30; i++) raw[i] = (unsigned char)(2 * i);
  wfile("pre/praw", raw, 30);
  for (i = 0; i < 100; i++) raw[i] = (unsigned char)i;
  for (i = 0; i < 50; i++) r16[i] = (int16_t)(i * 3 - 20);
  for (i = 0; i < 100; i++) rc[i] = (float)i / 2;
  wfile("raw", raw, 100); wfile("r16", r16, 100); wfile("rc", rc, 400); wfile("ac", raw, 40);
  wfile("nofile", raw, 10); wfile("sub/snofile", raw, 10);   /* removed again by the `rmfile` command where a missing file is wanted */
  wfile("lut.txt", "0 0\n100 200\n", 12);
  if (!strcmp(enc1, "text")) {
    for (i = 0; i < 20; i++) n += sprintf(txt + n, "%d\n", i + 1);
    wfile("sub/sraw.txt", txt, n);
    wfile("sub/snofile.txt", txt, n);
  } else {
    for (i = 0; i < 20; i++) raw[i] = (unsigned char)(i + 1);
    wfile("sub/sraw", raw, 20);
  }
}

/* ------------------------------------------------------------ snapshot */
static char *SN; static size_t SNlen, SNcap;
static void sn(const char *fmt, ...)
{ /* append one formatted line, whatever its length (field codes can be thousands of characters long) */
  va_list ap, aq; int k;
  va_start(ap, fmt); va_copy(aq, ap);
  k = vsnprintf(NULL, 0, fmt, aq); va_end(aq);
  if (k < 0) { va_end(ap); return; }
  if (SNcap - SNlen < (size_t)k + 1) { SNcap = (SNcap + (size_t)k + 1) * 2 + 65536; SN = realloc(SN, SNcap); }
  vsnprintf(SN + SNlen, SNcap - SNlen, fmt, ap); va_end(ap);
  SNlen += (size_t)k;
}

static void snap_dir(const char *abs, const char *rel, int perfile)
{
  struct dirent **nl; int n, i; char p[2600], r[1200]; struct stat st;
  n = scandir(abs, &nl, NULL, alphasort);
  if (n < 0) { sn("DIRERR %s\n", rel); return; }
  for (i = 0; i < n; i++) {
    if (strcmp(nl[i]->d_name, ".") && strcmp(nl[i]->d_name, "..")) {
      snprintf(p, sizeof p, "%s/%s", abs, nl[i]->d_name);
      snprintf(r, sizeof r, "%s%s%s", rel, *rel ? "/" : "", nl[i]->d_name);
      if (lstat(p, &st) == 0) {
        if (S_ISDIR(st.st_mode)) { sn("F %s dir\n", r); snap_dir(p, r, perfile); }
        else {
          uint64_t h = 14695981039346656037ull; FILE *f = fopen(p, "rb");
          if (f) { size_t k, tot = 0; unsigned char b[4096]; while (tot < (4u << 20) && (k = fread(b, 1, sizeof b, f)) > 0) { h = fnv(h, b, k); tot += k; } fclose(f); }
          sn("F %s %ld %016" PRIx64 " %o\n", r, (long)st.st_size, h, (unsigned)(st.st_mode & 0777));
        }
      }
    }
    free(nl[i]);
  }
  free(nl);
}

static void snap_entry(const char *name)
{
  gd_entry_t E; int i, r;
  memset(&E, 0, sizeof E);
  r = gd_entry(D, name, &E);
  if (r) { sn(" entry-err %d\n", r); return; }
  sn(" type %d frag %d flags %x", E.field_type, E.fragment_index, E.flags & (GD_EN_COMPSCAL | GD_EN_HIDDEN));
  for (i = 0; i < GD_MAX_LINCOM; i++) if (E.in_fields[i]) sn(" in%d=%s", i, E.in_fields[i]);
  for (i = 0; i <= GD_MAX_POLYORD; i++) if (E.scalar[i]) sn(" sc%d=%s<%d>", i, E.scalar[i], E.scalar_ind[i]);
  switch (E.field_type) {
    case GD_RAW_ENTRY: sn(" spf %u dt %x", E.EN(raw,spf), E.EN(raw,data_type)); break;
    case GD_LINCOM_ENTRY: sn(" n %d", E.EN(lincom,n_fields));
      for (i = 0; i < E.EN(lincom,n_fields) && i < GD_MAX_LINCOM; i++)
        sn(" m%a,%a b%a,%a", creal(E.EN(lincom,cm)[i]), cimag(E.EN(lincom,cm)[i]), creal(E.EN(lincom,cb)[i]), cimag(E.EN(lincom,cb)[i]));
      break;
    case GD_BIT_ENTRY: case GD_SBIT_ENTRY: sn(" bit %d %d", E.EN(bit,bitnum), E.EN(bit,numbits)); break;
    case GD_POLYNOM_ENTRY: sn(" ord %d", E.EN(polynom,poly_ord));
      for (i = 0; i <= E.EN(polynom,poly_ord) && i <= GD_MAX_POLYORD; i++) sn(" a%a,%a", creal(E.EN(polynom,ca)[i]), cimag(E.EN(polynom,ca)[i]));
      break;
    case GD_RECIP_ENTRY: sn(" div %a,%a", creal(E.EN(recip,cdividend)), cimag(E.EN(recip,cdividend))); break;
    case GD_LINTERP_ENTRY: sn(" table %s", E.EN(linterp,table) ? E.EN(linterp,table) : "(null)"); break;
    case GD_PHASE_ENTRY: sn(" shift %" PRId64, (int64_t)E.EN(phase,shift)); break;
    case GD_WINDOW_ENTRY: sn(" windop %d thr %" PRIx64, E.EN(window,windop), (uint64_t)E.EN(window,threshold).u); break;
    case GD_MPLEX_ENTRY: sn(" mplex %d %d", E.EN(mplex,count_val), E.EN(mplex,period)); break;
    case GD_CONST_ENTRY: case GD_CARRAY_ENTRY: case GD_SARRAY_ENTRY:
      sn(" ct %x len %zu", E.EN(scalar,const_type), E.EN(scalar,array_len)); break;
    default: break;
  }
  sn("\n");
  gd_free_entry_strings(&E);
}

static void snap_data(const char *name)
{
  gd_entype_t t = gd_entry_type(D, name);
  size_t n, i;
  if (t == GD_NO_ENTRY) { sn(" notype %d\n", gd_error(D)); return; }
  if (t == GD_ALIAS_ENTRY) { const char *tg = gd_alias_target(D, name); sn(" alias-> %s\n", tg ? tg : "(null)"); return; }
  if (t == GD_CONST_ENTRY || t == GD_CARRAY_ENTRY) {
    size_t len = gd_array_len(D, name);
    double *v = malloc((len + 1) * 16);
    int r = gd_get_carray(D, name, GD_COMPLEX128, v);
    sn(" carr r%d len%zu", r, len);
    if (!r) for (i = 0; i < 2 * len && i < 64; i++) sn(" %a", v[i]);
    sn("\n"); free(v); return;
  }
  if (t == GD_STRING_ENTRY || t == GD_SARRAY_ENTRY) {
    size_t len = gd_array_len(D, name);
    const char **v = malloc((len + 1) * sizeof *v);
    int r = gd_get_sarray(D, name, v);
    sn(" sarr r%d len%zu", r, len);
    if (!r) for (i = 0; i < len && i < 32; i++) sn(" [%s]", v[i]);
    sn("\n"); free(v); return;
  }
  if (t == GD_SINDIR_ENTRY) {
    const char *v[8]; memset(v, 0, sizeof v);
    n = gd_getdata64(D, name, 0, 0, 0, 8, GD_STRING, v);
    sn(" sindir n%zu e%d", n, gd_error(D));
    for (i = 0; i < n && i < 8; i++) sn(" [%s]", v[i] ? v[i] : "(null)");
    sn("\n"); return;
  }
  {
    double v[2 * 24];
    unsigned spf = gd_spf(D, name); int e1 = gd_error(D);
    gd_type_t nt = gd_native_type(D, name); int e2 = gd_error(D);
    int64_t eof = gd_eof64(D, name); int e3 = gd_error(D);
    int64_t bof = gd_bof64(D, name); int e4 = gd_error(D);
    sn(" spf %u/%d nt %x/%d eof %" PRId64 "/%d bof %" PRId64 "/%d", spf, e1, nt, e2, eof, e3, bof, e4);
    n = gd_getdata64(D, name, 0, 0, 0, 24, GD_COMPLEX128, v);
    sn(" data n%zu e%d", n, gd_error(D));
    for (i = 0; i < 2 * n && i < 48; i++) sn(" %a", v[i]);
    n = gd_getdata64(D, name, 0, 7, 0, 5, GD_FLOAT64, v);
    sn(" | n%zu e%d", n, gd_error(D));
    for (i = 0; i < n && i < 24; i++) sn(" %a", v[i]);
    sn("\n");
  }
}

static void snap_list(const char *parent)
{
  const char **l = gd_entry_list(D, parent, 0, GD_ENTRIES_HIDDEN);
  unsigned n = gd_nentries(D, parent, 0, GD_ENTRIES_HIDDEN), i;
  char **names;
  sn("LIST %s n=%u e=%d\n", parent ? parent : "/", n, gd_error(D));
  if (!l) return;
  names = malloc((n + 1) * sizeof *names);
  for (i = 0; i < n && l[i]; i++) names[i] = strdup(l[i]);
  n = i;
  for (i = 0; i < n; i++) {
    if (parent) {   /* metafield lists hold bare names */
      char *full = malloc(strlen(parent) + strlen(names[i]) + 2);
      sprintf(full, "%s/%s", parent, names[i]);
      free(names[i]); names[i] = full;
    }
    sn("E %s hidden %d fi %d\n", names[i], gd_hidden(D, names[i]), gd_fragment_index(D, names[i]));
    snap_entry(names[i]);
    snap_data(names[i]);
  }
  if (!parent)
    for (i = 0; i < n; i++)
      if (!strchr(names[i], '/') && gd_entry_type(D, names[i]) != GD_ALIAS_ENTRY && gd_nmfields(D, names[i]) > 0)
        snap_list(names[i]);
  for (i = 0; i < n; i++) free(names[i]);
  free(names);
}

static void snapshot(int fs_only)
{
  int nf, i, lvl;
  SNlen = 0; sn("SNAP\n");
  if (D && !fs_only) {
    const char *ref;
    lvl = D->recurse_level;
    nf = gd_nfragments(D);
    sn("nfrag %d flags %lx std %d\n", nf, gd_flags(D, 0, 0) & ~(unsigned long)GD_HAVE_VERSION, gd_dirfile_standards(D, GD_VERSION_CURRENT));
    for (i = 0; i < nf; i++) {
      char *px = NULL, *sx = NULL; const char *ns;
      const char *fnm = gd_fragmentname(D, i);
      gd_fragment_affixes(D, i, &px, &sx);
      ns = gd_fragment_namespace(D, i, NULL);
      sn("FR %d %s enc %lx end %lx fo %" PRId64 " prot %d parent %d px [%s] sx [%s] ns [%s]\n", i,
          fnm ? fnm + (strlen(fnm) > strlen(DD) ? strlen(DD) : 0) : "(null)", gd_encoding(D, i), gd_endianness(D, i),
          (int64_t)gd_frameoffset64(D, i), gd_protection(D, i), i ? gd_parent_fragment(D, i) : -1,
          px ? px : "", sx ? sx : "", ns ? ns : "");
      free(px); free(sx);
    }
    ref = gd_reference(D, NULL);
    sn("ref %s nframes %" PRId64 "/%d\n", ref ? ref : "(null)", (int64_t)gd_nframes64(D), gd_error(D));
    snap_list(NULL);
    D->recurse_level = lvl;   /* the snapshot itself must not move the counter */
  }
  snap_dir(DD, "", 0);
}

/* ------------------------------------------------------------ arguments */
#define MAXARG 12
static char *A[MAXARG]; static int NA;
static char *dec(const char *t)
{
  char *o; size_t n, i, k = 0;
  if (!strcmp(t, "~")) return strdup("");
  if (!strncmp(t, "@L", 2)) { n = strtoul(t + 2, NULL, 10); o = malloc(n + 1); memset(o, 'a', n); o[n] = 0; return o; }
  n = strlen(t); o = malloc(n + 1);
  for (i = 0; i < n; i++) {
    if (t[i] == '%' && i + 2 < n + 0 && isxdigit((unsigned char)t[i+1]) && isxdigit((unsigned char)t[i+2])) {
      char h[3] = { t[i+1], t[i+2], 0 }; o[k++] = (char)strtol(h, NULL, 16); i += 2;
    } else o[k++] = t[i];
  }
  o[k] = 0; return o;
}
static char *SARG[MAXARG];
static const char *S_(int i) { if (!SARG[i]) SARG[i] = dec(A[i]); return SARG[i]; }
#define S(i) S_(i)
#define L(i) ((int64_t)strtoll(A[i], NULL, 0))
#define Z(i) ((size_t)strtoull(A[i], NULL, 0))
#define U(i) ((unsigned long)strtoull(A[i], NULL, 0))
#define I(i) ((int)strtoll(A[i], NULL, 0))
#define X(i) ((unsigned long)strtoull(A[i], NULL, 0))
#define T(i) ((gd_type_t)strtoll(A[i], NULL, 0))
#define Dd(i) (strtod(A[i], NULL))

struct opdesc { const char *name, *sig; };
static const struct opdesc OPS[] = {
  {"getdata64","sllzzt"}, {"putdata64","sllzzt"}, {"seek64","slli"}, {"tell64","s"},
  {"get_carray_slice","suzt"}, {"put_carray_slice","suzt"}, {"get_carray","st"}, {"put_carray","st"},
  {"get_constant","st"}, {"put_constant","st"},
  {"get_sarray_slice","suz"}, {"put_sarray_slice","suz"}, {"get_sarray","s"}, {"put_sarray","s"},
  {"get_string","sz"}, {"put_string","ss"},
  {"array_len","s"}, {"spf","s"}, {"native_type","s"}, {"entry_type","s"}, {"fragment_index","s"},
  {"hidden","s"}, {"hide","s"}, {"unhide","s"}, {"raw_filename","s"}, {"linterp_tablename","s"},
  {"alias_target","s"}, {"naliases","s"}, {"aliases","s"}, {"entry","s"}, {"validate","s"},
  {"bof64","s"}, {"eof64","s"}, {"framenum_subset64","sdll"}, {"raw_close","s"}, {"sync","s"}, {"flush","s"},
  {"nmfields","s"}, {"nmfields_by_type","si"}, {"nmvectors","s"}, {"mfield_list","s"}, {"mfield_list_by_type","si"},
  {"mvector_list","s"}, {"mconstants","st"}, {"mstrings","s"}, {"mcarrays","st"}, {"msarrays","s"},
  {"nfields_by_type","i"}, {"field_list_by_type","i"}, {"constants","t"}, {"carrays","t"},
  {"nentries","six"}, {"entry_list","six"}, {"match_entries","sfix"},
  {"fragmentname","f"}, {"encoding","f"}, {"endianness","f"}, {"frameoffset64","f"}, {"protection","f"},
  {"parent_fragment","f"}, {"fragment_affixes","f"}, {"fragment_namespace","fs"},
  {"alter_encoding","xfi"}, {"alter_endianness","xfi"}, {"alter_frameoffset64","lfi"}, {"alter_protection","if"},
  {"alter_affixes","fss"}, {"rewrite_fragment","f"}, {"uninclude","fi"}, {"include","sfx"},
  {"include_affix","sfssx"}, {"include_ns","sfsx"},
  {"add_spec","sf"}, {"madd_spec","ss"}, {"alter_spec","si"}, {"malter_spec","ssi"},
  {"add_raw","stuf"}, {"add_bit","ssiif"}, {"add_sbit","ssiif"}, {"add_phase","sslf"}, {"add_const","sttf"},
  {"add_carray","stztf"}, {"add_string","ssf"}, {"add_sarray","szf"}, {"add_alias","ssf"}, {"add_lincom","sisf"},
  {"add_polynom","sisf"}, {"add_mplex","sssiif"}, {"add_window","sssif"}, {"add_linterp","sssf"},
  {"add_multiply","sssf"}, {"add_divide","sssf"}, {"add_recip","ssdf"}, {"add_indir","sssf"}, {"add_sindir","sssf"},
  {"add_entry","siif"},
  {"add_clincom","sisf"}, {"add_cpolynom","sisf"}, {"add_crecip","ssdf"}, {"add_crecip89","ssdf"},
  {"alter_clincom","sis"}, {"alter_cpolynom","sis"}, {"alter_crecip","ssd"}, {"alter_crecip89","ssd"},
  {"madd_entry","ssii"}, {"madd_clincom","ssis"}, {"madd_cpolynom","ssis"}, {"madd_crecip","sssd"}, {"madd_crecip89","sssd"},
  {"madd_divide","ssss"}, {"madd_multiply","ssss"}, {"madd_indir","ssss"}, {"madd_sindir","ssss"}, {"madd_linterp","ssss"},
  {"madd_mplex","ssssii"}, {"madd_recip","sssd"}, {"madd_sbit","sssii"}, {"madd_window","ssssi"},
  {"madd_bit","sssii"}, {"madd_phase","sssl"}, {"madd_const","sstt"}, {"madd_carray","sstzt"}, {"madd_string","sss"},
  {"madd_alias","sss"}, {"madd_lincom","ssis"}, {"madd_polynom","ssis"}, {"madd_sarray","ssz"},
  {"alter_raw","stui"}, {"alter_bit","ssii"}, {"alter_sbit","ssii"}, {"alter_phase","ssl"}, {"alter_const","st"},
  {"alter_carray","stz"}, {"alter_sarray","sz"}, {"alter_lincom","sis"}, {"alter_polynom","sis"},
  {"alter_mplex","sssii"}, {"alter_window","sssi"}, {"alter_linterp","sssi"}, {"alter_multiply","sss"},
  {"alter_divide","sss"}, {"alter_recip","ssd"}, {"alter_indir","sss"}, {"alter_sindir","sss"}, {"alter_entry","siii"},
  {"rename","ssx"}, {"move","sfx"}, {"delete","sx"},
  {"mplex_lookback","i"}, {"open_limit","l"}, {"flags","xx"}, {"verbose_prefix","s"}, {"dirfile_standards","i"},
  {"error_string","z"}, {"desync","x"}, {"metaflush",""}, {"nframes64",""}, {"reference","s"}, {"strtok","s"},
  {"encoding_support","x"}, {"nfragments",""}, {"nfields",""}, {"nvectors",""}, {"field_list",""}, {"vector_list",""},
  {"strings",""}, {"sarrays",""}, {"dirfilename",""}, {"error_count",""},
  {NULL, NULL}
};

static long long RET; static int RSKIP; static char RTXT[64];
static size_t nlist(const char **l) { size_t n = 0; if (l) while (l[n]) n++; return n; }
#define PTR(p) (RET = ((p) != NULL))

static size_t tsize(gd_type_t t) { return GD_SIZE(t); }

static void fill_entry(gd_entry_t *E, const char *name, int type, int k, int frag)
{
  int i;
  memset(E, 0, sizeof *E);
  E->field = (char *)name; E->field_type = (gd_entype_t)type; E->fragment_index = frag;
  for (i = 0; i < GD_MAX_LINCOM; i++) E->in_fields[i] = (char *)"raw";
  switch (type) {
    case GD_RAW_ENTRY: E->EN(raw,spf) = (unsigned)k; E->EN(raw,data_type) = GD_UINT8; break;
    case GD_LINCOM_ENTRY: E->EN(lincom,n_fields) = k; for (i = 0; i < GD_MAX_LINCOM; i++) E->EN(lincom,m)[i] = 1; break;
    case GD_BIT_ENTRY: case GD_SBIT_ENTRY: E->EN(bit,bitnum) = k; E->EN(bit,numbits) = k; break;
    case GD_POLYNOM_ENTRY: E->EN(polynom,poly_ord) = k; break;
    case GD_LINTERP_ENTRY: E->EN(linterp,table) = (char *)"lut.txt"; break;
    case GD_PHASE_ENTRY: E->EN(phase,shift) = k; break;
    case GD_WINDOW_ENTRY: E->EN(window,windop) = (gd_windop_t)k; break;
    case GD_MPLEX_ENTRY: E->EN(mplex,count_val) = k; E->EN(mplex,period) = k; break;
    case GD_CONST_ENTRY: case GD_CARRAY_ENTRY: E->EN(scalar,const_type) = GD_UINT8; E->EN(scalar,array_len) = (size_t)k; break;
    case GD_SARRAY_ENTRY: E->EN(scalar,array_len) = (size_t)k; break;
    default: break;
  }
}

/* returns 0 when the op exists */
static int call(const char *op)
{
  static double ones[GD_MAX_POLYORD + 8];
  static double _Complex cones[GD_MAX_POLYORD + 8];
  const char *inf[GD_MAX_LINCOM + 2];
  int i;
  RSKIP = 0; RET = 0;
  for (i = 0; i < GD_MAX_POLYORD + 8; i++) { ones[i] = 1; cones[i] = 1 + _Complex_I; }
  for (i = 0; i < GD_MAX_LINCOM + 2; i++) inf[i] = "raw";
#define NEED(bytes) do { unsigned long long nb_ = (bytes); if (nb_ > BUFSZ) { RSKIP = 1; return 0; } } while (0)
#define MULOK(n, sz) ((sz) == 0 || (unsigned long long)(n) <= BUFSZ / (sz))
#define OP(n) else if (!strcmp(op, n))
  if (0) ;
  OP("getdata64") {
    /* documented buffer: (num_frames*spf + num_samp) samples of return_type */
    gd_type_t t = T(5); size_t nf = Z(3), ns = Z(4); unsigned spf = 16;
    if (t != GD_NULL && (!MULOK(nf, spf * 16) || !MULOK(ns, 16) || (nf * spf + ns) * 16 > BUFSZ)) { RSKIP = 1; return 0; }
    RET = (long long)gd_getdata64(D, S(0), L(1), L(2), nf, ns, t, BUF.b);
  }
  OP("putdata64") {
    gd_type_t t = T(5); size_t nf = Z(3), ns = Z(4); unsigned spf = 16;
    if (!MULOK(nf, spf * 16) || !MULOK(ns, 16) || (nf * spf + ns) * 16 > BUFSZ) { RSKIP = 1; return 0; }
    memset(BUF.b, 1, (nf * spf + ns) * 16 + 16);
    RET = (long long)gd_putdata64(D, S(0), L(1), L(2), nf, ns, t, BUF.b);
  }
  OP("seek64") RET = (long long)gd_seek64(D, S(0), L(1), L(2), I(3));
  OP("tell64") RET = (long long)gd_tell64(D, S(0));
  OP("get_carray_slice") { if (!MULOK(Z(2), 16)) { RSKIP = 1; return 0; } RET = gd_get_carray_slice(D, S(0), U(1), Z(2), T(3), BUF.b); }
  OP("put_carray_slice") { if (!MULOK(Z(2), 16)) { RSKIP = 1; return 0; } memset(BUF.b, 1, Z(2) * 16 + 16); RET = gd_put_carray_slice(D, S(0), U(1), Z(2), T(3), BUF.b); }
  OP("get_carray") { size_t n = gd_array_len(D, S(0)); NEED((n + 1) * 16); RET = gd_get_carray(D, S(0), T(1), BUF.b); }
  OP("put_carray") { size_t n = gd_array_len(D, S(0)); NEED((n + 1) * 16); memset(BUF.b, 1, (n + 1) * 16); RET = gd_put_carray(D, S(0), T(1), BUF.b); }
  OP("get_constant") RET = gd_get_constant(D, S(0), T(1), BUF.b);
  OP("put_constant") { memset(BUF.b, 1, 16); RET = gd_put_constant(D, S(0), T(1), BUF.b); }
  OP("get_sarray_slice") { if (!MULOK(Z(2), 8)) { RSKIP = 1; return 0; } RET = gd_get_sarray_slice(D, S(0), U(1), Z(2), BUFP); }
  OP("put_sarray_slice") { size_t n = Z(2), k; if (!MULOK(n, 8)) { RSKIP = 1; return 0; } for (k = 0; k < n; k++) BUFP[k] = "w"; RET = gd_put_sarray_slice(D, S(0), U(1), n, BUFP); }
  OP("get_sarray") { size_t n = gd_array_len(D, S(0)); NEED((n + 1) * 8); RET = gd_get_sarray(D, S(0), BUFP); }
  OP("put_sarray") { size_t n = gd_array_len(D, S(0)), k; NEED((n + 1) * 8); for (k = 0; k <= n; k++) BUFP[k] = "w"; RET = gd_put_sarray(D, S(0), BUFP); }
  OP("get_string") { NEED(Z(1)); RET = (long long)gd_get_string(D, S(0), Z(1), (char *)BUF.b); }
  OP("put_string") RET = gd_put_string(D, S(0), S(1));
  OP("array_len") RET = (long long)gd_array_len(D, S(0));
  OP("spf") RET = gd_spf(D, S(0));
  OP("native_type") RET = gd_native_type(D, S(0));
  OP("entry_type") RET = gd_entry_type(D, S(0));
  OP("fragment_index") RET = gd_fragment_index(D, S(0));
  OP("hidden") RET = gd_hidden(D, S(0));
  OP("hide") RET = gd_hide(D, S(0));
  OP("unhide") RET = gd_unhide(D, S(0));
  OP("raw_filename") { char *p = gd_raw_filename(D, S(0)); PTR(p); free(p); }
  OP("linterp_tablename") { char *p = gd_linterp_tablename(D, S(0)); PTR(p); free(p); }
  OP("alias_target") PTR(gd_alias_target(D, S(0)));
  OP("naliases") RET = gd_naliases(D, S(0));
  OP("aliases") RET = (long long)nlist(gd_aliases(D, S(0)));
  OP("entry") { gd_entry_t E; memset(&E, 0, sizeof E); RET = gd_entry(D, S(0), &E); if (!RET) gd_free_entry_strings(&E); }
  OP("validate") RET = gd_validate(D, S(0));
  OP("bof64") RET = (long long)gd_bof64(D, S(0));
  OP("eof64") RET = (long long)gd_eof64(D, S(0));
  OP("framenum_subset64") { double r = gd_framenum_subset64(D, S(0), Dd(1), L(2), L(3)); RET = (r != r) ? -1 : (long long)r; }
  OP("raw_close") RET = gd_raw_close(D, *A[0] == '!' ? NULL : S(0));
  OP("sync") RET = gd_sync(D, *A[0] == '!' ? NULL : S(0));
  OP("flush") RET = gd_flush(D, *A[0] == '!' ? NULL : S(0));
  OP("nmfields") RET = gd_nmfields(D, S(0));
  OP("nmfields_by_type") RET = gd_nmfields_by_type(D, S(0), (gd_entype_t)I(1));
  OP("nmvectors") RET = gd_nmvectors(D, S(0));
  OP("mfield_list") RET = (long long)nlist(gd_mfield_list(D, S(0)));
  OP("mfield_list_by_type") RET = (long long)nlist(gd_mfield_list_by_type(D, S(0), (gd_entype_t)I(1)));
  OP("mvector_list") RET = (long long)nlist(gd_mvector_list(D, S(0)));
  OP("mconstants") PTR(gd_mconstants(D, S(0), T(1)));
  OP("mstrings") RET = (long long)nlist(gd_mstrings(D, S(0)));
  OP("mcarrays") PTR(gd_mcarrays(D, S(0), T(1)));
  OP("msarrays") PTR(gd_msarrays(D, S(0)));
  OP("nfields_by_type") RET = gd_nfields_by_type(D, (gd_entype_t)I(0));
  OP("field_list_by_type") RET = (long long)nlist(gd_field_list_by_type(D, (gd_entype_t)I(0)));
  OP("constants") PTR(gd_constants(D, T(0)));
  OP("carrays") PTR(gd_carrays(D, T(0)));
  OP("nentries") RET = gd_nentries(D, *A[0] == '!' ? NULL : S(0), I(1), (unsigned)X(2));
  OP("entry_list") RET = (long long)nlist(gd_entry_list(D, *A[0] == '!' ? NULL : S(0), I(1), (unsigned)X(2)));
  OP("match_entries") { const char **l = NULL; RET = gd_match_entries(D, *A[0] == '!' ? NULL : S(0), I(1), I(2), (unsigned)X(3), &l); }
  OP("fragmentname") PTR(gd_fragmentname(D, I(0)));
  OP("encoding") RET = (long long)gd_encoding(D, I(0));
  OP("endianness") RET = (long long)gd_endianness(D, I(0));
  OP("frameoffset64") RET = (long long)gd_frameoffset64(D, I(0));
  OP("protection") RET = gd_protection(D, I(0));
  OP("parent_fragment") RET = gd_parent_fragment(D, I(0));
  OP("fragment_affixes") { char *a = NULL, *b = NULL; RET = gd_fragment_affixes(D, I(0), &a, &b); free(a); free(b); }
  OP("fragment_namespace") PTR(gd_fragment_namespace(D, I(0), *A[1] == '!' ? NULL : S(1)));
  OP("alter_encoding") RET = gd_alter_encoding(D, X(0), I(1), I(2));
  OP("alter_endianness") RET = gd_alter_endianness(D, X(0), I(1), I(2));
  OP("alter_frameoffset64") RET = gd_alter_frameoffset64(D, L(0), I(1), I(2));
  OP("alter_protection") RET = gd_alter_protection(D, I(0), I(1));
  OP("alter_affixes") RET = gd_alter_affixes(D, I(0), *A[1] == '!' ? NULL : S(1), *A[2] == '!' ? NULL : S(2));
  OP("rewrite_fragment") RET = gd_rewrite_fragment(D, I(0));
  OP("uninclude") RET = gd_uninclude(D, I(0), I(1));
  OP("include") RET = gd_include(D, S(0), I(1), X(2));
  OP("include_affix") RET = gd_include_affix(D, S(0), I(1), *A[2] == '!' ? NULL : S(2), *A[3] == '!' ? NULL : S(3), X(4));
  OP("include_ns") RET = gd_include_ns(D, S(0), I(1), *A[2] == '!' ? NULL : S(2), X(3));
  OP("add_spec") RET = gd_add_spec(D, S(0), I(1));
  OP("madd_spec") RET = gd_madd_spec(D, S(0), S(1));
  OP("alter_spec") RET = gd_alter_spec(D, S(0), I(1));
  OP("malter_spec") RET = gd_malter_spec(D, S(0), S(1), I(2));
  OP("add_raw") RET = gd_add_raw(D, S(0), T(1), (unsigned)U(2), I(3));
  OP("add_bit") RET = gd_add_bit(D, S(0), S(1), I(2), I(3), I(4));
  OP("add_sbit") RET = gd_add_sbit(D, S(0), S(1), I(2), I(3), I(4));
  OP("add_phase") RET = gd_add_phase(D, S(0), S(1), L(2), I(3));
  OP("add_const") { memset(BUF.b, 1, 16); RET = gd_add_const(D, S(0), T(1), T(2), BUF.b, I(3)); }
  OP("add_carray") { if (!MULOK(Z(2), 16)) { RSKIP = 1; return 0; } memset(BUF.b, 1, Z(2) * 16 + 16); RET = gd_add_carray(D, S(0), T(1), Z(2), T(3), BUF.b, I(4)); }
  OP("add_string") RET = gd_add_string(D, S(0), S(1), I(2));
  OP("add_sarray") { size_t n = Z(1), k; if (!MULOK(n, 8)) { RSKIP = 1; return 0; } for (k = 0; k < n; k++) BUFP[k] = "v"; RET = gd_add_sarray(D, S(0), n, BUFP, I(2)); }
  OP("add_alias") RET = gd_add_alias(D, S(0), S(1), I(2));
  OP("add_lincom") { int n = I(1); if (n > GD_MAX_LINCOM + 2) { RSKIP = 1; return 0; } for (i = 0; i < GD_MAX_LINCOM + 2; i++) inf[i] = S(2); RET = gd_add_lincom(D, S(0), n, inf, ones, ones, I(3)); }
  OP("add_polynom") { int n = I(1); if (n > GD_MAX_POLYORD + 6) { RSKIP = 1; return 0; } RET = gd_add_polynom(D, S(0), n, S(2), ones, I(3)); }
  OP("add_mplex") RET = gd_add_mplex(D, S(0), S(1), S(2), I(3), I(4), I(5));
  OP("add_window") { gd_triplet_t th; th.u = 3; RET = gd_add_window(D, S(0), S(1), S(2), (gd_windop_t)I(3), th, I(4)); }
  OP("add_linterp") RET = gd_add_linterp(D, S(0), S(1), S(2), I(3));
  OP("add_multiply") RET = gd_add_multiply(D, S(0), S(1), S(2), I(3));
  OP("add_divide") RET = gd_add_divide(D, S(0), S(1), S(2), I(3));
  OP("add_recip") RET = gd_add_recip(D, S(0), S(1), Dd(2), I(3));
  OP("add_indir") RET = gd_add_indir(D, S(0), S(1), S(2), I(3));
  OP("add_sindir") RET = gd_add_sindir(D, S(0), S(1), S(2), I(3));
  OP("add_clincom") { int n = I(1); if (n > GD_MAX_LINCOM + 2) { RSKIP = 1; return 0; } for (i = 0; i < GD_MAX_LINCOM + 2; i++) inf[i] = S(2); RET = gd_add_clincom(D, S(0), n, inf, cones, cones, I(3)); }
  OP("add_cpolynom") { int n = I(1); if (n > GD_MAX_POLYORD + 6) { RSKIP = 1; return 0; } RET = gd_add_cpolynom(D, S(0), n, S(2), cones, I(3)); }
  OP("add_crecip") RET = gd_add_crecip(D, S(0), S(1), Dd(2) + _Complex_I, I(3));
  OP("add_crecip89") { double cd[2]; cd[0] = Dd(2); cd[1] = 1; RET = gd_add_crecip89(D, S(0), S(1), cd, I(3)); }
  OP("alter_clincom") { int n = I(1); if (n > GD_MAX_LINCOM + 2) { RSKIP = 1; return 0; } for (i = 0; i < GD_MAX_LINCOM + 2; i++) inf[i] = S(2); RET = gd_alter_clincom(D, S(0), n, inf, cones, cones); }
  OP("alter_cpolynom") { int n = I(1); if (n > GD_MAX_POLYORD + 6) { RSKIP = 1; return 0; } RET = gd_alter_cpolynom(D, S(0), n, *A[2] == '!' ? NULL : S(2), cones); }
  OP("alter_crecip") RET = gd_alter_crecip(D, S(0), *A[1] == '!' ? NULL : S(1), Dd(2) + _Complex_I);
  OP("alter_crecip89") { double cd[2]; cd[0] = Dd(2); cd[1] = 1; RET = gd_alter_crecip89(D, S(0), *A[1] == '!' ? NULL : S(1), cd); }
  OP("madd_entry") { gd_entry_t E; fill_entry(&E, S(1), I(2), I(3), 0); RET = gd_madd(D, &E, S(0)); }
  OP("madd_clincom") { int n = I(2); if (n > GD_MAX_LINCOM + 2) { RSKIP = 1; return 0; } for (i = 0; i < GD_MAX_LINCOM + 2; i++) inf[i] = S(3); RET = gd_madd_clincom(D, S(0), S(1), n, inf, cones, cones); }
  OP("madd_cpolynom") { int n = I(2); if (n > GD_MAX_POLYORD + 6) { RSKIP = 1; return 0; } RET = gd_madd_cpolynom(D, S(0), S(1), n, S(3), cones); }
  OP("madd_crecip") RET = gd_madd_crecip(D, S(0), S(1), S(2), Dd(3) + _Complex_I);
  OP("madd_crecip89") { double cd[2]; cd[0] = Dd(3); cd[1] = 1; RET = gd_madd_crecip89(D, S(0), S(1), S(2), cd); }
  OP("madd_divide") RET = gd_madd_divide(D, S(0), S(1), S(2), S(3));
  OP("madd_multiply") RET = gd_madd_multiply(D, S(0), S(1), S(2), S(3));
  OP("madd_indir") RET = gd_madd_indir(D, S(0), S(1), S(2), S(3));
  OP("madd_sindir") RET = gd_madd_sindir(D, S(0), S(1), S(2), S(3));
  OP("madd_linterp") RET = gd_madd_linterp(D, S(0), S(1), S(2), S(3));
  OP("madd_mplex") RET = gd_madd_mplex(D, S(0), S(1), S(2), S(3), I(4), I(5));
  OP("madd_recip") RET = gd_madd_recip(D, S(0), S(1), S(2), Dd(3));
  OP("madd_sbit") RET = gd_madd_sbit(D, S(0), S(1), S(2), I(3), I(4));
  OP("madd_window") { gd_triplet_t th; th.u = 3; RET = gd_madd_window(D, S(0), S(1), S(2), S(3), (gd_windop_t)I(4), th); }
  OP("add_entry") { gd_entry_t E; fill_entry(&E, S(0), I(1), I(2), I(3)); RET = gd_add(D, &E); }
  OP("madd_bit") RET = gd_madd_bit(D, S(0), S(1), S(2), I(3), I(4));
  OP("madd_phase") RET = gd_madd_phase(D, S(0), S(1), S(2), L(3));
  OP("madd_const") { memset(BUF.b, 1, 16); RET = gd_madd_const(D, S(0), S(1), T(2), T(3), BUF.b); }
  OP("madd_carray") { if (!MULOK(Z(3), 16)) { RSKIP = 1; return 0; } memset(BUF.b, 1, Z(3) * 16 + 16); RET = gd_madd_carray(D, S(0), S(1), T(2), Z(3), T(4), BUF.b); }
  OP("madd_string") RET = gd_madd_string(D, S(0), S(1), S(2));
  OP("madd_alias") RET = gd_madd_alias(D, S(0), S(1), S(2));
  OP("madd_lincom") { int n = I(2); if (n > GD_MAX_LINCOM + 2) { RSKIP = 1; return 0; } for (i = 0; i < GD_MAX_LINCOM + 2; i++) inf[i] = S(3); RET = gd_madd_lincom(D, S(0), S(1), n, inf, ones, ones); }
  OP("madd_polynom") { int n = I(2); if (n > GD_MAX_POLYORD + 6) { RSKIP = 1; return 0; } RET = gd_madd_polynom(D, S(0), S(1), n, S(3), ones); }
  OP("madd_sarray") { size_t n = Z(2), k; if (!MULOK(n, 8)) { RSKIP = 1; return 0; } for (k = 0; k < n; k++) BUFP[k] = "v"; RET = gd_madd_sarray(D, S(0), S(1), n, BUFP); }
  OP("alter_raw") RET = gd_alter_raw(D, S(0), T(1), (unsigned)U(2), I(3));
  OP("alter_bit") RET = gd_alter_bit(D, S(0), *A[1] == '!' ? NULL : S(1), I(2), I(3));
  OP("alter_sbit") RET = gd_alter_sbit(D, S(0), *A[1] == '!' ? NULL : S(1), I(2), I(3));
  OP("alter_phase") RET = gd_alter_phase(D, S(0), *A[1] == '!' ? NULL : S(1), L(2));
  OP("alter_const") RET = gd_alter_const(D, S(0), T(1));
  OP("alter_carray") RET = gd_alter_carray(D, S(0), T(1), Z(2));
  OP("alter_sarray") RET = gd_alter_sarray(D, S(0), Z(1));
  OP("alter_lincom") { int n = I(1); if (n > GD_MAX_LINCOM + 2) { RSKIP = 1; return 0; } for (i = 0; i < GD_MAX_LINCOM + 2; i++) inf[i] = S(2); RET = gd_alter_lincom(D, S(0), n, inf, ones, ones); }
  OP("alter_polynom") { int n = I(1); if (n > GD_MAX_POLYORD + 6) { RSKIP = 1; return 0; } RET = gd_alter_polynom(D, S(0), n, *A[2] == '!' ? NULL : S(2), ones); }
  OP("alter_mplex") RET = gd_alter_mplex(D, S(0), *A[1] == '!' ? NULL : S(1), *A[2] == '!' ? NULL : S(2), I(3), I(4));
  OP("alter_window") { gd_triplet_t th; th.u = 5; RET = gd_alter_window(D, S(0), *A[1] == '!' ? NULL : S(1), *A[2] == '!' ? NULL : S(2), (gd_windop_t)I(3), th); }
  OP("alter_linterp") RET = gd_alter_linterp(D, S(0), *A[1] == '!' ? NULL : S(1), *A[2] == '!' ? NULL : S(2), I(3));
  OP("alter_multiply") RET = gd_alter_multiply(D, S(0), *A[1] == '!' ? NULL : S(1), *A[2] == '!' ? NULL : S(2));
  OP("alter_divide") RET = gd_alter_divide(D, S(0), *A[1] == '!' ? NULL : S(1), *A[2] == '!' ? NULL : S(2));
  OP("alter_recip") RET = gd_alter_recip(D, S(0), *A[1] == '!' ? NULL : S(1), Dd(2));
  OP("alter_indir") RET = gd_alter_indir(D, S(0), *A[1] == '!' ? NULL : S(1), *A[2] == '!' ? NULL : S(2));
  OP("alter_sindir") RET = gd_alter_sindir(D, S(0), *A[1] == '!' ? NULL : S(1), *A[2] == '!' ? NULL : S(2));
  OP("alter_entry_sc") { gd_entry_t E; fill_entry(&E, S(0), I(1), 0, 0); E.scalar[0] = (char *)S(2); E.scalar_ind[0] = -1; RET = gd_alter_entry(D, S(0), &E, I(3)); }
  OP("alter_entry") { gd_entry_t E; fill_entry(&E, S(0), I(1), I(2), 0); RET = gd_alter_entry(D, S(0), &E, I(3)); }
  OP("rename") RET = gd_rename(D, S(0), S(1), (unsigned)X(2));
  OP("move") RET = gd_move(D, S(0), I(1), (unsigned)X(2));
  OP("delete") RET = gd_delete(D, S(0), (unsigned)X(1));
  OP("mplex_lookback") { gd_mplex_lookback(D, I(0)); RET = 0; }
  OP("open_limit") RET = gd_open_limit(D, (long)L(0));
  OP("flags") RET = (long long)gd_flags(D, X(0), X(1));
  OP("verbose_prefix") RET = gd_verbose_prefix(D, *A[0] == '!' ? NULL : S(0));
  OP("dirfile_standards") RET = gd_dirfile_standards(D, I(0));
  OP("error_string") { size_t n = Z(0); NEED(n); PTR(gd_error_string(D, (char *)BUF.b, n)); }
  OP("desync") RET = gd_desync(D, (unsigned)X(0));
  OP("metaflush") RET = gd_metaflush(D);
  OP("nframes64") RET = (long long)gd_nframes64(D);
  OP("reference") PTR(gd_reference(D, *A[0] == '!' ? NULL : S(0)));
  OP("strtok") { char *p = gd_strtok(D, *A[0] == '!' ? NULL : S(0)); PTR(p); free(p); }
  OP("encoding_support") RET = gd_encoding_support(X(0));
  OP("nfragments") RET = gd_nfragments(D);
  OP("nfields") RET = gd_nfields(D);
  OP("nvectors") RET = gd_nvectors(D);
  OP("field_list") RET = (long long)nlist(gd_field_list(D));
  OP("vector_list") RET = (long long)nlist(gd_vector_list(D));
  OP("strings") RET = (long long)nlist(gd_strings(D));
  OP("sarrays") PTR(gd_sarrays(D));
  OP("dirfilename") PTR(gd_dirfilename(D));
  OP("error_count") RET = gd_error_count(D);
  else return 1;
  return 0;
}

static int parse_args(char *rest)
{
  int i; char *t;
  for (i = 0; i < MAXARG; i++) { free(SARG[i]); SARG[i] = NULL; A[i] = (char *)"0"; }
  NA = 0;
  for (t = strtok(rest, " \t\n"); t && NA < MAXARG; t = strtok(NULL, " \t\n")) A[NA++] = t;
  return NA;
}

static const char *cur = "";
static void on_alarm(int s)
{ /* async-signal-safe only */
  (void)s; if (write(1, "\nHANG ", 6) < 0 || write(1, cur, strlen(cur)) < 0 || write(1, "\n", 1) < 0) _exit(6);
  _exit(5);
}

static void do_open(const char *mode)
{
  D = gd_open(DD, !strcmp(mode, "RDONLY") ? GD_RDONLY : GD_RDWR);
}

int main(int argc, char **argv)
{
  char line[70000], name[64];
  if (argc > 1 && !strcmp(argv[1], "--list")) {
    int i; for (i = 0; OPS[i].name; i++) printf("%s %s\n", OPS[i].name, OPS[i].sig);
    return 0;
  }
  if (argc < 2) return 2;
  snprintf(WD, sizeof WD, "%s", argv[1]);
  mkdir(WD, 0777);
  snprintf(DD, sizeof DD, "%s/d", WD);
  signal(SIGALRM, on_alarm); signal(SIGPROF, on_alarm);
  setvbuf(stdout, NULL, _IOLBF, 0);
  while (fgets(line, sizeof line, stdin)) {
    char *cmd = strtok(line, " \t\n"), *rest;
    if (!cmd) continue;
    rest = strtok(NULL, "\n");
    if (!strcmp(cmd, "case")) {
      char id[64] = "", mode[16] = "RDWR", p0[16] = "none", p1[16] = "none", enc1[16] = "none"; int v = 0;
      if (rest) sscanf(rest, "%63s %15s %15s %15s %15s %d", id, mode, p0, p1, enc1, &v);
      verbose = v;
      if (D) { gd_discard(D); D = NULL; }
      fixture(p0, p1, enc1);
      do_open(mode);
      printf("CASE %s open_err %d\n", id, gd_error(D));
      continue;
    }
    if (!strcmp(cmd, "wfile")) { /* wfile <rel> <escaped content>: scaffolding, writes a file into the dirfile */
      char *rel = rest ? strtok(rest, " \t") : NULL, *c = rel ? strtok(NULL, "\n") : NULL;
      if (rel) { char *t = dec(c ? c : "~"); wfile(rel, t, strlen(t)); free(t); printf("WFILE %s\n", rel); }
      continue;
    }
    if (!strcmp(cmd, "mkdir")) { char p[2600]; snprintf(p, sizeof p, "%s/%s", DD, rest ? rest : ""); printf("MKDIR %d\n", mkdir(p, 0777)); continue; }
    if (!strcmp(cmd, "rmfile")) { char p[2600]; snprintf(p, sizeof p, "%s/%s", DD, rest ? rest : ""); printf("RMFILE %d\n", unlink(p)); continue; }
    if (!strcmp(cmd, "reopen")) { if (D) gd_discard(D); do_open(rest ? rest : "RDWR"); printf("REOPEN %d\n", gd_error(D)); continue; }
    if (!strcmp(cmd, "close")) { int r = D ? gd_close(D) : -1; if (r == 0) D = NULL; printf("CLOSE %d\n", r); continue; }
    if (!strcmp(cmd, "snap") || !strcmp(cmd, "dump") || !strcmp(cmd, "fsnap") || !strcmp(cmd, "fdump")) {
      snapshot(cmd[0] == 'f');
      if (!strcmp(cmd, "dump") || !strcmp(cmd, "fdump")) { fwrite(SN, 1, SNlen, stdout); printf("ENDDUMP\n"); }
      else printf("H %016" PRIx64 "\n", fnv(14695981039346656037ull, SN, SNlen));
      continue;
    }
    if (!strcmp(cmd, "op") || !strcmp(cmd, "rep")) {
      int n = 1, k, nfail = 0, dirty = 0, lvlmax = 0, probe_bad = 0, err0 = 0, errl = 0, internal = 0; long long ret0 = 0;
      char *opn; uint64_t hb = 0, ha;
      char *args;
      if (!rest) continue;
      if (!strcmp(cmd, "rep")) { char *q = strtok(rest, " \t"); n = atoi(q ? q : "1"); rest = strtok(NULL, "\n"); if (!rest) continue; }
      opn = strtok(rest, " \t\n"); args = strtok(NULL, "\n");
      snprintf(name, sizeof name, "%s", opn ? opn : "");
      { static char keep[70000]; snprintf(keep, sizeof keep, "%s", args ? args : ""); parse_args(keep); }
      cur = name;
      printf("BEGIN %s\n", name);
      if (!D) { printf("NOHANDLE\n"); continue; }
      for (k = 0; k < n; k++) {
        int e, lvl;
        if (n > 1) { snapshot(0); hb = fnv(14695981039346656037ull, SN, SNlen);
          if (verbose && k == 0) { printf("BEFORE\n"); fwrite(SN, 1, SNlen, stdout); printf("ENDDUMP\n"); } }
        { struct itimerval it_; memset(&it_, 0, sizeof it_); it_.it_value.tv_sec = 30; setitimer(ITIMER_PROF, &it_, NULL); }
        if (call(name)) { printf("UNKNOWN-OP %s\n", name); { struct itimerval it_; memset(&it_, 0, sizeof it_); setitimer(ITIMER_PROF, &it_, NULL); } break; }
        { struct itimerval it_; memset(&it_, 0, sizeof it_); setitimer(ITIMER_PROF, &it_, NULL); }
        if (RSKIP) { printf("SKIP\n"); break; }
        e = gd_error(D); lvl = D->recurse_level;
        if (k == 0) { ret0 = RET; err0 = e; if (n > 1) printf("FIRST R %lld E %d\n", RET, e); }
        errl = e;
        if (e == GD_E_INTERNAL_ERROR) internal++;
        if (lvl > lvlmax) lvlmax = lvl;
        if (n == 1) { printf("R %lld E %d L %d\n", RET, e, lvl); break; }
        if (e) {
          nfail++;
          snapshot(0); ha = fnv(14695981039346656037ull, SN, SNlen);
          if (ha != hb) { dirty++; if (verbose && dirty == 1) { printf("AFTER\n"); fwrite(SN, 1, SNlen, stdout); printf("ENDDUMP\n"); } }
        }
        if (k % 8 == 7 || k == n - 1) {
          /* interleaved valid call: must keep working */
          unsigned char b[8]; size_t r = gd_getdata64(D, "raw", 0, 2, 0, 2, GD_UINT8, b);
          if (r != 2 || gd_error(D) || b[0] != 2 || b[1] != 3) probe_bad++;
        }
      }
      if (n > 1 && !RSKIP) {
        int fl = 0;
        if (nfail == n && D) {
          /* every call failed: nothing may be pending, so a metadata flush must not touch the directory */
          uint64_t h1, h2; int lv = D->recurse_level;
          snapshot(1); h1 = fnv(14695981039346656037ull, SN, SNlen);
          gd_metaflush(D);
          snapshot(1); h2 = fnv(14695981039346656037ull, SN, SNlen);
          fl = (h1 != h2); D->recurse_level = lv;
        }
        printf("REP R %lld E %d EL %d NF %d DIRTY %d LMAX %d LEND %d PROBE %d INT %d FL %d\n", ret0, err0, errl, nfail, dirty, lvlmax,
            D->recurse_level, probe_bad, internal, fl);
      }
      continue;
    }
    printf("UNKNOWN-CMD %s\n", cmd);
  }
  if (D) gd_discard(D);
  return 0;
}
