/* C19 harness: gd_framenum_subset64 on generated dirfiles, every call under a
 * CPU-time alarm (a call that does not return is reported as HANG, the handle
 * is abandoned and the dirfile reopened).
 *
 * argv[1] = scratch directory (created; emptied by every N command)
 * stdin commands, one per line:
 *   N                         new dirfile (empty the directory, forget format)
 *   F <text>                  append a line to the format file
 *   R <file> <type> <n> <hex>*n   write a binary file of n elements
 *                             (type: i8 u8 i16 u16 i32 u32 i64 u64 f32 f64; hex = element bits)
 *   T <file> <text>           write a text file ('|' stands for newline), e.g. a LINTERP table
 *   O                         write the format file and gd_open() read-only
 *   G <field>                 print "g <spf> <frame_offset> <nframes> <base> <n> <f64 bits>*n"
 *                             = gd_getdata(field, first_sample = base, ..., GD_FLOAT64) to the end, where base is
 *                             the first sample (from 0, i.e. including the padding below the frame offset) that can be read
 *                             (element j is sample base + j)
 *   Q <field> <value f64 bits hex> <field_start> <field_end>
 *                             print one of: "ok <bits>"  "nonfinite <bits>"  "err <NAME|code>"  "HANG"
 *   S <field> <value bits> <fs> <fe>   same through gd_framenum_subset (off_t entry point)
 *   M <field> <value bits>    same through gd_framenum (defaults)
 */
#define _GNU_SOURCE
#include "internal.h"
#include <inttypes.h>
#include <setjmp.h>
#include <signal.h>
#include <sys/time.h>
#include <sys/resource.h>
#include <dirent.h>

static char dir[4096];
static char fmt[1 << 16];
static DIRFILE *D;
static sigjmp_buf jb;
static double hang_cpu_s = 0.5;

static void on_alarm(int s) { (void)s; siglongjmp(jb, 1); }

static void arm(double sec)
{
  struct itimerval it;
  memset(&it, 0, sizeof it);
  it.it_value.tv_sec = (long)sec;
  it.it_value.tv_usec = (long)((sec - (long)sec) * 1e6);
  setitimer(ITIMER_PROF, &it, NULL);
}

static void empty_dir(void)
{
  DIR *d = opendir(dir);
  struct dirent *e;
  char p[8192];
  if (!d) { mkdir(dir, 0700); return; }
  while ((e = readdir(d))) {
    if (!strcmp(e->d_name, ".") || !strcmp(e->d_name, "..")) continue;
    snprintf(p, sizeof p, "%s/%s", dir, e->d_name);
    unlink(p);
  }
  closedir(d);
}

static int esize(const char *t)
{
  if (!strcmp(t, "i8") || !strcmp(t, "u8")) return 1;
  if (!strcmp(t, "i16") || !strcmp(t, "u16")) return 2;
  if (!strcmp(t, "i32") || !strcmp(t, "u32") || !strcmp(t, "f32")) return 4;
  return 8;
}

static void reopen(void)
{
  D = gd_open(dir, GD_RDONLY);
}

static void report(double r)
{
  int e = gd_error(D);
  uint64_t b;
  memcpy(&b, &r, 8);
  if (e) {
    const char *nm = e == GD_E_DOMAIN ? "DOMAIN" : e == GD_E_RANGE ? "RANGE" :
      e == GD_E_DIMENSION ? "DIMENSION" : e == GD_E_BAD_CODE ? "BAD_CODE" : NULL;
    if (nm) printf("err %s%s\n", nm, r == r ? " notnan" : "");
    else printf("err %d%s\n", e, r == r ? " notnan" : "");
  } else if (r != r || r - r != 0) {
    printf("nonfinite %s\n", r != r ? "nan" : r > 0 ? "+inf" : "-inf");
  } else
    printf("ok %" PRIx64 "\n", b);
}

int main(int argc, char **argv)
{
  static char line[1 << 22];
  struct sigaction sa;
  struct rlimit rl;
  if (argc < 2) return 2;
  snprintf(dir, sizeof dir, "%s", argv[1]);
  if (argc > 2) hang_cpu_s = atof(argv[2]);
  mkdir(dir, 0700);
  if (getrlimit(RLIMIT_NOFILE, &rl) == 0) { rl.rlim_cur = rl.rlim_max; setrlimit(RLIMIT_NOFILE, &rl); }
  memset(&sa, 0, sizeof sa);
  sa.sa_handler = on_alarm;
  sigaction(SIGPROF, &sa, NULL);

  while (fgets(line, sizeof line, stdin)) {
    size_t L = strlen(line);
    while (L && (line[L - 1] == '\n' || line[L - 1] == '\r')) line[--L] = 0;
    if (line[0] == 'N') {
      if (D) { gd_discard(D); D = NULL; }
      empty_dir();
      fmt[0] = 0;
    } else if (line[0] == 'F' && line[1] == ' ') {
      strncat(fmt, line + 2, sizeof fmt - strlen(fmt) - 2);
      strcat(fmt, "\n");
    } else if (line[0] == 'R') {
      char name[256], type[16], path[8192];
      long n, i; int off = 0, k, es;
      FILE *f;
      char *p;
      if (sscanf(line + 1, " %255s %15s %ld%n", name, type, &n, &off) < 3) { printf("badcmd\n"); continue; }
      es = esize(type);
      snprintf(path, sizeof path, "%s/%s", dir, name);
      f = fopen(path, "wb");
      p = line + 1 + off;
      for (i = 0; i < n; i++) {
        uint64_t b = strtoull(p, &p, 16);
        fwrite(&b, 1, es, f);           /* little-endian host */
      }
      fclose(f);
      (void)k;
    } else if (line[0] == 'T' && line[1] == ' ') {
      /* T <file> <text, '|' = newline>: a text file (LINTERP table) */
      char name[256], path[8192]; int off = 0; FILE *f; char *q;
      if (sscanf(line + 1, " %255s%n", name, &off) < 1) { printf("badcmd\n"); continue; }
      snprintf(path, sizeof path, "%s/%s", dir, name);
      f = fopen(path, "w");
      for (q = line + 1 + off; *q; q++) fputc(*q == '|' ? '\n' : *q, f);
      fputc('\n', f);
      fclose(f);
    } else if (line[0] == 'O') {
      char path[8192];
      FILE *f;
      snprintf(path, sizeof path, "%s/format", dir);
      f = fopen(path, "w"); fputs(fmt, f); fclose(f);
      reopen();
      if (gd_error(D)) printf("openerr %d\n", gd_error(D));
    } else if (line[0] == 'G') {
      char name[256];
      static double buf[1 << 20];
      size_t n, i;
      unsigned spf;
      off64_t nf, fo;
      int fi;
      sscanf(line + 1, " %255s", name);
      spf = gd_spf(D, name);
      nf = gd_nframes64(D);
      fi = gd_fragment_index(D, name);
      fo = gd_frameoffset64(D, fi);
      {
        /* a PHASE with a negative shift has no data at its very first samples */
        int k;
        /* from sample 0: below the frame offset the library pads (0 for integer types, NaN for floating point ones) */
        off64_t base = 0;
        (void)fo;
        for (k = 0; k < 16 + (int)(fo * spf); k++) {
          n = gd_getdata64(D, name, 0, base + k, 0, (size_t)(1 << 20), GD_FLOAT64, buf);
          if (gd_error(D) || n > 0) break;
        }
        if (n > 0) base += k;
        if (gd_error(D)) { printf("gerr %d\n", gd_error(D)); continue; }
        printf("g %u %" PRId64 " %" PRId64 " %" PRId64 " %zu", spf, (int64_t)fo, (int64_t)nf, (int64_t)base, n);
      }
      for (i = 0; i < n; i++) { uint64_t b; memcpy(&b, &buf[i], 8); printf(" %" PRIx64, b); }
      printf("\n");
    } else if (line[0] == 'Q' || line[0] == 'S' || line[0] == 'M') {
      char name[256];
      uint64_t vb; long long fs = 0, fe = 0;
      double value, r;
      sscanf(line + 1, " %255s %" SCNx64 " %lld %lld", name, &vb, &fs, &fe);
      memcpy(&value, &vb, 8);
      if (sigsetjmp(jb, 1) == 0) {
        arm(hang_cpu_s);
        if (line[0] == 'Q') r = gd_framenum_subset64(D, name, value, (off64_t)fs, (off64_t)fe);
        else if (line[0] == 'S') r = gd_framenum_subset(D, name, value, (off_t)fs, (off_t)fe);
        else r = gd_framenum(D, name, value);
        arm(0);
        report(r);
      } else {
        arm(0);
        printf("HANG\n");
        /* the handle was interrupted inside the library: abandon it */
        reopen();
      }
    }
    fflush(stdout);
  }
  return 0;
}
