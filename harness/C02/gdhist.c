/* gdhist: call-history interpreter over the public GetData API (C02, C17).
 *
 * usage: gdhist [-O] <dirfile>        ops on stdin, one per line; one output line per op
 *
 *   o <0|1>                         gd_open (0 = GD_RDONLY, 1 = GD_RDWR)      -> "o <err>"
 *   x                               gd_discard + reopen with the same flags   -> "x <err>"
 *   X                               gd_close + reopen with the same flags     -> "X <err>"
 *   g <field> <start|H> <n> <type>  gd_getdata64(field, 0, start, 0, n, type) -> "g <n> <err> v.."
 *   p <field> <start|H> <n> <type> v1..vn   gd_putdata64                      -> "p <n> <err>"
 *   s <field> <off> <S|C|E> <0|1>   gd_seek64(field, 0, off, whence [|WRITE]) -> "s <ret> <err>"
 *   t <field>                       gd_tell64                                 -> "t <ret> <err>"
 *   e <field> / b <field>           gd_eof64 / gd_bof64                       -> "e <ret> <err>"
 *   c|f|y <field|*>                 gd_raw_close / gd_flush / gd_sync         -> "c <ret> <err>"
 *   n                               gd_nframes64                              -> "n <ret> <err>"
 *   l <n>                           gd_open_limit                             -> "l <ret>"
 *   k <n>                           gd_mplex_lookback                         -> "k"
 *   r                               D->recurse_level (internal.h peek)        -> "r <level>"
 *   a <P|L|B|M|X> <field> <args>    gd_alter_phase/lincom(1 input)/bit/multiply/mplex  -> "a <ret> <err>"
 *   a F <frameoffset> <recode> | a E <b|l> <recode> | a N <encoding> <recode>   gd_alter_frameoffset/endianness/encoding, all fragments
 *   a R <field> <type> <recode> | a V <field> <new name> | a O <field> <fragment>   gd_alter_raw(type) / gd_rename(DATA|UPDB) / gd_move(DATA)
 *   C <const> <int>                 gd_put_constant(GD_INT64)                 -> "C <ret> <err>"
 *
 * With -O every output line is followed by " | <name>=<0|1> ..." giving, for every
 * RAW entry, whether file[0] is open after the call (internal.h peek), so that the
 * checker can feed the LRU auto-close decisions (which depend on time(NULL)) to the model.
 *
 * types: i8 u8 i16 u16 i32 u32 i64 u64 f32 f64 c64 c128 null bad (complex: real part, ";imag" when non-zero).  Values are printed as
 * decimal integers when integral, "nan" for NaN, %.17g otherwise.
 */
#include "internal.h"
#include <inttypes.h>

static gd_type_t ty(const char *s)
{
  if (!strcmp(s, "i8")) return GD_INT8;   if (!strcmp(s, "u8")) return GD_UINT8;
  if (!strcmp(s, "i16")) return GD_INT16; if (!strcmp(s, "u16")) return GD_UINT16;
  if (!strcmp(s, "i32")) return GD_INT32; if (!strcmp(s, "u32")) return GD_UINT32;
  if (!strcmp(s, "i64")) return GD_INT64; if (!strcmp(s, "u64")) return GD_UINT64;
  if (!strcmp(s, "f32")) return GD_FLOAT32; if (!strcmp(s, "f64")) return GD_FLOAT64;
  if (!strcmp(s, "c64")) return GD_COMPLEX64; if (!strcmp(s, "c128")) return GD_COMPLEX128;
  if (!strcmp(s, "null")) return GD_NULL;
  if (!strcmp(s, "bad")) return (gd_type_t)0x33;    /* not a type: the call must fail with GD_E_BAD_TYPE */
  fprintf(stderr, "bad type %s\n", s); exit(2);
}

static void pdbl(double d)
{
  if (d != d) printf("nan");
  else if (d == floor(d) && fabs(d) < 9e15) printf("%.0f", d);
  else printf("%.17g", d);
}

static void pval(gd_type_t t, const void *buf, size_t i)
{
  double d; int isf = 0;
  switch (t) {
    case GD_INT8:   printf(" %d", ((const int8_t *)buf)[i]); return;
    case GD_UINT8:  printf(" %u", ((const uint8_t *)buf)[i]); return;
    case GD_INT16:  printf(" %d", ((const int16_t *)buf)[i]); return;
    case GD_UINT16: printf(" %u", ((const uint16_t *)buf)[i]); return;
    case GD_INT32:  printf(" %" PRId32, ((const int32_t *)buf)[i]); return;
    case GD_UINT32: printf(" %" PRIu32, ((const uint32_t *)buf)[i]); return;
    case GD_INT64:  printf(" %" PRId64, ((const int64_t *)buf)[i]); return;
    case GD_UINT64: printf(" %" PRIu64, ((const uint64_t *)buf)[i]); return;
    case GD_FLOAT32: d = ((const float *)buf)[i]; isf = 1; break;
    case GD_FLOAT64: d = ((const double *)buf)[i]; isf = 1; break;
    case GD_COMPLEX64: {
      double re = ((const float *)buf)[2 * i], im = ((const float *)buf)[2 * i + 1];
      printf(" "); pdbl(re); if (im != 0 && !(re != re)) { printf(";"); pdbl(im); } return; }
    case GD_COMPLEX128: {
      double re = ((const double *)buf)[2 * i], im = ((const double *)buf)[2 * i + 1];
      printf(" "); pdbl(re); if (im != 0 && !(re != re)) { printf(";"); pdbl(im); } return; }
    default: return;
  }
  if (isf) {
    if (d != d) printf(" nan");
    else if (d == floor(d) && fabs(d) < 9e15) printf(" %.0f", d);
    else printf(" %.17g", d);
  }
}

static void sval(gd_type_t t, void *buf, size_t i, const char *s)
{
  switch (t) {
    case GD_INT8:   ((int8_t *)buf)[i] = (int8_t)strtoll(s, NULL, 10); return;
    case GD_UINT8:  ((uint8_t *)buf)[i] = (uint8_t)strtoull(s, NULL, 10); return;
    case GD_INT16:  ((int16_t *)buf)[i] = (int16_t)strtoll(s, NULL, 10); return;
    case GD_UINT16: ((uint16_t *)buf)[i] = (uint16_t)strtoull(s, NULL, 10); return;
    case GD_INT32:  ((int32_t *)buf)[i] = (int32_t)strtoll(s, NULL, 10); return;
    case GD_UINT32: ((uint32_t *)buf)[i] = (uint32_t)strtoull(s, NULL, 10); return;
    case GD_INT64:  ((int64_t *)buf)[i] = strtoll(s, NULL, 10); return;
    case GD_UINT64: ((uint64_t *)buf)[i] = strtoull(s, NULL, 10); return;
    case GD_FLOAT32: ((float *)buf)[i] = (float)strtod(s, NULL); return;
    case GD_FLOAT64: ((double *)buf)[i] = strtod(s, NULL); return;
    default: return;
  }
}

static int show_open = 0;
static DIRFILE *D = NULL;

static void eol(void)
{
  if (show_open && D) {
    unsigned i;
    printf(" |");
    for (i = 0; i < D->n_entries; i++)
      if (D->entry[i]->field_type == GD_RAW_ENTRY)
        printf(" %s=%d", D->entry[i]->field, D->entry[i]->e->u.raw.file[0].idata >= 0 ? 1 : 0);
  }
  printf("\n");
  fflush(stdout);
}

#define MAXTOK 70000
static char *tok[MAXTOK];

int main(int argc, char **argv)
{
  const char *path;
  unsigned long flags = GD_RDONLY;
  size_t cap = 1 << 22;
  char *line = malloc(cap);
  int a = 1;
  if (argc > 1 && !strcmp(argv[1], "-O")) { show_open = 1; a++; }
  if (argc <= a) { fprintf(stderr, "usage: gdhist [-O] dirfile\n"); return 2; }
  path = argv[a];

  while (fgets(line, cap, stdin)) {
    int nt = 0; char *p = strtok(line, " \t\r\n");
    while (p && nt < MAXTOK) { tok[nt++] = p; p = strtok(NULL, " \t\r\n"); }
    if (nt == 0 || tok[0][0] == '#') continue;
    switch (tok[0][0]) {
      case 'o':
        flags = (nt > 1 && atoi(tok[1])) ? GD_RDWR : GD_RDONLY;
        D = gd_open(path, flags);
        printf("o %d", gd_error(D)); eol();
        break;
      case 'X':
        if (D) gd_close(D);
        D = gd_open(path, flags);
        printf("X %d", gd_error(D)); eol();
        break;
      case 'x':
        if (D) gd_discard(D);
        D = gd_open(path, flags);
        printf("x %d", gd_error(D)); eol();
        break;
      case 'g': {
        off64_t start = (tok[2][0] == 'H') ? GD_HERE : strtoll(tok[2], NULL, 10);
        size_t n = strtoull(tok[3], NULL, 10), i, got;
        gd_type_t t = ty(tok[4]);
        /* the buffer is exactly n samples; ASan then catches any overrun */
        void *buf = malloc(n * 16 + 16);
        memset(buf, 0x5A, n * 16 + 16);
        got = gd_getdata64(D, tok[1], 0, start, 0, n, t, buf);
        printf("g %" PRIuSIZE " %d", got, gd_error(D));
        if (got <= n) for (i = 0; i < got; i++) pval(t, buf, i);
        else printf(" OVERRUN");
        eol(); free(buf);
        break; }
      case 'p': {
        off64_t start = (tok[2][0] == 'H') ? GD_HERE : strtoll(tok[2], NULL, 10);
        size_t n = strtoull(tok[3], NULL, 10), i, put;
        gd_type_t t = ty(tok[4]);
        void *buf = calloc(n + 1, 16);
        for (i = 0; i < n && (int)(5 + i) < nt; i++) sval(t, buf, i, tok[5 + i]);
        put = gd_putdata64(D, tok[1], 0, start, 0, n, t, buf);
        printf("p %" PRIuSIZE " %d", put, gd_error(D)); eol(); free(buf);
        break; }
      case 's': {
        off64_t off = strtoll(tok[2], NULL, 10), r;
        int wh = tok[3][0] == 'S' ? GD_SEEK_SET : tok[3][0] == 'C' ? GD_SEEK_CUR : tok[3][0] == 'E' ? GD_SEEK_END : 0x8;
        if (nt > 4 && atoi(tok[4])) wh |= GD_SEEK_WRITE;
        r = gd_seek64(D, tok[1], 0, off, wh);
        printf("s %" PRId64 " %d", (int64_t)r, gd_error(D)); eol();
        break; }
      case 't': { off64_t r = gd_tell64(D, tok[1]); printf("t %" PRId64 " %d", (int64_t)r, gd_error(D)); eol(); break; }
      case 'e': { off64_t r = gd_eof64(D, tok[1]); printf("e %" PRId64 " %d", (int64_t)r, gd_error(D)); eol(); break; }
      case 'b': { off64_t r = gd_bof64(D, tok[1]); printf("b %" PRId64 " %d", (int64_t)r, gd_error(D)); eol(); break; }
      case 'c': case 'f': case 'y': {
        const char *fc = (tok[1][0] == '*') ? NULL : tok[1];
        int r = tok[0][0] == 'c' ? gd_raw_close(D, fc) : tok[0][0] == 'f' ? gd_flush(D, fc) : gd_sync(D, fc);
        printf("%c %d %d", tok[0][0], r, gd_error(D)); eol();
        break; }
      case 'a': {   /* a <P|L|B|M|X> <field> args..: gd_alter_phase/lincom/bit/multiply/mplex */
        int r = -1;
        switch (tok[1][0]) {
          case 'P': r = gd_alter_phase(D, tok[2], tok[3], strtoll(tok[4], NULL, 10)); break;
          case 'L': { const char *in[1]; double m[1], b[1]; in[0] = tok[3]; m[0] = strtod(tok[4], NULL); b[0] = strtod(tok[5], NULL);
                      r = gd_alter_lincom(D, tok[2], 1, in, m, b); break; }
          case 'B': r = gd_alter_bit(D, tok[2], tok[3], atoi(tok[4]), atoi(tok[5])); break;
          case 'M': r = gd_alter_multiply(D, tok[2], tok[3], tok[4]); break;
          case 'X': r = gd_alter_mplex(D, tok[2], tok[3], tok[4], atoi(tok[5]), atoi(tok[6])); break;
          /* changes that move or rewrite data files (recode/move flag given), on all fragments */
          case 'F': r = gd_alter_frameoffset64(D, strtoll(tok[2], NULL, 10), GD_ALL_FRAGMENTS, atoi(tok[3])); break;
          case 'E': r = gd_alter_endianness(D, tok[2][0] == 'b' ? GD_BIG_ENDIAN : GD_LITTLE_ENDIAN, GD_ALL_FRAGMENTS, atoi(tok[3])); break;
          case 'N': r = gd_alter_encoding(D, !strcmp(tok[2], "none") ? GD_UNENCODED : !strcmp(tok[2], "text") ? GD_TEXT_ENCODED :
                          !strcmp(tok[2], "gzip") ? GD_GZIP_ENCODED : !strcmp(tok[2], "bzip2") ? GD_BZIP2_ENCODED :
                          !strcmp(tok[2], "lzma") ? GD_LZMA_ENCODED : GD_SIE_ENCODED, GD_ALL_FRAGMENTS, atoi(tok[3])); break;
          case 'R': r = gd_alter_raw(D, tok[2], ty(tok[3]), 0, atoi(tok[4])); break;
          case 'V': r = gd_rename(D, tok[2], tok[3], GD_REN_DATA | GD_REN_UPDB); break;
          case 'O': r = gd_move(D, tok[2], atoi(tok[3]), GD_REN_DATA); break;
        }
        printf("a %d %d", r, gd_error(D)); eol();
        break; }
      case 'C': {   /* C <const field> <integer>: gd_put_constant */
        int64_t v = strtoll(tok[2], NULL, 10);
        int r = gd_put_constant(D, tok[1], GD_INT64, &v);
        printf("C %d %d", r, gd_error(D)); eol();
        break; }
      case 'n': { off64_t r = gd_nframes64(D); printf("n %" PRId64 " %d", (int64_t)r, gd_error(D)); eol(); break; }
      case 'l': { long r = gd_open_limit(D, atol(tok[1])); printf("l %ld", r); eol(); break; }
      case 'k': gd_mplex_lookback(D, atoi(tok[1])); printf("k"); eol(); break;
      case 'r': printf("r %d", D->recurse_level); eol(); break;
      default: fprintf(stderr, "bad op %s\n", tok[0]); return 2;
    }
  }
  if (D) gd_discard(D);
  return 0;
}
