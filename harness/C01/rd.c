/* C01/C16 harness: run reads and extent queries on real dirfiles.
 * stdin, one command per line:
 *   O <dir>                 gd_open(dir, GD_RDONLY), lookback = ALL   -> "O <err>"
 *   W <dir>                 gd_open(dir, GD_RDWR)                      -> "W <err>"
 *   A <fragment> <fo>       gd_alter_frameoffset64(D, fo, fragment, 0) (data files untouched) -> "A <err>"
 *   P <field> <s> <n>       gd_putdata64(field, 0, s, 0, n, FLOAT64; values 1000+s+i) -> "P <err> <count>"
 *   L <n>                   gd_mplex_lookback(D, n)  (-1 = all)       -> "L"
 *   G <field> <rt> <s> <n>  gd_getdata64(field, 0, s, 0, n, rt)       -> "G <err> <count> <hex>..."
 *   E <field>               gd_eof64 / gd_bof64 / gd_spf              -> "E <eof> <bof> <spf>"
 *   N                       gd_nframes64                              -> "N <nframes>"
 *   C                       gd_discard, end of block                  -> "C"
 * rt: 0..11 = INT8 UINT8 INT16 UINT16 INT32 UINT32 INT64 UINT64 FLOAT32 FLOAT64 COMPLEX64 COMPLEX128
 *     (complex values are printed as re:im)
 * values are printed as the hex bit pattern of the element; NaNs canonical.
 * The output buffer is pre-filled with 0xA5 and has n+4 elements; at most n
 * values are printed; "!W" is appended when the library wrote past element n. */
#include "internal.h"
#include <inttypes.h>
#include <sys/wait.h>
#include <unistd.h>

static const gd_type_t T[12] = { GD_INT8, GD_UINT8, GD_INT16, GD_UINT16, GD_INT32,
  GD_UINT32, GD_INT64, GD_UINT64, GD_FLOAT32, GD_FLOAT64, GD_COMPLEX64, GD_COMPLEX128 };
static int esize(int t) { return t < 2 ? 1 : t < 4 ? 2 : t < 6 ? 4 : t < 8 ? 8 : t == 8 ? 4 : t == 9 ? 8 : t == 10 ? 8 : 16; }

static int run_block(char **lines, int nl)
{
  DIRFILE *D = NULL;
  char a[2048];
  int li;
  for (li = 0; li < nl; li++) {
    char *line = lines[li];
    if (line[0] == 'O') {
      if (sscanf(line + 1, "%2047s", a) != 1) { printf("O bad\n"); continue; }
      if (D) gd_discard(D);
      D = gd_open(a, GD_RDONLY);
      gd_mplex_lookback(D, GD_LOOKBACK_ALL);
      printf("O %d\n", gd_error(D));
    } else if (line[0] == 'W') {
      if (sscanf(line + 1, "%2047s", a) != 1) { printf("W bad\n"); continue; }
      if (D) gd_discard(D);
      D = gd_open(a, GD_RDWR);
      gd_mplex_lookback(D, GD_LOOKBACK_ALL);
      printf("W %d\n", gd_error(D));
    } else if (line[0] == 'A') {
      int frag; long long fo;
      if (!D || sscanf(line + 1, "%d %lld", &frag, &fo) != 2) { printf("A bad\n"); continue; }
      gd_alter_frameoffset64(D, (off64_t)fo, frag, 0);
      printf("A %d\n", gd_error(D));
    } else if (line[0] == 'P') {
      long long s; unsigned long long n, i; size_t put; double *buf;
      if (!D || sscanf(line + 1, "%2047s %lld %llu", a, &s, &n) != 3) { printf("P bad\n"); continue; }
      buf = malloc((n + 1) * sizeof(double));
      for (i = 0; i < n; i++) buf[i] = 1000. + s + i;
      put = gd_putdata64(D, a, 0, (off64_t)s, 0, (size_t)n, GD_FLOAT64, buf);
      printf("P %d %llu\n", gd_error(D), (unsigned long long)put);
      free(buf);
    } else if (line[0] == 'L') {
      int n = -1; sscanf(line + 1, "%d", &n);
      if (D) gd_mplex_lookback(D, n);
      printf("L\n");
    } else if (line[0] == 'G') {
      int rt; long long s; unsigned long long n, i; size_t got; int es, over = 0;
      unsigned char *buf;
      if (!D || sscanf(line + 1, "%2047s %d %lld %llu", a, &rt, &s, &n) != 4 || rt < 0 || rt > 11) { printf("G bad\n"); continue; }
      es = esize(rt);
      buf = malloc((n + 4) * es + 16);
      memset(buf, 0xA5, (n + 4) * es + 16);
      got = gd_getdata64(D, a, 0, (off64_t)s, 0, (size_t)n, T[rt], buf);
      printf("G %d %llu", gd_error(D), (unsigned long long)got);
      for (i = 0; i < got && i < n; i++) {
        uint64_t v = 0;
        if (rt >= 10) { /* complex: "re:im" */
          int c, cs = es / 2;
          for (c = 0; c < 2; c++) {
            v = 0;
            memcpy(&v, buf + i * es + c * cs, cs);
            if (cs == 4) { float f; memcpy(&f, &v, 4); if (f != f) v = 0x7fc00000u; }
            else { double d; memcpy(&d, &v, 8); if (d != d) v = 0x7ff8000000000000ull; }
            printf("%s%" PRIx64, c ? ":" : " ", v);
          }
          continue;
        }
        memcpy(&v, buf + i * es, es);
        if (rt == 8) { float f; memcpy(&f, &v, 4); if (f != f) v = 0x7fc00000u; }
        else if (rt == 9) { double d; memcpy(&d, &v, 8); if (d != d) v = 0x7ff8000000000000ull; }
        printf(" %" PRIx64, v);
      }
      for (i = n * es; i < (n + 4) * es; i++) if (buf[i] != 0xA5) over = 1;
      if (over) printf(" !W");
      printf("\n");
      free(buf);
    } else if (line[0] == 'E') {
      long long e, b; unsigned int spf;
      if (!D || sscanf(line + 1, "%2047s", a) != 1) { printf("E bad\n"); continue; }
      e = (long long)gd_eof64(D, a);
      b = (long long)gd_bof64(D, a);
      spf = gd_spf(D, a);
      printf("E %lld %lld %u\n", e, b, spf);
    } else if (line[0] == 'N') {
      printf("N %lld\n", D ? (long long)gd_nframes64(D) : -9999LL);
    } else if (line[0] == 'C') {
      if (D) gd_discard(D);
      D = NULL;
      printf("C\n");
    }
    fflush(stdout);
  }
  if (D) gd_discard(D);
  return 0;
}

/* Every block "O ... C" runs in its own child process: the generated
 * dirfiles reach heap overflows in the library, and a crash must not take
 * the other cases with it.  After a crashed block the parent prints
 * "X <signal>". */
int main(void)
{
  static char *lines[200000];
  char line[8192];
  int nl = 0, i;
  while (fgets(line, sizeof line, stdin)) {
    lines[nl++] = strdup(line);
    if (line[0] == 'C' || nl >= 199999) {
      pid_t pid;
      int st = 0;
      fflush(stdout);
      pid = fork();
      if (pid == 0) { run_block(lines, nl); fflush(stdout); _exit(0); }
      waitpid(pid, &st, 0);
      if (!(WIFEXITED(st) && WEXITSTATUS(st) == 0))
        printf("X %d\n", WIFSIGNALED(st) ? WTERMSIG(st) : -WEXITSTATUS(st));
      fflush(stdout);
      for (i = 0; i < nl; i++) free(lines[i]);
      nl = 0;
    }
  }
  if (nl) run_block(lines, nl);
  return 0;
}
