/* C15 harness: run metadata-edit sequences on the real library and print,
 * after every step, the result and a canonical dump of the name table read
 * through internal.h plus every count observer.
 *
 * usage: nametab <scratchdir> [unsafe]
 * stdin: one operation per line (see ocaml/C15/driver.ml for the same grammar)
 *   A <spec> <parent|-> <name> <ty> <frag> <hid> <ins|-> <scs|-> <val>
 *   L <parent|-> <name> <target> <frag>          gd_add_alias / gd_madd_alias
 *   D <name> <flags>                             gd_delete
 *   R <name> <new> <flags>                       gd_rename
 *   V <name> <frag>                              gd_move
 *   H <name> <0|1>                               gd_unhide / gd_hide
 *   X <frag> <prefix> <suffix>                   gd_alter_affixes
 *   Q <parent|-> <sel> <flags>                   gd_entry_list
 *   =                                            new sequence (fresh dirfile)
 * "~" is the empty string.  Pointers are checked for liveness against
 * D->entry before they are followed ("!" = dangling) unless "unsafe" is given,
 * in which case the public API (gd_reference, list strings) is used directly
 * so that a sanitizer build reports the use-after-free itself. */
#include "internal.h"
#include <stdio.h>
#include <string.h>
#include <stdlib.h>
#include <sys/stat.h>

static DIRFILE *D;
static char dir[4096];
static int unsafe_mode = 0;

static const char *tok(const char *s) { return (s[0] == '~' && s[1] == 0) ? "" : s; }
static const char *optok(const char *s) { return (s[0] == '-' && s[1] == 0) ? NULL : tok(s); }
static const char *show(const char *s) { return (s == NULL) ? "-" : (s[0] == 0 ? "~" : s); }

static void fresh(void)
{
  char cmd[9000];
  if (D) gd_discard(D);
  snprintf(cmd, sizeof cmd, "rm -rf '%s' && mkdir -p '%s' && printf '/ENCODING none\\n/INCLUDE sub\\n' > '%s/format' && printf '/ENCODING none\\n' > '%s/sub'", dir, dir, dir, dir);
  if (system(cmd)) { fprintf(stderr, "setup failed\n"); exit(3); }
  /* fragments for the gd_include operations (names that do not collide with the generator's) */
  snprintf(cmd, sizeof cmd, "printf '/ENCODING none\\ni_r RAW UINT8 1\\ni_c CONST UINT8 3\\ni_c/m CONST UINT8 4\\ni_s STRING v\\n/ALIAS i_al i_c\\n/ALIAS i_c/ma i_r\\ni_l LINCOM i_r 1 0\\n' > '%s/inc1' && printf '/ENCODING none\\nj_c CONST UINT8 5\\nj_c/k CARRAY UINT8 1 2\\n/ALIAS j_al j_c/k\\nj_b BIT j_c 0 1\\n' > '%s/inc2'", dir, dir);
  if (system(cmd)) { fprintf(stderr, "setup failed\n"); exit(3); }
  {
    /* inc3 .. inc8: one parent with three subfields, a RAW field and an alias each, names unique per file,
     * for building include trees of any depth */
    int k;
    for (k = 3; k <= 8; ++k) {
      snprintf(cmd, sizeof cmd, "printf '/ENCODING none\\nk%d_c CONST UINT8 1\\nk%d_c/m CONST UINT8 2\\nk%d_c/n CONST UINT8 3\\n"
          "k%d_c/o STRING s\\nk%d_r RAW UINT8 1\\n/ALIAS k%d_al k%d_c/m\\nk%d_p PHASE k%d_r 0\\n' > '%s/inc%d'",
          k, k, k, k, k, k, k, k, k, dir, k);
      if (system(cmd)) { fprintf(stderr, "setup failed\n"); exit(3); }
    }
  }
  /* inc9: alias chains written target-first and target-last */
  snprintf(cmd, sizeof cmd, "printf '/ENCODING none\\nz_t STRING v\\n/ALIAS z_a1 z_t\\n/ALIAS z_a2 z_a1\\n/ALIAS z_a3 z_a2\\n/ALIAS z_a4 z_a3\\n"
      "/ALIAS z_b4 z_b3\\n/ALIAS z_b3 z_b2\\n/ALIAS z_b2 z_b1\\n/ALIAS z_b1 z_t\\n/ALIAS z_c2 z_c1\\n/ALIAS z_c3 z_c2\\n/ALIAS z_c1 z_t\\n' > '%s/inc9'", dir);
  if (system(cmd)) { fprintf(stderr, "setup failed\n"); exit(3); }
  D = gd_open(dir, GD_RDWR);
  if (gd_error(D) || D->n_fragment != 2) { fprintf(stderr, "open failed %d\n", gd_error(D)); exit(3); }
}

static int tyindex(const gd_entry_t *E)
{
  switch (E->field_type) {
    case GD_RAW_ENTRY: return 0; case GD_LINCOM_ENTRY: return 1; case GD_LINTERP_ENTRY: return 2;
    case GD_BIT_ENTRY: return 3; case GD_MULTIPLY_ENTRY: return 4; case GD_PHASE_ENTRY: return 5;
    case GD_INDEX_ENTRY: return 6; case GD_POLYNOM_ENTRY: return 7; case GD_SBIT_ENTRY: return 8;
    case GD_DIVIDE_ENTRY: return 9; case GD_RECIP_ENTRY: return 10; case GD_WINDOW_ENTRY: return 11;
    case GD_MPLEX_ENTRY: return 12; case GD_INDIR_ENTRY: return 13; case GD_SINDIR_ENTRY: return 14;
    case GD_CONST_ENTRY: return 15; case GD_CARRAY_ENTRY: return 16; case GD_STRING_ENTRY: return 17;
    case GD_SARRAY_ENTRY: return 18; case GD_ALIAS_ENTRY: return 21; default: return 99;
  }
}
static const int SEL[23] = { GD_RAW_ENTRY, GD_LINCOM_ENTRY, GD_LINTERP_ENTRY, GD_BIT_ENTRY, GD_MULTIPLY_ENTRY,
  GD_PHASE_ENTRY, GD_INDEX_ENTRY, GD_POLYNOM_ENTRY, GD_SBIT_ENTRY, GD_DIVIDE_ENTRY, GD_RECIP_ENTRY,
  GD_WINDOW_ENTRY, GD_MPLEX_ENTRY, GD_INDIR_ENTRY, GD_SINDIR_ENTRY, GD_CONST_ENTRY, GD_CARRAY_ENTRY,
  GD_STRING_ENTRY, GD_SARRAY_ENTRY, GD_VECTOR_ENTRIES, GD_SCALAR_ENTRIES, GD_ALIAS_ENTRIES, GD_ALL_ENTRIES };
/* the list indices the model knows about */
static const int MSEL[] = { 0, 1, 2, 3, 4, 5, 6, 7, 8, 9, 10, 11, 12, 13, 14, 15, 16, 17, 18, 19, 20, 21, 22 };
#define NMSEL ((int)(sizeof MSEL / sizeof MSEL[0]))

static int live_entry(const gd_entry_t *p)
{
  unsigned i;
  for (i = 0; i < D->n_entries; ++i) if (D->entry[i] == p) return 1;
  return 0;
}
static const char *pname(const gd_entry_t *p)
{
  if (p == NULL) return "-";
  return live_entry(p) ? show(p->field) : "!";
}
/* is s a pointer into the name buffer of a live entry? */
static int live_str(const char *s)
{
  unsigned i;
  for (i = 0; i < D->n_entries; ++i)
    if (s >= D->entry[i]->field && s <= D->entry[i]->field + D->entry[i]->e->len) return 1;
  return 0;
}

static int n_in(const gd_entry_t *E)
{
  switch (E->field_type) {
    case GD_LINCOM_ENTRY: return E->EN(lincom,n_fields);
    case GD_MULTIPLY_ENTRY: case GD_DIVIDE_ENTRY: case GD_WINDOW_ENTRY: case GD_MPLEX_ENTRY:
    case GD_INDIR_ENTRY: case GD_SINDIR_ENTRY: return 2;
    case GD_BIT_ENTRY: case GD_PHASE_ENTRY: case GD_LINTERP_ENTRY: case GD_POLYNOM_ENTRY:
    case GD_SBIT_ENTRY: case GD_RECIP_ENTRY: return 1;
    case GD_ALIAS_ENTRY: return 1;
    default: return 0;
  }
}
static int n_sc(const gd_entry_t *E)
{
  switch (E->field_type) {
    case GD_LINCOM_ENTRY: return 6; case GD_BIT_ENTRY: case GD_SBIT_ENTRY: case GD_MPLEX_ENTRY: return 2;
    case GD_POLYNOM_ENTRY: return 3;
    case GD_RAW_ENTRY: case GD_PHASE_ENTRY: case GD_RECIP_ENTRY: case GD_WINDOW_ENTRY: return 1; default: return 0;
  }
}

static void dump(void)
{
  unsigned u; int i, s, f;
  int sorted = 1;
  /* reference */
  printf("ref %s fref %s %s\n", pname(D->reference_field), show(D->fragment[0].ref_name),
      D->n_fragment > 1 ? show(D->fragment[1].ref_name) : "-");
  if (D->n_fragment != 2) {
    /* after gd_include / gd_uninclude: every fragment's /REFERENCE */
    printf("frefs");
    for (i = 0; i < D->n_fragment; ++i) printf(" %s", show(D->fragment[i].ref_name));
    printf("\n");
  }
  for (u = 0; u < D->n_entries; ++u) {
    const gd_entry_t *E = D->entry[u];
    if (E->e->len != strlen(E->field)) sorted = 0;
    if (u > 0) {
      const gd_entry_t *A = D->entry[u - 1];
      size_t la = strlen(A->field), lb = strlen(E->field);
      if (!(la < lb || (la == lb && memcmp(A->field, E->field, la) < 0))) sorted = 0;
    }
    printf("e %s ty=%d fr=%d hid=%d meta=%d", show(E->field), tyindex(E), E->fragment_index,
        (E->flags & GD_EN_HIDDEN) ? 1 : 0, E->e->n_meta == -1);
    if (E->e->n_meta == -1) printf(" par=%s", pname(E->e->p.parent));
    else {
      printf(" par=- kids=");
      if (E->e->n_meta == 0) printf("-");
      for (i = 0; i < E->e->n_meta; ++i) printf("%s%s", i ? "," : "", pname(E->e->p.meta_entry[i]));
    }
    if (E->field_type == GD_ALIAS_ENTRY) {
      printf(" tgt=%s dist=%s dir=%d", show(E->in_fields[0]), pname(E->e->entry[0]), E->e->entry[1] != NULL);
    } else {
      printf(" ins=");
      if (n_in(E) == 0) printf("-");
      for (i = 0; i < n_in(E); ++i) printf("%s%s:%s", i ? "," : "", show(E->in_fields[i]), pname(E->e->entry[i]));
      printf(" scs=");
      if (n_sc(E) == 0) printf("-");
      for (i = 0; i < n_sc(E); ++i) printf("%s%s", i ? "," : "", E->scalar[i] ? show(E->scalar[i]) : "-");
    }
    printf("\n");
  }
  printf("sorted %d\n", sorted);
  /* counts: top level and every parent with metafields */
  for (u = 0; u <= D->n_entries; ++u) {
    const char *parent = NULL;
    if (u > 0) {
      const gd_entry_t *E = D->entry[u - 1];
      int dangling = 0;
      if (E->e->n_meta <= 0) continue;
      parent = E->field;
      /* gd_nentries and the value lists walk the subfield array: do not follow freed pointers */
      for (i = 0; i < E->e->n_meta; ++i) if (!live_entry(E->e->p.meta_entry[i])) dangling = 1;
      if (dangling) { printf("n %s !dangling-subfield\n", show(parent)); continue; }
    }
    printf("n %s", show(parent));
    for (s = 0; s < NMSEL; ++s)
      for (f = 0; f < 4; ++f)
        printf(" %u", gd_nentries(D, parent, SEL[MSEL[s]], f));
    printf("\n");
    {
      unsigned n = gd_nentries(D, parent, GD_CONST_ENTRY, 0), k;
      const int64_t *v = parent ? gd_mconstants(D, parent, GD_INT64) : gd_constants(D, GD_INT64);
      printf("k %s", show(parent));
      if (v == NULL && n > 0) printf(" NULL(%d)", gd_error(D));
      else for (k = 0; k < n; ++k) printf(" %lld", (long long)v[k]);
      printf("\n");
    }
    {
      /* strings, carrays, sarrays: the value lists must line up with the name lists */
      unsigned n = gd_nentries(D, parent, GD_STRING_ENTRY, 0), k;
      const char **sv = parent ? gd_mstrings(D, parent) : gd_strings(D);
      const gd_carray_t *cv;
      const char ***av;
      printf("vs %s", show(parent));
      if (sv == NULL) printf(" NULL(%d)", gd_error(D));
      else { for (k = 0; sv[k]; ++k) printf(" %s", show(sv[k])); if (k != n) printf(" !count=%u", n); }
      printf("\n");
      n = gd_nentries(D, parent, GD_CARRAY_ENTRY, 0);
      cv = parent ? gd_mcarrays(D, parent, GD_UINT8) : gd_carrays(D, GD_UINT8);
      printf("vc %s", show(parent));
      if (cv == NULL) printf(" NULL(%d)", gd_error(D));
      else { for (k = 0; cv[k].n; ++k) printf(" %u:%u", (unsigned)cv[k].n, (unsigned)((const unsigned char *)cv[k].d)[0]); if (k != n) printf(" !count=%u", n); }
      printf("\n");
      n = gd_nentries(D, parent, GD_SARRAY_ENTRY, 0);
      av = parent ? gd_msarrays(D, parent) : gd_sarrays(D);
      printf("va %s", show(parent));
      if (av == NULL) printf(" NULL(%d)", gd_error(D));
      else { for (k = 0; av[k]; ++k) printf(" %s", show(av[k][0])); if (k != n) printf(" !count=%u", n); }
      printf("\n");
    }
  }
}

static void dump_aliases(void)
{
  /* gd_naliases / gd_aliases of every field that some alias resolves to */
  unsigned u, v;
  for (u = 0; u < D->n_entries; ++u) {
    const gd_entry_t *E = D->entry[u];
    int used = 0;
    if (E->field_type == GD_ALIAS_ENTRY) continue;
    for (v = 0; v < D->n_entries; ++v)
      if (D->entry[v]->field_type == GD_ALIAS_ENTRY && D->entry[v]->e->entry[0] == E) used = 1;
    if (!used) continue;
    {
      unsigned n = gd_naliases(D, E->field), k = 0;
      const char **l = gd_aliases(D, E->field);
      printf("al %s %u :", show(E->field), n);
      if (l == NULL) printf(" NULL(%d)", gd_error(D)); else for (; l[k]; ++k) printf(" %s", show(l[k]));
      printf("\n");
    }
  }
}

static void dump_match(void)
{
  /* gd_match_entries without a regex: the per-fragment view of the table */
  static const int fr[3] = { 0, 1, GD_ALL_FRAGMENTS };
  static const int sl[4] = { 22, 19, 20, 21 };
  int a, b; unsigned f;
  for (a = 0; a < 3; ++a)
    for (b = 0; b < 4; ++b)
      for (f = 0; f < 4; f += 3) {
        const char **l = NULL;
        unsigned n = gd_match_entries(D, NULL, fr[a], SEL[sl[b]], f, &l), k;
        printf("x %d %d %u :", a, sl[b], f);
        if (l == NULL) printf(" NULL(%d)", gd_error(D));
        else { for (k = 0; l[k]; ++k) printf(" %s", show(l[k])); if (k != n) printf(" !count=%u", n); }
        printf("\n");
      }
}

static int split(char *s, char sep, char **out, int max)
{
  int n = 0;
  if (s[0] == '-' && s[1] == 0) return 0;
  out[n++] = s;
  for (; *s; ++s) if (*s == sep && n < max) { *s = 0; out[n++] = s + 1; }
  return n;
}

int main(int argc, char **argv)
{
  char line[8192];
  char *t[16];
  int nt;
  if (argc < 2) return 2;
  snprintf(dir, sizeof dir, "%s", argv[1]);
  if (argc > 2 && strcmp(argv[2], "unsafe") == 0) unsafe_mode = 1;
  setvbuf(stdout, NULL, _IOLBF, 0);
  fresh();
  while (fgets(line, sizeof line, stdin)) {
    char *p;
    line[strcspn(line, "\n")] = 0;
    if (line[0] == 0) continue;
    nt = 0;
    for (p = strtok(line, " "); p && nt < 16; p = strtok(NULL, " ")) t[nt++] = p;
    if (t[0][0] == '=') { fresh(); printf("=\n"); continue; }
    switch (t[0][0]) {
      case 'A': {
        gd_entry_t E; int spec = atoi(t[1]); const char *parent = optok(t[2]); const char *name = tok(t[3]);
        int ty = atoi(t[4]), frag = atoi(t[5]), hid = atoi(t[6]); long long val = atoll(t[9]);
        char *ins[8], *scs[8]; int ni, ns, i, r;
        ni = split(t[7], ',', ins, 8); ns = split(t[8], ',', scs, 8);
        if (spec) {
          char sp[4096];
          snprintf(sp, sizeof sp, "%s CONST INT64 %lld", name, val);
          r = parent ? gd_madd_spec(D, sp, parent) : gd_add_spec(D, sp, frag);
        } else {
          memset(&E, 0, sizeof E);
          E.field = (char *)name; E.fragment_index = frag; E.flags = hid ? GD_EN_HIDDEN : 0;
          for (i = 0; i < ni && i < GD_MAX_LINCOM; ++i) E.in_fields[i] = (char *)tok(ins[i]);
          for (i = 0; i < ns && i <= GD_MAX_POLYORD; ++i) {
            E.scalar[i] = (scs[i][0] == '-' && scs[i][1] == 0) ? NULL : (char *)tok(scs[i]);
            E.scalar_ind[i] = 0;
          }
          switch (ty) {
            case 0: E.field_type = GD_RAW_ENTRY; E.EN(raw,data_type) = GD_UINT8; E.EN(raw,spf) = 1; break;
            case 1: E.field_type = GD_LINCOM_ENTRY; E.EN(lincom,n_fields) = ni;
                    for (i = 0; i < 3; ++i) { E.EN(lincom,m)[i] = 1; E.EN(lincom,b)[i] = 0; } break;
            case 2: E.field_type = GD_LINTERP_ENTRY; E.EN(linterp,table) = (char *)"tbl"; break;
            case 3: E.field_type = GD_BIT_ENTRY; E.EN(bit,bitnum) = 0; E.EN(bit,numbits) = 1; break;
            case 7: E.field_type = GD_POLYNOM_ENTRY; E.EN(polynom,poly_ord) = 2;
                    E.EN(polynom,a)[0] = 1; E.EN(polynom,a)[1] = 2; E.EN(polynom,a)[2] = 3; break;
            case 8: E.field_type = GD_SBIT_ENTRY; E.EN(bit,bitnum) = 0; E.EN(bit,numbits) = 1; break;
            case 9: E.field_type = GD_DIVIDE_ENTRY; break;
            case 10: E.field_type = GD_RECIP_ENTRY; E.EN(recip,dividend) = 1; break;
            case 11: E.field_type = GD_WINDOW_ENTRY; E.EN(window,windop) = GD_WINDOP_EQ; E.EN(window,threshold.i) = 1; break;
            case 12: E.field_type = GD_MPLEX_ENTRY; E.EN(mplex,count_val) = 1; E.EN(mplex,period) = 2; break;
            case 13: E.field_type = GD_INDIR_ENTRY; break;
            case 14: E.field_type = GD_SINDIR_ENTRY; break;
            case 18: E.field_type = GD_SARRAY_ENTRY; E.EN(scalar,array_len) = 1; break;
            case 4: E.field_type = GD_MULTIPLY_ENTRY; break;
            case 5: E.field_type = GD_PHASE_ENTRY; E.EN(phase,shift) = 0; break;
            case 15: E.field_type = GD_CONST_ENTRY; E.EN(scalar,const_type) = GD_INT64; break;
            case 16: E.field_type = GD_CARRAY_ENTRY; E.EN(scalar,const_type) = GD_UINT8; E.EN(scalar,array_len) = 2; break;
            case 17: E.field_type = GD_STRING_ENTRY; break;
            default: fprintf(stderr, "bad type %d\n", ty); return 2;
          }
          r = parent ? gd_madd(D, &E, parent) : gd_add(D, &E);
          if (r == 0 && (ty == 16 || ty == 17 || ty == 18)) {
            char full[4096];
            const char *sl = parent ? NULL : strchr(name + (name[0] ? 1 : 0), '/');
            if (parent) snprintf(full, sizeof full, "%s/%s", parent, name);
            else if (sl) {
              gd_entry_t *P = _GD_FindField(D, name, sl - name, D->entry, D->n_entries, 1, NULL);
              if (P) snprintf(full, sizeof full, "%s%s", P->field, sl); else snprintf(full, sizeof full, "%s", name);
            } else snprintf(full, sizeof full, "%s", name);
            if (ty == 16) {
              unsigned char c2[2]; c2[0] = (unsigned char)val; c2[1] = 7;
              if (gd_put_carray(D, full, GD_UINT8, c2)) { printf("> putval-failed %d\n", gd_error(D)); dump(); dump_aliases(); dump_match(); continue; }
            } else if (ty == 17) {
              char sv[64]; snprintf(sv, sizeof sv, "s%lld", val);
              if (gd_put_string(D, full, sv)) { printf("> putval-failed %d\n", gd_error(D)); dump(); dump_aliases(); dump_match(); continue; }
            } else {
              char sv[64]; const char *pp = sv; snprintf(sv, sizeof sv, "s%lld", val);
              if (gd_put_sarray(D, full, &pp)) { printf("> putval-failed %d\n", gd_error(D)); dump(); dump_aliases(); dump_match(); continue; }
            }
          }
          if (r == 0 && ty == 15) {
            /* give the constant its value; find the new entry by pointer-free means */
            char full[4096];
            int64_t v = val;
            const char *sl = parent ? NULL : strchr(name + (name[0] ? 1 : 0), '/');
            if (parent) snprintf(full, sizeof full, "%s/%s", parent, name);
            else if (sl) {
              /* Barth-style name: the parent part may be an alias; use the real parent's name */
              gd_entry_t *P = _GD_FindField(D, name, sl - name, D->entry, D->n_entries, 1, NULL);
              if (P) snprintf(full, sizeof full, "%s%s", P->field, sl); else snprintf(full, sizeof full, "%s", name);
            } else snprintf(full, sizeof full, "%s", name);
            if (gd_put_constant(D, full, GD_INT64, &v)) { printf("> putconst-failed %d\n", gd_error(D)); dump(); dump_aliases(); dump_match(); continue; }
          }
        }
        printf("> r %d\n", r);
        break;
      }
      case 'L': {
        const char *parent = optok(t[1]);
        int r = parent ? gd_madd_alias(D, parent, tok(t[2]), tok(t[3])) : gd_add_alias(D, tok(t[2]), tok(t[3]), atoi(t[4]));
        printf("> r %d\n", r);
        break;
      }
      case 'D': printf("> r %d\n", gd_delete(D, tok(t[1]), (unsigned)atoi(t[2]))); break;
      case 'R': printf("> r %d\n", gd_rename(D, tok(t[1]), tok(t[2]), (unsigned)atoi(t[3]))); break;
      case 'V': printf("> r %d\n", gd_move(D, tok(t[1]), atoi(t[2]), 0)); break;
      case 'H': printf("> r %d\n", atoi(t[2]) ? gd_hide(D, tok(t[1])) : gd_unhide(D, tok(t[1]))); break;
      case 'X': printf("> r %d\n", gd_alter_affixes(D, atoi(t[1]), tok(t[2]), tok(t[3]))); break;
      case 'Q': {
        const char *parent = optok(t[1]);
        int sel = atoi(t[2]); unsigned flags = (unsigned)atoi(t[3]);
        const char **l = gd_entry_list(D, parent, SEL[sel], flags);
        if (l == NULL) printf("> r %d\n", gd_error(D));
        else {
          printf("> l");
          for (; *l; ++l) {
            if (unsafe_mode || live_str(*l)) printf(" %s", show(*l)); else printf(" !");
          }
          printf("\n");
        }
        break;
      }
      case 'U': printf("> r %d\n", gd_uninclude(D, atoi(t[1]), 0)); break;
      case 'I': printf("> r %d\n", gd_include(D, tok(t[1]), atoi(t[2]), 0)); break;
      case 'J': printf("> r %d\n", gd_include_affix(D, tok(t[1]), atoi(t[2]), tok(t[3]), tok(t[4]), 0)); break;
      case 'S': { /* gd_alter_spec / gd_malter_spec: "<name> CONST INT64 <v>" */
        char sp[4096];
        const char *parent = optok(t[1]);
        snprintf(sp, sizeof sp, "%s CONST INT64 %s", tok(t[2]), t[3]);
        printf("> r %d\n", parent ? gd_malter_spec(D, sp, parent, 0) : gd_alter_spec(D, sp, 0));
        break;
      }
      case 'N': { const char *r = gd_fragment_namespace(D, atoi(t[1]), tok(t[2])); printf("> r %d\n", r ? 0 : gd_error(D)); break; }
      case 'W': { /* sweep: for the top level and every parent, every selector and flag set: gd_entry_list against gd_nentries */
        unsigned u, bad = 0; int sI, fI;
        printf("> w\n");
        for (u = 0; u <= D->n_entries; ++u) {
          const char *parent = NULL;
          if (u > 0) {
            const gd_entry_t *E = D->entry[u - 1]; int i2, dangling = 0;
            if (E->e->n_meta <= 0) continue;
            for (i2 = 0; i2 < E->e->n_meta; ++i2) if (!live_entry(E->e->p.meta_entry[i2])) dangling = 1;
            if (dangling) { printf("w %s !dangling-subfield\n", show(E->field)); bad++; continue; }
            parent = E->field;
          }
          for (sI = 0; sI < NMSEL; ++sI)
            for (fI = 0; fI < 4; ++fI) {
              const char **l = gd_entry_list(D, parent, SEL[MSEL[sI]], fI);
              unsigned n = gd_nentries(D, parent, SEL[MSEL[sI]], fI), k = 0, dead = 0;
              if (l) for (; l[k]; ++k) if (!live_str(l[k])) dead++;
              if (l == NULL || k != n || dead) {
                printf("w %s sel=%d flags=%d list=%d nentries=%u freed=%u\n", show(parent), MSEL[sI], fI, l ? (int)k : -1, n, dead);
                bad++;
              }
            }
        }
        printf("w total-bad %u\n", bad);
        break;
      }
      case 'F': { /* lookup with de-aliasing (not a model operation; used by the check's lookup witness) */
        gd_entry_t *E = _GD_FindField(D, tok(t[1]), strlen(tok(t[1])), D->entry, D->n_entries, 1, NULL);
        printf("> f %s\n", E ? show(E->field) : "-");
        break;
      }
      default: fprintf(stderr, "bad op %s\n", t[0]); return 2;
    }
    if (unsafe_mode) {
      const char *r = gd_reference(D, NULL);
      printf("reference %s\n", show(r));
    }
    dump();
    dump_aliases();
    dump_match();
  }
  gd_discard(D);
  return 0;
}
