/* C07 harness: build a dirfile through the public API from a case
 * description, gd_metaflush it, dump the written fragment text and a canonical
 * observer snapshot, close, reopen (plain and with GD_PEDANTIC) and dump the
 * snapshot again.
 *
 * usage: rt <scratch-dir>            cases on stdin, results on stdout
 *
 * Case language (one command per line, blank-separated; strings are hex
 * encoded, "-" is NULL, "." is the empty string):
 *   CASE <id>
 *   OPEN <extra open flags, hex>
 *   STD <v>                              gd_dirfile_standards(D, v)
 *   FRAGATTR <frag> <endian hex> <protect> <frameoffset> <encoding hex|-1>
 *   INC <parent> <file> <ns|-> <px|-> <sx|->
 *   ADD <TYPE> <frag> <parent|-> <name> <args...> [S <i> <code> <ind>]...
 *   ALIAS <frag> <parent|-> <name> <target>
 *   HIDE <code>     UNHIDE <code>     REF <code>
 *   MFLUSH                               gd_metaflush only (fragments become clean)
 *   RENAME <code> <new name> <flags hex>   MOVE <code> <frag> <flags hex>   DELETE <code> <flags hex>
 *   UNINCLUDEN <file name>   INCN <parent file name> <file> <px|-> <sx|->     (fragments addressed by name)
 *   ALTLINCOM / ALTPOLYNOM / ALTRECIP: gd_alter_[c]lincom, gd_alter_[c]polynom, gd_alter_[c]recip with NULL groups (see the code)
 *   ADDSPEC <line> <frag>   MADDSPEC <line> <parent>   ALTERAFFIX <frag> <px|-> <sx|->   NSALTER <frag> <ns>
 *   PUTS <code> <string>   PUTC <code> <I|U|D> <hex64>   ALTERSPEC <line> <recode>   UNINCLUDE <frag>
 *   FLUSH                                metaflush, dump, close, reopen x2
 *   END
 * doubles are 16 hex digit IEEE bit patterns, integers are decimal.
 *
 * Output per case:
 *   CASE <id>
 *   OP <n> <rc> <gd_error>               one per command that calls the API
 *   TEXT <frag> <hex of the fragment file>
 *   SNAP A|B|C <open error> ... lines ... ENDSNAP
 *   ENDCASE
 */
#include "internal.h"
#include <inttypes.h>
#include <ctype.h>

static char base[4000];
static int opn;

static char *unhex(const char *h)
{
  size_t n, i;
  char *s;
  if (h == NULL || strcmp(h, "-") == 0) return NULL;
  if (strcmp(h, ".") == 0) return strdup("");
  n = strlen(h) / 2;
  s = malloc(n + 1);
  for (i = 0; i < n; i++) {
    unsigned v;
    sscanf(h + 2 * i, "%2x", &v);
    s[i] = (char)v;
  }
  s[n] = 0;
  return s;
}

static void puthex(const char *s)
{
  if (s == NULL) { putchar('-'); return; }
  if (*s == 0) { putchar('.'); return; }
  for (; *s; s++) printf("%02x", (unsigned char)*s);
}

static void puthexn(const char *s, size_t n)
{
  size_t i;
  if (n == 0) { putchar('.'); return; }
  for (i = 0; i < n; i++) printf("%02x", (unsigned char)s[i]);
}

static double dbl(const char *h)
{
  uint64_t u = strtoull(h, NULL, 16);
  double d;
  memcpy(&d, &u, 8);
  return d;
}

static void putdbl(double d)
{
  uint64_t u;
  memcpy(&u, &d, 8);
  if (d != d) { printf("nan"); return; }
  printf("%016" PRIx64, u);
}

/* ------------------------------------------------------------ snapshot */
static void snap_scalars(const gd_entry_t *e, int n)
{
  int i;
  printf(" sc=");
  for (i = 0; i < n; i++) {
    if (i) putchar(',');
    puthex(e->scalar[i]);
    if (e->scalar[i]) printf(":%d", e->scalar_ind[i]);
  }
}

static int (*stored_ind)[GD_MAX_POLYORD + 1];

static void snap_entry(DIRFILE *D, gd_entry_t *IE, unsigned u)
{
  gd_entry_t e;
  int i, n;
  printf("F "); puthex(IE->field);
  if (IE->field_type == GD_ALIAS_ENTRY) {
    printf(" ALIAS frag=%d hidden=%d target=", IE->fragment_index, !!(IE->flags & GD_EN_HIDDEN));
    puthex(IE->in_fields[0]);
    printf("\n");
    return;
  }
  if (IE->field_type == GD_INDEX_ENTRY) { printf(" INDEX\n"); return; }
  memset(&e, 0, sizeof e);
  if (gd_entry(D, IE->field, &e)) {
    printf(" ERR gd_entry=%d\n", gd_error(D));
    return;
  }
  { int k; for (k = 0; k <= GD_MAX_POLYORD; k++) e.scalar_ind[k] = stored_ind[u][k]; } /* as stored before gd_entry resolved them */
  printf(" type=%02x frag=%d hidden=%d meta=%d", e.field_type, e.fragment_index,
      !!(IE->flags & GD_EN_HIDDEN), IE->e->n_meta == -1);
  switch (e.field_type) {
    case GD_RAW_ENTRY:
      printf(" dtype=%03x", e.EN(raw,data_type));
      snap_scalars(&e, 1);
      if (!e.scalar[0]) printf(" spf=%u", e.EN(raw,spf));
      break;
    case GD_LINCOM_ENTRY:
      n = e.EN(lincom,n_fields);
      printf(" n=%d in=", n);
      for (i = 0; i < n; i++) { if (i) putchar(','); puthex(e.in_fields[i]); }
      printf(" sc=");
      for (i = 0; i < n; i++) {
        if (i) putchar(',');
        puthex(e.scalar[i]); if (e.scalar[i]) printf(":%d", e.scalar_ind[i]);
        putchar('/');
        puthex(e.scalar[i + GD_MAX_LINCOM]); if (e.scalar[i + GD_MAX_LINCOM]) printf(":%d", e.scalar_ind[i + GD_MAX_LINCOM]);
      }
      printf(" p=");
      for (i = 0; i < n; i++) {
        if (i) putchar(',');
        if (e.scalar[i]) putchar('*'); else { putdbl(creal(e.EN(lincom,cm)[i])); putchar(';'); putdbl(cimag(e.EN(lincom,cm)[i])); }
        putchar('/');
        if (e.scalar[i + GD_MAX_LINCOM]) putchar('*'); else { putdbl(creal(e.EN(lincom,cb)[i])); putchar(';'); putdbl(cimag(e.EN(lincom,cb)[i])); }
      }
      break;
    case GD_LINTERP_ENTRY:
      printf(" in="); puthex(e.in_fields[0]);
      printf(" table="); puthex(e.EN(linterp,table));
      break;
    case GD_BIT_ENTRY:
    case GD_SBIT_ENTRY:
      printf(" in="); puthex(e.in_fields[0]);
      snap_scalars(&e, 2);
      printf(" p=");
      if (e.scalar[0]) putchar('*'); else printf("%d", e.EN(bit,bitnum));
      putchar(',');
      if (e.scalar[1]) putchar('*'); else printf("%d", e.EN(bit,numbits));
      break;
    case GD_MULTIPLY_ENTRY:
    case GD_DIVIDE_ENTRY:
    case GD_INDIR_ENTRY:
    case GD_SINDIR_ENTRY:
      printf(" in="); puthex(e.in_fields[0]); putchar(','); puthex(e.in_fields[1]);
      break;
    case GD_RECIP_ENTRY:
      printf(" in="); puthex(e.in_fields[0]);
      snap_scalars(&e, 1);
      printf(" p=");
      if (e.scalar[0]) putchar('*'); else { putdbl(creal(e.EN(recip,cdividend))); putchar(';'); putdbl(cimag(e.EN(recip,cdividend))); }
      break;
    case GD_PHASE_ENTRY:
      printf(" in="); puthex(e.in_fields[0]);
      snap_scalars(&e, 1);
      printf(" p=");
      if (e.scalar[0]) putchar('*'); else printf("%" PRId64, (int64_t)e.EN(phase,shift));
      break;
    case GD_POLYNOM_ENTRY:
      n = e.EN(polynom,poly_ord);
      printf(" in="); puthex(e.in_fields[0]);
      printf(" ord=%d", n);
      snap_scalars(&e, n + 1);
      printf(" p=");
      for (i = 0; i <= n; i++) {
        if (i) putchar(',');
        if (e.scalar[i]) putchar('*'); else { putdbl(creal(e.EN(polynom,ca)[i])); putchar(';'); putdbl(cimag(e.EN(polynom,ca)[i])); }
      }
      break;
    case GD_WINDOW_ENTRY:
      printf(" in="); puthex(e.in_fields[0]); putchar(','); puthex(e.in_fields[1]);
      printf(" op=%d", e.EN(window,windop));
      snap_scalars(&e, 1);
      printf(" p=");
      if (e.scalar[0]) putchar('*');
      else switch (e.EN(window,windop)) {
        case GD_WINDOP_EQ: case GD_WINDOP_NE:
          printf("%" PRId64, (int64_t)e.EN(window,threshold.i)); break;
        case GD_WINDOP_SET: case GD_WINDOP_CLR:
          printf("%" PRIu64, (uint64_t)e.EN(window,threshold.u)); break;
        default:
          putdbl(e.EN(window,threshold.r)); break;
      }
      break;
    case GD_MPLEX_ENTRY:
      printf(" in="); puthex(e.in_fields[0]); putchar(','); puthex(e.in_fields[1]);
      snap_scalars(&e, 2);
      printf(" p=");
      if (e.scalar[0]) putchar('*'); else printf("%d", e.EN(mplex,count_val));
      putchar(',');
      if (e.scalar[1]) putchar('*'); else printf("%d", e.EN(mplex,period));
      break;
    case GD_CONST_ENTRY:
    case GD_CARRAY_ENTRY:
      {
        gd_type_t t = e.EN(scalar,const_type);
        size_t len = (e.field_type == GD_CONST_ENTRY) ? 1 : gd_array_len(D, IE->field);
        size_t k;
        printf(" ctype=%03x len=%zu p=", t, len);
        if (t & GD_COMPLEX) {
          double *v = malloc(16 * (len + 1));
          gd_get_carray(D, IE->field, GD_COMPLEX128, v);
          for (k = 0; k < len; k++) { if (k) putchar(','); putdbl(v[2 * k]); putchar(';'); putdbl(v[2 * k + 1]); }
          free(v);
        } else if (t & GD_IEEE754) {
          double *v = malloc(8 * (len + 1));
          gd_get_carray(D, IE->field, GD_FLOAT64, v);
          for (k = 0; k < len; k++) { if (k) putchar(','); putdbl(v[k]); }
          free(v);
        } else if (t & GD_SIGNED) {
          int64_t *v = malloc(8 * (len + 1));
          gd_get_carray(D, IE->field, GD_INT64, v);
          for (k = 0; k < len; k++) { if (k) putchar(','); printf("%" PRId64, v[k]); }
          free(v);
        } else {
          uint64_t *v = malloc(8 * (len + 1));
          gd_get_carray(D, IE->field, GD_UINT64, v);
          for (k = 0; k < len; k++) { if (k) putchar(','); printf("%" PRIu64, v[k]); }
          free(v);
        }
        if (gd_error(D)) printf(" GETERR=%d", gd_error(D));
      }
      break;
    case GD_STRING_ENTRY:
      {
        const char *s = NULL;
        size_t l = gd_get_string(D, IE->field, 0, NULL);
        char *b = malloc(l + 2);
        b[0] = 0;
        gd_get_string(D, IE->field, l + 1, b);
        printf(" p="); puthex(b);
        free(b);
        (void)s;
      }
      break;
    case GD_SARRAY_ENTRY:
      {
        size_t len = gd_array_len(D, IE->field), k;
        const char **v = malloc(sizeof(char *) * (len + 1));
        gd_get_sarray(D, IE->field, v);
        printf(" len=%zu p=", len);
        for (k = 0; k < len; k++) { if (k) putchar(','); puthex(v[k]); }
        free(v);
      }
      break;
    default:
      printf(" UNKNOWN");
  }
  printf("\n");
  gd_free_entry_strings(&e);
}

static void snapshot(DIRFILE *D, const char *tag)
{
  int i, nf;
  unsigned u;
  printf("SNAP %s %d\n", tag, gd_error(D));
  if (gd_error(D)) {
    char *es = gd_error_string(D, NULL, 0);
    printf("ERRSTR "); puthex(es); printf("\n");
    free(es);
    printf("ENDSNAP\n");
    return;
  }
  nf = gd_nfragments(D);
  printf("NFRAG %d\n", nf);
  for (i = 0; i < nf; i++) {
    char *px = NULL, *sx = NULL;
    const char *fn = gd_fragmentname(D, i);
    const char *bn = fn ? strrchr(fn, '/') : NULL;
    printf("G %d name=", i); puthex(bn ? bn + 1 : fn);
    printf(" enc=%lx end=%lx off=%" PRId64 " prot=%d parent=%d", gd_encoding(D, i),
        gd_endianness(D, i), (int64_t)gd_frameoffset64(D, i), gd_protection(D, i),
        i ? gd_parent_fragment(D, i) : -1);
    gd_fragment_affixes(D, i, &px, &sx);
    printf(" px="); puthex(px); printf(" sx="); puthex(sx);
    printf(" ns="); puthex(gd_fragment_namespace(D, i, NULL));
    printf(" ref="); puthex(D->fragment[i].ref_name);
    printf("\n");
    free(px); free(sx);
    gd_error(D);
  }
  printf("R "); puthex(gd_reference(D, NULL)); printf("\n");
  stored_ind = malloc(sizeof(*stored_ind) * (D->n_entries + 1));
  for (u = 0; u < D->n_entries; u++) {
    int k;
    for (k = 0; k <= GD_MAX_POLYORD; k++) stored_ind[u][k] = D->entry[u]->scalar_ind[k];
  }
  for (u = 0; u < D->n_entries; u++)
    snap_entry(D, D->entry[u], u);
  free(stored_ind);
  printf("ENDSNAP\n");
}

static void dump_text(DIRFILE *D)
{
  int i, nf = gd_nfragments(D);
  for (i = 0; i < nf; i++) {
    const char *fn = gd_fragmentname(D, i);
    FILE *f = fopen(fn, "rb");
    int c;
    printf("TEXT %d ", i);
    if (!f) { printf("!\n"); continue; }
    while ((c = fgetc(f)) != EOF) printf("%02x", c);
    fclose(f);
    printf("\n");
  }
}

/* ------------------------------------------------------------ commands */
#define MAXTOK 400
static char *tok[MAXTOK];
static int ntok;

static void op(int rc, DIRFILE *D)
{
  printf("OP %d %d %d\n", opn, rc, gd_error(D));
}

static void parse_scalars(gd_entry_t *E, int from)
{
  int k = from;
  while (k + 3 < ntok + 0 && strcmp(tok[k], "S") == 0) {
    int i = atoi(tok[k + 1]);
    E->scalar[i] = unhex(tok[k + 2]);
    E->scalar_ind[i] = atoi(tok[k + 3]);
    k += 4;
  }
}

static int find_S(int from)
{
  int k;
  for (k = from; k < ntok; k++) if (strcmp(tok[k], "S") == 0) return k;
  return ntok;
}

static void do_add(DIRFILE *D)
{
  gd_entry_t E;
  const char *ty = tok[1];
  char *parent = unhex(tok[3]);
  int i, k = 5, rc, n;
  memset(&E, 0, sizeof E);
  for (i = 0; i <= GD_MAX_POLYORD; i++) E.scalar_ind[i] = -1;
  E.fragment_index = atoi(tok[2]);
  E.field = unhex(tok[4]);
  if (!strcmp(ty, "RAW")) {
    E.field_type = GD_RAW_ENTRY;
    E.EN(raw,data_type) = strtoul(tok[k], NULL, 16);
    E.EN(raw,spf) = strtoul(tok[k + 1], NULL, 10);
    parse_scalars(&E, k + 2);
  } else if (!strcmp(ty, "LINCOM")) {
    E.field_type = GD_LINCOM_ENTRY;
    n = E.EN(lincom,n_fields) = atoi(tok[k]);
    if (atoi(tok[k + 1])) E.flags |= GD_EN_COMPSCAL;
    k += 2;
    for (i = 0; i < n && i < GD_MAX_LINCOM; i++) {
      double mr, mi, br, bi;
      E.in_fields[i] = unhex(tok[k]);
      mr = dbl(tok[k + 1]); mi = dbl(tok[k + 2]); br = dbl(tok[k + 3]); bi = dbl(tok[k + 4]);
      E.EN(lincom,m)[i] = mr; E.EN(lincom,b)[i] = br;
      ((double *)&E.EN(lincom,cm)[i])[0] = mr; ((double *)&E.EN(lincom,cm)[i])[1] = mi;
      ((double *)&E.EN(lincom,cb)[i])[0] = br; ((double *)&E.EN(lincom,cb)[i])[1] = bi;
      k += 5;
    }
    parse_scalars(&E, k);
  } else if (!strcmp(ty, "LINTERP")) {
    E.field_type = GD_LINTERP_ENTRY;
    E.in_fields[0] = unhex(tok[k]);
    E.EN(linterp,table) = unhex(tok[k + 1]);
  } else if (!strcmp(ty, "BIT") || !strcmp(ty, "SBIT")) {
    E.field_type = ty[0] == 'S' ? GD_SBIT_ENTRY : GD_BIT_ENTRY;
    E.in_fields[0] = unhex(tok[k]);
    E.EN(bit,bitnum) = atoi(tok[k + 1]);
    E.EN(bit,numbits) = atoi(tok[k + 2]);
    parse_scalars(&E, k + 3);
  } else if (!strcmp(ty, "MULTIPLY") || !strcmp(ty, "DIVIDE") || !strcmp(ty, "INDIR") || !strcmp(ty, "SINDIR")) {
    E.field_type = ty[0] == 'M' ? GD_MULTIPLY_ENTRY : ty[0] == 'D' ? GD_DIVIDE_ENTRY :
      ty[0] == 'I' ? GD_INDIR_ENTRY : GD_SINDIR_ENTRY;
    E.in_fields[0] = unhex(tok[k]);
    E.in_fields[1] = unhex(tok[k + 1]);
  } else if (!strcmp(ty, "RECIP")) {
    E.field_type = GD_RECIP_ENTRY;
    E.in_fields[0] = unhex(tok[k]);
    if (atoi(tok[k + 1])) E.flags |= GD_EN_COMPSCAL;
    E.EN(recip,dividend) = dbl(tok[k + 2]);
    ((double *)&E.EN(recip,cdividend))[0] = dbl(tok[k + 2]);
    ((double *)&E.EN(recip,cdividend))[1] = dbl(tok[k + 3]);
    parse_scalars(&E, k + 4);
  } else if (!strcmp(ty, "PHASE")) {
    E.field_type = GD_PHASE_ENTRY;
    E.in_fields[0] = unhex(tok[k]);
    E.EN(phase,shift) = strtoll(tok[k + 1], NULL, 10);
    parse_scalars(&E, k + 2);
  } else if (!strcmp(ty, "POLYNOM")) {
    E.field_type = GD_POLYNOM_ENTRY;
    E.in_fields[0] = unhex(tok[k]);
    n = E.EN(polynom,poly_ord) = atoi(tok[k + 1]);
    if (atoi(tok[k + 2])) E.flags |= GD_EN_COMPSCAL;
    k += 3;
    for (i = 0; i <= n && i <= GD_MAX_POLYORD; i++) {
      E.EN(polynom,a)[i] = dbl(tok[k]);
      ((double *)&E.EN(polynom,ca)[i])[0] = dbl(tok[k]);
      ((double *)&E.EN(polynom,ca)[i])[1] = dbl(tok[k + 1]);
      k += 2;
    }
    parse_scalars(&E, k);
  } else if (!strcmp(ty, "WINDOW")) {
    uint64_t u;
    E.field_type = GD_WINDOW_ENTRY;
    E.in_fields[0] = unhex(tok[k]);
    E.in_fields[1] = unhex(tok[k + 1]);
    E.EN(window,windop) = atoi(tok[k + 2]);
    u = strtoull(tok[k + 3], NULL, 16);
    memcpy(&E.EN(window,threshold), &u, 8);
    parse_scalars(&E, k + 4);
  } else if (!strcmp(ty, "MPLEX")) {
    E.field_type = GD_MPLEX_ENTRY;
    E.in_fields[0] = unhex(tok[k]);
    E.in_fields[1] = unhex(tok[k + 1]);
    E.EN(mplex,count_val) = atoi(tok[k + 2]);
    E.EN(mplex,period) = atoi(tok[k + 3]);
    parse_scalars(&E, k + 4);
  } else if (!strcmp(ty, "CONST") || !strcmp(ty, "CARRAY")) {
    int arr = ty[1] == 'A';
    gd_type_t t = strtoul(tok[k], NULL, 16);
    size_t len = arr ? strtoul(tok[k + 1], NULL, 10) : 1, z;
    gd_type_t st;
    void *buf = calloc(len + 1, 16);
    E.field_type = arr ? GD_CARRAY_ENTRY : GD_CONST_ENTRY;
    E.EN(scalar,const_type) = t;
    E.EN(scalar,array_len) = len;
    k += arr ? 2 : 1;
    st = (t & GD_COMPLEX) ? GD_COMPLEX128 : (t & GD_IEEE754) ? GD_FLOAT64 : (t & GD_SIGNED) ? GD_INT64 : GD_UINT64;
    for (z = 0; z < len; z++) {
      uint64_t re = strtoull(tok[k], NULL, 16), im = strtoull(tok[k + 1], NULL, 16);
      if (t & GD_COMPLEX) { ((uint64_t *)buf)[2 * z] = re; ((uint64_t *)buf)[2 * z + 1] = im; }
      else ((uint64_t *)buf)[z] = re;
      k += 2;
    }
    rc = parent ? gd_madd(D, &E, parent) : gd_add(D, &E);
    op(rc, D);
    if (rc == 0) {
      char code[4000];
      if (parent) snprintf(code, sizeof code, "%s/%s", parent, E.field);
      else snprintf(code, sizeof code, "%s", E.field);
      rc = gd_put_carray(D, code, st, buf);
      op(rc, D);
    }
    free(buf);
    return;
  } else if (!strcmp(ty, "STRING")) {
    char *v = unhex(tok[k]);
    rc = parent ? gd_madd_string(D, parent, E.field, v) : gd_add_string(D, E.field, v, E.fragment_index);
    op(rc, D);
    return;
  } else if (!strcmp(ty, "SARRAY")) {
    const char *v[MAXTOK];
    n = atoi(tok[k]);
    for (i = 0; i < n; i++) v[i] = unhex(tok[k + 1 + i]);
    rc = parent ? gd_madd_sarray(D, parent, E.field, n, v) : gd_add_sarray(D, E.field, n, v, E.fragment_index);
    op(rc, D);
    return;
  } else {
    printf("OP %d BADTYPE\n", opn);
    return;
  }
  (void)find_S;
  rc = parent ? gd_madd(D, &E, parent) : gd_add(D, &E);
  op(rc, D);
}

int main(int argc, char **argv)
{
  static char line[1 << 20];
  DIRFILE *D = NULL;
  char dir[4200], cmd[4300];
  int caseno = 0;
  unsigned long oflags = 0;
  if (argc < 2) { fprintf(stderr, "usage: rt <scratch>\n"); return 2; }
  snprintf(base, sizeof base, "%s", argv[1]);
  unsetenv("LOGNAME"); unsetenv("USER"); unsetenv("HOSTNAME");
  while (fgets(line, sizeof line, stdin)) {
    char *p;
    ntok = 0;
    for (p = strtok(line, " \t\r\n"); p && ntok < MAXTOK; p = strtok(NULL, " \t\r\n")) tok[ntok++] = p;
    if (ntok == 0) continue;
    opn++;
    if (!strcmp(tok[0], "CASE")) {
      printf("CASE %s\n", tok[1]);
      fflush(stdout);
      snprintf(dir, sizeof dir, "%s/d%d", base, caseno++);
      snprintf(cmd, sizeof cmd, "rm -rf '%s'", dir);
      if (system(cmd)) {}
      opn = 0; oflags = 0; D = NULL;
    } else if (!strcmp(tok[0], "OPEN")) {
      oflags = strtoul(tok[1], NULL, 16);
      D = gd_open(dir, GD_RDWR | GD_CREAT | GD_EXCL | oflags);
      op(0, D);
      if (!gd_error(D)) { gd_alter_encoding(D, GD_UNENCODED, 0, 0); }
    } else if (D == NULL) {
      continue;
    } else if (!strcmp(tok[0], "STD")) {
      int rc = gd_dirfile_standards(D, atoi(tok[1]));
      op(rc, D);
    } else if (!strcmp(tok[0], "FRAGATTR")) {
      int f = atoi(tok[1]);
      unsigned long en = strtoul(tok[2], NULL, 16);
      int pr = atoi(tok[3]);
      int64_t fo = strtoll(tok[4], NULL, 10);
      long enc = strtol(tok[5], NULL, 16);
      int rc = 0;
      if (en) rc |= gd_alter_endianness(D, en, f, 0);
      if (fo) rc |= gd_alter_frameoffset64(D, fo, f, 0);
      if (enc >= 0) rc |= gd_alter_encoding(D, enc, f, 0);
      if (pr >= 0) rc |= gd_alter_protection(D, pr, f);
      op(rc, D);
    } else if (!strcmp(tok[0], "INC")) {
      int parent = atoi(tok[1]);
      char *file = unhex(tok[2]), *ns = unhex(tok[3]), *px = unhex(tok[4]), *sx = unhex(tok[5]);
      char pfx[4000];
      int rc;
      if (ns && ns[0]) snprintf(pfx, sizeof pfx, "%s.%s", ns, px ? px : "");
      else snprintf(pfx, sizeof pfx, "%s", px ? px : "");
      /* the new fragment gets the parent's byte sex (the API default is the native one) */
      rc = gd_include_affix(D, file, parent, pfx[0] ? pfx : NULL, sx,
          GD_CREAT | (gd_endianness(D, parent) & (GD_BIG_ENDIAN | GD_LITTLE_ENDIAN)));
      op(rc, D);
    } else if (!strcmp(tok[0], "ADD")) {
      do_add(D);
    } else if (!strcmp(tok[0], "ALIAS")) {
      char *parent = unhex(tok[2]);
      int rc = parent ? gd_madd_alias(D, parent, unhex(tok[3]), unhex(tok[4]))
        : gd_add_alias(D, unhex(tok[3]), unhex(tok[4]), atoi(tok[1]));
      op(rc, D);
    } else if (!strcmp(tok[0], "HIDE")) {
      op(gd_hide(D, unhex(tok[1])), D);
    } else if (!strcmp(tok[0], "REF")) {
      const char *r = gd_reference(D, unhex(tok[1]));
      op(r ? 0 : -1, D);
    } else if (!strcmp(tok[0], "MFLUSH")) {
      op(gd_metaflush(D), D);
    } else if (!strcmp(tok[0], "RENAME")) {
      op(gd_rename(D, unhex(tok[1]), unhex(tok[2]), strtoul(tok[3], NULL, 16)), D);
    } else if (!strcmp(tok[0], "MOVE")) {
      op(gd_move(D, unhex(tok[1]), atoi(tok[2]), strtoul(tok[3], NULL, 16)), D);
    } else if (!strcmp(tok[0], "DELETE")) {
      op(gd_delete(D, unhex(tok[1]), strtoul(tok[2], NULL, 16)), D);
    } else if (!strcmp(tok[0], "UNHIDE")) {
      op(gd_unhide(D, unhex(tok[1])), D);
    } else if (!strcmp(tok[0], "PUTS")) {
      op(gd_put_string(D, unhex(tok[1]), unhex(tok[2])), D);
    } else if (!strcmp(tok[0], "PUTC")) {
      /* PUTC <code> <class: I U D> <hex64> */
      uint64_t v = strtoull(tok[3], NULL, 16);
      gd_type_t t = tok[2][0] == 'I' ? GD_INT64 : tok[2][0] == 'U' ? GD_UINT64 : GD_FLOAT64;
      op(gd_put_constant(D, unhex(tok[1]), t, &v), D);
    } else if (!strcmp(tok[0], "UNINCLUDEN") || !strcmp(tok[0], "INCN")) {
      /* the fragment is named by its file name: indices change when fragments are un-included */
      char *want = unhex(tok[1]);
      int i, found = -1, nf = gd_nfragments(D);
      for (i = 0; i < nf; i++) {
        const char *fn = gd_fragmentname(D, i);
        const char *bn = fn ? strrchr(fn, '/') : NULL;
        if (fn && strcmp(bn ? bn + 1 : fn, want) == 0) found = i;
      }
      gd_error(D);
      if (found < 0) { printf("OP %d -1 0\n", opn); }
      else if (tok[0][0] == 'U') op(gd_uninclude(D, found, 0), D);
      else {
        char *file = unhex(tok[2]), *px = unhex(tok[3]), *sx = unhex(tok[4]);
        op(gd_include_affix(D, file, found, px, sx,
              GD_CREAT | (gd_endianness(D, found) & (GD_BIG_ENDIAN | GD_LITTLE_ENDIAN))), D);
      }
    } else if (!strcmp(tok[0], "ALTLINCOM")) {
      /* ALTLINCOM <code> <complex api 0/1> <n (0 keep)> I <k> <in>*k M <k> (<re> <im>)*k B <k> (<re> <im>)*k   (k = 0: NULL) */
      const char *inf[GD_MAX_LINCOM], **ip = NULL;
      double m[2 * GD_MAX_LINCOM], b[2 * GD_MAX_LINCOM], rm[GD_MAX_LINCOM], rb[GD_MAX_LINCOM];
      int cplx = atoi(tok[2]), n = atoi(tok[3]), k = 4, i, kk, hm = 0, hb = 0;
      kk = atoi(tok[k + 1]); k += 2;
      for (i = 0; i < kk && i < GD_MAX_LINCOM; i++) inf[i] = unhex(tok[k + i]);
      if (kk) ip = inf;
      k += kk;
      kk = atoi(tok[k + 1]); k += 2; hm = kk;
      for (i = 0; i < kk && i < GD_MAX_LINCOM; i++) { m[2 * i] = rm[i] = dbl(tok[k + 2 * i]); m[2 * i + 1] = dbl(tok[k + 2 * i + 1]); }
      k += 2 * kk;
      kk = atoi(tok[k + 1]); k += 2; hb = kk;
      for (i = 0; i < kk && i < GD_MAX_LINCOM; i++) { b[2 * i] = rb[i] = dbl(tok[k + 2 * i]); b[2 * i + 1] = dbl(tok[k + 2 * i + 1]); }
      if (cplx) op(gd_alter_clincom(D, unhex(tok[1]), n, ip, hm ? (void *)m : NULL, hb ? (void *)b : NULL), D);
      else op(gd_alter_lincom(D, unhex(tok[1]), n, ip, hm ? rm : NULL, hb ? rb : NULL), D);
    } else if (!strcmp(tok[0], "ALTPOLYNOM")) {
      /* ALTPOLYNOM <code> <complex api> <ord (0 keep)> <in|-> A <k> (<re> <im>)*k */
      double a[2 * (GD_MAX_POLYORD + 1)], ra[GD_MAX_POLYORD + 1];
      int cplx = atoi(tok[2]), ord = atoi(tok[3]), kk = atoi(tok[6]), i;
      for (i = 0; i < kk && i <= GD_MAX_POLYORD; i++) { a[2 * i] = ra[i] = dbl(tok[7 + 2 * i]); a[2 * i + 1] = dbl(tok[8 + 2 * i]); }
      if (cplx) op(gd_alter_cpolynom(D, unhex(tok[1]), ord, unhex(tok[4]), kk ? (void *)a : NULL), D);
      else op(gd_alter_polynom(D, unhex(tok[1]), ord, unhex(tok[4]), kk ? ra : NULL), D);
    } else if (!strcmp(tok[0], "ALTRECIP")) {
      /* ALTRECIP <code> <complex api> <in|-> <re> <im> */
      double c2[2];
      c2[0] = dbl(tok[4]); c2[1] = dbl(tok[5]);
      if (atoi(tok[2])) op(gd_alter_crecip89(D, unhex(tok[1]), unhex(tok[3]), c2), D);
      else op(gd_alter_recip(D, unhex(tok[1]), unhex(tok[3]), c2[0]), D);
    } else if (!strcmp(tok[0], "ADDSPEC")) {
      op(gd_add_spec(D, unhex(tok[1]), atoi(tok[2])), D);
    } else if (!strcmp(tok[0], "MADDSPEC")) {
      op(gd_madd_spec(D, unhex(tok[1]), unhex(tok[2])), D);
    } else if (!strcmp(tok[0], "ALTERAFFIX")) {
      op(gd_alter_affixes(D, atoi(tok[1]), unhex(tok[2]), unhex(tok[3])), D);
    } else if (!strcmp(tok[0], "NSALTER")) {
      const char *r = gd_fragment_namespace(D, atoi(tok[1]), unhex(tok[2]));
      op(r ? 0 : -1, D);
    } else if (!strcmp(tok[0], "ALTERSPEC")) {
      op(gd_alter_spec(D, unhex(tok[1]), atoi(tok[2])), D);
    } else if (!strcmp(tok[0], "UNINCLUDE")) {
      op(gd_uninclude(D, atoi(tok[1]), 0), D);
    } else if (!strcmp(tok[0], "FLUSH")) {
      int rc = gd_metaflush(D);
      int std, perm;
      op(rc, D);
      std = D->standards; perm = !!(D->flags & GD_NOSTANDARD);
      printf("STDV %d %d av=%" PRIx64 "\n", std, perm, (uint64_t)D->av);
      if (rc == 0) {
        dump_text(D);
        snapshot(D, "A");
        gd_discard(D);
        D = gd_open(dir, GD_RDONLY);
        snapshot(D, "B");
        gd_discard(D);
        D = gd_open(dir, GD_RDONLY | GD_PEDANTIC);
        snapshot(D, "C");
        gd_discard(D);
      } else
        gd_discard(D);
      D = NULL;
    } else if (!strcmp(tok[0], "END")) {
      if (D) gd_discard(D);
      D = NULL;
      snprintf(cmd, sizeof cmd, "rm -rf '%s'", dir);
      if (system(cmd)) {}
      printf("ENDCASE\n");
      fflush(stdout);
    }
  }
  return 0;
}
