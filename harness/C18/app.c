/* C18 harness: an appending writer (run under harness/C12/shim in interactive
 * mode, which stops it before every system call) and a reader process.
 *
 *  app write DIR OP...      library writer; between the markers:
 *        p:<field>:<n>      gd_putdata of the next n SAMPLES of <field> (sample i of a field
 *                           has the value base+i, base = 1000 for a, 0 for b (mod 256))
 *        P:<field>:<n>      the same at the I/O pointer (GD_HERE);  n = the writer polls gd_nframes, e = gd_eof of a
 *        h                  heartbeat: gd_put_constant("hb", ++beat) (metadata that changes between flushes)
 *        s | f | m | c      gd_sync(NULL) | gd_flush(NULL) | gd_metaflush | gd_raw_close(NULL)
 *  app rawwrite FILE ESIZE BASE FIRST NSAMPLES CHUNK...
 *                           a foreign acquisition program: appends the little-endian samples
 *                           FIRST..FIRST+NSAMPLES-1 to FILE with write(2) calls of CHUNK bytes
 *                           (cyclic), i.e. cutting samples and frames anywhere
 *  app reader DIR           long-lived reader; commands on stdin, one answer line each:
 *        fresh              gd_open, gd_nframes64, read frames [0,nframes) of a and b, close
 *        held               the same through a handle opened at start-up
 *        greedy             a second handle opened at start-up reads a sequentially: from the
 *                           sample after the last one it got, asking for more than exists
 */
#include "internal.h"
#include <inttypes.h>
#include <dirent.h>

static void mark(const char *m) { access(m, F_OK); }

static void pass(DIRFILE *D, const char *tag)
{
  off64_t nf;
  int e0 = (tag[0] == 'f') ? gd_error(D) : 0;   /* only a handle that was just opened can carry an open error */
  if (e0) { printf("%s openerr %d\n", tag, e0); return; }
  nf = gd_nframes64(D);
  printf("%s nf %" PRId64 " e %d", tag, (int64_t)nf, gd_error(D));
  {
    uint32_t hb = 0;
    int he = gd_get_constant(D, "hb", GD_UINT32, &hb);
    printf(" hb %u he %d", hb, he ? gd_error(D) : 0);
  }
  if (nf > 0 && nf < 100000) {
    const char *fl[2] = { "a", "b" };
    int k;
    for (k = 0; k < 2; k++) {
      unsigned spf = gd_spf(D, fl[k]);
      size_t ns = (size_t)nf * spf, got, i;
      int32_t *v = malloc(sizeof(int32_t) * (ns + 1));
      got = gd_getdata64(D, fl[k], 0, 0, (size_t)nf, 0, GD_INT32, v);
      printf(" | %s spf %u got %zu e %d :", fl[k], spf, got, gd_error(D));
      for (i = 0; i < got; i++) printf(" %d", v[i]);
      free(v);
    }
  }
  printf("\n");
}

int main(int argc, char **argv)
{
  setvbuf(stdout, NULL, _IOLBF, 0);
  if (argc >= 3 && !strcmp(argv[1], "reader")) {
    char line[64];
    DIRFILE *H = gd_open(argv[2], GD_RDONLY);
    DIRFILE *G = gd_open(argv[2], GD_RDONLY);
    off64_t last = 0;
    printf("ready %d %d\n", gd_error(H), gd_error(G));
    while (fgets(line, sizeof line, stdin)) {
      if (!strncmp(line, "fresh", 5)) {
        DIRFILE *D = gd_open(argv[2], GD_RDONLY);
        pass(D, "fresh");
        gd_discard(D);
      } else if (!strncmp(line, "held", 4)) {
        pass(H, "held");
      } else if (!strncmp(line, "greedy", 6)) {
        int32_t *v = malloc(sizeof(int32_t) * 4096);
        size_t got, i;
        got = gd_getdata64(G, "a", 0, last, 0, 4000, GD_INT32, v);
        printf("greedy from %" PRId64 " got %zu e %d :", (int64_t)last, got, gd_error(G));
        for (i = 0; i < got; i++) printf(" %d", v[i]);
        printf("\n");
        last += got;
        free(v);
      } else printf("?\n");
    }
    gd_discard(H); gd_discard(G);
    return 0;
  }
  if (argc >= 8 && !strcmp(argv[1], "rawwrite")) {
    int esize = atoi(argv[3]);
    long base = atol(argv[4]), first = atol(argv[5]), ns = atol(argv[6]);
    size_t total = (size_t)ns * esize, off = 0;
    unsigned char *buf = malloc(total + 1);
    long i;
    int c = 7, fd;
    for (i = 0; i < ns; i++) {
      long v = base + first + i;
      int b;
      for (b = 0; b < esize; b++) buf[i * esize + b] = (unsigned char)((v >> (8 * b)) & 0xff);
    }
    mark("/__GD_MARK_BEGIN__");
    fd = open(argv[2], O_WRONLY | O_CREAT | O_APPEND, 0666);
    while (off < total) {
      size_t n = (size_t)atoi(argv[c]);
      if (n == 0) n = 1;
      if (n > total - off) n = total - off;
      if (write(fd, buf + off, n) != (ssize_t)n) return 4;
      off += n;
      if (++c >= argc) c = 7;
    }
    close(fd);
    mark("/__GD_MARK_END__");
    return 0;
  }
  if (argc >= 4 && !strcmp(argv[1], "write")) {
    int i;
    DIRFILE *D = gd_open(argv[2], GD_RDWR);
    off64_t next_a, next_b;
    printf("open %d\n", gd_error(D));
    if (gd_error(D)) return 3;
    next_a = gd_eof64(D, "a"); next_b = gd_eof64(D, "b");
    if (next_a < 0) next_a = 0;
    if (next_b < 0) next_b = 0;
    mark("/__GD_MARK_BEGIN__");
    for (i = 3; i < argc; i++) {
      char *op = argv[i];
      int r = 0;
      if (op[0] == 'p') {
        char f = op[2];
        size_t n = (size_t)atoi(op + 4), k;
        int32_t *v = malloc(sizeof(int32_t) * (n + 1));
        off64_t *nx = (f == 'a') ? &next_a : &next_b;
        for (k = 0; k < n; k++) v[k] = (f == 'a') ? (int32_t)(1000 + *nx + k) : (int32_t)((*nx + k) & 0xff);
        size_t w = gd_putdata64(D, f == 'a' ? "a" : "b", 0, *nx, 0, n, GD_INT32, v);
        *nx += w;
        r = gd_error(D);
        free(v);
      } else if (op[0] == 'P') {
        /* append n samples at the I/O pointer (GD_HERE): the library decides where they go */
        char f = op[2];
        size_t n = (size_t)atoi(op + 4), k;
        int32_t *v = malloc(sizeof(int32_t) * (n + 1));
        off64_t *nx = (f == 'a') ? &next_a : &next_b;
        for (k = 0; k < n; k++) v[k] = (f == 'a') ? (int32_t)(1000 + *nx + k) : (int32_t)((*nx + k) & 0xff);
        size_t w = gd_putdata64(D, f == 'a' ? "a" : "b", GD_HERE, 0, 0, n, GD_INT32, v);
        *nx += w;
        r = gd_error(D);
        free(v);
      } else if (op[0] == 'n') {
        /* the writer polls its own frame count / end of field between appends */
        off64_t nf = gd_nframes64(D);
        r = gd_error(D);
        (void)nf;
      } else if (op[0] == 'e') {
        gd_eof64(D, "a");
        r = gd_error(D);
      } else if (op[0] == 'h') {
        static uint32_t beat = 0;
        beat++;
        r = gd_put_constant(D, "hb", GD_UINT32, &beat);
      } else if (op[0] == 's') r = gd_sync(D, NULL);
      else if (op[0] == 'f') r = gd_flush(D, NULL);
      else if (op[0] == 'm') r = gd_metaflush(D);
      else if (op[0] == 'c') r = gd_raw_close(D, NULL);
      printf("op %s ret %d\n", op, r);
    }
    i = gd_close(D);
    mark("/__GD_MARK_END__");
    printf("close %d\n", i);
    return 0;
  }
  if (argc >= 4 && !strcmp(argv[1], "soak")) {
    /* app soak DIR ROUNDS : the long-running reader.  One handle R stays open for the whole run and is polled
     * ROUNDS times; a second handle W of the same process appends in some rounds (1..4 samples, then gd_flush so
     * that the data are published) and stays idle in others; the first rounds poll a still-empty dirfile.
     * Every round R asks for gd_nframes and reads exactly the frames it has not seen yet (possibly none: a
     * zero-length gd_getdata).  Reported: open descriptors and R->recurse_level (min/max after a warm-up),
     * number of rounds in which a reported frame could not be read back correctly, errors. */
    int rounds = atoi(argv[3]), r, bad = 0, first_bad = -1, errs = 0, first_err = -1, last_errcode = 0;
    int fdmin = 1 << 30, fdmax = -1, recmax = 0, nfdec = 0;
    DIRFILE *R = gd_open(argv[2], GD_RDONLY);
    DIRFILE *W = gd_open(argv[2], GD_RDWR);
    off64_t next_a = 0, seen = 0, last_nf = 0;
    unsigned spf;
    if (gd_error(R) || gd_error(W)) { printf("soak openerr %d %d\n", gd_error(R), gd_error(W)); return 3; }
    spf = gd_spf(R, "a");
    next_a = gd_eof64(W, "a"); if (next_a < 0) next_a = 0;
    for (r = 0; r < rounds; r++) {
      int k = (r < 10) ? 0 : ((r * 7 + 3) % 5);     /* 0 = idle round */
      off64_t nf;
      if (k > 0) {
        int32_t v[8]; int i;
        for (i = 0; i < k; i++) v[i] = (int32_t)(1000 + next_a + i);
        next_a += gd_putdata64(W, "a", 0, next_a, 0, k, GD_INT32, v);
        gd_flush(W, NULL);
      }
      nf = gd_nframes64(R);
      if (gd_error(R)) { if (next_a > 0) { errs++; if (first_err < 0) first_err = r; last_errcode = gd_error(R); } }
      else {
        if (nf < last_nf) nfdec++;
        last_nf = nf;
        {
          size_t want = (size_t)((nf - seen) * spf), got, i;
          int32_t *buf = malloc(sizeof(int32_t) * (want + 1));
          int okf = 1;
          got = gd_getdata64(R, "a", seen, 0, (size_t)(nf - seen), 0, GD_INT32, buf);
          if (gd_error(R)) { errs++; if (first_err < 0) first_err = r; last_errcode = gd_error(R); okf = 0; }
          else if (got != want) okf = 0;
          else for (i = 0; i < got; i++) if (buf[i] != (int32_t)(1000 + seen * spf + i)) okf = 0;
          if (!okf) { bad++; if (first_bad < 0) { first_bad = r; printf("soakbad round %d seen %lld nf %lld want %zu got %zu err %d first %d\n", r, (long long)seen, (long long)nf, want, got, gd_error(R), got ? buf[0] : -1); } }
          free(buf);
          if (nf > seen) seen = nf;
        }
      }
      if (r >= 20) {
        int nfd = 0;
        DIR *dd = opendir("/proc/self/fd");
        struct dirent *de;
        while (dd && (de = readdir(dd))) if (de->d_name[0] != '.') nfd++;
        if (dd) closedir(dd);
        if (nfd < fdmin) fdmin = nfd;
        if (nfd > fdmax) fdmax = nfd;
      }
      if (R->recurse_level > recmax) recmax = R->recurse_level;
    }
    printf("soak rounds %d nf %lld written_frames %lld fdmin %d fdmax %d recmax %d bad %d first_bad %d errs %d first_err %d errcode %d nfdec %d\n",
        rounds, (long long)last_nf, (long long)(next_a / spf), fdmin, fdmax, recmax, bad, first_bad, errs, first_err, last_errcode, nfdec);
    gd_discard(R); gd_close(W);
    return 0;
  }
  fprintf(stderr, "usage: app write|rawwrite|reader|soak ...\n");
  return 2;
}
