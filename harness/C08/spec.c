/* C08 harness: format fragments through gd_cbopen with a parser callback.
 *
 * stdin : one case per line:  <P|Q><I|C|A|R> <format-hex> [<rescan-line-hex>]
 *           P = GD_PEDANTIC, Q = GD_PERMISSIVE
 *           callback answer: I = GD_SYNTAX_IGNORE, C = GD_SYNTAX_CONTINUE,
 *           A = GD_SYNTAX_ABORT, R = GD_SYNTAX_RESCAN once per line with the
 *           offending line replaced by <rescan-line> (then IGNORE)
 * stdout: one line per case:
 *   E<gd_error> S<suberror of the reported error or 0> L<its line or 0>
 *   C<number of callbacks>[ <suberror>@<line>...] F<gd_nfields>
 *   O<frame offset of fragment 0> N<1 if GD_ARM_ENDIAN is set on fragment 0>
 *   P<samples per frame of field "x", or -1> T<entry type of "x" or 0>
 * The dirfile directory also contains an empty fragment "frag" (for INCLUDE).
 */
#include "internal.h"
#include <inttypes.h>

#define MAXCB 64
static int ncb, cb_sub[MAXCB], cb_line[MAXCB], action, rescanned_line;
static char rescan_text[8192];

static int cb(gd_parser_data_t *p, void *extra)
{
  (void)extra;
  if (ncb < MAXCB) { cb_sub[ncb] = p->suberror; cb_line[ncb] = p->linenum; }
  ncb++;
  switch (action) {
    case 'C': return GD_SYNTAX_CONTINUE;
    case 'A': return GD_SYNTAX_ABORT;
    case 'R':
      if (rescanned_line != p->linenum) {
        rescanned_line = p->linenum;
        /* the library guarantees GD_MAX_LINE_LENGTH bytes at p->line */
        strncpy(p->line, rescan_text, GD_MAX_LINE_LENGTH - 1);
        p->line[GD_MAX_LINE_LENGTH - 1] = 0;
        return GD_SYNTAX_RESCAN;
      }
      return GD_SYNTAX_IGNORE;
    default: return GD_SYNTAX_IGNORE;
  }
}

static size_t unhex(const char *h, char *out)
{
  size_t n = 0;
  if (h[0] == '-') { out[0] = 0; return 0; }
  while (isxdigit((unsigned char)h[0]) && isxdigit((unsigned char)h[1])) {
    unsigned v; sscanf(h, "%2x", &v); out[n++] = (char)v; h += 2;
  }
  out[n] = 0;
  return n;
}

int main(void)
{
  char tmpl[] = "/var/tmp/verif-c08s-XXXXXX", path[512], cmd[600];
  static char line[65536], content[32768];
  if (!mkdtemp(tmpl)) { perror("mkdtemp"); return 2; }
  while (fgets(line, sizeof line, stdin)) {
    char *sp = strchr(line, ' '), *sp2;
    size_t n;
    FILE *f;
    DIRFILE *D;
    int i, e, sub = 0, eline = 0;
    unsigned long flags = GD_RDONLY;
    gd_entry_t E;
    if (!sp || strlen(line) < 4) { printf("BADCASE\n"); continue; }
    flags |= (line[0] == 'P') ? GD_PEDANTIC : GD_PERMISSIVE;
    action = line[1];
    sp2 = strchr(sp + 1, ' ');
    rescan_text[0] = 0;
    if (sp2) { unhex(sp2 + 1, rescan_text); }
    n = unhex(sp + 1, content);
    snprintf(path, sizeof path, "%s/format", tmpl);
    f = fopen(path, "w"); if (!f) { perror(path); return 2; }
    fwrite(content, 1, n, f); fclose(f);
    snprintf(path, sizeof path, "%s/frag", tmpl);
    f = fopen(path, "w"); if (f) fclose(f);
    ncb = 0; rescanned_line = -1;
    D = gd_cbopen(tmpl, flags, cb, NULL);
    e = gd_error(D);
    if (e == GD_E_FORMAT) { sub = D->suberror; eline = D->error_line; }
    printf("E%d S%d L%d C%d", e, sub, eline, ncb);
    for (i = 0; i < ncb && i < MAXCB; i++) printf(" %d@%d", cb_sub[i], cb_line[i]);
    if (e == 0) {
      unsigned int nf = gd_nfields(D);
      long long fo = (long long)gd_frameoffset64(D, 0);
      unsigned long en = gd_endianness(D, 0);
      int spf = -1, ty = 0;
      if (gd_entry(D, "x", &E) == 0) {
        ty = E.field_type;
        if (E.field_type == GD_RAW_ENTRY) spf = (int)E.EN(raw,spf);
        gd_free_entry_strings(&E);
      }
      printf(" F%u O%lld N%d P%d T%d\n", nf, fo, (en & GD_ARM_ENDIAN) ? 1 : 0, spf, ty);
    } else printf(" F- O- N- P- T-\n");
    gd_discard(D);
  }
  snprintf(cmd, sizeof cmd, "rm -rf %s", tmpl);
  if (system(cmd)) {}
  return 0;
}
