/* C08 harness: format fragments through gd_cbopen with a parser callback.
 *
 * stdin : one case per line:  <P|Q|D><I|C|A|R> <format-hex> [<rescan-line-hex>] [<name>=<hex> ...]
 *           P = GD_PEDANTIC, Q = GD_PERMISSIVE, D = neither (a /VERSION switches to pedantic);
 *           <name>=<hex>: a further fragment file of that name in the dirfile directory
 *           callback answer: I = GD_SYNTAX_IGNORE, C = GD_SYNTAX_CONTINUE,
 *           A = GD_SYNTAX_ABORT, R = GD_SYNTAX_RESCAN once per line with the
 *           offending line replaced by <rescan-line> (then IGNORE)
 *         or  P=<answers> <format-hex>: the k-th callback call answers with the
 *           k-th letter (last one repeated): I C A as above, R = RESCAN with the
 *           line replaced by an acceptable one, X = an invalid response (77)
 * stdout: one line per case:
 *   E<gd_error> S<suberror of the reported error or 0> L<its line or 0>
 *   C<number of callbacks>[ <suberror>@<line>...] F<gd_nfields>
 *   O<frame offset of fragment 0> N<1 if GD_ARM_ENDIAN is set on fragment 0>
 *   P<samples per frame of field "x", or -1> T<entry type of "x" or 0>
 *   X:<canonical dump of the entry "x" (type, input fields, parameters as
 *      L<literal> or S<scalar code>[<index>]), or X:- >
 * The dirfile directory also contains an empty fragment "frag" (for INCLUDE).
 */
#include "internal.h"
#include <inttypes.h>

#define MAXCB 64
static int ncb, cb_sub[MAXCB], cb_line[MAXCB], action, rescanned_line;
static char rescan_text[8192];
static char extra[4][600];
static int nextra;
static const char *answers;   /* non-NULL: one answer letter per callback call (last one repeated) */


/* canonical dump of the entry "x" (compared with coq/C08/LineSpec.v) */
static uint64_t dbits(double d) { uint64_t u; if (d != d) return 0x7ff8000000000000ULL; memcpy(&u, &d, 8); return u; }
static void hexs(const char *s) { if (!s || !*s) { printf("-"); return; } for (; *s; s++) printf("%02x", (unsigned char)*s); }
static int sfield(const gd_entry_t *E, int i)
{
  if (E->scalar[i]) { printf("S"); hexs(E->scalar[i]); printf("[%d]", E->scalar_ind[i]); return 1; }
  return 0;
}
static void pc(const gd_entry_t *E, int i, double _Complex z)
{ if (!sfield(E, i)) printf("L%" PRIx64 ":%" PRIx64, dbits(creal(z)), dbits(cimag(z))); }
static void dump_entry(DIRFILE *D)
{
  gd_entry_t E;
  int i;
  /* the entry under test: x, the metafield p/x, or a field named like a reserved word */
  static const char *names[] = { "x", "p/x", "VERSION", "ENDIAN", "PROTECT", "INCLUDE", "ENCODING", "META", "REFERENCE",
    "FRAMEOFFSET", "ALIAS", "HIDDEN", "NAMESPACE", NULL };
  const char *xname = NULL;
  for (i = 0; names[i]; i++) if (gd_entry(D, names[i], &E) == 0) { xname = names[i]; break; }
  if (!xname) { printf(" X:-"); return; }
  printf(" X:");
  switch (E.field_type) {
    case GD_RAW_ENTRY: printf("RAW:%x:", E.EN(raw,data_type)); if (!sfield(&E, 0)) printf("L%u", E.EN(raw,spf)); break;
    case GD_LINCOM_ENTRY:
      printf("LINCOM:%d:", E.EN(lincom,n_fields));
      for (i = 0; i < E.EN(lincom,n_fields); i++) { if (i) printf(","); hexs(E.in_fields[i]); }
      printf(":");
      for (i = 0; i < E.EN(lincom,n_fields); i++) { if (i) printf(","); pc(&E, i, E.EN(lincom,cm)[i]); }
      printf(":");
      for (i = 0; i < E.EN(lincom,n_fields); i++) { if (i) printf(","); pc(&E, i + GD_MAX_LINCOM, E.EN(lincom,cb)[i]); }
      break;
    case GD_LINTERP_ENTRY: printf("LINTERP:"); hexs(E.in_fields[0]); printf(":"); hexs(E.EN(linterp,table)); break;
    case GD_BIT_ENTRY: case GD_SBIT_ENTRY:
      printf("%s:", E.field_type == GD_BIT_ENTRY ? "BIT" : "SBIT"); hexs(E.in_fields[0]); printf(":");
      if (!sfield(&E, 0)) printf("L%d", E.EN(bit,bitnum));
      printf(":");
      if (!sfield(&E, 1)) printf("L%d", E.EN(bit,numbits));
      break;
    case GD_MULTIPLY_ENTRY: case GD_DIVIDE_ENTRY: case GD_INDIR_ENTRY: case GD_SINDIR_ENTRY:
      printf("%s:", E.field_type == GD_MULTIPLY_ENTRY ? "MULTIPLY" : E.field_type == GD_DIVIDE_ENTRY ? "DIVIDE" :
             E.field_type == GD_INDIR_ENTRY ? "INDIR" : "SINDIR");
      hexs(E.in_fields[0]); printf(","); hexs(E.in_fields[1]); break;
    case GD_PHASE_ENTRY: printf("PHASE:"); hexs(E.in_fields[0]); printf(":"); if (!sfield(&E, 0)) printf("L%" PRId64, (int64_t)E.EN(phase,shift)); break;
    case GD_POLYNOM_ENTRY:
      printf("POLYNOM:%d:", E.EN(polynom,poly_ord)); hexs(E.in_fields[0]); printf(":");
      for (i = 0; i <= E.EN(polynom,poly_ord); i++) { if (i) printf(","); pc(&E, i, E.EN(polynom,ca)[i]); }
      break;
    case GD_RECIP_ENTRY: printf("RECIP:"); hexs(E.in_fields[0]); printf(":"); pc(&E, 0, E.EN(recip,cdividend)); break;
    case GD_MPLEX_ENTRY:
      printf("MPLEX:"); hexs(E.in_fields[0]); printf(","); hexs(E.in_fields[1]); printf(":");
      if (!sfield(&E, 0)) printf("L%d", E.EN(mplex,count_val));
      printf(":");
      if (!sfield(&E, 1)) printf("L%d", E.EN(mplex,period));
      break;
    case GD_WINDOW_ENTRY:
      printf("WINDOW:"); hexs(E.in_fields[0]); printf(","); hexs(E.in_fields[1]); printf(":%d:", E.EN(window,windop));
      if (!sfield(&E, 0)) switch (E.EN(window,windop)) {
        case GD_WINDOP_EQ: case GD_WINDOP_NE: printf("L%" PRId64, (int64_t)E.EN(window,threshold).i); break;
        case GD_WINDOP_SET: case GD_WINDOP_CLR: printf("L%" PRIu64, (uint64_t)E.EN(window,threshold).u); break;
        default: printf("L%" PRIx64, dbits(E.EN(window,threshold).r));
      }
      break;
    case GD_CONST_ENTRY: printf("CONST:%x", E.EN(scalar,const_type)); break;
    case GD_CARRAY_ENTRY: printf("CARRAY:%x:%zu", E.EN(scalar,const_type), (size_t)E.EN(scalar,array_len)); break;
    case GD_STRING_ENTRY: { char buf[4096]; buf[0] = 0; gd_get_string(D, xname, sizeof buf, buf); printf("STRING:"); hexs(buf); } break;
    case GD_SARRAY_ENTRY: {
      size_t n = gd_array_len(D, xname), k; const char *v[64];
      printf("SARRAY:");
      if (n <= 64 && gd_get_sarray(D, xname, v) == 0) for (k = 0; k < n; k++) { if (k) printf(","); hexs(v[k]); }
    } break;
    default: printf("?%d", E.field_type);
  }
  gd_free_entry_strings(&E);
}

static int cb(gd_parser_data_t *p, void *extra)
{
  (void)extra;
  if (ncb < MAXCB) { cb_sub[ncb] = p->suberror; cb_line[ncb] = p->linenum; }
  if (answers) {
    size_t n = strlen(answers);
    int a = answers[(size_t)ncb < n ? (size_t)ncb : n - 1];
    ncb++;
    switch (a) {
      case 'C': return GD_SYNTAX_CONTINUE;
      case 'A': return GD_SYNTAX_ABORT;
      case 'I': return GD_SYNTAX_IGNORE;
      case 'X': return 77;                 /* not a valid response */
      case 'R':                            /* replace by a line that is accepted */
        snprintf(p->line, GD_MAX_LINE_LENGTH, "r%d RAW UINT8 1\n", ncb);
        return GD_SYNTAX_RESCAN;
    }
    return GD_SYNTAX_ABORT;
  }
  ncb++;
  switch (action) {
    case 'C': return GD_SYNTAX_CONTINUE;
    case 'A': return GD_SYNTAX_ABORT;
    case 'R':
      if (rescanned_line != p->linenum) {
        rescanned_line = p->linenum;
        /* the library guarantees GD_MAX_LINE_LENGTH bytes at p->line */
        strncpy(p->line, rescan_text, GD_MAX_LINE_LENGTH - 1);
        p->line[GD_MAX_LINE_LENGTH - 1] = 0;
        return GD_SYNTAX_RESCAN;
      }
      return GD_SYNTAX_IGNORE;
    default: return GD_SYNTAX_IGNORE;
  }
}

static size_t unhex(const char *h, char *out)
{
  size_t n = 0;
  if (h[0] == '-') { out[0] = 0; return 0; }
  while (isxdigit((unsigned char)h[0]) && isxdigit((unsigned char)h[1])) {
    unsigned v; sscanf(h, "%2x", &v); out[n++] = (char)v; h += 2;
  }
  out[n] = 0;
  return n;
}

int main(void)
{
  char tmpl[] = "/var/tmp/verif-c08s-XXXXXX", path[512], cmd[600];
  static char line[65536], content[32768];
  if (!mkdtemp(tmpl)) { perror("mkdtemp"); return 2; }
  while (fgets(line, sizeof line, stdin)) {
    char *sp = strchr(line, ' '), *sp2;
    size_t n;
    FILE *f;
    DIRFILE *D;
    int i, e, sub = 0, eline = 0;
    unsigned long flags = GD_RDONLY;
    gd_entry_t E;
    if (!sp || strlen(line) < 4) { printf("BADCASE\n"); continue; }
    flags |= (line[0] == 'P') ? GD_PEDANTIC : (line[0] == 'D') ? 0 : GD_PERMISSIVE;
    action = line[1];
    answers = NULL;
    if (line[1] == '=') {                  /* P=<answers> <hex>: an answer per call */
      static char ans[256];
      size_t k = 0;
      while (line[2 + k] && line[2 + k] != ' ' && k < sizeof ans - 1) { ans[k] = line[2 + k]; k++; }
      ans[k] = 0; answers = ans;
    }
    sp2 = strchr(sp + 1, ' ');
    rescan_text[0] = 0;
    nextra = 0;
    while (sp2) {                          /* further fields: <name>=<hex> extra fragment, else the rescan line */
      char *fld = sp2 + 1, *eq, *nx = strchr(fld, ' ');
      size_t fl = nx ? (size_t)(nx - fld) : strcspn(fld, "\n");
      eq = memchr(fld, '=', fl);
      if (eq && nextra < 4) {
        static char xc[32768];
        size_t xn;
        FILE *xf;
        snprintf(extra[nextra], sizeof extra[0], "%s/%.*s", tmpl, (int)(eq - fld), fld);
        xn = unhex(eq + 1, xc);
        xf = fopen(extra[nextra], "w"); if (xf) { fwrite(xc, 1, xn, xf); fclose(xf); }
        nextra++;
      } else unhex(fld, rescan_text);
      sp2 = nx;
    }
    n = unhex(sp + 1, content);
    snprintf(path, sizeof path, "%s/format", tmpl);
    f = fopen(path, "w"); if (!f) { perror(path); return 2; }
    fwrite(content, 1, n, f); fclose(f);
    snprintf(path, sizeof path, "%s/frag", tmpl);
    f = fopen(path, "w"); if (f) fclose(f);
    ncb = 0; rescanned_line = -1;
    D = gd_cbopen(tmpl, flags, cb, NULL);
    e = gd_error(D);
    if (e == GD_E_FORMAT) { sub = D->suberror; eline = D->error_line; }
    printf("E%d S%d L%d C%d", e, sub, eline, ncb);
    for (i = 0; i < ncb && i < MAXCB; i++) printf(" %d@%d", cb_sub[i], cb_line[i]);
    if (e == 0) {
      unsigned int nf = gd_nfields(D);
      long long fo = (long long)gd_frameoffset64(D, 0);
      unsigned long en = gd_endianness(D, 0);
      int spf = -1, ty = 0;
      if (gd_entry(D, "x", &E) == 0) {
        ty = E.field_type;
        if (E.field_type == GD_RAW_ENTRY) spf = (int)E.EN(raw,spf);
        gd_free_entry_strings(&E);
      }
      printf(" F%u O%lld N%d P%d T%d", nf, fo, (en & GD_ARM_ENDIAN) ? 1 : 0, spf, ty);
      dump_entry(D);
      printf("\n");
    } else printf(" F- O- N- P- T-\n");
    gd_discard(D);
    for (i = 0; i < nextra; i++) unlink(extra[i]);
  }
  snprintf(cmd, sizeof cmd, "rm -rf %s", tmpl);
  if (system(cmd)) {}
  return 0;
}
