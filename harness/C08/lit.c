/* C08 harness: the literal classifier.
 *
 *   lit num     stdin: "<standards> <pedantic 0|1> <token-hex>" per line.
 *               stdout per line: four results of _GD_TokToNum, one per
 *               request kind:  C<ret>:<re bits>:<im bits> F<ret>:<re bits>
 *               U<ret>:<u> I<ret>:<i>   (values printed only when ret = 0;
 *               NaN canonicalised to 7ff8000000000000)
 *   lit scalar  stdin: "<standards> <P|Q> <token-hex>" per line.  The token is
 *               used as a scalar parameter of five field specification lines
 *               added with gd_add_spec to a fresh dirfile of that Version
 *               (RAW spf = unsigned, PHASE shift = int64, BIT bitnum = int,
 *               LINCOM m = complex/double, WINDOW(GT) threshold = double);
 *               per line prints for each: E<error>.<suberror> then either
 *               L<value> (literal) or S<scalar code>[<index>] (field code).
 */
#include "internal.h"
#include <inttypes.h>

static size_t unhex(const char *h, char *out)
{
  size_t n = 0;
  if (h[0] == '-') { out[0] = 0; return 0; }
  while (isxdigit((unsigned char)h[0]) && isxdigit((unsigned char)h[1])) {
    unsigned v; sscanf(h, "%2x", &v); out[n++] = (char)v; h += 2;
  }
  out[n] = 0;
  return n;
}
static uint64_t bits(double d) { uint64_t u; if (d != d) return 0x7ff8000000000000ULL; memcpy(&u, &d, 8); return u; }

/* quote a token for a specification line: every byte as \xHH */
static void quote(const char *tok, char *out)
{
  *out++ = '"';
  for (; *tok; tok++) out += sprintf(out, "\\x%02X", (unsigned char)*tok);
  *out++ = '"'; *out = 0;
}

static void show_scalar(DIRFILE *D, int r, const char *field, int which)
{
  gd_entry_t E;
  if (r) { printf(" E%d.%d", D->error, D->error == GD_E_FORMAT ? D->suberror : 0); return; }
  if (gd_entry(D, field, &E)) { printf(" E?%d", gd_error(D)); return; }
  printf(" E0.0");
  if (E.scalar[which]) {
    const char *c; printf(" S");
    for (c = E.scalar[which]; *c; c++) printf("%02x", (unsigned char)*c);
    printf("[%d]", E.scalar_ind[which]);
  } else switch (E.field_type) {
    case GD_RAW_ENTRY: printf(" L%u", E.EN(raw,spf)); break;
    case GD_PHASE_ENTRY: printf(" L%" PRId64, (int64_t)E.EN(phase,shift)); break;
    case GD_BIT_ENTRY: printf(" L%d", E.EN(bit,bitnum)); break;
    case GD_LINCOM_ENTRY: printf(" L%" PRIx64 ":%" PRIx64 ":%d", bits(creal(E.EN(lincom,cm)[0])), bits(cimag(E.EN(lincom,cm)[0])),
                              (E.flags & GD_EN_COMPSCAL) ? 1 : 0); break;
    case GD_WINDOW_ENTRY: printf(" L%" PRIx64, bits(E.EN(window,threshold).r)); break;
    default: printf(" L?");
  }
  gd_free_entry_strings(&E);
}

int main(int argc, char **argv)
{
  static char line[16384], tok[8192], q[40000], spec[41000];
  if (argc < 2) return 2;
  if (strcmp(argv[1], "num") == 0) {
    while (fgets(line, sizeof line, stdin)) {
      int st, ped, r; char hx[16384]; double re, im; uint64_t u; int64_t i;
      if (sscanf(line, "%d %d %s", &st, &ped, hx) != 3) { printf("BAD\n"); continue; }
      unhex(hx, tok);
      re = im = 0; r = _GD_TokToNum(tok, st, ped, &re, &im, NULL, NULL);
      if (r) printf("C%d", r); else printf("C0:%" PRIx64 ":%" PRIx64, bits(re), bits(im));
      re = 0; r = _GD_TokToNum(tok, st, ped, &re, NULL, NULL, NULL);
      if (r) printf(" F%d", r); else printf(" F0:%" PRIx64, bits(re));
      u = 0; r = _GD_TokToNum(tok, st, ped, NULL, NULL, &u, NULL);
      if (r) printf(" U%d", r); else printf(" U0:%" PRIu64, u);
      i = 0; r = _GD_TokToNum(tok, st, ped, NULL, NULL, NULL, &i);
      if (r) printf(" I%d\n", r); else printf(" I0:%" PRId64 "\n", i);
    }
    return 0;
  }
  if (strcmp(argv[1], "scalar") == 0) {
    char tmpl[] = "/var/tmp/verif-c08l-XXXXXX", path[512], cmd[600];
    if (!mkdtemp(tmpl)) return 2;
    while (fgets(line, sizeof line, stdin)) {
      int st; char mode, hx[16384]; FILE *f; DIRFILE *D; int r;
      if (sscanf(line, "%d %c %s", &st, &mode, hx) != 3) { printf("BAD\n"); continue; }
      unhex(hx, tok); quote(tok, q);
      snprintf(path, sizeof path, "%s/format", tmpl);
      f = fopen(path, "w"); fprintf(f, "/VERSION %d\n/ENCODING none\nin RAW UINT8 1\n", st); fclose(f);
      D = gd_open(tmpl, GD_RDWR | (mode == 'P' ? GD_PEDANTIC : GD_PERMISSIVE));
      if (gd_error(D)) { printf("OPEN%d\n", gd_error(D)); gd_discard(D); continue; }
      snprintf(spec, sizeof spec, "r RAW UINT8 %s", q);     r = gd_add_spec(D, spec, 0); show_scalar(D, r, "r", 0);
      snprintf(spec, sizeof spec, "p PHASE in %s", q);      r = gd_add_spec(D, spec, 0); show_scalar(D, r, "p", 0);
      snprintf(spec, sizeof spec, "b BIT in %s", q);        r = gd_add_spec(D, spec, 0); show_scalar(D, r, "b", 0);
      snprintf(spec, sizeof spec, "l LINCOM 1 in %s 0", q); r = gd_add_spec(D, spec, 0); show_scalar(D, r, "l", 0);
      snprintf(spec, sizeof spec, "w WINDOW in in GT %s", q); r = gd_add_spec(D, spec, 0); show_scalar(D, r, "w", 0);
      printf("\n");
      gd_discard(D);
      snprintf(cmd, sizeof cmd, "rm -f %s/r", tmpl); if (system(cmd)) {}
    }
    snprintf(cmd, sizeof cmd, "rm -rf %s", tmpl); if (system(cmd)) {}
    return 0;
  }
  return 2;
}
