/* C08 harness: _GD_ValidateField on generated names.
 *
 *   vf names   stdin: one name per line, hex ("-" = empty).  stdout per name:
 *              <hex> <176 digits>: _GD_ValidateField(name, nsl, standards,
 *              strict, type) for type in NAME, AFFIX, NS, CODE; nsl in 0, 2;
 *              strict in 0, 1; standards in 0..10 (in this nesting order).
 *   vf api     the public-API witness of finding
 *              validate/hash-or-space-in-name-before-version-6: a pedantic
 *              Version-4 dirfile, gd_add_bit of "a#b" and "c d", flush,
 *              reopen.  Prints "ADD <r1> <r2> REOPEN <error>".
 */
#include "internal.h"

static size_t unhex(const char *h, char *out)
{
  size_t n = 0;
  if (h[0] == '-') { out[0] = 0; return 0; }
  while (isxdigit((unsigned char)h[0]) && isxdigit((unsigned char)h[1])) {
    unsigned v; sscanf(h, "%2x", &v); out[n++] = (char)v; h += 2;
  }
  out[n] = 0;
  return n;
}

int main(int argc, char **argv)
{
  static const unsigned types[4] = { GD_VF_NAME, GD_VF_AFFIX, GD_VF_NS, GD_VF_CODE };
  static char line[8192], name[4096];
  if (argc > 1 && strcmp(argv[1], "api") == 0) {
    char tmpl[] = "/var/tmp/verif-c08v-XXXXXX", path[512], cmd[600];
    FILE *f; DIRFILE *D; int r1, r2, e;
    if (!mkdtemp(tmpl)) return 2;
    snprintf(path, sizeof path, "%s/format", tmpl);
    f = fopen(path, "w"); fputs("/VERSION 4\nq RAW c 1\n", f); fclose(f);
    D = gd_open(tmpl, GD_RDWR | GD_PEDANTIC);
    r1 = gd_add_bit(D, "a#b", "q", 0, 1, 0);
    r2 = gd_add_bit(D, "c d", "q", 0, 1, 0);
    gd_close(D);
    D = gd_open(tmpl, GD_RDONLY | GD_PEDANTIC);
    e = gd_error(D);
    gd_discard(D);
    printf("ADD %d %d REOPEN %d\n", r1, r2, e);
    snprintf(cmd, sizeof cmd, "rm -rf %s", tmpl); if (system(cmd)) {}
    return 0;
  }
  while (fgets(line, sizeof line, stdin)) {
    int t, k, s, v;
    char *nl = strchr(line, '\n'); if (nl) *nl = 0;
    unhex(line, name);
    printf("%s ", line);
    for (t = 0; t < 4; t++)
      for (k = 0; k <= 2; k += 2)
        for (s = 0; s < 2; s++)
          for (v = 0; v <= 10; v++)
            putchar('0' + (_GD_ValidateField(name, (size_t)k, v, s, types[t]) ? 1 : 0));
    putchar('\n');
  }
  return 0;
}
