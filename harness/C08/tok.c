/* C08 harness: the GetData tokeniser on generated strings.
 *
 *   tok enum <alphabet-hex> <len> <lo> <hi> <full|hash>
 *        all strings of length <len> over the alphabet with index in [lo,hi)
 *        (index = little-endian base-|alphabet| number: character k of the
 *        string is alphabet[(index / |alphabet|^k) % |alphabet|])
 *   tok stdin <full|hash>
 *        strings from stdin, one per line, hex encoded ("-" = empty string)
 *
 * For every string and for each of the two tokeniser dialects (Standards
 * Version 5 = no quoting/escapes, Version 10) one canonical result line:
 *
 *   <in-hex> <ver> S <tokens> E<err> | L <tokens> E<err> P<pos>
 *
 * S = the sequence of tokens handed out by gd_strtok(D, s), gd_strtok(D,
 *     NULL), ... until NULL, and the error left behind (0, or the GD_E_FORMAT
 *     suberror, or X<error> for any other error code);
 * L = one call of _GD_Tokenise with tok_want = MAX_IN_COLS (what the format
 *     file parser and gd_add_spec do): in_cols[0..n_cols-1], suberror, *pos.
 * <tokens> = comma separated hex strings, "-" for the null token, "_" for none.
 *
 * hash mode prints, per block of 4096 strings, "<first index> <h1> <h2>".
 */
#include "internal.h"
#include <inttypes.h>

#define BLOCK 4096
#define MASK40 ((1ULL << 40) - 1)

static DIRFILE *D5, *D10;
static uint64_t h1, h2;
static int hashing;
static char linebuf[65536];
static size_t linelen;

static void put(const char *s) { size_t n = strlen(s); memcpy(linebuf + linelen, s, n); linelen += n; }
static void puthex(const unsigned char *s, size_t n)
{
  static const char hx[] = "0123456789abcdef";
  size_t i;
  if (n == 0) { linebuf[linelen++] = '-'; return; }
  for (i = 0; i < n; i++) { linebuf[linelen++] = hx[s[i] >> 4]; linebuf[linelen++] = hx[s[i] & 15]; }
}
static void endline(void)
{
  size_t i;
  linebuf[linelen++] = '\n';
  if (hashing)
    for (i = 0; i < linelen; i++) {
      h1 = (h1 * 1000003ULL + (unsigned char)linebuf[i]) & MASK40;
      h2 = (h2 * 8191ULL + (unsigned char)linebuf[i] + 17) & MASK40;
    }
  else fwrite(linebuf, 1, linelen, stdout);
  linelen = 0;
}
static void puterr(DIRFILE *D)
{
  char b[32];
  if (D->error == 0) put("E0");
  else if (D->error == GD_E_FORMAT) { sprintf(b, "E%d", D->suberror); put(b); }
  else { sprintf(b, "EX%d", D->error); put(b); }
}

static void one(const unsigned char *s, size_t n, DIRFILE *D, int ver)
{
  char b[64], *t, *outstring = NULL, *in_cols[MAX_IN_COLS];
  const char *pos = NULL;
  struct parser_state p;
  int k, nc, first = 1;

  puthex(s, n);
  sprintf(b, " %d S ", ver); put(b);
  /* gd_strtok sequence */
  for (k = 0; k < 100000; k++) {
    t = gd_strtok(D, k == 0 ? (const char *)s : NULL);
    if (t == NULL) break;
    if (!first) put(",");
    first = 0;
    puthex((unsigned char *)t, strlen(t));
    free(t);
  }
  if (first) put("_");
  put(" "); puterr(D);
  /* one whole-line tokenisation */
  put(" | L ");
  _GD_ClearError(D);
  memset(&p, 0, sizeof p);
  p.file = "harness"; p.line = 1; p.standards = ver; p.pedantic = 1;
  nc = _GD_Tokenise(D, &p, (const char *)s, &outstring, &pos, MAX_IN_COLS, in_cols);
  for (k = 0; k < nc; k++) { if (k) put(","); puthex((unsigned char *)in_cols[k], strlen(in_cols[k])); }
  if (nc == 0) put("_");
  put(" "); puterr(D);
  sprintf(b, " P%ld", (long)(pos - (const char *)s)); put(b);
  free(outstring);
  _GD_ClearError(D);
  endline();
}

static void both(const unsigned char *s, size_t n) { one(s, n, D5, 5); one(s, n, D10, 10); }

static int unhex(const char *h, unsigned char *out)
{
  int n = 0;
  if (h[0] == '-') { out[0] = 0; return 0; }
  while (isxdigit((unsigned char)h[0]) && isxdigit((unsigned char)h[1])) {
    unsigned v; sscanf(h, "%2x", &v); out[n++] = (unsigned char)v; h += 2;
  }
  out[n] = 0;
  return n;
}

static DIRFILE *open_version(const char *dir, int ver)
{
  char path[4096];
  FILE *f;
  DIRFILE *D;
  mkdir(dir, 0700);
  snprintf(path, sizeof path, "%s/format", dir);
  f = fopen(path, "w"); if (!f) { perror(path); exit(2); }
  fclose(f);
  D = gd_open(dir, GD_RDONLY);
  if (gd_error(D)) { fprintf(stderr, "open %s: %d\n", dir, gd_error(D)); exit(2); }
  if (gd_dirfile_standards(D, ver) != ver) { fprintf(stderr, "cannot select version %d: %d\n", ver, gd_error(D)); exit(2); }
  return D;
}

int main(int argc, char **argv)
{
  char tmpl[] = "/var/tmp/verif-c08-XXXXXX", d[256];
  unsigned char alpha[256], s[4096];
  int na;

  if (argc < 3) return 2;
  if (!mkdtemp(tmpl)) { perror("mkdtemp"); return 2; }
  snprintf(d, sizeof d, "%s/v5", tmpl);  D5 = open_version(d, 5);
  snprintf(d, sizeof d, "%s/v10", tmpl); D10 = open_version(d, 10);

  if (strcmp(argv[1], "enum") == 0 && argc >= 7) {
    int len = atoi(argv[3]), k;
    uint64_t lo = strtoull(argv[4], NULL, 10), hi = strtoull(argv[5], NULL, 10), i, q;
    na = unhex(argv[2], alpha);
    hashing = strcmp(argv[6], "hash") == 0;
    for (i = lo; i < hi; i++) {
      if (hashing && (i - lo) % BLOCK == 0) {
        if (i != lo) printf("%" PRIu64 " %" PRIx64 " %" PRIx64 "\n", i - BLOCK, h1, h2);
        h1 = 0; h2 = 0;
      }
      for (q = i, k = 0; k < len; k++) { s[k] = alpha[q % na]; q /= na; }
      s[len] = 0;
      both(s, len);
    }
    if (hashing && hi > lo) printf("%" PRIu64 " %" PRIx64 " %" PRIx64 "\n", lo + ((hi - lo - 1) / BLOCK) * BLOCK, h1, h2);
  } else if (strcmp(argv[1], "stdin") == 0) {
    static char line[16384];
    uint64_t i = 0;
    hashing = strcmp(argv[2], "hash") == 0;
    while (fgets(line, sizeof line, stdin)) {
      int n;
      if (hashing && i % BLOCK == 0) {
        if (i) printf("%" PRIu64 " %" PRIx64 " %" PRIx64 "\n", i - BLOCK, h1, h2);
        h1 = 0; h2 = 0;
      }
      n = unhex(line, s);
      both(s, n);
      i++;
    }
    if (hashing && i) printf("%" PRIu64 " %" PRIx64 " %" PRIx64 "\n", ((i - 1) / BLOCK) * BLOCK, h1, h2);
  } else return 2;

  gd_discard(D5); gd_discard(D10);
  snprintf(d, sizeof d, "rm -rf %s", tmpl); if (system(d)) {}
  return 0;
}
