#!/usr/bin/env python3
"""C11 -- read-only handles and /PROTECT levels are never bypassed.

proof:   Properties_C11.v (classification of the whole public API; guard/region model;
         rdonly_inert, protect_respected, derived-chain writes)
tie:     translator tr_api.py (public API + which functions reach an access-mode /
         protection test, regenerated from getdata.h.in and src/*.c) + correspondence of the
         extracted model with the built library over the exhaustive product
         mutator x access mode x protection of both fragments x field kind
search:  every case is judged against the property text on the real directory tree
         (recursive listing with content hashes before the call and after gd_close)."""
import sys, os, re, json, itertools, subprocess, shutil, importlib.util
sys.path.insert(0, os.path.join(os.path.dirname(os.path.abspath(__file__)), "..", "bin"))
import vlib

V = vlib.VERIF
_spec = importlib.util.spec_from_file_location("c10check", os.path.join(V, "checks", "C10.py"))
c10 = importlib.util.module_from_spec(_spec)
_spec.loader.exec_module(c10)

LEVELS = ["none", "format", "data", "all"]
PBITS = {"none": 0, "format": 1, "data": 2, "all": 3}
ERR = {"OK": 0, "ACCMODE": -13, "PROTECTED": -22, "BADINDEX": -19}
META = {0: {"format"}, 1: {"sub/format1"}, 2: {"pre/format2"}, 3: {"pre/deep/format3"}, 4: {"pre/deep/deeper/format4"}}


def frag_of_path(p):
    return 1 if p.startswith("sub/") else 4 if p.startswith("pre/deep/deeper/") else 3 if p.startswith("pre/deep/") else 2 if p.startswith("pre/") else 0


# (harness op line, public name, model call or None)
def op_table():
    T = []

    def add(line, name, model):
        T.append((line, name, model))
    # writes to vector fields, any depth of derivation, leaf in either fragment
    for f, m in (("raw", "put w - R0"), ("sraw", "put w - R1"), ("phase", "put w 0 R0"), ("bit", "put w 0 R0"), ("recip", "put w 0 R0"),
                 ("linterp", "put w 0 R0"), ("poly", "put n 0 R0"), ("raw/mph", "put w 0 R0"),
                 ("xph", "put w 0 R1"), ("xlc", "put w 0,0 R1"), ("xbit", "put w 0,0,0 R1"), ("sph", "put w 1 R1"), ("al", "put w - R0"),
                 ("mult", "put n 0 R0"), ("lincom", "put n 0 R0")):
        add("putdata64 %s 0 3 0 2 1" % f, "gd_putdata64", m)
    for f, g in (("const", 0), ("sconst", 1)):
        add("put_constant %s 0x88" % f, "gd_put_constant", "puts S%d" % g)
    for f, g in (("carray", 0), ("scarray", 1)):
        add("put_carray %s 0x88" % f, "gd_put_carray", "puts S%d" % g)
        add("put_carray_slice %s 1 1 0x88" % f, "gd_put_carray_slice", "puts S%d" % g)
    for f, g in (("string", 0), ("sstring", 1)):
        add("put_string %s newvalue" % f, "gd_put_string", "puts S%d" % g)
    for f, g in (("sarray", 0), ("ssarray", 1)):
        add("put_sarray %s" % f, "gd_put_sarray", "puts S%d" % g)
        add("put_sarray_slice %s 1 1" % f, "gd_put_sarray_slice", "puts S%d" % g)
    for g in (0, 1):
        inr = "raw" if g == 0 else "sraw"
        for line, name in (("add_const newf 0x88 0x88 %d", "gd_add_const"), ("add_phase newf %s 1 %%d" % inr, "gd_add_phase"),
                           ("add_bit newf %s 1 2 %%d" % inr, "gd_add_bit"), ("add_sbit newf %s 1 2 %%d" % inr, "gd_add_sbit"),
                           ("add_string newf val %d", "gd_add_string"), ("add_carray newf 0x88 3 0x88 %d", "gd_add_carray"),
                           ("add_sarray newf 2 %d", "gd_add_sarray"), ("add_alias newf %s %%d" % inr, "gd_add_alias"),
                           ("add_lincom newf 1 %s %%d" % inr, "gd_add_lincom"), ("add_polynom newf 2 %s %%d" % inr, "gd_add_polynom"),
                           ("add_mplex newf %s %s 1 2 %%d" % (inr, inr), "gd_add_mplex"), ("add_window newf %s %s 1 %%d" % (inr, inr), "gd_add_window"),
                           ("add_linterp newf %s lut.txt %%d" % inr, "gd_add_linterp"), ("add_multiply newf %s %s %%d" % (inr, inr), "gd_add_multiply"),
                           ("add_divide newf %s %s %%d" % (inr, inr), "gd_add_divide"), ("add_recip newf %s 2.5 %%d" % inr, "gd_add_recip"),
                           ("add_indir newf %s carray %%d" % inr, "gd_add_indir"), ("add_sindir newf %s sarray %%d" % inr, "gd_add_sindir"),
                           ("add_clincom newf 1 %s %%d" % inr, "gd_add_clincom"), ("add_cpolynom newf 2 %s %%d" % inr, "gd_add_cpolynom"),
                           ("add_crecip newf %s 2 %%d" % inr, "gd_add_crecip"), ("add_crecip89 newf %s 2 %%d" % inr, "gd_add_crecip89"),
                           ("add_spec newf%%20CONST%%20UINT8%%201 %d", "gd_add_spec"), ("add_entry newf 16 1 %d", "gd_add")):
            add(line % g, name, "medit %d" % g)
            # Barth-style metafield code: the entry lands in the PARENT's fragment whatever index is passed
            if "%20" not in line:
                add((line % (1 - g)).replace("newf", ("raw" if g == 0 else "sraw") + "/newf", 1), name, "medit %d" % g)
        add("add_raw newr 1 1 %d" % g, "gd_add_raw", "dedit %d" % g)
        par = "raw" if g == 0 else "sraw"
        for line, name in (("madd_const %s newm 0x88 0x88", "gd_madd_const"), ("madd_phase %s newm raw 1", "gd_madd_phase"),
                           ("madd_bit %s newm raw 1 2", "gd_madd_bit"), ("madd_string %s newm v", "gd_madd_string"),
                           ("madd_carray %s newm 0x88 2 0x88", "gd_madd_carray"), ("madd_sarray %s newm 2", "gd_madd_sarray"),
                           ("madd_alias %s newm raw", "gd_madd_alias"), ("madd_lincom %s newm 1 raw", "gd_madd_lincom"),
                           ("madd_polynom %s newm 2 raw", "gd_madd_polynom"), ("madd_entry %s newm 16 1", "gd_madd"),
                           ("madd_clincom %s newm 1 raw", "gd_madd_clincom"), ("madd_cpolynom %s newm 2 raw", "gd_madd_cpolynom"),
                           ("madd_crecip %s newm raw 2", "gd_madd_crecip"), ("madd_crecip89 %s newm raw 2", "gd_madd_crecip89"),
                           ("madd_divide %s newm raw r16", "gd_madd_divide"), ("madd_multiply %s newm raw r16", "gd_madd_multiply"),
                           ("madd_indir %s newm r16 carray", "gd_madd_indir"), ("madd_sindir %s newm r16 sarray", "gd_madd_sindir"),
                           ("madd_linterp %s newm raw lut.txt", "gd_madd_linterp"), ("madd_mplex %s newm raw r16 1 2", "gd_madd_mplex"),
                           ("madd_recip %s newm raw 2.5", "gd_madd_recip"), ("madd_sbit %s newm raw 1 2", "gd_madd_sbit"),
                           ("madd_window %s newm raw r16 1", "gd_madd_window")):
            add(line % par, name, "medit %d" % g)
        add("madd_spec newm%%20CONST%%20UINT8%%201 %s" % par, "gd_madd_spec", "medit %d" % g)
    # alter: fields of fragment 0 and 1
    for line, name, g in (("alter_phase phase ! 5", "gd_alter_phase", 0), ("alter_phase sph ! 5", "gd_alter_phase", 1),
                          ("alter_bit bit ! 2 2", "gd_alter_bit", 0), ("alter_sbit sbit ! 2 2", "gd_alter_sbit", 0),
                          ("alter_const const 0x28", "gd_alter_const", 0), ("alter_const sconst 0x28", "gd_alter_const", 1),
                          ("alter_carray carray 0x28 6", "gd_alter_carray", 0), ("alter_carray scarray 0x28 6", "gd_alter_carray", 1),
                          ("alter_sarray sarray 6", "gd_alter_sarray", 0), ("alter_sarray ssarray 6", "gd_alter_sarray", 1),
                          ("alter_polynom poly 1 !", "gd_alter_polynom", 0), ("alter_lincom lincom 1 raw", "gd_alter_lincom", 0),
                          ("alter_clincom lincom 1 raw", "gd_alter_clincom", 0), ("alter_cpolynom poly 1 !", "gd_alter_cpolynom", 0),
                          ("alter_crecip recip ! 7", "gd_alter_crecip", 0), ("alter_crecip89 recip ! 7", "gd_alter_crecip89", 0), ("alter_recip recip ! 7", "gd_alter_recip", 0),
                          ("alter_mplex mplex ! ! 2 5", "gd_alter_mplex", 0), ("alter_window win ! ! 2", "gd_alter_window", 0),
                          ("alter_multiply mult r16 !", "gd_alter_multiply", 0), ("alter_divide div r16 !", "gd_alter_divide", 0),
                          ("alter_indir indir raw !", "gd_alter_indir", 0), ("alter_sindir sindir raw !", "gd_alter_sindir", 0),
                          ("alter_linterp linterp r16 ! 0", "gd_alter_linterp", 0),
                          ("alter_spec phase%20PHASE%20raw%207 0", "gd_alter_spec", 0), ("alter_spec sph%20PHASE%20sraw%207 0", "gd_alter_spec", 1),
                          ("malter_spec meta%20CONST%20UINT8%209 raw 0", "gd_malter_spec", 0),
                          ("alter_raw raw 0x1 4 0", "gd_alter_raw", 0), ("alter_raw sraw 0x1 4 0", "gd_alter_raw", 1),
                          ("alter_entry phase 6 9 0", "gd_alter_entry", 0), ("hide const", "gd_hide", 0), ("hide sconst", "gd_hide", 1),
                          ("unhide const", "gd_unhide", 0), ("delete const 0", "gd_delete", 0), ("delete sconst 0", "gd_delete", 1),
                          ("rename const newn 0", "gd_rename", 0), ("rename sconst newn 0", "gd_rename", 1), ("reference r16", "gd_reference", 0),
                          ("reference sraw", "gd_reference", 0), ("reference P_praw", "gd_reference", 0), ("reference ac", "gd_reference", 0)):
        add(line, name, "medit %d" % g)
    for line, name, g in (("alter_raw rc 0x88 1 1", "gd_alter_raw", 0), ("alter_raw sraw 0x22 1 1", "gd_alter_raw", 1),
                          ("alter_spec rc%20RAW%20FLOAT64%201 1", "gd_alter_spec", 0),
                          ("delete rc 2", "gd_delete", 0), ("delete sraw 10", "gd_delete", 1),
                          ("rename rc newrc 1", "gd_rename", 0), ("rename sraw newsraw 9", "gd_rename", 1)):
        add(line, name, "dedit %d" % g)
    # the same alterations with the new parameters given as scalar field codes (CONST names), which are resolved
    # through the public gd_get_constant in the middle of the checks
    for line, name, g in (("alter_spec phase%20PHASE%20raw%20kc 0", "gd_alter_spec", 0), ("alter_spec bit%20BIT%20raw%20kc%20kc 0", "gd_alter_spec", 0),
                          ("alter_spec recip%20RECIP%20raw%20kc 0", "gd_alter_spec", 0), ("alter_spec poly%20POLYNOM%20raw%20kc%20kc 0", "gd_alter_spec", 0),
                          ("alter_spec lincom%20LINCOM%20raw%20kc%20kc 0", "gd_alter_spec", 0), ("alter_spec mplex%20MPLEX%20raw%20r16%20kc%20kc 0", "gd_alter_spec", 0),
                          ("alter_spec win%20WINDOW%20raw%20r16%20GT%20kc 0", "gd_alter_spec", 0), ("alter_spec sph%20PHASE%20sraw%20skc 0", "gd_alter_spec", 1),
                          ("alter_entry_sc phase 6 kc 0", "gd_alter_entry", 0), ("alter_entry_sc recip 11 kc 0", "gd_alter_entry", 0),
                          ("alter_entry_sc sph 6 skc 0", "gd_alter_entry", 1), ("alter_spec ac%20RAW%20UINT8%20skc 0", "gd_alter_spec", 0),
                          ("alter_entry_sc sraw 1 skc 0", "gd_alter_entry", 1)):
        add(line, name, "medit %d" % g)
    for line, name, g in (("alter_spec ac%20RAW%20UINT8%20skc 1", "gd_alter_spec", 0), ("alter_spec rc%20RAW%20COMPLEX64%20kc 1", "gd_alter_spec", 0),
                          ("alter_spec sraw%20RAW%20UINT8%20skc 1", "gd_alter_spec", 1), ("alter_entry_sc ac 1 skc 1", "gd_alter_entry", 0),
                          ("alter_entry_sc rc 1 kc 1", "gd_alter_entry", 0), ("alter_entry_sc sraw 1 skc 1", "gd_alter_entry", 1),
                          ("alter_spec sraw%20RAW%20UINT16%20skc 1", "gd_alter_spec", 1)):
        add(line, name, "dedit %d" % g)
    # a RAW field whose data file does not exist yet
    add("putdata64 nofile 0 3 0 2 1", "gd_putdata64", "put w - R0")
    add("putdata64 snofile 0 3 0 2 1", "gd_putdata64", "put w - R1")
    # write-mode seeks (GD_SEEK_WRITE = 4): create / open for writing the data file of the RAW leaf
    for f, m in (("raw", "- R0"), ("sraw", "- R1"), ("phase", "0 R0"), ("xph", "0 R1"), ("xlc", "0,0 R1"), ("sph", "1 R1"), ("ac", "- R0"),
                 ("nofile", "- R0"), ("snofile", "- R1")):
        add("seek64 %s 0 5 4" % f, "gd_seek64", "seekw w " + m)
        add("seek64 %s 0 500 4" % f, "gd_seek64", "seekw w " + m)
    # cross-fragment effects
    add("rename sraw newsraw 2", "gd_rename", "renupdb 1 0,1")   # GD_REN_UPDB: rewrites the users of sraw (xph in fragment 0, sph in 1)
    add("rename raw newraw 2", "gd_rename", "renupdb 0 0")
    add("rename r16 newr16 2", "gd_rename", "renupdb 0 0")
    add("rename sraw newsraw 3", "gd_rename", None)
    add("rename sconst newn 2", "gd_rename", "renupdb 1 -")
    add("delete sconst 4", "gd_delete", None)                 # GD_DEL_DEREF
    add("delete carray 12", "gd_delete", None)
    for line, m in (("move const 1 0", "move 0 1 0"), ("move sconst 0 0", "move 1 0 0"), ("move rc 1 1", "move 0 1 1"), ("move sraw 0 1", "move 1 0 1"),
                    ("move rc 1 0", "move 0 1 0"), ("move sraw 0 0", "move 1 0 0"), ("move phase 1 0", "move 0 1 0")):
        add(line, "gd_move", m)
    for g in (0, 1):
        for rc in (0, 1):
            add("alter_encoding 0x2000000 %d %d" % (g, rc), "gd_alter_encoding", "fattr %d %d" % (g, rc))
            # fragment 1 holds 8-bit data only: a byte-order change rewrites nothing there
            add("alter_endianness 0x4 %d %d" % (g, rc), "gd_alter_endianness", "fattr %d %d" % (g, rc if g == 0 else 0))
            add("alter_frameoffset64 2 %d %d" % (g, rc), "gd_alter_frameoffset64", "fattr %d %d" % (g, rc))
        for lvl in (0, 1, 2, 3):
            add("alter_protection %d %d" % (lvl, g), "gd_alter_protection", "prot %d %d" % (g, lvl))
        nf = "sub/newfmt" if g == 0 else "newfmt"      # relative to the including fragment's directory
        add("include %s %d 0x10" % (nf, g), "gd_include", "incl %d" % g)
        add("include_affix %s %d p_ ! 0x10" % (nf, g), "gd_include_affix", "incl %d" % g)
        add("include_ns %s %d ns 0x10" % (nf, g), "gd_include_ns", "incl %d" % g)
        add("rewrite_fragment %d" % g, "gd_rewrite_fragment", "rewrite %d" % g)
    add("alter_protection 3 -1", "gd_alter_protection", None)
    add("rewrite_fragment -1", "gd_rewrite_fragment", None)
    add("alter_encoding 0x2000000 -1 1", "gd_alter_encoding", None)
    add("alter_endianness 0x4 -1 1", "gd_alter_endianness", None)
    add("alter_frameoffset64 2 -1 1", "gd_alter_frameoffset64", None)
    add("uninclude 1 0", "gd_uninclude", "unincl 1 0")
    add("uninclude 1 1", "gd_uninclude", None)
    add("uninclude 2 1", "gd_uninclude", None)      # fragment 2 includes the format-protected fragment 3: both files would go
    add("uninclude 2 0", "gd_uninclude", None)
    add("uninclude 3 1", "gd_uninclude", None)      # its direct child (fragment 4) is format-protected
    add("uninclude 4 1", "gd_uninclude", None)
    add("uninclude 3 0", "gd_uninclude", None)
    add("delete skc 4", "gd_delete", None)          # GD_DEL_DEREF: bakes the value into the client xsc of fragment 0
    add("delete skc 12", "gd_delete", None)
    add("delete kc 4", "gd_delete", None)
    add("alter_affixes 1 p_ !", "gd_alter_affixes", "affix 1 0")
    add("alter_affixes 1 ! _s", "gd_alter_affixes", "affix 1 0")
    add("fragment_namespace 1 ns", "gd_fragment_namespace", "affix 1 0")
    # lifetime calls and readers: nothing may change under RDONLY / protection
    for line, name in (("flush !", "gd_flush"), ("sync !", "gd_sync"), ("metaflush", "gd_metaflush"), ("raw_close !", "gd_raw_close"),
                       ("flush raw", "gd_flush"), ("sync sraw", "gd_sync"), ("getdata64 raw 0 0 1 0 1", "gd_getdata64"),
                       ("getdata64 xbit 0 0 0 3 0x88", "gd_getdata64"), ("seek64 nofile 0 5 0", "gd_seek64"), ("seek64 ab 0 5 4", "gd_seek64"), ("getdata64 nofile 0 0 0 2 1", "gd_getdata64"),
                       ("seek64 xph 0 50 6", "gd_seek64"), ("get_constant const 0x88", "gd_get_constant"), ("nframes64", "gd_nframes64"),
                       ("eof64 sraw", "gd_eof64"), ("entry raw", "gd_entry"), ("validate xlc", "gd_validate"), ("desync 0", "gd_desync"),
                       ("open_limit 2", "gd_open_limit"), ("mplex_lookback 5", "gd_mplex_lookback"), ("flags 0x80 0", "gd_flags"),
                       ("dirfile_standards 8", "gd_dirfile_standards"), ("tell64 raw", "gd_tell64"), ("bof64 phase", "gd_bof64")):
        add(line, name, None)
    return T


def parse_fdump(lines):
    """-> dict path -> (size, hash, mode) from the lines between 'SNAP' and 'ENDDUMP'"""
    d = {}
    for l in lines:
        m = re.match(r"F (\S+) (\d+) ([0-9a-f]+) (\d+)$", l)
        if m:
            d[m.group(1)] = (int(m.group(2)), m.group(3), m.group(4))
        else:
            m = re.match(r"F (\S+) dir$", l)
            if m:
                d[m.group(1) + "/"] = ("dir",)
    return d


FRAGNAME = {0: "/format", 1: "/sub/format1", 2: "/pre/format2", 3: "/pre/deep/format3", 4: "/pre/deep/deeper/format4"}


def parse_meta(lines):
    """per-fragment (keyed by the fragment's file name: indices are renumbered by include/uninclude) metadata as seen
    through a handle: fragment attributes, every entry with its parameters, scalar values (they live in the format
    file), alias targets, hidden flags, the reference field"""
    names = {}
    for l in lines:
        m = re.match(r"FR (\d+) (\S+) ", l)
        if m:
            names[int(m.group(1))] = m.group(2)
    meta = {}
    cur = None
    k = 0
    for l in lines:
        m = re.match(r"FR (\d+) (\S+) (.*) parent (-?\d+) (.*)$", l)
        if m:
            meta.setdefault(m.group(2), set()).add("FR %s parent %s %s" % (m.group(3), names.get(int(m.group(4)), "-"), m.group(5)))
            continue
        m = re.match(r"ref (\S+) ", l)
        if m:
            meta.setdefault(names.get(0, "/format"), set()).add("ref " + m.group(1))
            continue
        m = re.match(r"E (\S+) hidden (-?\d+) fi (-?\d+)$", l)
        if m:
            cur = (m.group(1), names.get(int(m.group(3)), "?"), m.group(2)); k = 0
            continue
        if cur and l.startswith(" "):
            k += 1
            if k == 1 or l.startswith(" carr") or l.startswith(" sarr") or l.startswith(" alias->"):
                meta.setdefault(cur[1], set()).add("%s h%s |%s" % (cur[0], cur[2], re.sub(r" frag -?\d+", "", l)))
            if k >= 2:
                cur = None
    return meta


def main():
    chk = vlib.Check("C11")
    rc, tout = vlib.sh("python3 %s/translate/tr_api.py" % V)
    trans_problems = [l for l in tout.splitlines() if l.startswith("PROBLEM")]
    proved = chk.prove("Properties_C11", extra_targets=["Gen/PublicApi.vo"])
    chk.cov["trusted_base"] += [
        "Coq 8.16.1 kernel, vm_compute (no native_compute)",
        "translator translate/tr_api.py (prototype scan of getdata.h.in; textual may-reach analysis of GD_ACCMODE / GD_PROTECT_FORMAT / GD_PROTECT_DATA "
        "tests over the call graph of src/*.c)",
        "the guard/region model coq/C11/Protect.v abstracts a dirfile to per-fragment metadata and data versions; which class a call belongs to and "
        "the fragments it addresses are chosen by checks/C11.py (op_table) and validated by the correspondence",
        "extraction: ExtrOcamlBasic only; OCaml driver ocaml/C11/driver.ml; harness harness/C10/api.c (shared with C10)",
    ]
    chk.assumptions += [
        "gd_alter_protection is excluded from protect_respected by design (it is the documented way to change a fragment's protection)",
        "changes are observed on disk after gd_close (metadata are written at flush time); RDONLY cases are also closed",
        "gd_open/gd_cbopen (creation/truncation flags) are outside the model: they do not take a handle",
    ]
    try:
        for attempt in range(3):
            try:
                impl = vlib.build_impl("asan", "-fsanitize-recover=signed-integer-overflow,shift")
                exe0 = vlib.build_harness(impl, os.path.join(V, "harness/C10/api.c"))
                break
            except (vlib.BuildError, OSError):
                if attempt == 2:
                    raise
        exe = os.path.join(vlib.scratch("verif-C11-exe-"), "api")
        shutil.copy(exe0, exe)
        ok, log = vlib.coq_make(["C11/Protect.vo"])
        drv = vlib.build_ocaml_driver("C11", "C11/Extract.v", "ocaml/C11/driver.ml") if ok else None
    except vlib.BuildError as e:
        chk.violation("build", "build failed: " + str(e)[:2000], {"kind": "build", "log": str(e)}, found=False)
        return chk.finish()
    if drv is None:
        chk.violation("model-build", "Coq model does not compile: " + log[-1500:], {"kind": "model-build", "log": log[-4000:]}, found=False)
        return chk.finish()
    M = c10.Model(drv)
    table = op_table()
    # every harness op that corresponds to a public mutator must be in the table (coverage accounting)
    api = M.q("api").split()
    cls = {n: M.q("classify " + n) for n in api}
    mutators = sorted(n for n in api if cls[n].startswith("M"))
    driven = sorted(set(n for _, n, _ in table))
    chk.cov["mutators_total"] = len(mutators)
    chk.cov["mutators_driven"] = len([n for n in mutators if n in driven or n.replace("64", "") in driven or n + "64" in driven])
    chk.cov["mutators_not_driven"] = [n for n in mutators if not (n in driven or n + "64" in driven)]
    modes = ["RDWR", "RDONLY"]
    cases = []
    lv = LEVELS
    READS = ["op getdata64 %s 0 0 0 1 0x88" % f for f in ("raw", "r16", "rc", "ac", "sraw", "P_praw", "xbit", "phase")] + ["op seek64 sraw 0 2 0"]
    for (line, name, model), mode, p0, p1 in itertools.product(table, modes, lv, lv):
        if mode == "RDONLY" and (p0, p1) not in (("none", "none"), ("all", "none"), ("none", "all"), ("format", "data")) and not chk.thorough:
            continue
        touches_data = bool(model) and (model.startswith(("put ", "dedit", "seekw")) or (model.startswith(("move", "fattr")) and model.endswith(" 1")))
        variants = [("", "none", [])]
        if touches_data or name in ("gd_delete", "gd_rename", "gd_seek64", "gd_flush", "gd_sync", "gd_raw_close"):
            # the same operation after reads have opened the data files
            variants.append(("after-reads ", "none", READS))
            if (model or "").startswith(("put ", "seekw", "dedit")) or name in ("gd_delete", "gd_rename", "gd_seek64", "gd_flush", "gd_sync", "gd_raw_close"):
                variants.append(("after-reads, fragment 1 text-encoded ", "text", READS))
        for tag, enc1, pre in variants:
            cases.append({"id": "P%d" % len(cases), "mode": mode, "p0": p0, "p1": p1, "enc1": enc1, "line": line, "name": name, "model": model, "tag": tag,
                          "cmds": (["rmfile nofile", "rmfile sub/snofile", "rmfile sub/snofile.txt"] if "nofile" in line else []) + pre +
                                  ["dump", "op " + line, "close", "reopen RDONLY", "dump"]})
    # /REFERENCE fix-ups: the reference field lives in fragment 1, the /REFERENCE directive in fragment 0, which is then protected
    for line, name in (("rename sraw newsraw 0", "gd_rename"), ("rename sraw newsraw 1", "gd_rename"), ("delete sraw 8", "gd_delete"),
                       ("delete sraw 10", "gd_delete"), ("move sraw 2 0", "gd_move"), ("hide sraw", "gd_hide"), ("alter_raw sraw 0x22 1 0", "gd_alter_raw")):
        cases.append({"id": "P%d" % len(cases), "mode": "RDWR", "p0": "none", "p1": "none", "eff": ("format", "none"), "line": line, "name": name, "model": None,
                      "tag": "reference field sraw, fragment 0 protected afterwards: ",
                      "cmds": ["op reference sraw", "op alter_protection 1 0", "dump", "op " + line, "close", "reopen RDONLY", "dump"]})
    res = c10.run_cases(exe, cases)
    chk.cov["evaluations"] = len(cases)
    viol = {}
    model_bad = []
    nontrivial = set()

    def V_(key, desc, c, extra=None):
        viol.setdefault(key, []).append((desc, c, extra))

    for c in cases:
        r = res.get(c["id"])
        what = "%s%s [%s, fragment 0 /PROTECT %s, fragment 1 /PROTECT %s]" % (c.get("tag", ""), "gd_" + c["line"] if not c["line"].startswith("gd_") else c["line"], c["mode"], c.get("eff", (c["p0"],))[0], c["p1"])
        if r is None:
            model_bad.append((what, "no result")); continue
        txt = "\n".join(r["out"])
        if r["crash"]:
            # memory-safety is C10's subject; here it only makes the case unjudgeable, unless the tree was damaged
            nontrivial.add(("crash", c["name"]))
            continue
        parts = txt.split("ENDDUMP")
        if len(parts) < 3:
            model_bad.append((what, "incomplete output: " + txt[-200:])); continue
        before, after = parse_fdump(parts[0].split("\n")), parse_fdump(parts[1].split("\n"))
        got = c10.parse_op(parts[1].split("\n"))
        if got is None:
            model_bad.append((what, "no op result")); continue
        ret, err, lvl = got
        changed = sorted(p for p in set(before) | set(after) if before.get(p) != after.get(p))
        mb, ma = parse_meta(parts[0].split("\n")), parse_meta(parts[1].split("\n"))
        # metadata of a fragment changed = what a fresh handle sees of it differs, or its format file appeared/disappeared
        # (a rewrite of the file with the same content in another layout is not a change of the metadata)
        if c["mode"] == "RDONLY":
            ch_meta = sorted(g for g in (0, 1, 2, 3, 4) if any(p in META[g] for p in changed))
        else:
            ch_meta = sorted(g for g in (0, 1, 2, 3, 4) if (FRAGNAME[g] in mb and FRAGNAME[g] in ma and mb[FRAGNAME[g]] != ma[FRAGNAME[g]])
                             or any((p in before) != (p in after) for p in META[g]))
        ch_data = sorted(set(frag_of_path(p) for p in changed if p not in META[0] | META[1] | META[2] | META[3] | META[4] and p != "sub/badfrag" and not p.endswith("/") and p != "sub/newfmt"))
        kind = cls.get(c["name"], "U")
        nontrivial.add((c["name"], c["mode"], c["p0"], c["p1"], err, tuple(changed)))
        rp = {"op": c["line"], "mode": c["mode"], "protect": [c["p0"], c["p1"]], "error": err, "changed_files": changed,
              "how": "printf 'case x %s %s %s none 0\\nfdump\\nop %s\\nclose\\nfdump\\n' | harness/C10/api <dir>" % (c["mode"], c["p0"], c["p1"], c["line"])}
        # ---------------- the property text
        bad = False
        if c["mode"] == "RDONLY":
            if changed:
                bad = True
                V_("C11/rdonly-changed/%s" % c["name"], "%s changed %s through a read-only handle" % (what, changed), c, rp)
            elif kind.startswith("M") and err != -13:
                bad = True
                V_("C11/rdonly-not-refused/%s" % c["name"], "%s returns %d instead of GD_E_ACCMODE through a read-only handle" % (what, err), c, rp)
        else:
            # fragment 2 (pre/format2) has no /PROTECT directive of its own: it inherits fragment 0's level
            # fragment 3 (pre/deep/format3) says /PROTECT none itself, fragment 4 below it /PROTECT format
            ep0, ep1 = c.get("eff", (c["p0"], c["p1"]))
            for g, p in ((0, ep0), (1, ep1), (2, ep0), (3, "none"), (4, "format")):
                if p in ("format", "all") and g in ch_meta and c["name"] != "gd_alter_protection":
                    bad = True
                    V_("C11/format-protected-changed/%s%s" % (c["name"], "/reference-fixup" if "eff" in c else ""), "%s changed the metadata of format-protected fragment %d (%s), error %d" % (
                        what, g, sorted(mb.get(FRAGNAME[g], set()) ^ ma.get(FRAGNAME[g], set()))[:4], err), c, rp)
                if p in ("data", "all") and g in ch_data:
                    bad = True
                    V_("C11/data-protected-changed/%s" % c["name"], "%s changed/created/deleted data files of data-protected fragment %d (%s), error %d" % (
                        what, g, [x for x in changed if frag_of_path(x) == g and x not in META[g]], err), c, rp)
        # ---------------- the model
        if c["model"]:
            pr = M.q("exec %d %d %d %s" % (c["mode"] == "RDWR", PBITS[c["p0"]], PBITS[c["p1"]], c["model"]))
            m = re.match(r"(\w+) M([\d,]*) D([\d,]*)", pr)
            mres = m.group(1)
            mm = [int(x) for x in m.group(2).split(",") if x]
            md = [int(x) for x in m.group(3).split(",") if x]
            agree = (err == ERR[mres]) if mres in ERR else (err not in (0, -13, -22))
            region_ok = set(ch_meta) <= set(mm) and set(ch_data) <= set(md)
            if not agree or not region_ok:
                if not bad and c["name"] == "gd_add_alias" and "/" in c["line"].split()[1] and err == -22:
                    V_("C11/format-protected-changed/gd_add_alias", "%s is refused with GD_E_PROTECTED although the parent's fragment is not protected "
                       "(the protection of the fragment index passed is tested instead of the parent's)" % what, c, rp)
                elif not bad and c["name"] == "gd_madd_alias" and err == -22:
                    # the other face of the recorded defect: the wrong fragment's protection is tested
                    V_("C11/format-protected-changed/gd_madd_alias", "%s is refused with GD_E_PROTECTED although the parent's fragment is not protected "
                       "(the protection of fragment 0 is tested instead)" % what, c, rp)
                elif not bad:
                    model_bad.append((what, "implementation error %d, changed metadata of %s / data of %s; model %s" % (err, ch_meta, ch_data, pr)))
    found_any = False
    for key, l in sorted(viol.items()):
        desc, c, rp = l[0]
        found_any = True
        rp = dict(rp); rp["count"] = len(l); rp["others"] = [d for d, _, _ in l[1:6]]
        chk.violation(key, desc + " (%d such cases)" % len(l), rp)
    # replay of the recorded witnesses
    for f in chk.known:
        w = f.get("witness", {})
        if not w.get("cmds"):
            continue
        rr = c10.run_cases(exe, [{"id": "K", "mode": w.get("mode", "RDWR"), "p0": w.get("p0", "none"), "p1": w.get("p1", "none"), "cmds": w["cmds"]}]).get("K")
        if rr and re.search(w.get("expect", "$^"), "\n".join(rr["out"]) + (rr["crash"] or "")):
            chk.known_confirm(f["key"], "witness replayed")
    M.close()
    chk.cov["distinct_nontrivial"] = len(nontrivial)
    chk.cov["rule"] = ("exhaustive product: %d op tuples (every mutator class on fields of both fragments, writes through PHASE/LINCOM/BIT chains of depth 1-3 ending in a RAW field "
                       "of the other fragment, moves in both directions with and without data, fragment attributes with and without recode, GD_ALL_FRAGMENTS, "
                       "include/uninclude/affixes, flush-type calls and readers) x {RDWR, RDONLY} x /PROTECT level of fragment 0 x of fragment 1 (%s for RDONLY); "
                       "directory listing with content hashes before the call and after gd_close; non-trivial = distinct (function, mode, levels, error, changed files)") % (
                           len(table), "all 16" if chk.thorough else "4 combinations")
    chk.cov["exhaustive"] = True
    chk.cov["op_tuples"] = len(table)
    for c in (cases[3], cases[len(cases) // 2], cases[-5]):
        chk.sample({"op": c["line"], "mode": c["mode"], "protect": [c["p0"], c["p1"]], "model": c["model"]})
    if model_bad:
        what, d = model_bad[0]
        chk.violation("model", "correspondence broken (%d cases), first: %s: %s" % (len(model_bad), what, d),
                      {"kind": "model-vs-impl", "correspondence": "C11 guard/region model vs libgetdata", "cases": model_bad[:60]}, found=False)
    if trans_problems and not found_any:
        chk.violation("translator", "translator cannot tie the model to the source: " + "; ".join(trans_problems[:3]),
                      {"kind": "translator", "problems": trans_problems}, found=False)
    if not proved and not found_any:
        chk.violation("proof", "Properties_C11 does not check: " + getattr(chk, "proof_log", "")[-1200:],
                      {"kind": "proof", "log": getattr(chk, "proof_log", "")[-4000:]}, found=False)
    return chk.finish()


if __name__ == "__main__":
    sys.exit(main())
