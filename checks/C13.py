#!/usr/bin/env python3
"""C13 -- restructuring a dirfile does not change the data it holds.

proof:   Properties_C13.v (recode between binary codecs for all byte orders / lengths / buffer sizes,
         frame-offset shift, sample-rate change; text<->binary recode and RAW type change refuted
         outside native byte order, with the exact partial theorems)
tie:     correspondence of the extracted _GD_MogrifyFile / _GD_Change models with the freshly built
         library (values read back through the same handle and after reopening), hook H1 buffers
search:  every case is judged against "data unchanged (after the documented transform)"."""
import sys, os, json
sys.path.insert(0, os.path.join(os.path.dirname(os.path.abspath(__file__)), "..", "bin"))
sys.path.insert(0, os.path.join(os.path.dirname(os.path.abspath(__file__)), "..", "harness", "C04"))
import vlib, gdlib
from gdlib import NAMES, CSIZE, NCOMP, TSIZE, ISFLOAT, EXT, ENCS

PID = "C13"
KEY_TEXT = "regression/alter_encoding-or-move/text<->binary/non-native-byte-order/no-swap"
KEY_RETYPE = "regression/alter_raw/type-change-recode/non-native-byte-order/unswapped-convert"
KEY_ENDTEXT = "regression/alter_endianness/text-encoded-fragment/GD_E_UNCLEAN_DB"
KEY_ENDARG = "alter_endianness/byte_sex-0-or-both-endian-bits/GD_E_ARGUMENT-vs-man-page"
KEY_ENDARG_ARM = "regression/alter_endianness/byte_sex-with-ARM-flag/GD_E_ARGUMENT"
KEY_TOSIE = "regression/recode-to-sie/more-than-one-copy-buffer/one-sample-lost-per-buffer"
KEY_SUBENC = "regression/alter_raw-recode/encoding-other-than-none/temporary-file-closed-with-wrong-codec/data-destroyed"
KEY_FOFF_OOP = "regression/alter_frameoffset/decrease/out-of-place-encoding/copies-input-instead-of-padding"
KEY_STALESIZE = "regression/alter_raw/type-widened/same-handle-getdata/stale-sample-size/heap-overflow"
KEY_LZMASEEK = "regression/alter_frameoffset/lzma/temporary-file-seek-takes-decoder-branch/GD_E_IO"
KEY_FOFF0 = "regression/restructure+reopen/included-fragment-with-frameoffset-0-under-parent-with-nonzero-offset/directive-not-written"
KEY_BIGFRAME = "regression/alter_raw/recode/frame-larger-than-copy-buffer/data-file-emptied"
KEY_SAMEHANDLE = "regression/alter_encoding/from-lzma-or-bzip2/same-handle-read/EBADF"
GD_REN_DATA = 1


def struct_f64(v):
    import struct
    return struct.unpack("<Q", struct.pack("<d", v))[0]


def cls(enc):
    return "text" if enc == "text" else "bin"


def values(rng, t, n, textual):
    """n samples; when a text codec is involved floating values are small integers (printed exactly)"""
    import struct
    out = []
    prev = None
    for i in range(n):
        if prev is not None and rng.random() < 0.3:
            out += prev; continue
        v = []
        for _ in range(NCOMP[t]):
            if ISFLOAT[t]:
                x = float(rng.randint(-50, 50)) if textual or rng.random() < 0.5 else rng.uniform(-1e6, 1e6)
                if CSIZE[t] == 4:
                    z = struct.unpack("<I", struct.pack("<f", x))[0]
                else:
                    z = struct.unpack("<Q", struct.pack("<d", x))[0]
            else:
                z = rng.choice([0, 1, 2, 0x0102030405060708 & ((1 << 8 * CSIZE[t]) - 1), rng.getrandbits(8 * CSIZE[t])])
            v.append(z)
        prev = v
        out += v
    return out


def main():
    chk = vlib.Check(PID)
    rng = chk.rng
    # translator: how the copy loop of _GD_Change sizes its passes (Gen/ChangeLoop.v)
    rc, tout = vlib.sh("python3 %s/translate/tr_changeloop.py" % vlib.VERIF)
    trans_problems = [l for l in tout.splitlines() if l.startswith("PROBLEM")]
    proved = chk.prove("Properties_C13", extra_targets=["Gen/ChangeLoop.vo"])
    chk.cov["trusted_base"] += [
        "Coq 8.16.1 kernel, vm_compute (no native_compute)",
        "translator translate/tr_changeloop.py (reads nf = GD_BUFFER_SIZE / max(sizes) / max(spfs) and the nf == 0 statement of _GD_Change)",
        "buffer-level model of _GD_MogrifyFile and of the RAW branch of _GD_Change in coq/C13/Recode.v (codec classes from the encoding-table flags, "
        "proved equal to the regenerated table in Properties_C04.enc_table_flags_are_those_modelled); the codecs' own read/write are C02/C03/C04's subject",
        "type conversion values are C06's subject: RAW type changes are exercised between unsigned integer types (value mod 2^bits)",
        "extraction: ExtrOcamlBasic only; OCaml driver ocaml/C13/driver.ml; harness harness/C04/gdrun.c; hook H1 (64-byte copy buffers); x86-64 host instance",
    ]
    try:
        impl = vlib.build_impl("", gdlib.HOOKS)
        exe = vlib.build_harness(impl, os.path.join(vlib.VERIF, "harness/C04/gdrun.c"))
        ok, log = vlib.coq_make(["C13/Recode.vo"])
        drv = vlib.build_ocaml_driver("C13", "C13/Extract.v", "ocaml/C13/driver.ml") if ok else None
    except vlib.BuildError as e:
        chk.violation("build", "build failed: " + str(e)[:2000], {"kind": "build", "log": str(e)}, found=False)
        return chk.finish()
    if drv is None:
        chk.violation("model-build", "Coq model does not compile: " + log[-1500:], {"kind": "model-build", "log": log[-4000:]}, found=False)
        return chk.finish()
    root = vlib.scratch("C13-")
    cases = []

    def lengths(t):
        b = max(1, 64 // TSIZE[t])
        return [0, max(1, b // 2), b, 2 * b + 3]

    def new_case(kind, t, enc, sex, off, spf, comps, ops, expect_after, model_line, note):
        """ops: harness lines between the 'before' read and the 'after' read; expect_after: comps expected
        from `get a <t_after> <off_after> 0 N` (dict with t, off, comps)"""
        d = os.path.join(root, "c%d" % len(cases)); os.mkdir(d)
        n = len(comps) // NCOMP[t]
        with open(os.path.join(d, "format"), "w") as fh:
            fh.write("/ENCODING %s\n%s\n/FRAMEOFFSET %d\na RAW %s %d\n" % (enc, gdlib.sex_directive(sex), off, NAMES[t], spf))
        ta, offa, wa = expect_after["t"], expect_after["off"], expect_after["comps"]
        na = len(wa) // NCOMP[ta] + 2
        sc = ["open %s rw" % d]
        if n:
            sc.append("put a %d %d 0 %d %s" % (t, off, n, gdlib.hexs(comps)))
        else:
            # an empty field = an existing, empty data file (written by python; SIE: no record)
            with open(os.path.join(d, "a" + EXT[enc]), "wb") as fh:
                fh.write(gdlib.container_encode(enc, b""))
        # the 'before' read is skipped for bzip2 (its reader cannot seek back: C02's subject) and for
        # empty SIE files (the reader rejects a zero-byte file)
        before = "get a %d %d 0 %d" % (t, off, n + 2) if enc != "bzip2" and not (enc == "sie" and n == 0) else "nframes"
        # half of the cases restructure through the handle that has just written the field (data file open for
        # writing, out-of-place write still pending), the others through a fresh handle
        if n and rng.random() < 0.5:
            sc += [before]
        else:
            sc += ["close", "open %s rw" % d, before]
        sc += [o.replace("@D", d) for o in ops]
        ia = len(sc)
        sc += ["get a %d %d 0 %d" % (ta, offa, na), "close", "open %s rw" % d, "get a %d %d 0 %d" % (ta, offa, na), "close"]
        cases.append({"kind": kind, "dir": d, "t": t, "enc": enc, "sex": sex, "off": off, "spf": spf, "comps": comps, "script": sc,
                      "iop": ia - 1, "ibef": ia - len(ops) - 1, "iafter": ia, "want": wa, "model": model_line, "note": note, "n": n, "ta": ta})

    types_q = [1, 3, 4, 7, 8, 9, 10, 11] if not chk.thorough else list(range(12))
    # A: gd_alter_encoding with recoding, all ordered pairs
    for ein in ENCS:
        for eout in ENCS:
            if ein == eout:
                continue
            for t in (types_q if chk.thorough else rng.sample(types_q, 3)):
                for sex in gdlib.sexes_for(t):
                    off = rng.choice([0, 1, 3]); spf = rng.choice([1, 2])
                    n = rng.choice(lengths(t) if ein != "sie" else lengths(t)[1:])
                    if rng.random() < 0.5:
                        n = n // spf * spf            # half of the fields hold whole frames only, half end in a partial frame
                    if ein == "sie" and n == 0:
                        n = 1
                    comps = values(rng, t, n, "text" in (ein, eout))
                    new_case("alter_encoding", t, ein, sex, off, spf, comps, ["alter_encoding %s 0 1" % eout],
                             {"t": t, "off": off, "comps": comps},
                             "recode %d %d %s %s %s %s %s" % (t, max(1, 64 // TSIZE[t]), cls(ein), cls(eout), sex, sex, gdlib.hexs(comps)),
                             "%s->%s" % (ein, eout))
    # B: gd_alter_endianness with recoding
    for enc in ENCS:
        for t in (types_q if chk.thorough else rng.sample(types_q, 4) + [9, 11]):
            sx = gdlib.sexes_for(t)
            for s1 in sx:
                for s2 in sx:
                    if s1 == s2 or (not chk.thorough and rng.random() < 0.5 and len(sx) > 2):
                        continue
                    off = rng.choice([0, 1]); n = rng.choice(lengths(t) if enc != "sie" else lengths(t)[1:])
                    comps = values(rng, t, n, enc == "text")
                    new_case("alter_endianness", t, enc, s1, off, 1, comps,
                             ["alter_endianness %s %d 0 1" % ("big" if "b" in s2 else "little", 1 if "a" in s2 else 0)],
                             {"t": t, "off": off, "comps": comps},
                             "recode %d %d %s %s %s %s %s" % (t, max(1, 64 // TSIZE[t]), cls(enc), cls(enc), s1, s2, gdlib.hexs(comps)),
                             "%s %s->%s" % (enc, s1, s2))
    # C: gd_alter_frameoffset with shifting
    for enc in ENCS:
        for t in rng.sample(types_q, 3):
            for o1 in (0, 1, 3):
                for o2 in (0, 1, 3):
                    if o1 == o2:
                        continue
                    spf = rng.choice([1, 2]); sex = rng.choice(gdlib.sexes_for(t))
                    n = rng.choice(lengths(t)[1:]) // spf * spf + spf * 4
                    comps = values(rng, t, n, enc == "text")
                    nc = NCOMP[t]
                    if o2 < o1:
                        want = [0] * ((o1 - o2) * spf * nc) + comps
                    else:
                        want = comps[(o2 - o1) * spf * nc:]
                    # half of the cases first pin the Standards Version of the open dirfile (gd_dirfile_standards with an
                    # explicit version the dirfile conforms to, EARLIEST, LATEST or CURRENT): the metadata written after the
                    # operation must still carry everything the dirfile now needs
                    pre = ["standards %d" % rng.choice([-3, -3, -2, -1, 0, 5, 6, 8, 9, 10])] if rng.random() < 0.5 else []
                    new_case("alter_frameoffset", t, enc, sex, o1, spf, comps, pre + ["alter_frameoffset %d 0 1" % o2],
                             {"t": t, "off": o2, "comps": want}, None, "%s %d->%d" % (enc, o1, o2))
    # D: gd_alter_raw: type change between unsigned integer types, and sample-rate change, with recoding
    ut = [1, 3, 5, 7]
    for enc in ENCS:
        for sex in ("l", "b"):
            for t in ut:
                t2 = rng.choice([x for x in ut if x != t])
                spf_ = rng.choice([1, 2, 3])
                n = rng.choice(lengths(t)[1:]) + rng.randint(0, spf_ - 1)
                comps = values(rng, t, n, False)
                want = [z & ((1 << 8 * CSIZE[t2]) - 1) for z in comps]
                off_ = rng.choice([0, 1])
                new_case("alter_raw-type", t, enc, sex, off_, spf_, comps, ["alter_raw a %d 0 1" % t2],
                             {"t": t2, "off": off_, "comps": want},
                             "retype %d %d %s %s %s" % (t, t2, cls(enc), sex, gdlib.hexs(comps)), "%s %s %s->%s" % (enc, sex, NAMES[t], NAMES[t2]))
        # sample-rate change, up and down: every type and byte order (the first of each pair never little-endian), through
        # gd_alter_raw or gd_alter_entry; the last pairs make one frame larger than the 64-byte copy buffer of hook H1
        for (o, nn) in ((1, 2), (2, 1), (2, 3), (3, 2), (4, 1), (1, 3), (2, 5), (9, 2), (5, 7)):
            for rep in range(2):
                t = rng.choice([3, 4, 7, 8, 9, 10, 11] if rep == 0 else [1, 3, 8, 9, 11]); sx = gdlib.sexes_for(t)
                if max(o, nn) >= 5:
                    t = rng.choice([7, 9, 11])
                sex = rng.choice([x for x in sx if x != "l"]) if rep == 0 else rng.choice(sx)
                nf = rng.choice([3, 9, 20])
                part = rng.randint(0, o - 1)        # samples of a trailing partial frame
                comps = values(rng, t, nf * o + part, enc == "text")
                nc = NCOMP[t]
                smp = [comps[i * nc:(i + 1) * nc] for i in range(nf * o + part)]
                want = []
                for q in range(nf):
                    for j in range(nn):
                        want += smp[q * o + j * o // nn]
                # the partial frame keeps floor(part * new / old) samples, each taken from the old partial frame
                for j in range(part * nn // o):
                    want += smp[nf * o + j * o // nn]
                new_case("alter_raw-spf", t, enc, sex, 0, o, comps, [rng.choice(["alter_raw a -1 %d 1", "alter_entry a -1 %d 1"]) % nn],
                         {"t": t, "off": 0, "comps": want}, None, "%s spf %d->%d" % (enc, o, nn))
                cases[-1]["bigframe"] = TSIZE[t] * max(o, nn) > 64
    for c in cases:
        # the frame offset used for the 'after' read of type changes
        pass
    # run: one process per case (a failed restructuring may invalidate the handle)
    from concurrent.futures import ThreadPoolExecutor

    def run_case(c):
        sc = c["script"]
        return vlib.sh([exe], inp=("\n".join(sc) + "\n").encode(), timeout=300)
    with ThreadPoolExecutor(max_workers=vlib.NPROC) as ex_:
        outs = list(ex_.map(run_case, cases))
    mlines = [c["model"] for c in cases if c["model"]]
    rc2, mout = vlib.sh([drv], inp=("\n".join(mlines) + "\n").encode(), timeout=3000)
    ML = mout.rstrip("\n").split("\n") if mlines else []
    if rc2 != 0 or len(ML) != len(mlines):
        chk.violation("driver", "model driver failed rc=%d lines=%d/%d" % (rc2, len(ML), len(mlines)), {"kind": "driver", "out": mout[-300:]}, found=False)
        return chk.finish()
    mi = 0
    spec_bad, model_bad = {}, {}
    nontriv = set()
    dist = {}
    for c, (rc, out) in zip(cases, outs):
        chk.cov["evaluations"] += 1
        dist[c["kind"]] = dist.get(c["kind"], 0) + 1
        model = None
        if c["model"]:
            model = [int(x, 16) for x in ML[mi].split()]; mi += 1
        r = out.rstrip("\n").split("\n")
        key = "%s/%s" % (c["kind"], c["note"].split()[0])
        t, sex, enc = c["t"], c["sex"], c["enc"]
        if rc != 0 or len(r) != len(c["script"]):
            spec_bad.setdefault(("crash/" + key).replace("crash/../", ""), []).append((c, "gdrun died rc=%d after %d of %d lines: %s" % (rc, len(r), len(c["script"]), out[-200:])))
            continue
        before = gdlib.parse_get(r[c["ibef"]])
        if c["script"][c["ibef"]].startswith("get") and (before is None or before[2] != c["comps"]):
            # not this property's business (the write/read path): but nothing can be concluded
            spec_bad.setdefault("setup/" + key, []).append((c, "field does not read back before the operation: %s" % r[c["ibef"]][:200]))
            continue
        opres = r[c["iop"]]
        a1 = gdlib.parse_get(r[c["iafter"]])
        a2 = gdlib.parse_get(r[c["iafter"] + 3])
        okop = opres.split()[1:] == ["0", "0"]
        why = None
        if not okop:
            why = "%s -> %s" % (c["script"][c["iop"]], opres)
        elif a1 is None or a1[2] != c["want"]:
            why = "%s: same handle reads %s, expected %s" % (c["script"][c["iop"]], r[c["iafter"]][:160], gdlib.hexs(c["want"])[:160])
        elif a2 is None or a2[2] != c["want"]:
            why = "%s: after reopening reads %s, expected %s" % (c["script"][c["iop"]], r[c["iafter"] + 3][:160], gdlib.hexs(c["want"])[:160])
        nonnative = ("b" in sex or "a" in sex)
        if why:
            k2 = key
            # classification of the recorded defects: the model predicts exactly what the library did
            if c["kind"] == "alter_encoding" and "text" in c["note"] and nonnative and okop:
                k2 = KEY_TEXT
            if c["kind"] == "alter_endianness" and enc == "text" and not okop and opres.split()[2:] == ["1"]:
                k2 = KEY_ENDTEXT
            if c["kind"] == "alter_endianness" and not okop and opres.split()[1:] == ["-24", "0"] and c["script"][c["iop"]].split()[2] == "1":
                k2 = KEY_ENDARG_ARM
            tgt_sie = (c["kind"] == "alter_encoding" and c["note"].endswith("->sie")) or \
                (c["kind"] in ("alter_endianness", "alter_raw-type", "alter_raw-spf", "alter_frameoffset") and enc == "sie")
            nwant = len(c["want"]) // NCOMP[c["ta"]]
            if tgt_sie and okop and a1 and a1[1] == 0 and a1[0] < nwant and a1[0] >= nwant - (nwant * max(TSIZE[t], TSIZE[c["ta"]]) * 2 + 63) // 64 - 1:
                k2 = KEY_TOSIE
            if c["kind"] == "alter_raw-type" and nonnative and enc != "text" and okop and model is not None and a1 and a1[2] == model:
                k2 = KEY_RETYPE
            if c["kind"] == "alter_frameoffset" and enc in ("gzip", "bzip2", "lzma") and okop and c["script"][c["iop"]].split()[1] < str(c["off"]):
                k2 = KEY_FOFF_OOP
            if c["kind"] == "alter_frameoffset" and enc == "lzma" and not okop and opres.split()[1:] == ["-5", "0"]:
                k2 = KEY_LZMASEEK
            if c.get("bigframe") and okop and a1 and a1[0] == 0 and a2 and a2[0] == 0 and (enc == "sie" or (a1[1] == 0 and a2[1] == 0)):
                # nothing was copied: the field is empty afterwards (an empty SIE file is an I/O error to its reader)
                k2 = KEY_BIGFRAME
            if c["kind"] == "alter_encoding" and enc in ("lzma", "bzip2") and okop and (a1 is None or a1[1] == -5) and a2 and a2[2] == c["want"]:
                k2 = KEY_SAMEHANDLE
            spec_bad.setdefault(k2, []).append((c, why))
        else:
            if model is not None and model != c["want"]:
                model_bad.setdefault(key, []).append((c, "library preserves the data, the model of the code predicts %s" % gdlib.hexs(model)[:160]))
            else:
                nontriv.add((c["kind"], c["note"], t, sex, tuple(c["comps"])))
        if len(chk.cov["samples"]) < 8 and chk.cov["evaluations"] % 97 == 5:
            chk.sample({"kind": c["kind"], "what": c["note"], "type": NAMES[t], "endian": sex, "frameoffset": c["off"], "spf": c["spf"], "n": c["n"], "op": c["script"][c["iop"]], "result": opres})
    # ------------------------------------------------------------------ E: a three-level include tree (format -> sub1.format ->
    # sub2.format), every level with its own encoding / byte order / frame offset; RAW fields on every level; fields that
    # refer to them in first and second input position (LINCOM, PHASE, MULTIPLY, MPLEX both ways, WINDOW both ways, INDIR
    # over a CARRAY, a LINCOM whose scale is a CONST); sequences of gd_move / gd_rename (GD_REN_DATA|GD_REN_UPDB) of RAW
    # and scalar fields and alter_encoding / _endianness / _frameoffset on one fragment or GD_ALL_FRAGMENTS.
    # Oracle: EVERY field reads as before the operations -- through the same handle and after reopening.
    import struct as _st
    scen = []
    nscen = 60 if not chk.thorough else 600
    F0 = 4          # data start at frame 4: above every frame offset in play, so nothing is dropped
    for si in range(nscen):
        t = rng.choice([1, 4, 9])
        spf = rng.choice([1, 2])
        encs = [rng.choice(ENCS) for _ in range(3)]
        sexs = [rng.choice(["l", "b"]) for _ in range(3)]
        offs = [rng.choice([0, 1, 3]) for _ in range(3)]
        if rng.random() < 0.3:
            # the fragments differ in byte order only (same encoding, same frame offset)
            encs = [encs[0]] * 3; offs = [offs[0]] * 3; sexs = rng.choice([["l", "b", "l"], ["b", "l", "b"], ["l", "l", "b"]])
        nfr = rng.choice([3, 6, 20])
        n = nfr * spf
        if ISFLOAT[t]:
            acomps = [_st.unpack("<Q", _st.pack("<d", float(rng.randint(-4, 40))))[0] for _ in range(n)]
        else:
            acomps = [rng.randint(0, 100) for _ in range(n)]
        bvals = [rng.randint(0, 2) for _ in range(nfr)]
        cvals = [rng.randint(0, 255) for _ in range(5)]
        evals = [rng.randint(0, 1 << 20) for _ in range(7)]
        d = os.path.join(root, "s%d" % si); os.mkdir(d)
        hdr = lambda g: "/ENCODING %s\n%s\n/FRAMEOFFSET %d\n" % (encs[g], gdlib.sex_directive(sexs[g]), offs[g])
        open(os.path.join(d, "format"), "w").write(
            hdr(0) + "a RAW %s %d\nb RAW UINT8 1\nk CONST INT32 2\nca CARRAY FLOAT64 1.5 2.5 3.5 4.5\n"
            "l LINCOM a 2 1\np PHASE a 1\nmu MULTIPLY b a\nmab MPLEX a b 1\nmba MPLEX b a 1\nwab WINDOW a b GE 1\n"
            "wba WINDOW b a GT 0\nin INDIR b ca\nlk LINCOM a k 0\npc0 PHASE c 0\nle0 LINCOM e 1 0 c 1 0\n/INCLUDE sub1.format\n" % (NAMES[t], spf))
        # every fragment also holds fields that refer to RAW fields (and the CONST) of the OTHER fragments: a rename
        # must rewrite the format file of every fragment that holds a referrer
        open(os.path.join(d, "sub1.format"), "w").write(hdr(1) + "c RAW UINT8 1\npa1 PHASE a 0\nmbe1 MULTIPLY b e\nlk1 LINCOM e k 0\n/INCLUDE sub2.format\n")
        open(os.path.join(d, "sub2.format"), "w").write(hdr(2) + "e RAW INT32 1\npe PHASE e 1\npa2 PHASE a 1\nlc2 LINCOM c 2 1 b 1 0\n")
        names = {"a": "a", "b": "b", "c": "c", "e": "e", "k": "k", "ca": "ca"}     # original -> current name
        frag = {"a": 0, "b": 0, "c": 1, "e": 2}
        ops = []
        # a third of the scenarios are one rename or move and nothing else (no later operation rewrites the metadata)
        single = rng.random() < 0.34
        for oi in range(1 if single else rng.randint(1, 4)):
            k = rng.choice(["move", "rename", "rename", "enc", "end", "off", "enc_all", "end_all", "off_all"] if not single else ["rename", "rename", "move"])
            if k == "move":
                x = rng.choice(["a", "b", "c", "e"])
                g2 = rng.choice([g for g in (0, 1, 2) if g != frag[x]])
                ops.append("move %s %d %d" % (names[x], g2, GD_REN_DATA)); frag[x] = g2
            elif k == "rename":
                x = rng.choice(["a", "a", "b", "c", "e", "k", "ca"])
                nn = "z%d%d" % (si % 7, oi)
                ops.append("rename %s %s %d" % (names[x], nn, GD_REN_DATA | 2)); names[x] = nn
            elif k in ("enc", "enc_all"):
                ops.append("alter_encoding %s %d 1" % (rng.choice(ENCS), -1 if k == "enc_all" else rng.choice([0, 1, 2])))
            elif k in ("end", "end_all"):
                ops.append("alter_endianness %s 0 %d 1" % (rng.choice(["big", "little"]), -1 if k == "end_all" else rng.choice([0, 1, 2])))
            else:
                ops.append("alter_frameoffset %d %d 1" % (rng.choice([0, 1, 3]), -1 if k == "off_all" else rng.choice([0, 1, 2])))
        derived = ["l", "p", "mu", "mab", "mba", "wab", "wba", "in", "lk", "pe", "pc0", "le0", "pa1", "mbe1", "lk1", "pa2", "lc2"]

        def reads(nm):
            out = ["get %s %d %d 0 %d" % (nm["a"], t, F0, n + 2), "get %s 1 %d 0 %d" % (nm["b"], F0, nfr + 2),
                   "get %s 1 %d 0 7" % (nm["c"], F0), "get %s 4 %d 0 9" % (nm["e"], F0)]
            out += ["get %s 9 %d 0 %d" % (x, F0, n + 2) for x in derived]
            return out
        orig = {x: x for x in names}
        sc = ["open %s rw" % d, "put a %d %d 0 %d %s" % (t, F0, n, gdlib.hexs(acomps)), "put b 1 %d 0 %d %s" % (F0, nfr, gdlib.hexs(bvals)),
              "put c 1 %d 0 5 %s" % (F0, gdlib.hexs(cvals)), "put e 4 %d 0 7 %s" % (F0, gdlib.hexs(evals)), "close", "open %s rw" % d]
        ib = len(sc); sc += reads(orig)
        if rng.random() < 0.3:
            sc.append("standards %d" % rng.choice([-3, -3, -2, -1, 6, 8, 9, 10]))     # result ignored: a version the dirfile does not conform to is refused
        io = len(sc); sc += ops
        ia_ = len(sc); sc += reads(names)
        sc += ["close", "open %s rw" % d]
        ir = len(sc); sc += reads(names)
        sc += ["close"]
        scen.append({"dir": d, "script": sc, "ib": ib, "io": io, "ia": ia_, "ir": ir, "nops": len(ops), "nread": len(reads(orig)), "t": t, "n": n,
                     "raw": [acomps, bvals, cvals, evals], "labels": ["a", "b", "c", "e"] + derived,
                     "desc": "%s spf %d, fragments %s / %s / offsets %s" % (NAMES[t], spf, "+".join(encs), "+".join(sexs), offs)})
    with ThreadPoolExecutor(max_workers=vlib.NPROC) as ex_:
        souts = list(ex_.map(lambda c: vlib.sh([exe], inp=("\n".join(c["script"]) + "\n").encode(), timeout=300), scen))
    for c, (rc, out) in zip(scen, souts):
        chk.cov["evaluations"] += 1
        dist["scenario"] = dist.get("scenario", 0) + 1
        r = out.rstrip("\n").split("\n")
        why = None
        opsdesc = " ; ".join(c["script"][c["io"]:c["io"] + c["nops"]])
        if rc != 0 or len(r) != len(c["script"]):
            why = "gdrun died rc=%d: %s" % (rc, out[-200:])
        else:
            for k in range(c["io"], c["io"] + c["nops"]):
                if r[k].split()[1:] != ["0", "0"]:
                    why = "%s -> %s" % (c["script"][k], r[k]); break
            if not why:
                before = [gdlib.parse_get(x) for x in r[c["ib"]:c["ib"] + c["nread"]]]
                for j_, rawv in enumerate(c["raw"]):
                    if before[j_] is None or before[j_][1] != 0 or before[j_][2] != rawv:
                        why = "setup: RAW field %s does not read back before the operations: %s" % (c["labels"][j_], r[c["ib"] + j_][:120]); break
            if not why:
                for base, what in ((c["ia"], "through the same handle"), (c["ir"], "after reopening")):
                    for j_ in range(c["nread"]):
                        g = gdlib.parse_get(r[base + j_])
                        bj = before[j_]
                        if bj is None or bj[1] != 0:
                            why = "setup: field %s cannot be read before the operations: %s" % (c["labels"][j_], r[c["ib"] + j_][:100]); break
                        if g is None or g[1] != 0 or g[2] != bj[2]:
                            why = "%s: field %s (%s) reads %s %s, before the operations it read %s" % (
                                opsdesc, c["labels"][j_], c["script"][base + j_].split()[1], r[base + j_][:110], what, gdlib.hexs(bj[2])[:110])
                            break
                    if why:
                        break
        if why:
            spec_bad.setdefault("scenario/" + c["script"][c["io"]].split()[0], []).append(
                ({"kind": "scenario", "dir": c["dir"], "t": c["t"], "sex": "", "off": 0, "spf": 0, "n": c["n"], "script": c["script"], "enc": ""}, c["desc"] + ": " + why))
        else:
            nontriv.add(("scenario", opsdesc, c["desc"]))
    # ------------------------------------------------------------------ F: gd_move with data between two fragments that differ in
    # byte order only (or in nothing, or in the frame offset too), every encoding x single- and multi-byte types, data with
    # many runs (SIE: many records, whose 64-bit indices are stored in the fragment's byte order whatever the sample size)
    mcases = []
    for enc in ENCS:
        for t in [0, 1] + rng.sample([3, 4, 7, 8, 9, 10, 11], 2):
            for rep in range(2):
                sx = gdlib.sexes_for(t)
                s1 = rng.choice(sx); s2 = rng.choice([x for x in sx if x != s1]) if rep == 0 else rng.choice(sx)
                o1 = rng.choice([0, 2]); o2 = o1 if rep == 0 or rng.random() < 0.5 else 1
                spf = rng.choice([1, 2]); n = spf * rng.choice([6, 15, 40])
                comps = values(rng, t, n, enc == "text")
                d = os.path.join(root, "m%d" % len(mcases)); os.mkdir(d)
                open(os.path.join(d, "format"), "w").write("/ENCODING %s\n%s\n/FRAMEOFFSET %d\na RAW %s %d\n/INCLUDE sub.format\n" % (
                    enc, gdlib.sex_directive(s1), o1, NAMES[t], spf))
                open(os.path.join(d, "sub.format"), "w").write("/ENCODING %s\n%s\n/FRAMEOFFSET %d\nz RAW UINT8 1\n" % (enc, gdlib.sex_directive(s2), o2))
                F1 = 3
                g_ = "get a %d %d 0 %d" % (t, F1, n + 2)
                sc = ["open %s rw" % d, "put a %d %d 0 %d %s" % (t, F1, n, gdlib.hexs(comps)), "close", "open %s rw" % d, g_,
                      "move a 1 %d" % GD_REN_DATA, g_, "close", "open %s rw" % d, g_, "close"]
                mcases.append({"kind": "move", "dir": d, "t": t, "sex": s1, "off": o1, "spf": spf, "n": n, "enc": enc, "script": sc, "comps": comps,
                               "note": "%s %s->%s offset %d->%d" % (enc, s1, s2, o1, o2)})
    with ThreadPoolExecutor(max_workers=vlib.NPROC) as ex_:
        mouts = list(ex_.map(lambda c: vlib.sh([exe], inp=("\n".join(c["script"]) + "\n").encode(), timeout=300), mcases))
    for c, (rc, out) in zip(mcases, mouts):
        chk.cov["evaluations"] += 1
        dist["move"] = dist.get("move", 0) + 1
        r = out.rstrip("\n").split("\n")
        why = None
        if rc != 0 or len(r) != len(c["script"]):
            why = "gdrun died rc=%d: %s" % (rc, out[-200:])
        else:
            g0, g1, g2 = gdlib.parse_get(r[4]), gdlib.parse_get(r[6]), gdlib.parse_get(r[9])
            if g0 is None or g0[2] != c["comps"]:
                why = "setup: the field does not read back before the move: %s" % r[4][:120]
            elif r[5] != "move 0 0":
                why = "move a 1 GD_REN_DATA -> %s" % r[5]
            elif g1 is None or g1[1] != 0 or g1[2] != c["comps"]:
                why = "after gd_move(a, 1, GD_REN_DATA) the field reads %s through the same handle, before it read %s" % (r[6][:140], gdlib.hexs(c["comps"])[:140])
            elif g2 is None or g2[1] != 0 or g2[2] != c["comps"]:
                why = "after gd_move(a, 1, GD_REN_DATA) and reopening the field reads %s, before it read %s" % (r[9][:140], gdlib.hexs(c["comps"])[:140])
        if why:
            spec_bad.setdefault("move/" + c["enc"], []).append((c, c["note"] + ": " + why))
        else:
            nontriv.add(("move", c["note"], c["t"], tuple(c["comps"])))
    dd_ = os.path.join(root, "endarg"); os.mkdir(dd_)
    open(os.path.join(dd_, "format"), "w").write("/ENCODING none\na RAW UINT16 1\n")
    rc, out = vlib.sh([exe], inp=("open %s rw\nalter_endianness_raw 0 0 0\nalter_endianness_raw 12 0 0\nalter_endianness_raw 8 0 0\nclose\n" % dd_).encode(), timeout=60)
    r_ = out.strip().split("\n")
    chk.cov["evaluations"] += 1
    if len(r_) >= 4 and r_[3] != "alter_endianness_raw 0 0":
        spec_bad.setdefault("alter_endianness/little", []).append(({"kind": "arg", "dir": dd_, "t": 3, "sex": "l", "off": 0, "spf": 1, "n": 0, "script": r_, "enc": "none"}, "gd_alter_endianness(GD_LITTLE_ENDIAN) -> " + r_[3]))
    if len(r_) >= 3 and (r_[1] != "alter_endianness_raw 0 0" or r_[2] != "alter_endianness_raw 0 0"):
        chk.violation(KEY_ENDARG, "gd_alter_endianness with byte_sex 0 -> '%s', with GD_BIG_ENDIAN|GD_LITTLE_ENDIAN -> '%s'; gd_alter_endianness(3) documents both as valid" % (r_[1], r_[2]),
                      {"kind": "impl-vs-spec", "script": ["alter_endianness_raw 0 0 0", "alter_endianness_raw 12 0 0"], "got": r_})
    # recorded witness of the open finding: one frame (5 x 16 bytes) larger than the 64-byte copy buffer of hook H1
    dd_ = os.path.join(root, "bigframe"); os.mkdir(dd_)
    open(os.path.join(dd_, "format"), "w").write("/ENCODING gzip\n/ENDIAN big arm\na RAW COMPLEX128 2\n")
    bf_ = [struct_f64(float(i)) for i in range(82)]
    rc, out = vlib.sh([exe], inp=("open %s rw\nput a 11 0 0 41 %s\nclose\nopen %s rw\nalter_raw a -1 5 1\nclose\nopen %s ro\nget a 11 0 0 200\nclose\n" % (
        dd_, gdlib.hexs(bf_), dd_, dd_)).encode(), timeout=60)
    r_ = out.strip().split("\n")
    chk.cov["evaluations"] += 1
    g_ = gdlib.parse_get(r_[7]) if len(r_) > 7 else None
    if len(r_) > 7 and r_[4] == "alter_raw 0 0" and (g_ is None or g_[0] != 102):
        chk.violation(KEY_BIGFRAME, "gzip, big-endian arm, a RAW COMPLEX128 2 holding 41 samples; gd_alter_raw(a, GD_NULL, 5, recode) -> 0; the field then reads '%s' "
                      "(expected 102 samples): with 64-byte copy buffers one new frame (80 bytes) does not fit and nothing is copied" % r_[7][:60],
                      {"kind": "impl-vs-spec", "script": ["put a 41 samples", "alter_raw a -1 5 1", "get a"], "got": r_})
    if chk.thorough:
        # the same on the real buffer size (9,000,000 bytes): one frame of 9,000,001 UINT8 samples, retyped to UINT16
        try:
            impl_r = vlib.build_impl()
            exe_r = vlib.build_harness(impl_r, os.path.join(vlib.VERIF, "harness/C04/gdrun.c"))
            dd_ = os.path.join(root, "bigframe-real"); os.mkdir(dd_)
            open(os.path.join(dd_, "format"), "w").write("/ENCODING none\na RAW UINT8 9000001\n")
            open(os.path.join(dd_, "a"), "wb").write(bytes(i % 251 for i in range(9000001)))
            rc, out = vlib.sh([exe_r], inp=("open %s rw\nalter_raw a 3 0 1\nclose\n" % dd_).encode(), timeout=600)
            chk.cov["evaluations"] += 1
            sz_ = os.path.getsize(os.path.join(dd_, "a")) if os.path.exists(os.path.join(dd_, "a")) else -1
            if "alter_raw 0 0" in out and sz_ != 18000002:
                chk.violation(KEY_BIGFRAME, "a RAW UINT8 9000001 holding one frame; gd_alter_raw(a, GD_UINT16, 0, recode) -> 0 on the unmodified buffer size; "
                              "the data file then has %d bytes (expected 18000002)" % sz_, {"kind": "impl-vs-spec", "script": ["alter_raw a 3 0 1"], "size": sz_})
            os.unlink(os.path.join(dd_, "a"))
        except vlib.BuildError as e:
            chk.notes.append("un-hooked build failed: " + str(e)[:200])
    if chk.thorough:
        try:
            impl_a = vlib.build_impl("asan", gdlib.HOOKS + " -fsanitize-recover=all")
            exe_a = vlib.build_harness(impl_a, os.path.join(vlib.VERIF, "harness/C04/gdrun.c"))
            d = os.path.join(root, "asan-w"); os.mkdir(d)
            open(os.path.join(d, "format"), "w").write("/ENCODING none\na RAW UINT8 1\n")
            vals = " ".join("%x" % (i % 200) for i in range(40))
            rc, out = vlib.sh([exe_a], inp=("open %s rw\nput a 1 0 0 40 %s\nclose\nopen %s rw\nalter_raw a 7 0 1\nget a 7 0 0 42\nclose\n" % (d, vals, d)).encode(), timeout=300)
            chk.cov["evaluations"] += 1
            if "heap-buffer-overflow" in out:
                chk.violation(KEY_STALESIZE, "gd_alter_raw UINT8 -> UINT64 (recode) then gd_getdata through the same handle: AddressSanitizer heap-buffer-overflow in _GD_RawRead "
                              "(buffer sized with the old e->u.raw.size)", {"kind": "impl-vs-spec", "asan": out[out.find("ERROR: AddressSanitizer"):][:1500]})
        except vlib.BuildError as e:
            chk.notes.append("asan build failed: " + str(e)[:200])
    found_any = False
    if os.environ.get("VERIF_DEBUG"):
        for key, l in sorted(spec_bad.items()):
            print("DEBUG %-60s %3d  %s" % (key, len(l), l[0][1][:260]))
    for key, l in sorted(spec_bad.items()):
        c, why = l[0]
        found_any = True
        chk.violation(key, "%s (%s %s off=%d spf=%d, %d samples): %s (%d such cases)" % (key, NAMES[c["t"]], c["sex"], c["off"], c["spf"], c["n"], why, len(l)),
                      {"kind": "impl-vs-spec", "format": open(os.path.join(c["dir"], "format")).read() if os.path.exists(os.path.join(c["dir"], "format")) else "",
                       "script": c["script"], "why": why, "count": len(l), "how": "harness/C04/gdrun.c built with hook H1 (gdlib.HOOKS)"})
    for key, l in sorted(model_bad.items()):
        c, why = l[0]
        chk.violation("model/" + key, "correspondence broken (%s, %s %s): %s (%d cases)" % (key, NAMES[c["t"]], c["sex"], why, len(l)),
                      {"kind": "model-vs-impl", "correspondence": "C13 mogrify/retype model vs library", "script": c["script"], "why": why}, found=False)
    chk.cov["distinct_nontrivial"] = len(nontriv)
    chk.cov["rule"] = ("gd_alter_encoding (all 30 ordered pairs of none/text/sie/gzip/bzip2/lzma), gd_alter_endianness (little/big/arm pairs), gd_alter_frameoffset "
                       "(offsets 0,1,3 both directions), gd_alter_raw type change (unsigned integer types) and sample-rate change, each with recoding, x types x "
                       "byte orders x frame offsets x lengths {0, half a buffer, one buffer, more than two buffers} with 64-byte copy buffers (hook H1); the field is "
                       "written, the dirfile reopened, read, restructured, read through the same handle and again after reopening; oracle = data unchanged after the "
                       "documented transform; model = extracted mogrify_values / retype_values.  non-trivial = distinct agreeing cases")
    chk.cov["input_distribution"] = dist
    if trans_problems and not found_any:
        chk.violation("translator", "translate/tr_changeloop.py cannot read the pass size of the copy loop of _GD_Change in src/mod.c: " + "; ".join(trans_problems[:3]),
                      {"kind": "translator", "problems": trans_problems, "theorem": "spf_change_loop_matches_statement"}, found=False)
    if not proved and not found_any:
        chk.violation("proof", "Properties_C13 does not check: " + getattr(chk, "proof_log", "")[-1200:],
                      {"kind": "proof", "theorem": "Properties_C13", "log": getattr(chk, "proof_log", "")[-4000:]}, found=False)
    return chk.finish()


if __name__ == "__main__":
    sys.exit(main())
