#!/usr/bin/env python3
"""C01 -- reads return what the Dirfile Standards define.

proof:   Properties_C01.v (impl_read = spec_window on the covered region, any
         depth / rates / windows; refutation witnesses outside it)
tie:     correspondence of the extracted impl_read with gd_getdata64 of the
         freshly built library on generated dirfiles (three-way with the
         extracted specification spec_window)
search:  every query is judged against spec_window; a difference is a
         violation whose key is the defect class (the violated `covered`
         clause), so only listed classes are downgraded to KNOWN-FINDING."""
import sys, os, struct, json, shutil, subprocess, time, copy
from concurrent.futures import ThreadPoolExecutor
sys.path.insert(0, os.path.join(os.path.dirname(os.path.abspath(__file__)), "..", "bin"))
import vlib

PID = "C01"
TYPES = ["INT8", "UINT8", "INT16", "UINT16", "INT32", "UINT32", "INT64", "UINT64", "FLOAT32", "FLOAT64", "COMPLEX64", "COMPLEX128"]
CODES = ["b", "B", "h", "H", "i", "I", "q", "Q", "f", "d"]
SIZES = [1, 1, 2, 2, 4, 4, 8, 8, 4, 8]
SPFS = [1, 2, 3, 4, 5, 7, 12]
WINDOPS = ["EQ", "GE", "GT", "LE", "LT", "NE", "SET", "CLR"]

BIGS = [(1 << 31) + 5, -(1 << 31) - 7, (1 << 40) + 1, (1 << 53) + 1, -(1 << 53) - 1, (1 << 62) + 3]

TAGKEY = {
    "alloczero": "getdata/zero-length-buffer-internal-error",
    "mplexseek": "getdata/mplex-lookback-reseek-range-error",
    "unaligned": "getdata/multirate-unaligned-start",
    "mplexrate": "getdata/mplex-multirate",
    "rawpad": "getdata/raw-bof-pad-native-type",
}
SMALL_BUFFERS = ("-DGD_VERIF_BUFFER_SIZE=64 -DGD_VERIF_BZIP_BUFFER_SIZE=64 -DGD_VERIF_LZMA_DATA_OUT=64 "
                 "-DGD_VERIF_LZMA_DATA_IN=32 -DGD_VERIF_LZMA_LOOKBACK=16")
K_CACHENEG = "getdata/mplex-cache-seeded-before-sample-zero"
K_PUTHERE = "putdata/inner-sample-minus-one-taken-for-GD_HERE"
K_LUTDESC = "getdata/linterp-descending-table-not-sorted"      # repaired in /repo (389b7c6, b795cf9): not listed any more, a regression key
TAGPRIO = ["alloczero", "mplexseek", "unaligned", "mplexrate", "rawpad"]


def dbits(x):
    return struct.unpack("<Q", struct.pack("<d", float(x)))[0]


def fmtd(x):
    return repr(float(x))


VARIANT = "0 0 0 0 0"      # flags of translate/tr_readpath.py, handed to the model driver


def read_variant(chk):
    """run the translator on the tree under test; returns the driver's V arguments"""
    global VARIANT
    rc, out = vlib.sh("python3 %s/translate/tr_readpath.py --print-only" % vlib.VERIF)
    flags = {}
    for l in out.splitlines():
        if l.startswith("variant "):
            for kv in l.split()[1:]:
                k, v = kv.split("=")
                flags[k] = v
    problems = [l for l in out.splitlines() if l.startswith("PROBLEM")]
    order = ["v_align", "v_rawpad", "v_alloc0", "v_clamp", "v_bofceil"]
    if rc != 0 or any(k not in flags for k in order):
        problems.append("PROBLEM translator failed: " + out[-300:])
    VARIANT = " ".join(flags.get(k, "0") for k in order)
    chk.cov["source_variant"] = flags
    return problems


def load_staged_known(chk, pid):
    """known_findings.d/<ID>.json is the staging area for this property's
    findings; merge it into chk.known (vlib reads only known_findings.json)."""
    p = os.path.join(vlib.VERIF, "known_findings.d", pid + ".json")
    if os.path.exists(p):
        have = {f["key"] for f in chk.known}
        for f in json.load(open(p)).get("findings", []):
            if f.get("property") == pid and f.get("status", "open") == "open" and f["key"] not in have:
                chk.known.append(f)


class Case:
    """one generated dirfile: files on disk + the description for the model"""

    def __init__(self, rng, idx, depth_max=6, simple=False, big=False):
        self.big = big
        self.rng = rng
        self.idx = idx
        self.files = {}          # relative path -> bytes
        self.fmt = []            # main format lines
        self.sub = {}            # fragment name -> lines
        self.drv = ["reset", "def INDEX index"]
        self.fields = []         # (name, kind, depth, spf, intish)
        self.raws = []           # (id, name, spf, fo, n)
        self.nconst = 0
        self.depth_max = depth_max
        self.simple = simple
        # the handle's MPLEX look-back: unlimited, or none / 1 / 2 / 10 (default) cycles
        self.lb = rng.choice([-1] * 6 + [0, 1, 2, 10])
        self.ref = None
        self.build()

    # ------------------------------------------------------------ RAW data
    def raw_values(self, t, n, style):
        rng = self.rng
        if style == "cycle":
            per = rng.choice([2, 3, 4, 5])
            off = rng.randrange(per)
            return [(i + off) % per for i in range(n)]
        if style == "ramp":
            return [i % 97 + 1 for i in range(n)]
        lo, hi = (0, 40) if t in (1, 3, 5, 7) else (-20, 40)
        vals = [rng.randint(lo, hi) for _ in range(n)]
        if t >= 8 and rng.random() < 0.4:
            vals = [v + rng.choice([0, 0.5, 0.25]) for v in vals]
        if t < 8 and rng.random() < 0.15:
            # full-range values of the type
            bits = SIZES[t] * 8
            for k in range(min(3, n)):
                j = rng.randrange(n)
                if t in (1, 3, 5, 7):
                    vals[j] = rng.choice([(1 << bits) - 1, 1 << (bits - 1), rng.getrandbits(bits)])
                else:
                    vals[j] = rng.choice([-(1 << (bits - 1)), (1 << (bits - 1)) - 1, rng.getrandbits(bits - 1)])
        if t in (6, 7) and n and rng.random() < 0.35:
            # values beyond 31 and 53 bits (they must survive as WINDOW thresholds, BIT inputs, ...)
            for k in range(min(4, n)):
                v = rng.choice(BIGS)
                vals[rng.randrange(n)] = abs(v) if t == 7 else v
        return vals

    def add_raw(self, frag):
        rng = self.rng
        rid = len(self.raws)
        name = "r%d" % rid
        t = rng.choice([0, 1, 2, 3, 4, 5, 6, 7, 8, 9, 9, 9, 4, 2])
        spf = rng.choice(SPFS)
        if self.simple:
            spf = self.raws[0][2] if self.raws else spf
        frames = rng.choice([0, 1, 2, 3, 4, 5, 6, 8]) if not getattr(self, "big", False) else rng.choice([20, 40, 60, 90])
        n = frames * spf + (rng.randrange(spf) if rng.random() < 0.5 else 0)
        if rng.random() < 0.1:
            n = rng.choice([0, 1])
        style = rng.choice(["rand", "rand", "ramp", "cycle"])
        vals = self.raw_values(t, n, style)
        self.rawvals = getattr(self, "rawvals", {})
        self.rawvals[name] = (t, vals)
        big = frag["big"]
        enc = frag.get("enc", "none")
        if enc == "text":
            # one value per line; float32 values are written with enough digits to convert back exactly
            # well-formed variants of a text data file: LF or CRLF line ends, last line with or without one
            nl = rng.choice(["\n", "\n", "\n", "\r\n"])
            data = nl.join((repr(float(v)) if t >= 8 else str(v)) for v in vals)
            if vals and rng.random() < 0.6:
                data += nl
            self.files[name + ".txt"] = data.encode()
        else:
            data = b"".join(struct.pack((">" if big else "<") + CODES[t], v) for v in vals)
            if enc == "none" and SIZES[t] > 1 and rng.random() < 0.1:
                data += bytes(rng.randrange(256) for _ in range(rng.randrange(1, SIZES[t])))   # partial trailing sample
            if enc == "gzip":
                import gzip
                self.files[name + ".gz"] = gzip.compress(data)
            elif enc == "bzip2":
                import bz2
                self.files[name + ".bz2"] = bz2.compress(data)
            elif enc == "lzma":
                import lzma
                self.files[name + ".xz"] = lzma.compress(data, format=lzma.FORMAT_XZ)
            else:
                self.files[name] = data
        spfc = self.iscalar(spf, frag, 0.1)
        if spfc != str(spf):
            self.scalar_phase = getattr(self, "scalar_phase", set()) | {name}      # extents depend on a scalar field code
        frag["lines"].append("%s RAW %s %s" % (name, TYPES[t], spfc))
        mask = (1 << (8 * SIZES[t])) - 1
        hexs = []
        for v in vals:
            if t == 8:
                b = struct.unpack("<I", struct.pack("<f", v))[0]
            elif t == 9:
                b = dbits(v)
            else:
                b = v & mask
            hexs.append("%x" % b)
        self.drv.append("raw %d %d %d %d %d %s" % (rid, t, spf, frag["fo"], n, " ".join(hexs)))
        self.drv.append("def %s raw %d" % (name, rid))
        self.raws.append((rid, name, spf, frag["fo"], n))
        self.fields.append((name, "raw", 0, spf, t < 8, t < 8, False, False))
        return name

    # ------------------------------------------------------------ scalars
    def scalar(self, x, frag):
        """a literal, or (sometimes) a reference to a CONST / CARRAY element"""
        rng = self.rng
        if rng.random() < 0.2:
            self.nconst += 1
            if rng.random() < 0.5:
                cn = "k%d" % self.nconst
                frag["lines"].append("%s CONST FLOAT64 %s" % (cn, fmtd(x)))
                return cn
            cn = "ka%d" % self.nconst
            pos = rng.randrange(3)
            vs = [rng.choice([7.0, -1.0, 0.25]) for _ in range(3)]
            vs[pos] = float(x)
            frag["lines"].append("%s CARRAY FLOAT64 %s" % (cn, " ".join(fmtd(v) for v in vs)))
            return "%s<%d>" % (cn, pos)
        return fmtd(x)

    def iscalar(self, x, frag, p=0.35):
        """an integer parameter as a literal or as a CONST / CARRAY<n> field code of an integer type that holds it"""
        rng = self.rng
        if rng.random() >= p:
            return str(x)
        self.nconst += 1
        cands = [ty for ty, lo, hi in (("INT8", -128, 127), ("UINT8", 0, 255), ("INT16", -32768, 32767), ("UINT16", 0, 65535),
                                       ("INT32", -2**31, 2**31 - 1), ("UINT32", 0, 2**32 - 1), ("INT64", -2**63, 2**63 - 1),
                                       ("UINT64", 0, 2**64 - 1)) if lo <= x <= hi]
        if abs(x) < 2**53:
            cands.append("FLOAT64")
        ty = rng.choice(cands[:3] + cands[-2:])
        lit = (fmtd(x) if ty == "FLOAT64" else str(x))
        if rng.random() < 0.5:
            cn = "ki%d" % self.nconst
            frag["lines"].append("%s CONST %s %s" % (cn, ty, lit))
            return cn
        cn = "kia%d" % self.nconst
        pos = rng.randrange(3)
        vs = ["1", "0", "2"]
        vs[pos] = lit
        frag["lines"].append("%s CARRAY %s %s" % (cn, ty, " ".join(vs)))
        return "%s<%d>" % (cn, pos)

    def pick(self, want_int=False, maxdepth=None):
        rng = self.rng
        c = [f for f in self.fields if f[2] < (maxdepth if maxdepth is not None else self.depth_max)]
        if want_int and rng.random() < 0.8:
            ci = [f for f in c if f[4]]
            if ci:
                c = ci
        if rng.random() < 0.06:
            return ("INDEX", "index", 0, 1, True, True, False, False)
        # prefer recent (deeper) fields half of the time
        if rng.random() < 0.5 and len(c) > 4:
            c = c[-4:]
        return rng.choice(c)

    def pick_same_rate(self, a):
        c = [f for f in self.fields if f[3] == a[3] and f[2] < self.depth_max]
        return self.rng.choice(c) if c else a

    def add_derived(self, frag):
        rng = self.rng
        name = "f%d" % len(self.fields)
        kinds = ["lincom1", "lincom2", "lincom2", "lincom3", "multiply", "multiply", "divide", "recip", "phase",
                 "phase", "polynom", "window", "window", "mplex", "mplex", "bit", "sbit", "indir", "linterp"]
        kind = rng.choice(kinds)
        S = lambda x: self.scalar(x, frag)
        sv = lambda: rng.choice([1, 2, -1, 0.5, 3, 0, 10, -2.5, 1, 1])
        a = self.pick(want_int=kind in ("bit", "sbit", "indir"))
        intish = False
        safe = False
        two = kind in ("lincom2", "lincom3", "multiply", "divide", "window", "mplex")
        b = c = None
        if two:
            r = rng.random()
            if self.simple or r < 0.35:
                b = self.pick_same_rate(a)
            else:
                b = self.pick(want_int=kind in ("mplex", "window"))
            c = self.pick_same_rate(a) if (self.simple or rng.random() < 0.4) else self.pick()
            if kind == "mplex" and not b[5]:
                # the index of an MPLEX must be free of undefined conversions (it steers control flow):
                # integer RAW data reached through PHASE/BIT/SBIT/WINDOW/MPLEX/INDIR only
                cs = [f for f in self.fields if f[5] and f[2] < self.depth_max]
                cs2 = [f for f in cs if f[3] == a[3]]
                if cs2 and (self.simple or rng.random() < 0.5):
                    b = rng.choice(cs2)
                elif cs and not self.simple:
                    b = rng.choice(cs)
                else:
                    kind = "multiply"
        if two and not self.simple and rng.random() < 0.25:
            # region: inputs that begin inside a frame -- each input wrapped in its own PHASE by a
            # negative shift smaller than a frame (beginning-of-field with a sub-frame part)
            def shifted(x):
                if x[0] == "INDEX" or x[2] + 1 >= self.depth_max:
                    return x
                nm = "f%d" % len(self.fields)
                shv = -rng.randint(1, max(1, x[3] - 1)) if x[3] > 1 else -1
                frag["lines"].append("%s PHASE %s %d" % (nm, x[0], shv))
                self.drv.append("def %s phase %s %d" % (nm, x[0], shv))
                fld = (nm, "phase", x[2] + 1, x[3], x[4], x[5], x[6], x[7])
                if x[0] in getattr(self, "scalar_phase", set()):
                    self.scalar_phase = self.scalar_phase | {nm}
                if x[0] in getattr(self, "descdep", set()):
                    self.descdep = self.descdep | {nm}
                self.fields.append(fld)
                return fld
            a = shifted(a)
            b = shifted(b)
            if kind == "lincom3":
                c = shifted(c)
            name = "f%d" % len(self.fields)
        depth = 1 + max(x[2] for x in (a, b or a, (c or a) if kind == "lincom3" else a))
        if kind == "lincom1":
            m, bb = sv(), rng.choice([0, 0, 1, -3, 0.5])
            if rng.random() < 0.25:
                m, bb = 1, 0
            line = "%s LINCOM 1 %s %s %s" % (name, a[0], S(m), S(bb))
            d = "def %s lincom1 %s %x %x" % (name, a[0], dbits(m), dbits(bb))
        elif kind == "lincom2":
            m1, b1, m2, b2 = sv(), rng.choice([0, 1, -3]), sv(), rng.choice([0, 0.5, 2])
            line = "%s LINCOM 2 %s %s %s %s %s %s" % (name, a[0], S(m1), S(b1), b[0], S(m2), S(b2))
            d = "def %s lincom2 %s %s %x %x %x %x" % (name, a[0], b[0], dbits(m1), dbits(b1), dbits(m2), dbits(b2))
        elif kind == "lincom3":
            ps = [sv(), rng.choice([0, 1]), sv(), rng.choice([0, 2]), sv(), rng.choice([0, -1])]
            line = "%s LINCOM 3 %s %s %s %s %s %s %s %s %s" % (name, a[0], S(ps[0]), S(ps[1]), b[0], S(ps[2]), S(ps[3]),
                                                                  c[0], S(ps[4]), S(ps[5]))
            d = "def %s lincom3 %s %s %s %s" % (name, a[0], b[0], c[0], " ".join("%x" % dbits(p) for p in ps))
        elif kind in ("multiply", "divide"):
            line = "%s %s %s %s" % (name, kind.upper(), a[0], b[0])
            d = "def %s %s %s %s" % (name, kind, a[0], b[0])
            intish = kind == "multiply" and a[4] and b[4]
        elif kind == "recip":
            dv = rng.choice([1, 2, 10, -3, 0.5])
            line = "%s RECIP %s %s" % (name, a[0], S(dv))
            d = "def %s recip %s %x" % (name, a[0], dbits(dv))
        elif kind == "phase":
            sh = rng.choice([-1, 1, -2, 2, -3, 3, 5, -5, 7, -7, 0, rng.randint(-60, 60), a[3], -a[3], 2 * a[3]])
            shc = self.iscalar(sh, frag)
            if shc != str(sh):
                self.scalar_phase = getattr(self, "scalar_phase", set()) | {name}
            line = "%s PHASE %s %s" % (name, a[0], shc)
            d = "def %s phase %s %d" % (name, a[0], sh)
            intish = a[4]
            safe = a[5]
        elif kind == "polynom":
            k = rng.choice([1, 2, 2, 3, 4, 5])
            co = [rng.choice([0, 1, -1, 2, 0.5, 3]) for _ in range(k + 1)]
            line = "%s POLYNOM %s %s" % (name, a[0], " ".join(S(x) for x in co))
            d = "def %s polynom %s %d %s" % (name, a[0], k, " ".join("%x" % dbits(x) for x in co))
        elif kind == "window":
            op = rng.choice(WINDOPS)
            bvals = [v for v in getattr(self, "rawvals", {}).get(b[0], (0, []))[1] if isinstance(v, int) and -2**63 <= v < 2**63]
            if op in ("EQ", "NE"):
                thr = rng.choice(bvals) if bvals and rng.random() < 0.5 else rng.choice([rng.randint(-5, 6), rng.randint(-5, 6), rng.choice(BIGS)])
                ts = self.iscalar(thr, frag); td = str(thr)
            elif op in ("SET", "CLR"):
                thr = rng.choice([1, 2, 3, 4, 6, 255, 1 << 31, (1 << 33) + 1, (1 << 53) + 2])
                ts = self.iscalar(thr, frag); td = str(thr)
            else:
                thr = rng.choice([0, 1, 2.5, 5, 10, -1, -2.25, 2.0 ** 31 + 0.5, -(2.0 ** 33)]); ts = S(thr); td = "%x" % dbits(thr)
            line = "%s WINDOW %s %s %s %s" % (name, a[0], b[0], op, ts)
            d = "def %s window %s %s %s %s" % (name, a[0], b[0], op, td)
            intish = a[4]
            safe = a[5] and b[5]
        elif kind == "mplex":
            cnt = rng.choice([0, 1, 1, 2, 3])
            per = rng.choice([0, 0, 2, 4])
            line = "%s MPLEX %s %s %s %s" % (name, a[0], b[0], self.iscalar(cnt, frag), self.iscalar(per, frag))
            d = "def %s mplex %s %s %d %d" % (name, a[0], b[0], cnt, per)
            intish = a[4]
            safe = a[5] and b[5]
        elif kind in ("bit", "sbit"):
            nb = rng.choice([1, 2, 3, 4, 8, 8, 16, 64])
            bn = 0 if nb == 64 else rng.choice([0, 0, 1, 2, 3, 5])
            line = "%s %s %s %s %s" % (name, kind.upper(), a[0], self.iscalar(bn, frag), self.iscalar(nb, frag))
            d = "def %s %s %s %d %d" % (name, kind, a[0], bn, nb)
            intish = True
            safe = a[5]
        elif kind == "indir":
            self.nconst += 1
            cn = "ca%d" % self.nconst
            ct = rng.choice([9, 9, 4, 1, 6])
            ln = rng.choice([1, 3, 5, 8])
            vs = [rng.randint(0 if ct == 1 else -50, 100) for _ in range(ln)]
            frag["lines"].append("%s CARRAY %s %s" % (cn, TYPES[ct], " ".join(str(v) for v in vs)))
            line = "%s INDIR %s %s" % (name, a[0], cn)
            mask = (1 << (8 * SIZES[ct])) - 1
            hv = ["%x" % (dbits(v) if ct == 9 else (v & mask)) for v in vs]
            d = "def %s indir %s %d %d %s" % (name, a[0], ct, ln, " ".join(hv))
            intish = ct != 9
            safe = a[5] and ct != 9
        else:  # linterp
            self.nconst += 1
            tn = "lut%d.txt" % self.nconst
            rows = rng.choice([2, 3, 5, 8])
            style = rng.choice(["int", "int", "frac", "frac", "wide"])
            if style == "int":
                xs = rng.sample(range(-10, 50), rows)
            elif style == "frac":          # spacings below 1
                xs = [v / 4.0 for v in rng.sample(range(-20, 120), rows)]
            else:                          # negative and huge abscissae next to small ones
                xs = rng.sample([-1e12, -3e9, -40.0, -0.5, 0.0, 0.25, 1.0, 7.0, 33.5, 5e9, 2.5e12, 1e15], rows)
            ys = [rng.choice([0, 1, 2, -4, 10, 0.5, 7]) for _ in range(rows)]
            # the file may list the rows in any order (the library sorts a table that is not ascending);
            # the specification interpolates on the table sorted by x (abscissae are distinct)
            order = list(range(rows))
            how = rng.choice(["asc", "asc", "desc", "shuffle", "shuffle"])
            if how == "asc":
                order.sort(key=lambda i: xs[i])
            elif how == "desc":
                order.sort(key=lambda i: -xs[i])
            else:
                rng.shuffle(order)
            self.files[tn] = "".join("%s %s\n" % (fmtd(xs[i]), fmtd(ys[i])) for i in order).encode()
            srt = sorted(range(rows), key=lambda i: xs[i])
            # a table whose file lists strictly falling abscissae was kept as listed by the library before
            # 389b7c6 (K_LUTDESC): such a case is also run with the same points listed ascending, see run_cases
            if all(xs[order[i]] > xs[order[i + 1]] for i in range(rows - 1)):
                self.desc_tables = dict(getattr(self, "desc_tables", {}))
                self.desc_tables[tn] = "".join("%s %s\n" % (fmtd(xs[i]), fmtd(ys[i])) for i in srt).encode()
                self.descdep = getattr(self, "descdep", set()) | {name}
            xs, ys = [xs[i] for i in srt], [ys[i] for i in srt]
            line = "%s LINTERP %s %s" % (name, a[0], tn)
            d = "def %s linterp %s %d %s" % (name, a[0], rows, " ".join("%x %x" % (dbits(x), dbits(y)) for x, y in zip(xs, ys)))
        frag["lines"].append(line)
        self.drv.append(d)
        ins = [a] + ([b] if two else []) + ([c] if kind == "lincom3" else [])
        mixed = any(x[6] for x in ins) or any(x[3] != a[3] for x in ins)
        hasmplex = kind == "mplex" or any(x[7] for x in ins)
        if any(x[0] in getattr(self, "descdep", set()) for x in ins):
            self.descdep = self.descdep | {name}
        if any(x[0] in getattr(self, "scalar_phase", set()) for x in ins):
            self.scalar_phase = getattr(self, "scalar_phase", set()) | {name}
        self.fields.append((name, kind, depth, a[3], intish, safe, mixed, hasmplex))

    def build(self):
        rng = self.rng
        encs = ["none"] * 6 + ["gzip", "bzip2", "lzma", "text"]
        main = {"fo": rng.choice([0, 0, 0, 1, 2, 3]), "big": False, "lines": [], "enc": rng.choice(encs)}
        frags = [main]
        if not self.simple and rng.random() < 0.5:
            frags.append({"fo": rng.choice([0, 1, 2, 3, 5]), "big": rng.random() < 0.5, "lines": [], "enc": rng.choice(encs)})
        # region: the frame offset of one fragment is changed on the open handle (gd_alter_frameoffset, no
        # recoding): the files carry fo_file, the handle -- and the model -- the new value
        self.alter = []
        if not self.simple and rng.random() < 0.15:
            k = rng.randrange(len(frags))
            frags[k]["fo_file"] = rng.choice([v for v in (0, 1, 2, 4, 6) if v != frags[k]["fo"]])
            self.alter = [(k, frags[k]["fo"])]
        nraw = rng.choice([2, 3, 3, 4, 5])
        for i in range(nraw):
            self.add_raw(frags[i % len(frags)] if i else main)
        self.ref = rng.choice(self.raws) if rng.random() < 0.5 else self.raws[0]
        nder = rng.choice([4, 6, 8, 10, 12])
        for _ in range(nder):
            self.add_derived(main)
        hdr = ["/ENCODING %s" % main["enc"], "/ENDIAN little"]
        if main.get("fo_file", main["fo"]):
            hdr.append("/FRAMEOFFSET %d" % main.get("fo_file", main["fo"]))
        # RAW of included fragments must exist before use: INCLUDE first
        inc = []
        for k, fr in enumerate(frags[1:]):
            fn = "sub%d.format" % k
            sl = ["/ENCODING %s" % fr["enc"], "/ENDIAN %s" % ("big" if fr["big"] else "little")]
            sl.append("/FRAMEOFFSET %d" % fr.get("fo_file", fr["fo"]))      # explicit: an included fragment inherits the parent's otherwise
            self.files[fn] = ("\n".join(sl + fr["lines"]) + "\n").encode()
            inc.append("/INCLUDE %s" % fn)
        self.files["format"] = ("\n".join(hdr + inc + main["lines"] + ["/REFERENCE %s" % self.ref[1]]) + "\n").encode()

    def format_text(self):
        t = self.files["format"].decode()
        for (k, fo) in getattr(self, "alter", None) or []:
            t = "(opened GD_RDWR, then gd_alter_frameoffset64(D, %d, fragment %d, 0) before any other call)\n" % (fo, k) + t
        for k in sorted(self.files):
            if k.startswith("sub"):
                t += "---- %s ----\n%s" % (k, self.files[k].decode())
        return t

    def write(self, root):
        d = os.path.join(root, "c%d" % self.idx)
        os.makedirs(d)
        for k, v in self.files.items():
            with open(os.path.join(d, k), "wb") as fh:
                fh.write(v)
        self.dir = d
        return d

    # ------------------------------------------------------------ queries
    def queries(self, nq):
        rng = self.rng
        qs = []
        cand = [f for f in self.fields]
        for _ in range(nq):
            f = rng.choice(cand[len(self.raws):] if rng.random() < 0.85 and len(cand) > len(self.raws) else cand)
            base = rng.choice([0, 0, 1, 2, 3, 5, 7, 11, rng.randint(0, 30), rng.randint(0, 80)])
            if rng.random() < 0.3:
                base = f[3] * rng.randint(0, 6)        # frame aligned
            n = rng.choice([0, 1, 1, 2, 3, 4, 5, 8, 13, 40, 100])
            rt = rng.choice([9, 9, 9, 9, 9, 9, 6, 7, 4, 11, 11])      # 11: COMPLEX128 (judged as (FLOAT64 value, 0))
            qs.append((f[0], rt, base, n))
        # window-split independence: a window read in one call and in two, on fields whose inputs have
        # different sample rates (sample k must not depend on where the window starts)
        self.splits = []
        mixed = [f for f in self.fields if f[6] and not f[7]] or [f for f in self.fields if f[6]]
        for _ in range(3 if mixed else 0):
            f = rng.choice(mixed)
            s = rng.choice([0, 1, 2, 3, 5, rng.randint(0, 25)])
            n = rng.randint(2, 14)
            k = rng.randint(1, n - 1)
            rt = rng.choice([9, 9, 9, 6])
            i0 = len(qs)
            qs += [(f[0], rt, s, n), (f[0], rt, s, k), (f[0], rt, s + k, n - k)]
            self.splits.append((i0, i0 + 1, i0 + 2, k))
        return qs


def open_lines(c):
    """harness lines that open the case: a case with c.alter is opened read-write and the frame offset of
    one fragment is changed on the handle (gd_alter_frameoffset, data files untouched) before anything else"""
    al = getattr(c, "alter", None) or []
    return (["W %s" % c.dir] + ["A %d %d" % a for a in al] if al else ["O %s" % c.dir]) + ["L %d" % getattr(c, "lb", -1)]


def run_stream(cmd, data, env=None):
    e = dict(os.environ)
    if env:
        e.update(env)
    p = subprocess.run(cmd, input=data.encode(), stdout=subprocess.PIPE, stderr=subprocess.DEVNULL, env=e, timeout=3000)
    return p.returncode, p.stdout.decode("utf-8", "replace")


def parse_impl(line):
    # "G <err> <count> vals.. [!W]"
    p = line.split()
    if len(p) < 3 or p[0] != "G":
        return None
    over = p[-1] == "!W"
    if over:
        p = p[:-1]
    return {"err": int(p[1]), "count": int(p[2]), "vals": p[3:], "over": over}


def parse_model(line):
    # "G M <e|count vals..>|S <count vals..>|T tags"
    if not line.startswith("G M "):
        return None
    m, s, t = line[4:].split("|")
    mp = m.split()
    sp = s.split()[1:]
    tg = t.split()[1:] if len(t.split()) > 1 else []
    tags = tg[0].split(",") if tg else []
    if mp and mp[0] == "e":
        model = {"err": True, "count": 0, "vals": []}
    else:
        model = {"err": False, "count": int(mp[0]), "vals": mp[1:]}
    spec = {"count": int(sp[0]), "vals": sp[1:]}
    return model, spec, tags


def tok_eq(a, b):
    """impl token a equals predicted token b; a complex 're:im' token of a real-valued field must be
    (predicted FLOAT64 value, zero) -- the imaginary part may be NaN only where the real part is not finite"""
    if ":" in a:
        re, im = a.split(":")
        if b != "?" and re != b:
            return False
        if im in ("0", "8000000000000000"):
            return True
        nonfinite = (int(re, 16) >> 52) & 0x7ff == 0x7ff
        return im == "7ff8000000000000" and nonfinite
    return b == "?" or a == b


def same(impl, ref, n, is_model):
    """impl result equals the model / spec prediction ('?' = wild card)"""
    if is_model and ref.get("err"):
        return impl["err"] != 0      # (a top-level MPLEX still returns its count with the error set)
    if impl["err"] != 0:
        return False
    if impl["count"] != ref["count"]:
        return False
    k = min(impl["count"], n)
    for a, b in zip(impl["vals"][:k], ref["vals"][:k]):
        if not tok_eq(a, b):
            return False
    return True


def generate(chk, ncases, nq, simple_frac=0.25, depth_max=6, big=False):
    rng = chk.rng
    cases = []
    for i in range(ncases):
        c = Case(rng, i, depth_max=depth_max, simple=rng.random() < simple_frac, big=big)
        c.qs = c.queries(nq)
        if big:
            # read histories on one handle over fields larger than the decoders' windows: the tail first,
            # then the head, then the middle, of RAW and derived fields (look-back unlimited: one handle)
            c.lb = -1
            hist = []
            for f in rng.sample(c.fields, min(4, len(c.fields))):
                ln = 100 * f[3]
                for s in (ln - rng.randint(1, 30), 0, rng.randint(0, 3), ln // 2 + rng.randint(-9, 9), rng.randint(0, ln)):
                    hist.append((f[0], 9, max(0, s), rng.choice([1, 3, 8, 25, 70])))
            c.qs = hist + c.qs[:6]
            c.splits = []
        cases.append(c)
    return cases


def impl_blocks(out):
    """split harness output into per-block line lists; a block ends with C or X"""
    blocks, cur = [], []
    for l in out.split("\n"):
        if not l:
            continue
        cur.append(l)
        if l == "C" or l.startswith("X "):
            blocks.append(cur)
            cur = []
    if cur:
        blocks.append(cur)
    return blocks


HENV = {"MALLOC_PERTURB_": "85", "MALLOC_CHECK_": "3"}
CRASH = {"err": 0, "count": -1, "vals": [], "over": False, "crash": True}


def run_cases(cases, exe, drv, root, jobs=16, want_extents=False, _twin=False):
    """runs every case on the harness and on the model driver; fills
    c.open_err, c.res = [(query, impl, model, spec, tags)], c.ext, c.nfr, c.crashed"""
    for c in cases:
        c.write(root)
        c.res = []; c.ext = []; c.nfr = ("", ""); c.open_err = None; c.crashed = False
    chunks = [cases[i::jobs] for i in range(jobs)]
    chunks = [ch for ch in chunks if ch]

    def impl_job(ch):
        lines = []
        for c in ch:
            lines += open_lines(c)
            if want_extents:          # also before any read: the extents must not depend on what was read before
                for f in c.fields:
                    lines.append("E %s" % f[0])
            for (f, rt, s, n) in c.qs:
                lines.append("G %s %d %d %d" % (f, rt, s, n))
            if want_extents:
                for f in c.fields:
                    lines.append("E %s" % f[0])
                lines.append("N")
            lines.append("C")
        return run_stream([exe], "\n".join(lines) + "\n", env=HENV)

    def model_job(ch):
        lines = ["V " + VARIANT]
        for c in ch:
            lines += c.drv + ["L %d" % getattr(c, "lb", -1)]
            for (f, rt, s, n) in c.qs:
                lines.append("G %s %d %d %d" % (f, 9 if rt >= 10 else rt, s, n))
            if want_extents:
                for f in c.fields:
                    lines.append("E %s" % f[0])
                lines.append("N %d" % (c.ref[0] if getattr(c, "ref", None) else 0))
        return run_stream([drv], "\n".join(lines) + "\n")

    with ThreadPoolExecutor(max_workers=2 * jobs) as ex:
        fi = [ex.submit(impl_job, ch) for ch in chunks]
        fm = [ex.submit(model_job, ch) for ch in chunks]
        ri = [f.result() for f in fi]
        rm = [f.result() for f in fm]
    problems = []
    crashed = []
    for ch, (rc1, o1), (rc2, o2) in zip(chunks, ri, rm):
        blocks = impl_blocks(o1)
        ml = [l for l in o2.split("\n") if l]
        if rc1 != 0 or rc2 != 0 or len(blocks) != len(ch):
            problems.append("harness rc=%d driver rc=%d blocks=%d/%d: %s %s" % (rc1, rc2, len(blocks), len(ch), o1[-300:], o2[-300:]))
            continue
        mp = 0
        for c, bl in zip(ch, blocks):
            c.crashed = bl[-1].startswith("X ")
            body = bl[:-1]
            c.open_err = body[0].split()[1] if body and body[0][:2] in ("O ", "W ") else "crash"
            ip = len(open_lines(c))          # "O ..", ("A ..",) "L"
            for l in body[1:ip - 1]:
                if l != "A 0" and c.open_err == "0":
                    c.open_err = "alter_frameoffset: " + l
            c.ext0 = []
            if want_extents:
                for f in c.fields:
                    c.ext0.append((f, body[ip] if ip < len(body) else ""))
                    ip += 1
            c.mres = []
            for q in c.qs:
                mm = parse_model(ml[mp]) if mp < len(ml) else None
                mp += 1
                im = parse_impl(body[ip]) if ip < len(body) else None
                ip += 1
                c.mres.append(mm)
                if mm is None:
                    problems.append("unparsable model result for case %d query %s: %r" % (c.idx, q, ml[mp - 1] if mp - 1 < len(ml) else None))
                    continue
                if im is None:
                    if not c.crashed:
                        problems.append("unparsable harness result for case %d query %s: %r" % (c.idx, q, body[ip - 1] if ip - 1 < len(body) else None))
                    continue
                c.res.append((q, im, mm[0], mm[1], mm[2]))
            if want_extents:
                for f in c.fields:
                    c.ext.append((f, body[ip] if ip < len(body) else "", ml[mp] if mp < len(ml) else ""))
                    ip += 1
                    mp += 1
                c.nfr = (body[ip] if ip < len(body) else "", ml[mp] if mp < len(ml) else "")
                ip += 1
                mp += 1
            # a query that wrote past the caller's buffer may have damaged the heap: everything after it
            # in the same process is unreliable, so such cases are re-run query by query
            tainted = any(r[1]["over"] for r in c.res)
            # with a finite look-back the documented result of a read also depends on the start value a
            # previous read may have cached (gd_getdata(3)); those cases are judged call by call on fresh handles
            c.isolated = bool(c.crashed or tainted or getattr(c, "lb", -1) != -1)
            if c.isolated:
                crashed.append(c)
    # second pass: every query of a crashed case in its own process
    if crashed:
        lines = []
        for c in crashed:
            for (f, rt, s, n) in c.qs:
                lines += open_lines(c) + ["G %s %d %d %d" % (f, rt, s, n), "C"]
        rc, out = run_stream([exe], "\n".join(lines) + "\n", env=HENV)
        blocks = impl_blocks(out)
        bi = 0
        for c in crashed:
            c.res = []
            c.single_crash = 0
            for q, mm in zip(c.qs, c.mres):
                bl = blocks[bi] if bi < len(blocks) else ["X 0"]
                bi += 1
                if mm is None:
                    continue
                no = len(open_lines(c))
                if bl[-1].startswith("X ") or len(bl) < no + 2:
                    im = dict(CRASH)
                    c.single_crash += 1
                else:
                    im = parse_impl(bl[no]) or dict(CRASH)
                c.res.append((q, im, mm[0], mm[1], mm[2]))
    # The order of the rows of a LINTERP table carries no meaning (dirfile-format(5): "values are linearly
    # interpolated between the points specified in the lookup table").  A case with a table listed in
    # falling order is run a second time with the same points listed ascending; it is judged on the
    # ascending copy, and every call whose result differs between the two copies is kept in c.rowdep
    # (judge reports it: K_LUTDESC where the field reads through such a table, a violation elsewhere)
    desc = [c for c in cases if getattr(c, "desc_tables", None)] if not _twin else []
    if desc:
        twins = []
        for c in desc:
            t = copy.copy(c)
            t.idx = c.idx + 50000000
            t.files = dict(c.files)
            t.files.update(c.desc_tables)
            t.desc_tables = None
            twins.append(t)
        problems += run_cases(twins, exe, drv, root, jobs, want_extents, _twin=True)
        for c, t in zip(desc, twins):
            c.rowdep = []
            if (c.open_err != t.open_err or len(c.res) != len(t.res) or len(t.res) != len(t.qs)
                    or getattr(c, "isolated", False) != getattr(t, "isolated", False)):
                c.rowdep.append((None, {"open": c.open_err, "crashed": c.crashed, "results": len(c.res), "isolated": getattr(c, "isolated", None)},
                                 {"open": t.open_err, "crashed": t.crashed, "results": len(t.res), "isolated": getattr(t, "isolated", None)}))
            else:
                for qi, (ro, rt) in enumerate(zip(c.res, t.res)):
                    if ro[1] != rt[1]:
                        c.rowdep.append((qi, ro[1], rt[1]))
            c.files_as_listed = c.files
            for a in ("files", "dir", "res", "mres", "ext0", "ext", "nfr", "open_err", "crashed", "single_crash"):
                if hasattr(t, a):
                    setattr(c, a, getattr(t, a))
                elif hasattr(c, a):
                    delattr(c, a)
    return problems


def replay_of(c, q, im, model, spec, tags):
    return {"kind": "impl-vs-spec", "format": c.format_text(),
            "data_files": {k: v.hex() for k, v in c.files.items() if not k.endswith("format") and not k.endswith(".txt")},
            "tables": {k: v.decode() for k, v in c.files.items() if k.endswith(".txt")},
            "query": {"field": q[0], "return_type": TYPES[q[1]], "first_sample": q[2], "num_samples": q[3]},
            "impl": im, "spec": spec, "model": model, "uncovered_clauses": tags, "model_case": c.drv,
            "harness_open": open_lines(c),
            "how": "write the files into a directory, then: printf 'O <dir>\\nG %s %d %d %d\\n' | harness/C01/rd (values are hex bit patterns of the return type)" % (q[0], q[1], q[2], q[3])}


def judge(chk, cases, stats, exe=None):
    """three-way comparison; returns number of violations recorded"""
    seen_keys = {}
    for c in cases:
        if c.open_err not in ("0",):
            chk.violation("open/generated-dirfile-rejected", "generated dirfile does not open (error %s):\n%s" % (c.open_err, c.format_text()),
                          {"kind": "harness", "format": c.format_text()}, found=False)
            continue
        if c.crashed and not getattr(c, "single_crash", 0):
            # the sequence of queries crashed but no single query does: heap damage detected late
            if True:
                chk.violation("getdata/crash/sequence", "a sequence of gd_getdata calls crashes the process although no single call does\n" + c.format_text(),
                              {"kind": "crash", "format": c.format_text(), "queries": c.qs})
        # results that change when the rows of a LINTERP table are listed in another order
        if hasattr(c, "rowdep"):
            stats["row_order_calls_compared"] = stats.get("row_order_calls_compared", 0) + len(getattr(c, "res", []))
        for (qi, as_listed, ascending) in getattr(c, "rowdep", []):
            if qi is None:
                key = "getdata/table-row-order/run-differs"
                if key not in seen_keys:
                    seen_keys[key] = 1
                    chk.violation(key, "the run of a dirfile changes (open error, crash, heap damage) when the rows of a LINTERP table are listed ascending "
                                       "instead of descending: as listed %s, ascending %s\n%s" % (as_listed, ascending, c.format_text()),
                                  {"kind": "table-row-order", "format": c.format_text(), "as_listed": as_listed, "ascending": ascending,
                                   "tables_as_listed": {k: v.decode() for k, v in c.files_as_listed.items() if k.endswith(".txt")}, "queries": c.qs})
                continue
            q, _, model, spec, tags = c.res[qi]
            kind = c.fields[[f[0] for f in c.fields].index(q[0])][1]
            key = K_LUTDESC if q[0] in getattr(c, "descdep", set()) else "getdata/table-row-order/unrelated-field/%s" % kind
            stats["bykey"][key] = stats["bykey"].get(key, 0) + 1
            if key not in seen_keys:
                seen_keys[key] = 1
                rp = replay_of(c, q, as_listed, model, spec, tags)
                rp["tables"] = {k: v.decode() for k, v in c.files_as_listed.items() if k.endswith(".txt")}
                rp["impl_with_rows_listed_ascending"] = ascending
                rp["earlier_calls_on_the_handle"] = [r[0] for r in c.res[:qi]]
                chk.violation(key, "gd_getdata(%s, first_sample=%d, n=%d, %s) returns count=%d %s with the LINTERP table as listed (falling x) and count=%d %s with the same "
                                   "points listed ascending; the Standards (interpolation between the points of the table) give count=%d %s\n%s\ntables as listed: %s" % (
                    q[0], q[2], q[3], TYPES[q[1]], as_listed["count"], as_listed["vals"][:8], ascending["count"], ascending["vals"][:8],
                    spec["count"], spec["vals"][:8], c.format_text(), rp["tables"]), rp)
        # window-split independence on the implementation itself
        if len(getattr(c, "res", [])) == len(c.qs):
            for (i0, i1, i2, k) in getattr(c, "splits", []):
                (qw, W, _, _, tw), (qa, Aa, _, _, ta), (qb, Bb, _, _, tb) = c.res[i0], c.res[i1], c.res[i2]
                if any(x.get("crash") or x["err"] for x in (W, Aa, Bb)) or any(t in ("mplexrate", "mplexneg", "mplexseek", "mplexnested") for t in tw + ta + tb) or (
                        getattr(c, "lb", -1) != -1 and c.fields[[f[0] for f in c.fields].index(qw[0])][7]):     # finite look-back: the start matters, as documented
                    continue
                stats["splits"] = stats.get("splits", 0) + 1
                if Aa["count"] == k:
                    exp_count, exp_vals = k + Bb["count"], Aa["vals"][:k] + Bb["vals"]
                else:
                    exp_count, exp_vals = Aa["count"], Aa["vals"]
                if W["count"] != exp_count or W["vals"][:qw[3]] != exp_vals[:qw[3]]:
                    key = "getdata/window-split-dependence/%s" % c.fields[[f[0] for f in c.fields].index(qw[0])][1]
                    if key not in seen_keys:
                        seen_keys[key] = 1
                        chk.violation(key, "gd_getdata(%s, first_sample=%d, n=%d) = %d %s, but read as [%d,+%d) and [%d,+%d) it is %d %s: a sample depends on where the window starts\n%s" % (
                            qw[0], qw[2], qw[3], W["count"], W["vals"][:10], qa[2], qa[3], qb[2], qb[3], exp_count, exp_vals[:10], c.format_text()),
                            replay_of(c, qw, W, {"err": False, "count": exp_count, "vals": exp_vals}, {"count": exp_count, "vals": exp_vals}, tw))
        for qi, (q, im, model, spec, tags) in enumerate(getattr(c, "res", [])):
            n = q[3]
            stats["queries"] += 1
            # clauses that the theorem for the current flags (read_matches_spec_current) rules out
            imposs = [t for t in tags if (t == "unaligned" and VARIANT.split()[0] == "1") or
                      (t == "alloczero" and (VARIANT.split()[2] == "1" or (VARIANT.split()[0] == "1" and n != 0)))]
            if imposs and "proof/clause" not in seen_keys:
                seen_keys["proof/clause"] = 1
                chk.violation("proof/clause-impossible-under-current-flags", "the extracted `uncovered` reports %s although the source variant is %s" % (imposs, VARIANT),
                              replay_of(c, q, im, model, spec, tags), found=False)
            if im.get("crash"):
                stats["crashes"] = stats.get("crashes", 0) + 1
                key = "getdata/crash/%s" % ("covered" if not tags else ",".join(tags))
                stats["bykey"][key] = stats["bykey"].get(key, 0) + 1
                if key not in seen_keys:
                    seen_keys[key] = 1
                    chk.violation(key, "gd_getdata(%s, first_sample=%d, n=%d, %s) crashes the process (heap corruption); the Standards give count=%d (clauses: %s)\n%s" % (
                        q[0], q[2], q[3], TYPES[q[1]], spec["count"], ",".join(tags), c.format_text()), replay_of(c, q, im, model, spec, tags))
                continue
            e_spec = same(im, spec, n, False)
            e_model = same(im, model, n, True)
            wild = sum(1 for v in spec["vals"] if v == "?")
            stats["wild"] += wild
            sig = (tuple(tags), im["count"], spec["count"], q[1], c.fields[[f[0] for f in c.fields].index(q[0])][1])
            stats["sigs"].add(sig)
            if not tags:
                stats["covered"] += 1
                if im["count"] > 0:
                    stats["covered_nonempty"] += 1
                m_vs_s = (not model["err"]) and model["count"] == spec["count"] and model["vals"] == spec["vals"]
                if not m_vs_s:
                    chk.violation("proof/model-differs-from-spec-in-covered-region",
                                  "extracted impl_read and spec_window differ on a covered query (theorem read_matches_spec_partial says they cannot)",
                                  replay_of(c, q, im, model, spec, tags), found=False)
                    continue
                if not e_spec:
                    kind = "count" if im["count"] != spec["count"] or im["err"] else "value"
                    key = "getdata/covered-region/%s/%s" % (sig[4], kind)
                    extra = ""
                    # is it the call, or what earlier calls on this handle left behind?  Ask a fresh handle.
                    if exe is not None and os.path.isdir(getattr(c, "dir", "")):
                        rc, out = run_stream([exe], "\n".join(open_lines(c)) + "\nG %s %d %d %d\nC\n" % (q[0], q[1], q[2], q[3]), env=HENV)
                        ls = [l for l in out.split("\n") if l.startswith("G ")]
                        alone = parse_impl(ls[0]) if ls else None
                        if alone is not None and same(alone, spec, n, False):
                            # right on its own: the MPLEX start-value cache carried a value in.  The one listed way
                            # is a value formed before sample zero (index padding equal to count_val); anything
                            # else stays an unlisted key
                            prior = [r[0] for r in c.res[:qi] if "mplexneg" in r[4]]
                            key = K_CACHENEG if prior else "getdata/history-dependent/%s/%s" % (sig[4], kind)
                            extra = " (the same call on a fresh handle returns the specified window; earlier calls on this handle: %s)" % (
                                ["gd_getdata(%s, %d, %d)" % (p[0], p[2], p[3]) for p in (prior or [r[0] for r in c.res[:qi]])][-3:])
                            stats["bykey"][key] = stats["bykey"].get(key, 0) + 1
                    if key not in seen_keys:
                        seen_keys[key] = 1
                        rp = replay_of(c, q, im, model, spec, tags)
                        rp["earlier_calls_on_the_handle"] = [r[0] for r in c.res[:qi]]
                        chk.violation(key, "gd_getdata(%s, first_sample=%d, n=%d, %s) returns err=%d count=%d %s; the Standards give count=%d %s%s\n%s" % (
                            q[0], q[2], q[3], TYPES[q[1]], im["err"], im["count"], im["vals"][:8], spec["count"], spec["vals"][:8], extra, c.format_text()),
                            rp)
                continue
            stats["uncovered"] += 1
            if e_spec:
                stats["uncovered_ok"] += 1
                continue
            judged = [t for t in tags if t not in ("mplexneg", "mplexnested")]     # implementation dependent by the Standards
            if not judged:
                stats["unjudged"] += 1
                continue
            t0 = [t for t in TAGPRIO if t in judged][0]
            key = TAGKEY[t0]
            # refinement: the failure must be the one the model of the code predicts.  Not applied where the
            # outcome depends on memory the model does not carry (an unwritten second-input buffer:
            # whatever malloc returned steers MPLEX/WINDOW decisions)
            # nor where the model's own prediction contains undefined values ('?'): the outcome then depends on
            # memory content or on C undefined behaviour
            # nor for a multi-rate MPLEX: its wrong last sample is cached and seeds the next read (state)
            if not e_model and "mplexrate" not in tags and "?" not in model["vals"]:
                # the MPLEX last-sample cache carries a defect's wrong value from one call into the next:
                # decide on the call alone, on a fresh handle
                alone = None
                if exe is not None and os.path.isdir(getattr(c, "dir", "")):
                    rc, out = run_stream([exe], "\n".join(open_lines(c)) + "\nG %s %d %d %d\nC\n" % (q[0], q[1], q[2], q[3]), env=HENV)
                    ls = [l for l in out.split("\n") if l.startswith("G ")]
                    alone = parse_impl(ls[0]) if ls else None
                if alone is None or not same(alone, model, n, True):
                    key += "/unpredicted"
            stats["bykey"][key] = stats["bykey"].get(key, 0) + 1
            if key not in seen_keys:
                seen_keys[key] = 1
                chk.violation(key, "gd_getdata(%s, first_sample=%d, n=%d, %s) returns err=%d count=%d %s%s; the Standards give count=%d %s (clauses: %s; model of the code predicts %s)\n%s" % (
                    q[0], q[2], q[3], TYPES[q[1]], im["err"], im["count"], im["vals"][:8], " and writes past the buffer" if im["over"] else "",
                    spec["count"], spec["vals"][:8], ",".join(tags),
                    "error" if model["err"] else "count=%d %s" % (model["count"], model["vals"][:8]), c.format_text()),
                    replay_of(c, q, im, model, spec, tags))


# ---------------------------------------------------------------- complex-valued fields
def complex_probe(chk, exe, root, stats, ncases):
    """Complex data is not in the Coq model; this part of the read matrix is judged against an
    independent evaluator written here from dirfile-format(5): complex RAW and complex CARRAY + INDIR
    inputs, the representation suffixes .r .i .m .a on the field read and on inputs of other derived
    fields, complex values as first or second input of MULTIPLY / DIVIDE / LINCOM / PHASE, read as
    FLOAT64 (real part unless a suffix says otherwise) and as COMPLEX128."""
    import cmath, math
    rng = chk.rng
    seen = set()

    def cstr(z):
        return "%s;%s" % (fmtd(z.real), fmtd(z.imag))

    def repr_of(z, r):
        if r == "r":
            return complex(z.real, 0)
        if r == "i":
            return complex(z.imag, 0)
        if r == "m":
            return complex(abs(z), 0)
        if r == "a":
            return complex(cmath.phase(z), 0)
        return z

    cmds = []
    plan = []      # (case, code, rt, s, n, expected list of complex)
    for ci in range(ncases):
        d = os.path.join(root, "cx%d" % ci)
        os.makedirs(d)
        N = rng.randint(6, 20)
        la = rng.choice([1, 3, 5, 8])
        ca = [complex(rng.randint(-9, 9) + rng.choice([0, 0.5]), rng.randint(-9, 9)) for _ in range(la)]
        cr = [float(rng.randint(-9, 9)) for _ in range(la)]
        idx = [rng.randrange(la) for _ in range(N)]
        a = [float(rng.randint(-6, 9)) + rng.choice([0, 0.25]) for _ in range(N)]
        z = [complex(rng.randint(-9, 9), rng.randint(-9, 9) + rng.choice([0, 0.5])) for _ in range(N)]
        m1, b1 = rng.choice([2.0, -1.0, 0.5, 3.0]), rng.choice([0.0, 1.0, -2.0])
        sh = rng.choice([1, 2, -1])
        sfx = lambda: rng.choice(["r", "i", "m", "a"])
        s1, s2, s3 = sfx(), sfx(), sfx()
        fmt = ["/ENCODING none", "/ENDIAN little", "a RAW FLOAT64 1", "idx RAW UINT8 1", "z RAW COMPLEX128 1",
               "ca CARRAY COMPLEX128 " + " ".join(cstr(v) for v in ca), "cr CARRAY FLOAT64 " + " ".join(fmtd(v) for v in cr),
               "x INDIR idx ca", "xr INDIR idx cr",
               "l LINCOM 1 x %s %s" % (fmtd(m1), fmtd(b1)), "lz LINCOM 2 z %s %s x 1 0" % (fmtd(m1), fmtd(b1)),
               "mu MULTIPLY a x", "mx MULTIPLY x a", "mz MULTIPLY z x", "dv DIVIDE a x",
               "mi MULTIPLY a x.%s" % s1, "li LINCOM 1 x.%s 1 0" % s2, "pz PHASE z.%s %d" % (s3, sh), "ph PHASE x %d" % sh, "/REFERENCE a"]
        with open(os.path.join(d, "format"), "w") as fh:
            fh.write("\n".join(fmt) + "\n")
        with open(os.path.join(d, "a"), "wb") as fh:
            fh.write(b"".join(struct.pack("<d", v) for v in a))
        with open(os.path.join(d, "idx"), "wb") as fh:
            fh.write(bytes(idx))
        with open(os.path.join(d, "z"), "wb") as fh:
            fh.write(b"".join(struct.pack("<dd", v.real, v.imag) for v in z))
        X = [ca[i] for i in idx]
        nan = complex(float("nan"), float("nan"))

        def at(L, k, pad=nan):
            return L[k] if 0 <= k < len(L) else None
        vals = {
            "x": X, "xr": [complex(cr[i], 0) for i in idx], "z": z, "a": [complex(v, 0) for v in a],
            "l": [v * complex(m1, 0) + complex(b1, 0) for v in X],
            "lz": [z[k] * complex(m1, 0) + complex(b1, 0) + X[k] for k in range(N)],
            "mu": [complex(a[k], 0) * X[k] for k in range(N)], "mx": [X[k] * complex(a[k], 0) for k in range(N)],
            "mz": [z[k] * X[k] for k in range(N)],
            "dv": [(complex(a[k], 0) / X[k]) if X[k] != 0 else None for k in range(N)],
            "mi": [complex(a[k], 0) * repr_of(X[k], s1) for k in range(N)],
            "li": [repr_of(X[k], s2) for k in range(N)],
        }
        # PHASE: sample k is input sample k + shift; the field ends at N - shift; None = padding, not judged here
        vals["pz"] = [repr_of(z[k + sh], s3) if 0 <= k + sh < N else None for k in range(N - sh)]
        vals["ph"] = [X[k + sh] if 0 <= k + sh < N else None for k in range(N - sh)]
        cmds.append("O %s" % d)
        for _ in range(10):
            base = rng.choice(list(vals))
            suf = rng.choice(["", "", ".r", ".i", ".m", ".a"])
            rt = rng.choice([9, 11])
            s = rng.randint(0, N - 1)
            n = rng.randint(1, 8)
            L = vals[base]
            exp = []
            for k in range(s, min(s + n, len(L))):
                v = L[k]
                if v is None:
                    exp.append(None)          # padding before sample 0 / division by zero: not judged here
                    continue
                w = repr_of(v, suf[1:]) if suf else v
                # the argument of a negative real number: +pi or -pi according to the sign of a zero
                # imaginary part, which the Standards do not define: both accepted
                if suf == ".a" and v == 0:
                    exp.append(None)          # the argument of zero depends on the signs of its zero parts: not judged
                    continue
                exp.append(("pi", w) if suf == ".a" and v.imag == 0 and v.real < 0 else w)
            cmds.append("G %s%s %d %d %d" % (base, suf, rt, s, n))
            plan.append((ci, "\n".join(fmt), base + suf, rt, s, n, exp, base == "dv"))
        cmds.append("C")
    rc, out = run_stream([exe], "\n".join(cmds) + "\n", env=HENV)
    res = [l for l in out.split("\n") if l.startswith("G ") or l.startswith("X ")]
    stats["complex_queries"] = len(plan)
    if len([l for l in res if l.startswith("G ")]) != len(plan):
        chk.violation("harness", "complex probe: %d results for %d queries (%s)" % (len(res), len(plan), [l for l in res if l.startswith("X ")][:2]),
                      {"kind": "harness", "output": out[-500:]}, found=False)
        return

    def f64(h):
        return struct.unpack("<d", struct.pack("<Q", int(h, 16)))[0]

    def close(x, y, loose):
        if x != x or y != y:
            return x != x and y != y
        if x == y:
            return True
        return loose and abs(x - y) <= 4e-15 * max(abs(x), abs(y), 1e-300)
    for (ci, fmt, code, rt, s, n, exp, loose), line in zip(plan, [l for l in res if l.startswith("G ")]):
        im = parse_impl(line)
        bad = None
        if im is None or im["err"] != 0 or im["count"] != len(exp):
            bad = "err/count %s (expected %d samples)" % (line[:60], len(exp))
        else:
            for k, (tok, e) in enumerate(zip(im["vals"], exp)):
                if e is None:
                    continue
                if isinstance(e, tuple):
                    got = f64(tok.split(":")[0])
                    if abs(got) != math.pi or (rt == 11 and f64(tok.split(":")[1]) != 0):
                        bad = "sample %d is %s, the Standards give +-pi" % (s + k, tok)
                        break
                    continue
                if rt == 11:
                    re, imv = [f64(h) for h in tok.split(":")]
                    ok = close(re, e.real, loose) and close(imv, e.imag, loose)
                else:
                    ok = close(f64(tok), e.real, loose)
                if not ok:
                    bad = "sample %d is %s, the Standards give %r" % (s + k, tok, e if rt == 11 else e.real)
                    break
        if bad:
            key = "getdata/complex/%s" % re_sub_digits(code)
            if key not in seen:
                seen.add(key)
                chk.violation(key, "gd_getdata(%s, first_sample=%d, n=%d, %s): %s\n%s" % (code, s, n, TYPES[rt], bad, fmt),
                              {"kind": "complex-probe", "format": fmt, "query": {"field": code, "return_type": TYPES[rt], "first_sample": s, "num_samples": n},
                               "impl": line, "expected": [None if e is None else ("+-pi" if isinstance(e, tuple) else [e.real, e.imag]) for e in exp]})


# ---------------------------------------------------------------- reads interleaved with writes on one handle
WRITABLE = ("raw", "lincom1", "phase", "bit", "sbit", "recip", "linterp", "polynom", "mplex", "window")


def write_history_probe(chk, exe, root, stats, ncases):
    """Reads must not depend on what the handle did before -- also when it WROTE in between.  On one GD_RDWR
    handle: gd_getdata(f, [a,b)); gd_putdata through a RAW or a writable derived field (LINCOM 1, PHASE, BIT, SBIT,
    RECIP, LINTERP, POLYNOM, MPLEX, WINDOW) sharing a RAW with f, just below b; gd_getdata(f) from b on; several
    rounds.  The same operations are replayed with every call on its own fresh handle (writes reach the files in
    the same order); every read must return the same in both runs.  No model is involved (the data after a write
    through a derived field is C02's subject): this is C01's history-independence clause, extended over writes.
    Unencoded fragments only (out-of-place codecs re-write whole files: C02/C04)."""
    rng = chk.rng
    cases = []
    tries = 0
    while len(cases) < ncases and tries < 8 * ncases:
        tries += 1
        c = Case(rng, 700000 + len(cases), depth_max=4, simple=True)
        if c.alter or any(k.endswith((".gz", ".bz2", ".xz")) or (k.endswith(".txt") and not k.startswith("lut")) for k in c.files):
            continue
        c.lb = -1
        names = {f[0]: f for f in c.fields}
        deps = {}
        for d in c.drv:
            t = d.split()
            if t[0] == "def" and t[1] in names:
                deps[t[1]] = [x for x in t[3:] if x in names and x != t[1]]
        roots = {}

        def root_of(n):
            if n not in roots:
                roots[n] = {n} if names[n][1] == "raw" else set().union(*[root_of(x) for x in deps.get(n, [])]) if deps.get(n) else set()
            return roots[n]
        derived = [f for f in c.fields if f[1] != "raw"]
        if not derived:
            continue
        wr = [f for f in c.fields if f[1] in WRITABLE]
        ops = []
        mp = [f for f in derived if f[7]]
        for _ in range(4):
            m = rng.choice(mp) if mp and rng.random() < 0.7 else rng.choice(derived)
            rt = rng.choice([9, 9, 6, 4])
            for _ in range(2):
                a = rng.randint(0, 20)
                b = a + rng.randint(1, 12)
                ops.append("G %s %d %d %d" % (m[0], rt, a, b - a))
                cand = [w for w in wr if root_of(w[0]) & root_of(m[0])] or wr
                w = rng.choice(cand)
                n = rng.randint(1, 3)
                # positions are in samples of w; aim just below b in m's samples
                pos = max(0, (b * w[3]) // m[3] - rng.randint(1, 3))
                ops.append("P %s %d %d" % (w[0], pos, n))
                ops.append("G %s %d %d %d" % (m[0], rt, b, rng.randint(1, 8)))
        # a write whose position becomes -1 below a PHASE (K_PUTHERE): from there on the two runs write to
        # different places, so the case is judged up to that write and the first difference after it is K_PUTHERE
        shifts = {}
        for d in c.drv:
            t = d.split()
            if t[0] == "def" and len(t) >= 5 and t[2] == "phase":
                shifts[t[1]] = (t[3], int(t[4]))
        c.here_at = None
        for k, op in enumerate(ops):
            if op[0] != "P":
                continue
            t = op.split()
            n, pos, inner = t[1], int(t[2]), False
            while n in names and names[n][1] != "raw":
                if n in shifts:
                    n, pos = shifts[n][0], pos + shifts[n][1]
                elif deps.get(n):
                    n = deps[n][0]
                else:
                    break
                if pos == -1:
                    inner = True
            if inner:
                c.here_at = k
                break
        c.ops = ops
        c.hdir = c.write(os.path.join(root, "h"))
        c.fdir = c.write(os.path.join(root, "f"))
        cases.append(c)
    # witness of K_PUTHERE, every run: a write through PHASE -1 at sample 0 lands where the read left the pointer
    w = Case.__new__(Case)
    w.rng = rng; w.idx = 799999; w.drv = []; w.alter = []; w.lb = -1
    w.files = {"format": b"/ENCODING none\n/ENDIAN little\n/FRAMEOFFSET 3\nr0 RAW INT64 4\nf2 PHASE r0 -1\n",
               "r0": b"".join(struct.pack("<q", v) for v in range(1, 21))}
    w.fields = [("r0", "raw", 0, 4, True, True, False, False), ("f2", "phase", 1, 4, True, True, False, False)]
    w.ops = ["G r0 6 10 8", "P f2 0 2", "G r0 6 10 8"]
    w.here_at = 1
    w.hdir = w.write(os.path.join(root, "h"))
    w.fdir = w.write(os.path.join(root, "f"))
    cases.append(w)
    jobs = vlib.NPROC
    chunks = [ch for ch in (cases[i::jobs] for i in range(jobs)) if ch]

    def job(ch):
        lines = []
        for c in ch:
            lines += ["W %s" % c.hdir, "L -1"] + c.ops + ["C"]
            for op in c.ops:
                lines += ["%s %s" % ("W" if op[0] == "P" else "O", c.fdir), "L -1", op, "C"]
        return run_stream([exe], "\n".join(lines) + "\n", env=HENV)
    with ThreadPoolExecutor(max_workers=jobs) as ex:
        outs = list(ex.map(job, chunks))
    seen = set()
    for ch, (rc, out) in zip(chunks, outs):
        blocks = impl_blocks(out)
        if rc != 0 or len(blocks) != sum(1 + len(c.ops) for c in ch):
            chk.violation("harness", "write-history probe: harness rc=%d blocks=%d: %s" % (rc, len(blocks), out[-300:]), {"kind": "harness"}, found=False)
            continue
        bi = 0
        for c in ch:
            hist = blocks[bi]; bi += 1
            fresh = blocks[bi:bi + len(c.ops)]; bi += len(c.ops)
            hres = hist[2:-1] if not hist[-1].startswith("X ") else hist[2:]
            for k, op in enumerate(c.ops):
                fr = fresh[k]
                fl = fr[2] if len(fr) >= 4 and not fr[-1].startswith("X ") else "crash"
                hl = hres[k] if k < len(hres) else "crash"
                if op[0] != "G":
                    continue
                stats["write_history_reads"] = stats.get("write_history_reads", 0) + 1
                if hl == fl:
                    continue
                kind = names_kind(c, op.split()[1])
                key = "getdata/history-dependent/after-write/%s" % kind
                if c.here_at is not None and k > c.here_at:
                    key = K_PUTHERE
                else:
                    # the listed re-seek finding: the look-back of a fresh handle ends in _GD_Seek's GD_E_RANGE, a handle
                    # that still holds the start value skips the look-back -- same samples, only the error differs (no samples where the MPLEX is nested)
                    th, tf = hl.split(), fl.split()
                    if (len(th) > 2 and len(tf) > 2 and (th[2:] == tf[2:] or tf[2] == "0") and th[1] == "0" and tf[1] == "-8"
                            and any(f[0] == op.split()[1] and f[7] for f in c.fields)):
                        key = TAGKEY["mplexseek"]
                stats["bykey"][key] = stats["bykey"].get(key, 0) + 1
                if key in seen:
                    if key == K_PUTHERE:
                        break
                    continue
                seen.add(key)
                chk.violation(key, "on one GD_RDWR handle, after %s, `%s` returns `%s`; the same call on a fresh handle (same writes already in the files) returns `%s`\n%s" % (
                    c.ops[max(0, k - 3):k], op, hl[:200], fl[:200], c.format_text()),
                    {"kind": "write-history", "format": c.format_text(),
                     "data_files": {n: v.hex() for n, v in c.files.items() if not n.endswith("format") and not n.endswith(".txt")},
                     "tables": {n: v.decode() for n, v in c.files.items() if n.endswith(".txt")},
                     "operations_on_one_handle": c.ops[:k + 1], "result_on_that_handle": hl, "result_on_a_fresh_handle": fl,
                     "all_results_on_the_handle": hres[:k + 1],
                     "how": "harness/C01/rd: 'W <dir>', 'L -1', the operations (P <field> <s> <n> = gd_putdata of the doubles 1000+s+i), 'C'; "
                            "for the fresh-handle run put every operation between its own 'W|O <dir>' and 'C' on a second copy of the dirfile"})


def names_kind(c, n):
    for f in c.fields:
        if f[0] == n:
            return f[1]
    return "?"


def re_sub_digits(code):
    return code


# hand-written witnesses of the listed findings (replayed on every run)
def witness_cases(rng):
    W = []

    def mk(idx, fmt, raws, drv, qs):
        c = Case.__new__(Case)
        c.rng = rng; c.idx = idx; c.files = {"format": ("/ENCODING none\n/ENDIAN little\n" + fmt).encode()}
        for name, vals in raws.items():
            c.files[name] = b"".join(struct.pack("<d", v) for v in vals)
        c.drv = ["reset", "def INDEX index"] + drv
        c.qs = qs
        c.fields = [(q[0], "witness", 1, 1, False, False, False, False) for q in qs]
        c.raws = []
        c.lb = -1
        return c
    h = lambda vals: " ".join("%x" % dbits(v) for v in vals)
    a8 = [1, 2, 3, 4, 5, 6, 7, 8]; b4 = [10, 20, 30, 40]
    W.append(mk(900001, "a RAW FLOAT64 2\nb RAW FLOAT64 1\nm MULTIPLY a b\n", {"a": a8, "b": b4},
                ["raw 0 9 2 0 8 " + h(a8), "raw 1 9 1 0 4 " + h(b4), "def a raw 0", "def b raw 1", "def m multiply a b"],
                [("m", 9, 1, 4)]))
    a20 = list(range(1, 21)); b3 = [1, 1, 1]
    W.append(mk(900002, "a RAW FLOAT64 1\nb RAW FLOAT64 1\nm MULTIPLY a b\n", {"a": a20, "b": b3},
                ["raw 0 9 1 0 20 " + h(a20), "raw 1 9 1 0 3 " + h(b3), "def a raw 0", "def b raw 1", "def m multiply a b"],
                [("m", 9, 5, 4)]))
    W.append(mk(900003, "a RAW FLOAT64 2\nb RAW FLOAT64 1\nl LINCOM 2 a 1 0 b 1 0\n", {"a": a8, "b": b4},
                ["raw 0 9 2 0 8 " + h(a8), "raw 1 9 1 0 4 " + h(b4), "def a raw 0", "def b raw 1",
                 "def l lincom2 a b %x %x %x %x" % (dbits(1), dbits(0), dbits(1), dbits(0))],
                [("l", 9, 0, 1)]))
    a9 = list(range(1, 10))
    W.append(mk(900004, "a RAW FLOAT64 1\np PHASE a -5\n", {"a": a9},
                ["raw 0 9 1 0 9 " + h(a9), "def a raw 0", "def p phase a -5"],
                [("p", 9, 0, 2)]))
    c = mk(900005, "/FRAMEOFFSET 2\na RAW INT16 2\n", {}, ["raw 0 2 2 2 6 1 2 3 4 5 6", "def a raw 0"], [("a", 9, 2, 4)])
    c.files["a"] = b"".join(struct.pack("<h", v) for v in [1, 2, 3, 4, 5, 6])
    W.append(c)
    i8 = [0, 1, 0, 1, 0, 1, 0, 1]
    c = mk(900006, "a RAW FLOAT64 2\ni RAW INT32 1\nx MPLEX a i 1 0\n", {"a": [1, 2, 3, 4, 5, 6, 7, 8, 9, 10, 11, 12, 13, 14, 15, 16]},
           ["raw 0 9 2 0 16 " + h(list(range(1, 17))), "raw 1 4 1 0 8 " + " ".join("%x" % v for v in i8), "def a raw 0", "def i raw 1", "def x mplex a i 1 0"],
           [("x", 9, 4, 4), ("x", 9, 5, 4)])
    c.files["i"] = b"".join(struct.pack("<i", v) for v in i8)
    W.append(c)
    W.append(mk(900007, "a RAW FLOAT64 1\np PHASE a -2\n", {"a": a9},
                ["raw 0 9 1 0 9 " + h(a9), "def a raw 0", "def p phase a -2"], [("p", 9, 1, 3)]))
    c = mk(900008, "a RAW FLOAT64 1\nl LINTERP a table.txt\n", {"a": a9},
           ["raw 0 9 1 0 9 " + h(a9), "def a raw 0", "def l linterp a 2 %x %x %x %x" % (dbits(0), dbits(0), dbits(1), dbits(1))],
           [("l", 9, 0, 0)])
    c.files["table.txt"] = b"0 0\n1 1\n"
    W.append(c)
    i20 = [0, 1] * 10
    c = mk(900009, "a RAW FLOAT64 1\ni RAW INT32 1\np PHASE i 6\nx MPLEX a p 2 0\n", {"a": a20},
           ["raw 0 9 1 0 20 " + h(a20), "raw 1 4 1 0 20 " + " ".join("%x" % v for v in i20), "def a raw 0", "def i raw 1",
            "def p phase i 6", "def x mplex a p 2 0"], [("x", 9, 0, 1)])
    c.files["i"] = b"".join(struct.pack("<i", v) for v in i20)
    W.append(c)
    # MPLEX start-value cache seeded by a window that began before sample zero (two calls, in this order)
    i8b = [1] * 8
    c = mk(900010, "i RAW INT32 1\nx MPLEX INDEX i 0 0\np PHASE x -2\n", {},
           ["raw 0 4 1 0 8 " + " ".join("%x" % v for v in i8b), "def i raw 0", "def x mplex INDEX i 0 0", "def p phase x -2"],
           [("p", 9, 0, 4), ("x", 9, 2, 3)])
    c.files["i"] = b"".join(struct.pack("<i", v) for v in i8b)
    W.append(c)
    # regression witness of K_LUTDESC (a LINTERP table listed with falling x was used as listed; repaired in
    # /repo 389b7c6): run_cases reads the same points listed ascending as well and the two runs must agree
    a4 = [5, 15, 25, 35]
    c = mk(900011, "a RAW FLOAT64 1\nl LINTERP a table.txt\n", {"a": a4},
           ["raw 0 9 1 0 4 " + h(a4), "def a raw 0", "def l linterp a 3 " + " ".join("%x %x" % (dbits(x), dbits(y)) for x, y in [(10, 0), (20, 10), (30, 0)])],
           [("l", 9, 0, 4)])
    c.files["table.txt"] = b"30 0\n20 10\n10 0\n"
    c.desc_tables = {"table.txt": b"10 0\n20 10\n30 0\n"}
    c.descdep = {"l"}
    W.append(c)
    return W


# 900002 (second input exhausted), 900003 (LINCOM count), 900004 (window before sample 0) and 900007 (sample -1 / GD_HERE) were defects of the
# pinned tree that have been repaired in /repo since; they stay as regression witnesses (any failure is a violation)
WITNESS_KEYS = {900001: "getdata/multirate-unaligned-start",
                900005: "getdata/raw-bof-pad-native-type", 900006: "getdata/mplex-multirate",
                900008: "getdata/zero-length-buffer-internal-error",
                900009: "getdata/mplex-lookback-reseek-range-error"}
# 900010 (K_CACHENEG) is a two-call witness: it is confirmed by the judge itself (fresh-handle comparison)


def main():
    chk = vlib.Check(PID)
    load_staged_known(chk, PID)
    t0 = time.time()
    tr_problems = read_variant(chk)
    proved = chk.prove("Properties_C01")
    chk.cov["trusted_base"] += [
        "Coq 8.16.1 kernel, vm_compute (no native_compute)",
        "hand-written model coq/C01/Read.v of src/getdata.c (tied by the correspondence below, every run, to the library built from the working tree)",
        "translate/tr_readpath.py: decides from the source which variant of the model applies (before/after each proposed repair); the theorems hold for every variant and the correspondence validates the choice",
        "value algebra coq/C01/Inst.v: C arithmetic via Flocq binary64 and GD.C06.Convert casts; the theorems hold for every algebra, so this is trusted only for the correspondence and for the refutation witnesses",
        "extraction: ExtrOcamlBasic only; OCaml 4.13 driver ocaml/C01/driver.ml; C harness harness/C01/rd.c (gcc -O1, -ffp-contract=off, x86-64 little-endian)",
        "generator/judge in checks/C01.py (python3)",
        "write-history probe: no model -- a handle with a history of reads and writes is compared with fresh handles on a second copy of the dirfile that receives the same writes",
    ]
    chk.assumptions += [
        "counts are far below GD_TRANSACTION_MAX and 2^31 (the (int) cast of num_samp2 and the 2^63 range checks are not modelled)",
        "real-valued data only (no COMPLEX64/128 RAW, no complex scalars, no representation suffixes)",
        "RAW files unencoded, gzip, bzip2, lzma or text per fragment (the model sees decoded samples; SIE/flac/slim/zzip not covered); LINTERP tables with distinct abscissae listed in any order, entering the model as parsed rows sorted by x (a table listed in falling order is also run listed ascending and judged on that copy; differences between the two runs are reported)",
        "MPLEX look-back per case: unlimited, 0, 1, 2 or 10 cycles (gd_mplex_lookback); the last-sample cache is not modelled: with an unlimited look-back each query is also correct without it (sequences on one handle check that), with a finite one the documented result depends on it and every call is made on a fresh handle",
        "first_sample >= 0 at the public entry (GD_HERE is C17's subject)",
        "samples at negative positions reaching an MPLEX are implementation dependent by dirfile-format(5) and not judged",
        "a value the model marks undefined (C undefined behaviour in a conversion, memory never written) is a wild card in comparisons",
    ]
    try:
        impl = vlib.build_impl()
        exe = vlib.build_harness(impl, os.path.join(vlib.VERIF, "harness/C01/rd.c"))
        ok, log = vlib.coq_make(["C01/Exec.vo"])
        drv = vlib.build_ocaml_driver(PID, "C01/Extract.v", "ocaml/C01/driver.ml") if ok else None
    except vlib.BuildError as e:
        chk.violation("build", "build failed: " + str(e)[:2000], {"kind": "build", "log": str(e)}, found=False)
        return chk.finish()
    if drv is None:
        chk.violation("model-build", "Coq model does not compile: " + log[-1500:], {"kind": "model-build", "log": log[-4000:]}, found=False)
        return chk.finish()
    root = vlib.scratch("C01-run-")
    ncases, nq = (2400, 14) if not chk.thorough else (16000, 24)
    stats = {"queries": 0, "covered": 0, "covered_nonempty": 0, "uncovered": 0, "uncovered_ok": 0, "unjudged": 0, "wild": 0,
             "sigs": set(), "bykey": {}}
    batches = 1 if not chk.thorough else 8
    allcases = []
    for b in range(batches):
        cases = generate(chk, ncases // batches, nq, depth_max=6 if not chk.thorough else 12)
        for c in cases:
            c.idx += b * 100000
        if b == 0:
            cases += witness_cases(chk.rng)
        broot = os.path.join(root, "b%d" % b)
        os.makedirs(broot)
        problems = run_cases(cases, exe, drv, broot, jobs=vlib.NPROC)
        for p in problems[:3]:
            chk.violation("harness", p, {"kind": "harness", "detail": p}, found=False)
        judge(chk, cases, stats, exe)
        for c in cases:
            if c.idx in WITNESS_KEYS:
                for (q, im, model, spec, tags) in getattr(c, "res", []):
                    if not same(im, spec, q[3], False) and same(im, model, q[3], True):
                        chk.known_confirm(WITNESS_KEYS[c.idx], "witness %d reproduced" % c.idx)
        allcases += cases[:3]
        shutil.rmtree(broot, ignore_errors=True)
    # read histories over fields larger than the decoders' windows, on a library built with the H1 hook
    # (64-byte raw / bzip2 / lzma buffers), every encoding, one handle per dirfile
    try:
        impl_s = vlib.build_impl("", SMALL_BUFFERS)
        exe_s = vlib.build_harness(impl_s, os.path.join(vlib.VERIF, "harness/C01/rd.c"))
        cases = generate(chk, 96 if not chk.thorough else 800, 6, simple_frac=0.5, depth_max=1, big=True)
        for c in cases:
            c.idx += 500000
        broot = os.path.join(root, "big")
        os.makedirs(broot)
        problems = run_cases(cases, exe_s, drv, broot, jobs=vlib.NPROC)
        for p in problems[:3]:
            chk.violation("harness", p, {"kind": "harness", "detail": p}, found=False)
        q0 = stats["queries"]
        judge(chk, cases, stats, exe_s)
        stats["history_queries_small_buffers"] = stats["queries"] - q0
        shutil.rmtree(broot, ignore_errors=True)
    except vlib.BuildError as e:
        chk.violation("build", "small-buffer build failed: " + str(e)[:1500], {"kind": "build", "log": str(e)}, found=False)
    whroot = os.path.join(root, "wh")
    os.makedirs(whroot)
    write_history_probe(chk, exe, whroot, stats, 400 if not chk.thorough else 3000)
    cxroot = os.path.join(root, "complex")
    os.makedirs(cxroot)
    complex_probe(chk, exe, cxroot, stats, 60 if not chk.thorough else 600)
    chk.cov["evaluations"] = stats["queries"]
    chk.cov["distinct_nontrivial"] = len([s for s in stats["sigs"] if s[1] > 0 or s[2] > 0])
    chk.cov["rule"] = ("random dirfiles (2-5 RAW fields of all ten real types, spf from {1,2,3,4,5,7,12}, 0-8 frames plus partial frames, "
                       "frame offsets 0-5, a second fragment with its own frame offset and byte order, the reference field any RAW, a frame offset altered on the handle, partial trailing samples; 4-12 derived fields of "
                       "all real vector types nested up to depth %d, CONST/CARRAY scalar parameters) x windows (s,n) aligned and unaligned, "
                       "straddling BOF and EOF, return types FLOAT64/INT64/UINT64/INT32; distinct_nontrivial = distinct (violated clauses, "
                       "returned count, specified count, return type, field kind) with data returned or specified") % (6 if not chk.thorough else 12)
    chk.cov["distribution"] = {k: v for k, v in stats.items() if k not in ("sigs",)}
    for c in allcases[:4]:
        if getattr(c, "res", None):
            q, im, model, spec, tags = c.res[0]
            chk.sample({"query": q, "impl": im, "spec": spec, "uncovered": tags})
    if tr_problems and not chk.violations:
        chk.violation("translator", "the source matches neither variant of the model: " + "; ".join(tr_problems[:3]),
                      {"kind": "translator", "problems": tr_problems}, found=False)
    if not proved and not chk.violations:
        chk.violation("proof", "Properties_C01 does not check: " + getattr(chk, "proof_log", "")[-1500:],
                      {"kind": "proof", "theorem": "Properties_C01", "log": getattr(chk, "proof_log", "")[-4000:]}, found=False)
    chk.notes.append("wall %.1fs" % (time.time() - t0))
    return chk.finish()


if __name__ == "__main__":
    sys.exit(main())
