#!/usr/bin/env python3
"""C06 -- numeric type conversion preserves every representable value.

proof:   Properties_C06.v over the table regenerated from src/types.c
tie:     translator tr_types.py + correspondence of the extracted cell
         semantics with the compiled _GD_ConvertType
search:  every case is also judged against spec_conv (the property text)."""
import sys, os, struct, itertools
sys.path.insert(0, os.path.join(os.path.dirname(os.path.abspath(__file__)), "..", "bin"))
import vlib

NAMES = ["INT8", "UINT8", "INT16", "UINT16", "INT32", "UINT32", "INT64", "UINT64",
         "FLOAT32", "FLOAT64", "COMPLEX64", "COMPLEX128"]
ESIZE = [1, 1, 2, 2, 4, 4, 8, 8, 4, 8, 4, 8]


def f32bits(x):
    return struct.unpack("<I", struct.pack("<f", x))[0]


def f64bits(x):
    return struct.unpack("<Q", struct.pack("<d", x))[0]


def int_sources(bits, rng, nrand):
    s = set()
    mask = (1 << bits) - 1
    for k in range(bits + 1):
        for d in (-1, 0, 1):
            s.add(((1 << k) + d) & mask)
            s.add((-(1 << k) + d) & mask)
    for v in (0, 1, mask, mask >> 1, (mask >> 1) + 1, 3_000_000_000 & mask, 16777217 & mask,
              (1 << 53) + 1 & mask, 9007199254740993 & mask, (1 << 24) + 1):
        s.add(v & mask)
    # double-rounding witnesses: just above/below a binary32 (binary64) halfway point by less than
    # one ulp of the wider format, so a conversion routed through a wider float type shows
    for k in range(25, bits):
        for w in (24, 53):
            if k - w >= 1:
                h = 1 << (k - w)
                for d in (-1, 1):
                    s.add(((1 << k) + h + d) & mask)
                    s.add((-((1 << k) + h + d)) & mask)
                    s.add(((1 << k) + 3 * h + d) & mask)
    for _ in range(nrand):
        s.add(rng.getrandbits(bits))
        s.add(rng.getrandbits(rng.randint(1, bits)))
    return sorted(s)


def float_sources(bits, rng, nrand):
    s = set()
    conv = f32bits if bits == 32 else f64bits
    vals = [0.0, -0.0, 1.0, -1.0, 0.5, -0.5, 0.99999, 1.5, 2.5, -2.5, 127.0, 127.5, 128.0, -128.0, -128.5, -129.0,
            255.0, 255.9, 256.0, 32767.0, 32767.9, 32768.0, -32768.0, -32768.9, -32769.0, 65535.0, 65535.5, 65536.0,
            3e9, 0.1, 1e-40, 1e-310, 5e-324, 1e38, 3.4028234663852886e38, 3.4028235677973366e38, 3.5e38, 1e300, -1e300,
            16777216.0, 16777217.0, 16777219.0, 9007199254740992.0, 9007199254740993.0, float("inf"), float("-inf")]
    for k in (7, 8, 15, 16, 31, 32, 53, 63, 64, 24):
        for d in (-1.0, -0.5, 0.0, 0.5, 1.0):
            vals.append(2.0 ** k + d); vals.append(-(2.0 ** k) + d)
        vals.append(2.0 ** k * (1 - 2 ** -53)); vals.append(2.0 ** k * (1 + 2 ** -52))
        vals.append(2.0 ** k * (1 - 2 ** -24)); vals.append(-(2.0 ** k) * (1 + 2 ** -23))
    for v in vals:
        try:
            s.add(conv(v))
        except OverflowError:
            pass
    # NaNs, subnormals, extreme patterns
    if bits == 32:
        s.update([0x7fc00000, 0xffc00001, 0x7f800001, 0x00000001, 0x007fffff, 0x00800000, 0x7f7fffff, 0x80000001])
    else:
        s.update([0x7ff8000000000000, 0xfff8000000000001, 0x7ff0000000000001, 1, 0x000fffffffffffff,
                  0x0010000000000000, 0x7fefffffffffffff, 0x8000000000000001,
                  0x36a0000000000000, 0x3690000000000000, 0x369fffffffffffff, 0x47efffffefffffff, 0x47effffff0000000,
                  0x3ff0000010000000, 0x3ff0000030000000, 0x3ff0000010000001])
    for _ in range(nrand):
        s.add(rng.getrandbits(bits))
        # random value with moderate exponent so that integer parts are in range
        if bits == 32:
            s.add((rng.getrandbits(1) << 31) | (rng.randint(100, 200) << 23) | rng.getrandbits(23))
        else:
            s.add((rng.getrandbits(1) << 63) | (rng.randint(990, 1100) << 52) | rng.getrandbits(52))
    return sorted(s)


def main():
    chk = vlib.Check("C06")
    rng = chk.rng
    # 1. translator
    rc, tout = vlib.sh("python3 %s/translate/tr_types.py" % vlib.VERIF)
    trans_problems = [l for l in tout.splitlines() if l.startswith("PROBLEM")]
    rc2, tout2 = vlib.sh("python3 %s/translate/tr_constchange.py" % vlib.VERIF)
    trans_problems += [l for l in tout2.splitlines() if l.startswith("PROBLEM")]
    # 2. proofs
    proved = chk.prove("Properties_C06", extra_targets=["Gen/ConvTable.vo", "Gen/ConstChange.vo"])
    chk.cov["trusted_base"] += [
        "Coq 8.16.1 kernel, vm_compute (no native_compute)",
        "translator translate/tr_types.py (regex over the two-level switch of _GD_ConvertType; validated below against the compiled function on every case)",
        "translator translate/tr_constchange.py (_GD_ConstType switch of src/parse.c; conditional expressions of the CONST type change in src/mod.c evaluated with the flag values of getdata.h.in; validated by the gd_alter_const/gd_alter_carray stream)",
        "C conversion semantics as modelled in coq/C06/Convert.v (two's complement, IEEE-754 binary32/64 round-to-nearest-even via Flocq binary_normalize, truncation via Flocq Btrunc); little-endian x86-64 host; gcc -O1",
        "extraction: ExtrOcamlBasic only (no Extract Constant); OCaml 4.13 driver ocaml/C06/driver.ml",
    ]
    chk.assumptions += ["NaN payloads are not compared (NaNs are one class)",
                        "out-of-range float->integer conversions are undefined in C and excluded, as the property excludes them"]
    # 3. correspondence + failing-input search
    try:
        impl = vlib.build_impl()
        exe = vlib.build_harness(impl, os.path.join(vlib.VERIF, "harness/C06/conv.c"))
        ok, log = vlib.coq_make(["Gen/ConvTable.vo", "C06/Convert.vo"])
        drv = vlib.build_ocaml_driver("C06", "C06/Extract.v", "ocaml/C06/driver.ml") if ok else None
    except vlib.BuildError as e:
        chk.violation("build", "build failed: " + str(e)[:2000], {"kind": "build", "log": str(e)}, found=False)
        return chk.finish()
    if drv is None:
        chk.violation("model-build", "Coq model/table does not compile: " + log[-1500:], {"kind": "model-build", "log": log[-4000:]}, found=False)
        return chk.finish()
    nr = 300 if not chk.thorough else 20000
    src = {}
    src[0] = src[1] = list(range(256))
    if chk.thorough:
        src[2] = src[3] = list(range(65536))
    else:
        s16 = set(int_sources(16, rng, 1500))
        src[2] = src[3] = sorted(s16)
    src[4] = src[5] = int_sources(32, rng, nr)
    src[6] = src[7] = int_sources(64, rng, nr)
    src[8] = float_sources(32, rng, nr)
    src[9] = float_sources(64, rng, nr)
    lines = []
    for a in range(12):
        for b in range(12):
            if a < 10:
                for v in src[a]:
                    lines.append("%d %d %x" % (a, b, v))
            else:
                base = src[a - 2]
                k = 0
                for v in base:
                    w = base[(k * 7 + 3) % len(base)]
                    k += 1
                    lines.append("%d %d %x %x" % (a, b, v, w))
    data = ("\n".join(lines) + "\n").encode()
    rc1, out1 = vlib.sh([exe], inp=data, timeout=1200)
    rc2, out2 = vlib.sh([drv], inp=data, timeout=3000)
    I = out1.strip().split("\n")
    M = out2.strip().split("\n")
    if rc1 != 0 or rc2 != 0 or len(I) != len(lines) or len(M) != len(lines):
        chk.violation("harness", "harness/driver failed rc=%d/%d lines=%d/%d/%d: %s" % (rc1, rc2, len(lines), len(I), len(M), (out1[-300:] + out2[-300:])),
                      {"kind": "harness"}, found=False)
        return chk.finish()
    nontriv = set()
    spec_bad = {}
    model_bad = {}
    for ln, i, m in zip(lines, I, M):
        spec, model = m.split("|")
        a, b = ln.split()[:2]
        if spec != "U":
            if a != b:
                nontriv.add(ln)
            if i != spec:
                spec_bad.setdefault((a, b), []).append((ln, i, spec, model))
        if model != "U" and i != model:
            model_bad.setdefault((a, b), []).append((ln, i, spec, model))
    chk.cov["evaluations"] = len(lines)
    chk.cov["distinct_nontrivial"] = len(nontriv)
    chk.cov["rule"] = ("all 144 ordered type pairs x source bit patterns (all 8-bit; 16-bit %s; wider: powers of two +-1, type limits, "
                       "2^24/2^31/2^32/2^53/2^63 neighbourhoods, signed zeros, infinities, NaNs, subnormals, float32 overflow/underflow "
                       "thresholds, %d random patterns per type); samples converted in runs so the loop stride is exercised; "
                       "non-trivial = distinct (in,out,bits) with in != out and a defined C conversion") % (
                           "exhaustive" if chk.thorough else "boundaries + random", nr)
    chk.cov["exhaustive"] = False
    chk.cov["source_counts"] = {NAMES[k]: len(v) for k, v in src.items()}
    for k in (5, 1000, len(lines) // 2, len(lines) - 7):
        if k < len(lines):
            a, b = lines[k].split()[:2]
            chk.sample({"in": NAMES[int(a)], "out": NAMES[int(b)], "bits": lines[k].split()[2:], "impl": I[k], "spec|model": M[k]})
    found_any = False
    for (a, b), l in sorted(spec_bad.items()):
        ln, i, spec, model = l[0]
        found_any = True
        chk.violation("conv/%s->%s" % (NAMES[int(a)], NAMES[int(b)]),
                      "conversion %s->%s of bits %s gives %s, the C conversion the property demands gives %s (%d such inputs)" % (
                          NAMES[int(a)], NAMES[int(b)], ln.split()[2:], i, spec, len(l)),
                      {"kind": "impl-vs-spec", "in": NAMES[int(a)], "out": NAMES[int(b)], "input_bits": ln.split()[2:],
                       "impl": i, "spec": spec, "model": model, "count": len(l),
                       "how": "echo '%s' | harness/C06/conv (built by bin/build_impl.sh)" % ln})
    for (a, b), l in sorted(model_bad.items()):
        if (a, b) in spec_bad:
            continue
        ln, i, spec, model = l[0]
        chk.violation("model/%s->%s" % (NAMES[int(a)], NAMES[int(b)]),
                      "correspondence broken: cell %s->%s on bits %s: implementation %s, model of the translated cell %s (spec %s)" % (
                          NAMES[int(a)], NAMES[int(b)], ln.split()[2:], i, model, spec),
                      {"kind": "model-vs-impl", "correspondence": "C06 cell semantics vs _GD_ConvertType", "input": ln, "impl": i, "model": model, "spec": spec},
                      found=False)
    # ---- callers: the public API paths (putdata A->T, getdata T->R, CONST storage) ----
    try:
        exe2 = vlib.build_harness(impl, os.path.join(vlib.VERIF, "harness/C06/apiconv.c"))
        nv = 24 if not chk.thorough else 160
        hl = []
        ml = []
        meta = []
        SCONST = {0: 6, 2: 6, 4: 6, 6: 6, 1: 7, 3: 7, 5: 7, 7: 7, 8: 9, 9: 9, 10: 11, 11: 11}
        for a in range(12):
            base = src[a] if a < 10 else src[a - 2]
            for t in range(12):
                vals = [base[rng.randrange(len(base))] for _ in range(nv)]
                if a >= 10:
                    vals = [(v, base[rng.randrange(len(base))]) for v in vals]
                    hl.append("%d %d %d %s" % (a, t, nv, " ".join("%x %x" % v for v in vals)))
                else:
                    hl.append("%d %d %d %s" % (a, t, nv, " ".join("%x" % v for v in vals)))
                for r in range(12):
                    for v in vals:
                        hx = ("%x %x" % v) if a >= 10 else ("%x" % v)
                        ml.append("C %d %d %d %s" % (a, t, r, hx))
                        ml.append("C %d %d %d %s" % (a, SCONST[t], r, hx))
                meta.append((a, t, vals))
        sd = vlib.scratch("verif-c06api-")
        # shard the harness over processes
        import concurrent.futures as cf
        shards = [hl[i::vlib.NPROC] for i in range(vlib.NPROC)]
        def runsh(k):
            d = os.path.join(sd, "s%d" % k); os.makedirs(d, exist_ok=True)
            return vlib.sh([exe2, d], inp=("\n".join(shards[k]) + "\n").encode(), timeout=1200)
        with cf.ThreadPoolExecutor(vlib.NPROC) as ex:
            outs = list(ex.map(runsh, range(vlib.NPROC)))
        # reassemble per input line
        per_line = {}
        for k, (rcx, o) in enumerate(outs):
            ls = [l for l in o.split("\n") if l.startswith(("R ", "K ", "PUTFAIL"))]
            per = [l for l in ls if not l.startswith("PUTFAIL")]
            for j in range(len(shards[k])):
                per_line[k + j * vlib.NPROC] = per[j * 24:(j + 1) * 24]
        rcm, mo = vlib.sh([drv], inp=("\n".join(ml) + "\n").encode(), timeout=3000)
        mo = mo.strip().split("\n")
        mi = 0
        napi = 0
        bad_api = {}
        for li, (a, t, vals) in enumerate(meta):
            got = per_line.get(li, [])
            if len(got) != 24:
                chk.violation("api-harness", "API harness produced %d lines for %s->%s" % (len(got), NAMES[a], NAMES[t]), {"kind": "harness", "out": got[:3]}, found=False)
                mi += 12 * len(vals) * 2
                continue
            for r in range(12):
                nc = 2 if r >= 10 else 1
                rv = got[r].split()[2:]
                kv = got[12 + r].split()[2:]
                if rv and rv[0].startswith("SHORT"):
                    rv = rv[1:]
                for i, v in enumerate(vals):
                    exp_raw, exp_k = mo[mi], mo[mi + 1]
                    mi += 2
                    napi += 2
                    g_raw = " ".join(rv[i * nc:(i + 1) * nc])
                    g_k = " ".join(kv[i * nc:(i + 1) * nc])
                    if exp_raw != "U" and g_raw != exp_raw:
                        bad_api.setdefault(("putdata+getdata", a, t, r), []).append((v, g_raw, exp_raw))
                    if exp_k != "U" and g_k != exp_k:
                        bad_api.setdefault(("put_constant+get_constant", a, t, r), []).append((v, g_k, exp_k))
        chk.cov["evaluations"] += napi
        chk.cov["api_path_evaluations"] = napi
        for (path, a, t, r), l in sorted(bad_api.items())[:12]:
            v, g, e = l[0]
            found_any = True
            chk.violation("api/%s/%s->%s->%s" % (path, NAMES[a], NAMES[t], NAMES[r]),
                          "%s: caller %s value bits %s through a %s field read as %s gives %s, the C conversions demand %s (%d such values)" % (
                              path, NAMES[a], v, NAMES[t], NAMES[r], g, e, len(l)),
                          {"kind": "impl-vs-spec", "path": path, "caller_type": NAMES[a], "field_type": NAMES[t], "return_type": NAMES[r],
                           "value_bits": v, "impl": g, "spec": e, "how": "harness/C06/apiconv <scratch>; stdin '<A> <T> <n> <hex...>'"})
    except vlib.BuildError as e:
        chk.violation("build", "API harness build failed: " + str(e)[:1500], {"kind": "build"}, found=False)
    # ---- CONST/CARRAY type change (gd_alter_const / gd_alter_carray): storage class S(T1) -> S(T2) ----
    try:
        exe4 = vlib.build_harness(impl, os.path.join(vlib.VERIF, "harness/C06/alterconv.c"))
        SCONST = {0: 6, 2: 6, 4: 6, 6: 6, 1: 7, 3: 7, 5: 7, 7: 7, 8: 9, 9: 9, 10: 11, 11: 11}
        nv = 12 if not chk.thorough else 64
        hl, ml, meta = [], [], []
        REP = [0, 1, 4, 6, 7, 8, 9, 10, 11]       # one or more declared types per storage class, all four classes
        for a in (range(12) if chk.thorough else [0, 4, 6, 7, 8, 9, 11]):
            base = src[a] if a < 10 else src[a - 2]
            for t1 in REP:
                for t2 in REP:
                    if t1 == t2:
                        continue
                    vals = [base[rng.randrange(len(base))] for _ in range(nv)]
                    if a >= 10:
                        vals = [(v, base[rng.randrange(len(base))]) for v in vals]
                    hl.append("%d %d %d %d %s" % (a, t1, t2, nv, " ".join((("%x %x" % v) if a >= 10 else ("%x" % v)) for v in vals)))
                    for r in range(12):
                        for v in vals:
                            ml.append("X 3 %d %d %d %d %s" % (a, SCONST[t1], SCONST[t2], r, ("%x %x" % v) if a >= 10 else ("%x" % v)))
                    meta.append((a, t1, t2, vals))
        sd = vlib.scratch("verif-c06alt-")
        import concurrent.futures as cf
        shards = [hl[i::vlib.NPROC] for i in range(vlib.NPROC)]
        def runsh4(k):
            d = os.path.join(sd, "s%d" % k); os.makedirs(d, exist_ok=True)
            return vlib.sh([exe4, d], inp=("\n".join(shards[k]) + "\n").encode(), timeout=1200)
        with cf.ThreadPoolExecutor(vlib.NPROC) as ex:
            outs = list(ex.map(runsh4, range(vlib.NPROC)))
        per_line, fails = {}, []
        for k, (rcx, o) in enumerate(outs):
            ls = o.split("\n")
            fails += [l for l in ls if l.startswith(("CONSTFAIL", "CARRAYFAIL"))]
            per = [l for l in ls if l.startswith(("K ", "Y "))]
            for j in range(len(shards[k])):
                per_line[k + j * vlib.NPROC] = per[j * 24:(j + 1) * 24]
        rcm, mo = vlib.sh([drv], inp=("\n".join(ml) + "\n").encode(), timeout=3000)
        mo = mo.strip().split("\n")
        mi, nalt, bad_alt = 0, 0, {}
        for li, (a, t1, t2, vals) in enumerate(meta):
            got = per_line.get(li, [])
            if len(got) != 24:
                chk.violation("alter-harness", "alter harness produced %d lines for %s: %s->%s" % (len(got), NAMES[a], NAMES[t1], NAMES[t2]), {"kind": "harness", "out": got[:3]}, found=False)
                mi += 12 * len(vals)
                continue
            for r in range(12):
                nc = 2 if r >= 10 else 1
                kv = got[r].split()[2:]
                yv = got[12 + r].split()[2:]
                for i, v in enumerate(vals):
                    exp = mo[mi]; mi += 1; nalt += 2
                    if exp == "U":
                        continue
                    for path, vv in (("alter_const", kv), ("alter_carray", yv)):
                        g = " ".join(vv[i * nc:(i + 1) * nc])
                        if g != exp:
                            bad_alt.setdefault((path, a, t1, t2, r), []).append((v, g, exp))
        chk.cov["evaluations"] += nalt
        chk.cov["alter_path_evaluations"] = nalt
        if fails:
            chk.violation("api/alter/call-failed", "gd_alter_const/gd_alter_carray/put/get failed on a plain CONST/CARRAY: %s" % fails[0], {"kind": "impl-vs-spec", "lines": fails[:5]})
        for (path, a, t1, t2, r), l in sorted(bad_alt.items())[:12]:
            v, g, e = l[0]
            found_any = True
            chk.violation("api/%s/%s->%s->%s->%s" % (path, NAMES[a], NAMES[t1], NAMES[t2], NAMES[r]),
                          "%s: caller %s value bits %s stored in a %s, type changed to %s, read as %s gives %s, the C conversions through the storage types demand %s (%d such values)" % (
                              path, NAMES[a], v, NAMES[t1], NAMES[t2], NAMES[r], g, e, len(l)),
                          {"kind": "impl-vs-spec", "path": path, "caller_type": NAMES[a], "const_type": NAMES[t1], "new_type": NAMES[t2], "return_type": NAMES[r],
                           "value_bits": v, "impl": g, "spec": e, "how": "harness/C06/alterconv <scratch>; stdin '<A> <T1> <T2> <n> <hex...>'"})
    except vlib.BuildError as e:
        chk.violation("build", "alter harness build failed: " + str(e)[:1500], {"kind": "build"}, found=False)
    # ---- CONST/CARRAY created with a value (gd_add_const, gd_madd_const, gd_add_carray, gd_madd_carray) ----
    try:
        exe5 = vlib.build_harness(impl, os.path.join(vlib.VERIF, "harness/C06/addconv.c"))
        SCONST = {0: 6, 2: 6, 4: 6, 6: 6, 1: 7, 3: 7, 5: 7, 7: 7, 8: 9, 9: 9, 10: 11, 11: 11}
        nv = 10 if not chk.thorough else 48
        hl, ml, meta = [], [], []
        for a in range(12):
            base = src[a] if a < 10 else src[a - 2]
            for t in range(12):
                vals = [base[rng.randrange(len(base))] for _ in range(nv)]
                if a >= 10:
                    vals = [(v, base[rng.randrange(len(base))]) for v in vals]
                hl.append("%d %d %d %s" % (a, t, nv, " ".join((("%x %x" % v) if a >= 10 else ("%x" % v)) for v in vals)))
                for r in range(12):
                    for v in vals:
                        ml.append("X 2 %d %d %d %s" % (a, SCONST[t], r, ("%x %x" % v) if a >= 10 else ("%x" % v)))
                meta.append((a, t, vals))
        sd = vlib.scratch("verif-c06add-")
        import concurrent.futures as cf
        shards = [hl[i::vlib.NPROC] for i in range(vlib.NPROC)]
        def runsh5(k):
            d = os.path.join(sd, "s%d" % k); os.makedirs(d, exist_ok=True)
            return vlib.sh([exe5, d], inp=("\n".join(shards[k]) + "\n").encode(), timeout=1200)
        with cf.ThreadPoolExecutor(vlib.NPROC) as ex:
            outs = list(ex.map(runsh5, range(vlib.NPROC)))
        per_line, fails = {}, []
        for k, (rcx, o) in enumerate(outs):
            ls = o.split("\n")
            fails += [l for l in ls if l.startswith("ADDFAIL")]
            per = [l for l in ls if l[:2] in ("N ", "M ", "P ", "Q ")]
            for j in range(len(shards[k])):
                per_line[k + j * vlib.NPROC] = per[j * 48:(j + 1) * 48]
        rcm, mo = vlib.sh([drv], inp=("\n".join(ml) + "\n").encode(), timeout=3000)
        mo = mo.strip().split("\n")
        mi, nadd, bad_add = 0, 0, {}
        PATHS = ["add_const", "madd_const", "add_carray", "madd_carray"]
        for li, (a, t, vals) in enumerate(meta):
            got = per_line.get(li, [])
            if len(got) != 48:
                chk.violation("add-harness", "add harness produced %d lines for %s into %s" % (len(got), NAMES[a], NAMES[t]), {"kind": "harness", "out": got[:3]}, found=False)
                mi += 12 * len(vals)
                continue
            for r in range(12):
                nc = 2 if r >= 10 else 1
                rows = [got[k * 12 + r].split()[2:] for k in range(4)]
                for i, v in enumerate(vals):
                    exp = mo[mi]; mi += 1; nadd += 4
                    if exp == "U":
                        continue
                    for k in range(4):
                        g = " ".join(rows[k][i * nc:(i + 1) * nc])
                        if g != exp:
                            bad_add.setdefault((PATHS[k], a, t, r), []).append((v, g, exp))
        chk.cov["evaluations"] += nadd
        chk.cov["add_path_evaluations"] = nadd
        if fails:
            chk.violation("api/add/call-failed", "gd_add_const/gd_madd_const/gd_add_carray/gd_madd_carray failed on a plain dirfile: %s" % fails[0], {"kind": "impl-vs-spec", "lines": fails[:5]})
        for (path, a, t, r), l in sorted(bad_add.items())[:12]:
            v, g, e = l[0]
            found_any = True
            chk.violation("api/%s/%s->%s->%s" % (path, NAMES[a], NAMES[t], NAMES[r]),
                          "gd_%s: caller %s value bits %s given for a new %s, read as %s gives %s, the C conversions through the storage type demand %s (%d such values)" % (
                              path, NAMES[a], v, NAMES[t], NAMES[r], g, e, len(l)),
                          {"kind": "impl-vs-spec", "path": path, "caller_type": NAMES[a], "const_type": NAMES[t], "return_type": NAMES[r],
                           "value_bits": v, "impl": g, "spec": e, "how": "harness/C06/addconv <scratch>; stdin '<A> <T> <n> <hex...>'"})
    except vlib.BuildError as e:
        chk.violation("build", "add harness build failed: " + str(e)[:1500], {"kind": "build"}, found=False)
    # ---- INDEX read in every type, and scalar parameters taken from CONST fields (gd_entry read-back) ----
    try:
        exe6 = vlib.build_harness(impl, os.path.join(vlib.VERIF, "harness/C06/scalconv.c"))
        SCONST = {0: 6, 2: 6, 4: 6, 6: 6, 1: 7, 3: 7, 5: 7, 7: 7, 8: 9, 9: 9, 10: 11, 11: 11}
        hl, ml, meta = [], [], []
        firsts = [0, 2 ** 24 - 3, 2 ** 24 + 1, 2 ** 25 + 1, 2 ** 31 - 3, 2 ** 32 - 3, 2 ** 53 - 3, 2 ** 53 + 1, 2 ** 60 + 2 ** 36 - 1, 2 ** 62 - 9]
        firsts += [rng.randrange(2 ** 24, 2 ** 62) for _ in range(6 if not chk.thorough else 60)]
        for fs in firsts:
            n = 6
            hl.append("I %d %d" % (fs, n))
            for r in range(12):
                for i in range(n):
                    ml.append("X 1 6 %d %x" % (r, fs + i))
            meta.append(("I", fs, n))
        nsc = 14 if not chk.thorough else 80
        for t in range(12):
            st = SCONST[t]
            base = src[st] if st < 10 else src[9]
            for _ in range(nsc):
                v = base[rng.randrange(len(base))]
                vi = base[rng.randrange(len(base))] if st >= 10 else 0
                hx = ("%x %x" % (v, vi)) if st >= 10 else ("%x" % v)
                hl.append("S %d %x %x" % (t, v, vi))
                for dest in (6, 6, 7, 9, 11, 11, 11):
                    ml.append("X 1 %d %d %s" % (st, dest, hx))
                meta.append(("S", t, (v, vi)))
        sd = vlib.scratch("verif-c06sc-")
        import concurrent.futures as cf
        shards = [hl[i::vlib.NPROC] for i in range(vlib.NPROC)]
        def runsh6(k):
            d = os.path.join(sd, "s%d" % k); os.makedirs(d, exist_ok=True)
            return vlib.sh([exe6, d], inp=("\n".join(shards[k]) + "\n").encode(), timeout=1200)
        with cf.ThreadPoolExecutor(vlib.NPROC) as ex:
            outs = list(ex.map(runsh6, range(vlib.NPROC)))
        blocks = {}
        for k, (rcx, o) in enumerate(outs):
            bl = [b.strip().split("\n") for b in o.split("END\n") if b.strip()]
            for j in range(len(shards[k])):
                blocks[k + j * vlib.NPROC] = bl[j] if j < len(bl) else []
        rcm, mo = vlib.sh([drv], inp=("\n".join(ml) + "\n").encode(), timeout=3000)
        mo = mo.strip().split("\n")
        mi, nsc_eval, bad_sc = 0, 0, {}
        PN = ["shift", "weq", "wset", "wgt", "lin", "rec", "pol"]
        PWHAT = {"shift": "PHASE shift (int64)", "weq": "WINDOW EQ threshold (int64)", "wset": "WINDOW SET threshold (uint64)", "wgt": "WINDOW GT threshold (double)",
                 "lin": "LINCOM scale (complex double)", "rec": "RECIP dividend (complex double)", "pol": "POLYNOM coefficient (complex double)"}
        for li, m in enumerate(meta):
            b = blocks.get(li, [])
            if m[0] == "I":
                _, fs, n = m
                rows = {(l.split()[0], int(l.split()[1])): [x for x in l.split()[2:] if not x.startswith("SHORT")] for l in b if l[:2] in ("I ", "J ")}
                for r in range(12):
                    nc = 2 if r >= 10 else 1
                    for i in range(n):
                        exp = mo[mi]; mi += 1; nsc_eval += 2
                        if exp == "U":
                            continue
                        for tag, what in (("I", "INDEX"), ("J", "PHASE INDEX 0")):
                            row = rows.get((tag, r), [])
                            g = " ".join(row[i * nc:(i + 1) * nc])
                            if g != exp:
                                bad_sc.setdefault(("index", what, r), []).append((fs + i, g, exp))
            else:
                _, t, (v, vi) = m
                got = {l.split()[1]: " ".join(l.split()[2:]) for l in b if l.startswith("P ")}
                if any(l.startswith("PUTFAIL") for l in b):
                    mi += 7
                    continue
                for pn in PN:
                    exp = mo[mi]; mi += 1; nsc_eval += 1
                    if exp == "U":
                        continue
                    g = got.get(pn, "?")
                    if g != exp:
                        bad_sc.setdefault(("scalar", pn, t), []).append(((v, vi), g, exp))
        chk.cov["evaluations"] += nsc_eval
        chk.cov["index_and_scalar_parameter_evaluations"] = nsc_eval
        for key, l in sorted(bad_sc.items())[:12]:
            v, g, e = l[0]
            found_any = True
            if key[0] == "index":
                chk.violation("api/index/%s->%s" % (key[1].replace(" ", "_"), NAMES[key[2]]),
                              "sample number %d of %s read as %s gives %s, the C conversion of the sample number demands %s (%d such samples)" % (v, key[1], NAMES[key[2]], g, e, len(l)),
                              {"kind": "impl-vs-spec", "field": key[1], "sample": v, "return_type": NAMES[key[2]], "impl": g, "spec": e,
                               "how": "harness/C06/scalconv <scratch>; stdin 'I <first> <n>'"})
            else:
                chk.violation("api/scalar-parameter/%s/%s" % (key[1], NAMES[key[2]]),
                              "a %s CONST holding bits %s used as the %s arrives as %s, the C conversion from its storage type demands %s (%d such values)" % (
                                  NAMES[key[2]], "%x;%x" % v, PWHAT[key[1]], g, e, len(l)),
                              {"kind": "impl-vs-spec", "const_type": NAMES[key[2]], "value_bits": "%x %x" % v, "parameter": PWHAT[key[1]], "impl": g, "spec": e,
                               "how": "harness/C06/scalconv <scratch>; stdin 'S <T> <hex> <heximag>'"})
    except vlib.BuildError as e:
        chk.violation("build", "scalar/index harness build failed: " + str(e)[:1500], {"kind": "build"}, found=False)
    # ---- conversions inside derived fields: two consecutive reads with different return types ----
    try:
        exe3 = vlib.build_harness(impl, os.path.join(vlib.VERIF, "harness/C06/derivconv.c"))
        ncase = 220 if not chk.thorough else 3000
        dl, dmeta, dm = [], [], []
        for ci in range(ncase):
            t = rng.randrange(10)
            r1, r2 = rng.randrange(12), rng.randrange(12)
            n = rng.randint(6, 24)
            n1 = rng.randint(1, n - 2)
            vals = []
            for _ in range(n):
                if t < 8:
                    bits = [8, 8, 16, 16, 32, 32, 64, 64][t]
                    lim = min(1 << 23, 1 << (bits - 1))
                    z = rng.randrange(0 if t % 2 else -lim, lim)
                    vals.append(z & ((1 << bits) - 1))
                else:
                    x = rng.randrange(-(1 << 20), 1 << 20) + rng.choice([0.0, 0.5, 0.25])
                    vals.append(f32bits(x) if t == 8 else f64bits(x))
            idx = [1] + [rng.choice([0, 1, 1, 2]) for _ in range(n - 1)]
            dl.append("%d %d %d %d %d %s | %s" % (t, r1, r2, n1, n, " ".join("%x" % v for v in vals), " ".join(map(str, idx))))
            # oracle: which source sample each output sample of the second chunk shows
            last, mp = 0, []
            for k in range(n):
                if idx[k] == 1:
                    last = k
                mp.append(last)
            dmeta.append((t, r1, r2, n1, n, vals, idx, mp))
            for k in range(n1, n):
                dm.append("%d %d %x" % (t, r2, vals[k]))        # p, l
                dm.append("%d %d %x" % (t, r2, vals[mp[k]]))    # m, b
        sd3 = vlib.scratch("verif-c06d-")
        rc3, o3 = vlib.sh([exe3, sd3], inp=("\n".join(dl) + "\n").encode(), timeout=1500)
        rcm3, mo3 = vlib.sh([drv], inp=("\n".join(dm) + "\n").encode(), timeout=1500)
        L = [l for l in o3.split("\n") if l[:2] in ("p ", "l ", "m ", "b ")]
        E = mo3.strip().split("\n")
        ei = 0
        nder = 0
        bad_d = {}
        if len(L) != 4 * len(dmeta):
            chk.violation("deriv-harness", "derived-field harness gave %d lines for %d cases: %s" % (len(L), len(dmeta), o3[-300:]), {"kind": "harness"}, found=False)
        else:
            for ci, (t, r1, r2, n1, n, vals, idx, mp) in enumerate(dmeta):
                nc = 2 if r2 >= 10 else 1
                exp_direct, exp_mplex = [], []
                for k in range(n1, n):
                    exp_direct.append(E[ei].split("|")[0]); exp_mplex.append(E[ei + 1].split("|")[0]); ei += 2
                for fi, fld in enumerate("plmb"):
                    w = L[ci * 4 + fi].split()
                    got = w[2:]
                    exp = exp_direct if fld in "pl" else exp_mplex
                    for j in range(n - n1):
                        nder += 1
                        g = " ".join(got[j * nc:(j + 1) * nc])
                        if exp[j] != "U" and g != exp[j]:
                            bad_d.setdefault((fld, t, r1, r2), []).append((ci, n1 + j, g, exp[j]))
                            break
        chk.cov["evaluations"] += nder
        chk.cov["derived_field_evaluations"] = nder
        for (fld, t, r1, r2), l in sorted(bad_d.items())[:8]:
            ci, k, g, e = l[0]
            found_any = True
            kind = {"p": "PHASE", "l": "LINCOM", "m": "MPLEX", "b": "PHASE-of-MPLEX"}[fld]
            chk.violation("derived/%s/%s-as-%s-after-%s" % (kind, NAMES[t], NAMES[r2], NAMES[r1]),
                          "%s of a %s field: after reading samples [0,%d) as %s, sample %d read as %s is %s; the value held, converted as the property demands, is %s" % (
                              kind, NAMES[t], dmeta[ci][3], NAMES[r1], k, NAMES[r2], g, e),
                          {"kind": "impl-vs-spec", "case_line": dl[ci], "field": fld, "sample": k, "impl": g, "spec": e,
                           "how": "harness/C06/derivconv <scratch>; stdin = case_line (format: f RAW T 1; i RAW UINT8 1; p PHASE f 0; l LINCOM 1 f 1 0; m MPLEX f i 1; b PHASE m 0)"})
    except vlib.BuildError as e:
        chk.violation("build", "derived-field harness build failed: " + str(e)[:1500], {"kind": "build"}, found=False)
    if trans_problems and not found_any:
        chk.violation("translator", "translator cannot read src/types.c: " + "; ".join(trans_problems[:3]),
                      {"kind": "translator", "problems": trans_problems, "theorem": "conv_table_all_cells_ok (table no longer regenerable)"}, found=False)
    if not proved and not found_any:
        chk.violation("proof", "Properties_C06 does not check: " + getattr(chk, "proof_log", "")[-1200:],
                      {"kind": "proof", "theorem": "Properties_C06 (conv_table_all_cells_ok / soundness)", "log": getattr(chk, "proof_log", "")[-4000:]}, found=False)
    return chk.finish()


if __name__ == "__main__":
    sys.exit(main())
